import os, json, zlib
from hypothesis import given, settings, seed, strategies as st, HealthCheck, Phase, find
from hypothesis.stateful import RuleBasedStateMachine, rule, invariant, run_state_machine_as_test
from hypothesis.errors import NoSuchExample
buckets={}; n=[0]
S=int(os.environ.get("VERIF_SEED","1"))
case=st.fixed_dictionaries({"a":st.lists(st.integers(-9,9),min_size=3,max_size=3),"k":st.sampled_from(["x","y"])})
def run(c):
    n[0]+=1
    if c["a"][0]==7 and c["k"]=="y": return "sigA"
    if sum(c["a"])==20: return "sigB"
@seed(S ^ zlib.crc32(b"law1"))
@settings(max_examples=3000,database=None,deadline=None,phases=[Phase.generate],suppress_health_check=[HealthCheck.too_slow])
@given(case)
def t(c):
    r=run(c)
    if r: buckets.setdefault(r,[]).append(c)
t()
print(n[0],{k:len(v) for k,v in buckets.items()})
# shrink bucket
for sig in buckets:
    @seed(S)
    @settings(max_examples=2000,database=None,deadline=None,phases=[Phase.generate,Phase.shrink],report_multiple_bugs=False)
    @given(case)
    def t2(c):
        assert run(c)!=sig
    try: t2()
    except AssertionError as e:
        pass
    try:
        m=find(case,lambda c: run(c)==sig,settings=settings(max_examples=5000,database=None,deadline=None),random=__import__('random').Random(S))
        print(sig,"min",json.dumps(m))
    except NoSuchExample: print(sig,"not refound")
class M(RuleBasedStateMachine):
    def __init__(self): super().__init__(); self.x=[]
    @rule(v=st.integers(0,5))
    def push(self,v): self.x.append(v)
    @invariant()
    def inv(self): assert len(self.x)<1000
run_state_machine_as_test(seed(S)(M),settings=settings(max_examples=20,stateful_step_count=10,database=None,deadline=None))
print("stateful ok")
