import numpy as np, itertools, random
from geometer import *
from geometer.exceptions import *
rng = random.Random(1)
def rp(n, R=9, cplx=False, inf=False):
    while True:
        v=[rng.randint(-R,R) for _ in range(n+1)]
        if cplx: v=[complex(a, rng.randint(-R,R)) for a in v]
        if inf: v[-1]=0
        if any(v): return Point(v)
# 3D
cnt=0; err={}
for it in range(3000):
    cplx = it%3==0
    p,q,r,s = [rp(3,cplx=cplx, inf=(rng.random()<.2)) for _ in range(4)]
    try:
        l = join(p,q); m = join(p,r)
        e = join(p,q,r)
        x = meet(l,m)
        assert x==p, ("meet lines", p,q,r, x)
        e2 = join(l,m)
        assert e2==e, ("join lines")
        e3 = join(l, r); assert e3==e
        e4 = join(r, l); assert e4==e
        assert e.contains(p) and e.contains(q) and e.contains(r) and e.contains(l) and e.contains(m)
        f = join(p,q,s); g=join(p,r,s)
        y = meet(e,f,g); assert y==p, "3 planes"
        assert meet(e,f)==l, "2 planes"
        assert meet(f,e)==l
        assert meet(g, l)==p and meet(l,g)==p, "plane line"
        cnt+=1
    except (LinearDependenceError, NotCoplanar) as ex:
        err[type(ex).__name__]=err.get(type(ex).__name__,0)+1
    except AssertionError as ex:
        print("FAIL", ex, p.array,q.array,r.array,s.array); break
print(cnt, err)
