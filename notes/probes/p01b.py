import numpy as np, random, warnings, itertools
from geometer import *
from geometer.exceptions import *
warnings.simplefilter("ignore")
rng=random.Random(83)
def mk(cshape,d):
    return PointCollection(np.array([rng.randint(-5,5) for _ in range(int(np.prod(cshape))*(d+1))]).reshape(cshape+(d+1,)))
bad={}
for it in range(300):
    cs=rng.choice([(1,),(3,),(2,2),(2,1,3),(1,1)])
    try:
        p,q,r,s=[mk(cs,3) for _ in range(4)]
        l=join(p,q); m=join(p,r); e=join(p,q,r)
        res={'meet ll':meet(l,m)==p,'join ll':join(l,m)==e,'join lp':join(l,r)==e,'meet ee':meet(e,join(p,q,s))==l,'meet eee':meet(e,join(p,q,s),join(p,r,s))==p,'meet el':meet(join(p,r,s),l)==p,
             'contains':np.all(e.contains(p))&np.all(e.contains(l)), 'shape': l.shape==cs+(4,4) and e.shape==cs+(4,) }
        a,b=mk(cs,2),mk(cs,2); c=mk(cs,2)
        res['2d']= (meet(join(a,b),join(a,c))==a)
        for k,v in res.items():
            if not v: bad[k]=bad.get(k,0)+1; bad[k+' ex']=cs
    except (LinearDependenceError,NotCoplanar): pass
    except Exception as e: bad['EXC '+type(e).__name__]=(cs,str(e)[:100])
print(bad)
# infinity segments
s=Segment(Point(0,0),Point([1,1,0]))
print([bool(s.contains(Point(*p))) for p in [(0,0),(1,1),(5,5),(-1,-1),(1,2)]], s.contains(Point([1,1,0])), s.contains(Point([-1,-1,0])), s.contains(Point([1,2,0])))
s=Segment(Point(0,0,1),Point([1,1,0,0]))
print([bool(s.contains(Point(*p))) for p in [(0,0,1),(1,1,1),(5,5,1),(-1,-1,1),(1,2,1)]])
# from_points_and_conics
c1=Circle(Point(1,2),3); 
import math
def cp(c,r,th): return Point(c[0]+r*math.cos(th),c[1]+r*math.sin(th))
tri=[(3,4,5),(5,12,13),(8,15,17)]
def rat(c,r,k,sx=1,sy=1): a,b,h=tri[k]; return Point(c[0]+sx*r*a/h,c[1]+sy*r*b/h)
P1=[rat((1,2),3,0),rat((1,2),3,1,-1),rat((1,2),3,2,1,-1)]
c2=Circle(Point(-2,0),2); P2=[rat((-2,0),2,1),rat((-2,0),2,0,-1,-1),rat((-2,0),2,2,-1,1)]
t=Transformation.from_points_and_conics(P1,P2,c1,c2)
print([t*a==b for a,b in zip(P1,P2)], t*c1==c2, (t*c1).array/ (t*c1).array[0,0], c2.array/c2.array[0,0])
