import numpy as np, itertools, random
from geometer import *
from geometer.exceptions import *
def tryit(f):
    try:
        r=f(); return ("ok", r)
    except GeometryException as e:
        return (type(e).__name__, getattr(e,'dependent_values',None))
p=Point(1,2,3); q=Point(2,0,1); r=Point(0,1,5)
l=join(p,q); e=join(p,q,r)
on_l = Point(3*p.array+2*q.array)
print("same pts", tryit(lambda: join(p, Point(-2*p.array))))
print("3 collinear pts", tryit(lambda: join(p,q,on_l)))
print("pt on line", tryit(lambda: join(l,on_l)), tryit(lambda: join(on_l,l)))
print("line in plane", tryit(lambda: meet(e,l)), tryit(lambda: meet(l,e)))
print("equal planes", tryit(lambda: meet(e,Plane(-3*e.array))))
print("3 planes pencil", tryit(lambda: meet(e,join(p,q,Point(1,1,1)),join(p,q,Point(0,0,7)))))
print("same lines meet", tryit(lambda: meet(l,Line(2*l.array))), "join", tryit(lambda: join(l,Line(2*l.array))))
print("zero vec", tryit(lambda: join(p,Point([0,0,0,0]))), tryit(lambda: meet(e, Plane(0,0,0,0))))
m=join(r,Point(4,4,-1))
print("skew", tryit(lambda: meet(l,m)), tryit(lambda: join(l,m)), l.is_coplanar(m))
# 2D
a=Point(1,2); b=Point(3,-1)
print("2d same", tryit(lambda: join(a,Point(5*a.array))), tryit(lambda: meet(Line(1,2,3),Line(-2,-4,-6))))
# collections
P=PointCollection([p,q,r,p]); Q=PointCollection([q,q,p,Point(-p.array)])
print("coll", tryit(lambda: join(P,Q)))
L=LineCollection([l,m,l]); M=LineCollection([join(p,r), m, join(q, r)])
print("coll lines", tryit(lambda: meet(L,M)))
L=LineCollection([l,l]); M=LineCollection([join(p,r), m])
print("coll lines mixed skew", tryit(lambda: meet(L,M)), tryit(lambda: join(L,M)))
E=PlaneCollection([e,e,e]); L=LineCollection([l,m,join(r,Point(1,1,1))])
print("coll plane line", tryit(lambda: meet(E,L)))
print("bcast", tryit(lambda: join(p, PointCollection([p,q,r]))))
