import numpy as np, itertools
from geometer import *
from geometer.exceptions import *
V=np.array(list(itertools.product([-1,0,1],repeat=4)))  # includes zero
n=len(V)
# triples of points via collection
idx=np.array(list(itertools.product(range(n),repeat=3)))
A,B,C=V[idx[:,0]],V[idx[:,1]],V[idx[:,2]]
M=np.stack([A,B,C],axis=1)
# exact rank via integer: rank<3 iff all 3x3 minors zero
from itertools import combinations
dep=np.ones(len(M),bool)
for cols in combinations(range(4),3):
    sub=M[:,:,cols]
    d=(sub[:,0,0]*(sub[:,1,1]*sub[:,2,2]-sub[:,1,2]*sub[:,2,1])-sub[:,0,1]*(sub[:,1,0]*sub[:,2,2]-sub[:,1,2]*sub[:,2,0])+sub[:,0,2]*(sub[:,1,0]*sub[:,2,1]-sub[:,1,1]*sub[:,2,0]))
    dep&=(d==0)
print(len(M), dep.sum())
try:
    r=join(PointCollection(A),PointCollection(B),PointCollection(C)); print("no error?!")
except LinearDependenceError as e:
    print("mask equal:", np.array_equal(e.dependent_values,dep))
# meet of 3 planes
try:
    r=meet(PlaneCollection(A),PlaneCollection(B),PlaneCollection(C)); print("no error?!")
except LinearDependenceError as e:
    print("mask equal:", np.array_equal(e.dependent_values,dep))
# independent only: no raise
ind=~dep
r=join(PointCollection(A[ind]),PointCollection(B[ind]),PointCollection(C[ind]))
print(type(r), r.shape)
# check incidence exactly
print(np.abs(np.einsum('ij,ij->i',r.array,A[ind])).max())
