import numpy as np, itertools, random
from geometer import *
from geometer.exceptions import *
rng=random.Random(3)
def sc(obj, c):
    r=obj.copy(); r.array=obj.array*c
    for attr in ('_line','_plane'):
        pass
    return r
def scP(p,c): return Point(p.array*c)
# polygon contains
sq=[Point(0,0),Point(4,0),Point(4,4),Point(0,4)]
bad=0;tot=0
for it in range(2000):
    cs=[rng.choice([1,-1,2,-3,0.5]) for _ in range(4)]
    poly=Polygon(*[scP(p,c) for p,c in zip(sq,cs)])
    x=Point(rng.randint(-1,5),rng.randint(-1,5)); cx=rng.choice([1,-1,2,-0.5])
    ref=Polygon(*sq).contains(x)
    got=poly.contains(scP(x,cx))
    tot+=1
    if ref!=got:
        bad+=1
        if bad<4: print("polygon.contains mismatch", cs, x.array, cx, ref, got)
print("polygon contains", bad, tot)
tri=[Point(0,0),Point(4,0),Point(0,4)]
bad=0;tot=0
for it in range(2000):
    cs=[rng.choice([1,-1,2,-3,0.5]) for _ in range(3)]
    t=Triangle(*[scP(p,c) for p,c in zip(tri,cs)])
    x=Point(rng.randint(-1,5),rng.randint(-1,5)); cx=rng.choice([1,-1,2,-0.5])
    ref=Triangle(*tri).contains(x)
    got=t.contains(scP(x,cx))
    tot+=1
    if ref!=got:
        bad+=1
        if bad<4: print("triangle.contains mismatch", cs, x.array, cx, ref, got)
print("triangle contains", bad, tot)
# area
bad=0
for it in range(500):
    cs=[rng.choice([1,-1,2,-3,0.5]) for _ in range(4)]
    poly=Polygon(*[scP(p,c) for p,c in zip(sq,cs)])
    if not np.isclose(poly.area,16): bad+=1
print("area bad",bad)
# segment contains
bad=0
for it in range(2000):
    a=Point(rng.randint(-3,3),rng.randint(-3,3)); b=Point(rng.randint(-3,3),rng.randint(-3,3))
    if a==b: continue
    t=rng.choice([-1,-0.5,0,0.25,0.5,1,1.5,2])
    x=Point(*(a.array[:2]+t*(b.array[:2]-a.array[:2])))
    c1,c2,c3=[rng.choice([1,-1,2,-3,0.5]) for _ in range(3)]
    ref=Segment(a,b).contains(x); got=Segment(scP(a,c1),scP(b,c2)).contains(scP(x,c3))
    if ref!=got or ref!=(0<=t<=1): bad+=1; print("seg", a.array,b.array,t,c1,c2,c3,ref,got)
    if bad>3: break
print("segment bad",bad)
