import numpy as np, itertools, random, warnings
from geometer import *
from geometer.exceptions import *
from geometer.base import Tensor
rng=random.Random(5)
def sc(o,c):
    if isinstance(o,(Segment,Polygon)): 
        return type(o)(o.array*c)  # all vertices same factor
    if isinstance(o, Quadric):
        r=o.copy(); r.array=o.array*c; return r
    return type(o)(o.array*c)
def rpt(d,R=5): return Point(*[rng.randint(-R,R) for _ in range(d)])
def same(a,b):
    if isinstance(a,(list,tuple)):
        return len(a)==len(b) and all(any(same(x,y) for y in b) for x in a)
    if isinstance(a,Tensor): return a==b
    a=np.asarray(a);b=np.asarray(b)
    if a.dtype==bool: return np.array_equal(a,b)
    return np.allclose(a,b,atol=1e-7,equal_nan=True)
ops={}
def op(name):
    def d(f): ops[name]=f; return f
    return d
@op("dist_pp")
def _(d): return (lambda p,q: dist(p,q)), [rpt(d),rpt(d)]
@op("dist_pl")
def _(d): 
    p,q,r=rpt(d),rpt(d),rpt(d); return (lambda p,l: dist(p,l)), [r, Line(p,q)]
@op("dist_lp")
def _(d): 
    p,q,r=rpt(d),rpt(d),rpt(d); return (lambda l,p: dist(l,p)), [Line(p,q), r]
@op("angle3")
def _(d): return (lambda a,b,c: angle(a,b,c)), [rpt(d),rpt(d),rpt(d)]
@op("angle_ll")
def _(d):
    p,q,r=rpt(d),rpt(d),rpt(d); return (lambda l,m: angle(l,m)), [Line(p,q),Line(p,r)]
@op("cr_from")
def _(d):
    if d!=2: return None
    return (lambda a,b,c,d,e: crossratio(a,b,c,d,e)), [rpt(2) for _ in range(5)]
@op("cr_col")
def _(d):
    a,b=rpt(d),rpt(d)
    pts=[Point(a.array*rng.randint(-3,3)+b.array*rng.randint(1,4)) for _ in range(4)]
    return (lambda a,b,c,d: crossratio(a,b,c,d)), pts
@op("perp")
def _(d):
    p,q,r=rpt(d),rpt(d),rpt(d); return (lambda l,p: l.perpendicular(p)), [Line(p,q), r]
@op("project")
def _(d):
    p,q,r=rpt(d),rpt(d),rpt(d); return (lambda l,p: l.project(p)), [Line(p,q), r]
@op("mirror")
def _(d):
    p,q,r=rpt(d),rpt(d),rpt(d); return (lambda l,p: l.mirror(p)), [Line(p,q), r]
@op("parallel")
def _(d):
    p,q,r=rpt(d),rpt(d),rpt(d); return (lambda l,p: l.parallel(p)), [Line(p,q), r]
@op("is_perp")
def _(d):
    p,q=rpt(d),rpt(d); l=Line(p,q); m=l.perpendicular(p); return (lambda l,m: is_perpendicular(l,m)), [l,m]
@op("plane_project")
def _(d):
    if d!=3: return None
    return (lambda e,p: e.project(p)), [Plane(rpt(3),rpt(3),rpt(3)), rpt(3)]
@op("plane_mirror")
def _(d):
    if d!=3: return None
    return (lambda e,p: e.mirror(p)), [Plane(rpt(3),rpt(3),rpt(3)), rpt(3)]
@op("plane_perp_line")
def _(d):
    if d!=3: return None
    a,b,c=rpt(3),rpt(3),rpt(3)
    return (lambda e,l: e.perpendicular(l)), [Plane(a,b,c), Line(a,b)]
@op("dist_plane_pt")
def _(d):
    if d!=3: return None
    return (lambda e,p: dist(e,p)), [Plane(rpt(3),rpt(3),rpt(3)), rpt(3)]
@op("angle_planes")
def _(d):
    if d!=3: return None
    return (lambda e,f: angle(e,f)), [Plane(rpt(3),rpt(3),rpt(3)), Plane(rpt(3),rpt(3),rpt(3))]
@op("transform_pt")
def _(d):
    M=np.array([[rng.randint(-3,3) for _ in range(d+1)] for _ in range(d+1)])
    if abs(np.linalg.det(M))<.5: return None
    return (lambda t,p: t*p), [Transformation(M), rpt(d)]
@op("transform_line")
def _(d):
    M=np.array([[rng.randint(-3,3) for _ in range(d+1)] for _ in range(d+1)])
    if abs(np.linalg.det(M))<.5: return None
    return (lambda t,l: t*l), [Transformation(M), Line(rpt(d),rpt(d))]
@op("transform_compose")
def _(d):
    M=np.array([[rng.randint(-3,3) for _ in range(d+1)] for _ in range(d+1)])
    N=np.array([[rng.randint(-3,3) for _ in range(d+1)] for _ in range(d+1)])
    if abs(np.linalg.det(M))<.5 or abs(np.linalg.det(N))<.5: return None
    return (lambda t,s: t*s), [Transformation(M), Transformation(N)]
@op("transform_inv")
def _(d):
    M=np.array([[rng.randint(-3,3) for _ in range(d+1)] for _ in range(d+1)])
    if abs(np.linalg.det(M))<.5: return None
    return (lambda t: t.inverse()), [Transformation(M)]
@op("quadric_contains")
def _(d):
    if d==2:
        c=Circle(rpt(2),rng.randint(1,4)); p=Point(*(c.center.normalized_array[:2]+[c.radius,0]))
        return (lambda c,p: c.contains(p)), [c,p]
    s=Sphere(rpt(3),rng.randint(1,4)); p=Point(*(s.center.normalized_array[:3]+[0,s.radius,0]))
    return (lambda c,p: c.contains(p)), [s,p]
@op("quadric_intersect")
def _(d):
    if d==2:
        c=Circle(rpt(2),rng.randint(1,4)); p=Point(*(c.center.normalized_array[:2]+[c.radius,0])); q=Point(*(c.center.normalized_array[:2]+[0,c.radius]))
        return (lambda c,l: c.intersect(l)), [c,Line(p,q)]
    s=Sphere(rpt(3),rng.randint(1,4)); p=Point(*(s.center.normalized_array[:3]+[0,s.radius,0]));q=Point(*(s.center.normalized_array[:3]+[0,0,s.radius]))
    return (lambda c,l: c.intersect(l)), [s,Line(p,q)]
@op("quadric_tangent_istangent")
def _(d):
    if d==2:
        c=Circle(rpt(2),rng.randint(1,4)); p=Point(*(c.center.normalized_array[:2]+[c.radius,0]))
        return (lambda c,p: Conic(c.array).is_tangent(Conic(c.array).tangent(p))), [c,p]
    s=Sphere(rpt(3),rng.randint(1,4)); p=Point(*(s.center.normalized_array[:3]+[0,s.radius,0]))
    return (lambda c,p: Quadric(c.array).is_tangent(Quadric(c.array).tangent(p))), [s,p]
@op("seg_len_mid")
def _(d):
    return (lambda s: [s.length, s.midpoint.normalized_array]), [Segment(rpt(d),rpt(d))]
@op("seg_intersect")
def _(d):
    if d!=2: return None
    return (lambda s,t: s.intersect(t)), [Segment(rpt(d),rpt(d)),Segment(rpt(d),rpt(d))]
@op("dist_seg_pt")
def _(d):
    return (lambda s,p: dist(s,p)), [Segment(rpt(d),rpt(d)),rpt(d)]
@op("is_cocircular")
def _(d):
    if d!=2: return None
    return (lambda a,b,c,d: is_cocircular(a,b,c,d)), [Point(3,4),Point(-3,4),Point(5,0),Point(0,-5)]
@op("harmonic")
def _(d):
    a,b=rpt(d),rpt(d)
    pts=[Point(a.array*rng.randint(-3,3)+b.array*rng.randint(1,4)) for _ in range(3)]
    return (lambda a,b,c: harmonic_set(a,b,c)), pts
@op("bisectors")
def _(d):
    p,q,r=rpt(d),rpt(d),rpt(d); return (lambda l,m: list(angle_bisectors(l,m))), [Line(p,q),Line(p,r)]
@op("pt_add")
def _(d): return (lambda p,q: p+q), [rpt(d),rpt(d)]
@op("pt_sub")
def _(d): return (lambda p,q: p-q), [rpt(d),rpt(d)]
@op("pt_mul")
def _(d): return (lambda p: 3*p), [rpt(d)]
@op("translation")
def _(d): return (lambda v,p: translation(v)*p), [rpt(d),rpt(d)]
@op("reflection")
def _(d): 
    ax = Line(rpt(2),rpt(2)) if d==2 else Plane(rpt(3),rpt(3),rpt(3))
    return (lambda a,p: reflection(a)*p), [ax,rpt(d)]
@op("rotation_axis")
def _(d):
    if d!=3: return None
    return (lambda a,p: rotation(0.7,axis=a)*p), [rpt(3),rpt(3)]
@op("sphere")
def _(d):
    if d!=3: return None
    return (lambda c: Sphere(c,2)), [rpt(3)]
@op("circle")
def _(d):
    if d!=2: return None
    return (lambda c: Circle(c,2)), [rpt(2)]
@op("cone")
def _(d):
    if d!=3: return None
    return (lambda v,b: Cone(v,b,2)), [rpt(3),rpt(3)]
@op("conic5")
def _(d):
    if d!=2: return None
    return (lambda *a: Conic.from_points(*a)), [rpt(2) for _ in range(5)]
@op("simplex_vol")
def _(d):
    return (lambda *a: Simplex(*a).volume), [rpt(d) for _ in range(d+1)]
@op("base_point_direction")
def _(d):
    return (lambda l: [l.contains(l.base_point), l.contains(l.direction), l.base_point.isinf, l.direction.isinf]), [Line(rpt(d),rpt(d))]
@op("is_parallel")
def _(d):
    p,q,r=rpt(d),rpt(d),rpt(d); l=Line(p,q); return (lambda l,m: l.is_parallel(m)), [l,l.parallel(r)]
@op("subspace_add_pt")
def _(d):
    return (lambda l,p: l+p), [Line(rpt(d),rpt(d)), rpt(d)]
@op("quadric_add_pt")
def _(d):
    if d!=3: return None
    return (lambda l,p: l+p), [Sphere(rpt(d),2), rpt(d)]

warnings.simplefilter("ignore")
stats={}
for name,f in ops.items():
    for d in (2,3):
        bad=0;tot=0;errs={}
        ex=None
        for it in range(150):
            try:
                r=f(d)
                if r is None: break
                fn,args=r
                ref=fn(*args)
            except (GeometryException, np.linalg.LinAlgError, ValueError) as e:
                continue
            k=rng.randrange(len(args)); c=rng.choice([-1,2,-3,0.5,-0.25])
            args2=list(args); args2[k]=sc(args[k],c)
            try:
                got=fn(*args2)
                ok=same(ref,got)
            except Exception as e:
                ok=False; got=repr(e)[:80]
            tot+=1
            if not ok:
                bad+=1
                if ex is None: ex=(k,c,[a.array.tolist() for a in args],str(ref)[:100],str(got)[:100])
        if tot: print(f"{name:28s} d={d} bad={bad}/{tot}", ex if bad else "")
