import numpy as np, random, warnings, itertools
from geometer import *
from geometer.base import Tensor
from geometer.exceptions import *
warnings.simplefilter("ignore")
rng=random.Random(79)
fails={}
def rec(name,info=None):
    fails.setdefault(name,[0,0,None]); fails[name][0]+=1
    if fails[name][2] is None: fails[name][2]=info
def tot(name): fails.setdefault(name,[0,0,None]); fails[name][1]+=1
def rarr(shape,R=4): return np.array([rng.randint(-R,R) for _ in range(int(np.prod(shape)))]).reshape(shape)
def mkpts(cshape,d):
    a=rarr(cshape+(d+1,)); a[...,-1]=1; return a
def same(a,b):
    if isinstance(a,(list,tuple)): return len(a)==len(b) and all(same(x,y) for x,y in zip(a,b))
    if isinstance(a,Tensor) or isinstance(b,Tensor):
        return isinstance(a,Tensor) and isinstance(b,Tensor) and a==b
    a=np.asarray(a); b=np.asarray(b)
    if a.dtype==bool: return np.array_equal(a,b)
    return np.allclose(a,b,atol=1e-7,equal_nan=True)
def elem(x,idx):
    # pick element idx from collection or broadcast single
    if isinstance(x,Tensor) and x.free_indices>0 and not isinstance(x,(Segment,Polygon)) :
        return x[idx[-x.free_indices:]] if x.free_indices<=len(idx) else x
    return x
OPS={
 'join pp':(lambda p,q: join(p,q),'pp'),
 'meet ll':(lambda l,m: meet(l,m),'ll2'),
 'join ppp':(lambda p,q,r: join(p,q,r),'ppp3'),
 'join lp':(lambda p,q,r: join(join(p,q),r),'ppp3'),
 'meet coplanar lines':(lambda p,q,r: meet(join(p,q),join(p,r)),'ppp3'),
 'join coplanar lines':(lambda p,q,r: join(join(p,q),join(p,r)),'ppp3'),
 'meet plane line':(lambda p,q,r,s,t: meet(join(p,q,r),join(s,t)),'ppppp3'),
 'contains':(lambda p,q,r: join(p,q).contains(r),'ppp'),
 'perp':(lambda p,q,r: join(p,q).perpendicular(r),'ppp'),
 'project':(lambda p,q,r: join(p,q).project(r),'ppp'),
 'mirror':(lambda p,q,r: join(p,q).mirror(r),'ppp'),
 'parallel':(lambda p,q,r: join(p,q).parallel(r),'ppp'),
 'base_point':(lambda p,q: join(p,q).base_point,'pp'),
 'direction':(lambda p,q: join(p,q).direction,'pp'),
 'basis_matrix':(lambda p,q: join(p,q).basis_matrix,'pp'),
 'plane basis':(lambda p,q,r: join(p,q,r).basis_matrix,'ppp3'),
 'plane project':(lambda p,q,r,s: join(p,q,r).project(s),'pppp3'),
 'plane mirror':(lambda p,q,r,s: join(p,q,r).mirror(s),'pppp3'),
 'dist pp':(lambda p,q: dist(p,q),'pp'),
 'dist lp':(lambda p,q,r: dist(join(p,q),r),'ppp'),
 'angle':(lambda p,q,r: angle(p,q,r),'ppp'),
 'crossratio':(lambda a,b,c,d,e: crossratio(a,b,c,d,e),'ppppp2'),
 'is_collinear':(lambda a,b,c: is_collinear(a,b,c),'ppp2'),
 'is_perp':(lambda p,q,r,s: is_perpendicular(join(p,q),join(p,r)),'pppp'),
 'add':(lambda p,q:p+q,'pp'), 'sub':(lambda p,q:p-q,'pp'),'mul':(lambda p,q:3*p,'pp'),
 'isinf':(lambda p,q: p.isinf,'pp'),
 'seg contains':(lambda p,q,r: Segment(p,q).contains(r) if p.free_indices==0 else SegmentCollection(p,q).contains(r),'ppp'),
 'seg midpoint':(lambda p,q: (Segment(p,q) if p.free_indices==0 else SegmentCollection(p,q)).midpoint,'pp'),
 'seg length':(lambda p,q: (Segment(p,q) if p.free_indices==0 else SegmentCollection(p,q)).length,'pp'),
}
for name,(f,sig) in OPS.items():
    dims=[int(sig[-1])] if sig[-1].isdigit() else [2,3]
    nargs=len(sig.rstrip('23'))
    for d in dims:
        for trial in range(25):
            cshape=rng.choice([(1,),(3,),(2,2),(4,),(2,1,2)])
            arrs=[mkpts(cshape,d) for _ in range(nargs)]
            # broadcasting: sometimes make one arg single
            single=rng.randrange(nargs) if rng.random()<.3 else None
            args=[]
            for i,a in enumerate(arrs):
                if i==single: args.append(Point(a[(0,)*len(cshape)]))
                else: args.append(PointCollection(a))
            key=f"{name} d{d}"
            try: res=f(*args)
            except GeometryException: continue
            except Exception as e: tot(key); rec(key+" coll EXC "+type(e).__name__,(cshape,single,str(e)[:80])); continue
            tot(key)
            bad=False
            for idx in itertools.product(*[range(s) for s in cshape]):
                sargs=[a if a.free_indices==0 else Point(a.array[idx]) for a in args]
                try: sres=f(*sargs)
                except Exception as e: bad=("single EXC "+type(e).__name__); break
                try: r_i=res[idx] if isinstance(res,Tensor) else np.asarray(res)[idx]
                except IndexError: bad='result shape '+str(getattr(res,'shape',None)); break
                if isinstance(r_i,Tensor) and not isinstance(sres,Tensor): bad="type"; break
                if isinstance(sres,Tensor):
                    if type(r_i) is not type(sres) and not (type(r_i).__name__=='PointCollection' and type(sres).__name__=='Point'): bad=f"class {type(r_i).__name__} vs {type(sres).__name__}"; break
                    # projective compare (complex multiples ok)
                    if not (r_i==sres): bad="value"; break
                else:
                    if name=='basis_matrix' or name=='plane basis':
                        # compare row spaces
                        if not np.allclose(np.linalg.matrix_rank(np.concatenate([np.asarray(r_i),np.asarray(sres)]),tol=1e-8),np.asarray(sres).shape[0]): bad="value"; break
                    elif not same(r_i,sres): bad="value"; break
            if bad: rec(key+" "+str(bad),(cshape,single))
for k,v in sorted(fails.items()):
    if v[0]: print(k,v)
print(sum(v[1] for v in fails.values()),"cases")
