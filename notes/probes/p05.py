import numpy as np, random, itertools, string
from geometer.base import Tensor, TensorDiagram, LeviCivitaTensor, KroneckerDelta
from geometer.exceptions import TensorComputationError
rng=random.Random(11)
def perm_sign(p):
    p=list(p); s=1
    for i in range(len(p)):
        for j in range(i+1,len(p)):
            if p[i]>p[j]: s=-s
    return s
for n in range(1,7):
    e=LeviCivitaTensor(n).array
    ref=np.zeros((n,)*n,int)
    for p in itertools.permutations(range(n)): ref[p]=perm_sign(p)
    assert np.array_equal(e,ref),n
    assert LeviCivitaTensor(n,False).tensor_shape==(0,n)
print("eps ok")
def idet(m):
    n=len(m)
    return sum(perm_sign(p)*int(np.prod([m[i][p[i]] for i in range(n)])) for p in itertools.permutations(range(n)))
for n,p in [(2,1),(2,2),(3,1),(3,2),(3,3),(4,2),(4,3),(2,3),(4,4),(5,2)]:
    d=KroneckerDelta(n,p)
    assert d.tensor_shape==(p,p)
    bad=0
    for idx in itertools.product(range(n),repeat=2*p):
        nu=idx[:p]; mu=idx[p:]
        ref=idet([[1 if mu[a]==nu[b] else 0 for b in range(p)] for a in range(p)])
        if d.array[idx]!=ref: bad+=1
    print("delta",n,p,"bad",bad)
# diagrams
def ref_diagram(nodes, edges):
    # nodes: list of (array, covset) ; edges: list of (si, ti)
    L=iter(string.ascii_letters)
    labels=[[next(L) for _ in range(a.ndim)] for a,_ in nodes]
    unused=[(sorted(c), sorted(set(range(a.ndim))-set(c))) for a,c in nodes]
    for si,ti in edges:
        if not unused[si][0] or not unused[ti][1]: return "err"
        i=unused[si][0].pop(0); j=unused[ti][1].pop(0)
        if nodes[si][0].shape[i]!=nodes[ti][0].shape[j]: return "err"
        old=labels[ti][j]; new=labels[si][i]
        for lab in labels:
            for k in range(len(lab)):
                if lab[k]==old: lab[k]=new
    out=[labels[k][i] for k in range(len(nodes)) for i in unused[k][0]]+[labels[k][i] for k in range(len(nodes)) for i in unused[k][1]]
    ncov=sum(len(u[0]) for u in unused)
    expr=",".join("".join(l) for l in labels)+"->"+"".join(out)
    return np.einsum(expr,*[a for a,_ in nodes]), ncov, len(out)-ncov
bad=0;tot=0;errs=0;nontriv=0
for it in range(3000):
    k=rng.randint(1,4)
    dimchoices=[2,3] if rng.random()<.8 else [2]
    nodes=[]
    for _ in range(k):
        r=rng.randint(1,3)
        shape=tuple(rng.choice([2,3]) if rng.random()<.2 else 2 for _ in range(r))
        cov=[i for i in range(r) if rng.random()<.5]
        nodes.append((np.array([rng.randint(-3,3) for _ in range(int(np.prod(shape)))]).reshape(shape),cov))
    tens=[Tensor(a,covariant=c) for a,c in nodes]
    ne=rng.randint(0,4)
    edges=[(rng.randrange(k),rng.randrange(k)) for _ in range(ne)]
    # all nodes must be in diagram: add nodes first in order
    d=TensorDiagram()
    ref=ref_diagram(nodes,edges)
    try:
        for t in tens: d.add_node(t)
        for s,t in edges: d.add_edge(tens[s],tens[t])
        got=d.calculate()
    except TensorComputationError:
        got="err"
    tot+=1
    if ref=="err" or got=="err":
        errs+=1
        if ref!=got if isinstance(got,str) and isinstance(ref,str) else True:
            bad+=1; print("err mismatch",[(a.shape,c) for a,c in nodes],edges,ref if isinstance(ref,str) else "val",got if isinstance(got,str) else "val")
        continue
    arr,nc,ncon=ref
    if len(edges)>=2: nontriv+=1
    if got.array.shape!=arr.shape or not np.array_equal(got.array,arr) or got.tensor_shape!=(nc,ncon):
        bad+=1; print("mismatch",[(a.shape,c) for a,c in nodes],edges, got.tensor_shape,(nc,ncon))
        if bad>5: break
print(bad,tot,errs,nontriv)
