import numpy as np, random, warnings
from geometer import *
from geometer.exceptions import *
warnings.simplefilter("ignore")
rng=random.Random(13)
def rpt(d,R=4): return Point(*[rng.randint(-R,R) for _ in range(d)])
def rmat(d):
    while True:
        M=np.array([[rng.randint(-2,2) for _ in range(d+1)] for _ in range(d+1)])
        if abs(round(np.linalg.det(M)))>=1: return Transformation(M)
def objs(d):
    out={}
    out['point']=rpt(d)
    out['line']=Line(rpt(d),rpt(d))
    if d==3: out['plane']=Plane(rpt(d),rpt(d),rpt(d))
    out['quadric']=Circle(rpt(2),2) if d==2 else Sphere(rpt(3),2)
    S=np.array([[rng.randint(-3,3) for _ in range(d+1)] for _ in range(d+1)]); S=S+S.T
    out['genquadric']=Quadric(S)
    out['dualquadric']=Quadric(S,is_dual=True)
    out['segment']=Segment(rpt(d),rpt(d))
    if d==2:
        out['polygon']=Polygon(Point(0,0),Point(3,0),Point(4,2),Point(1,3))
        out['triangle']=Triangle(rpt(2),rpt(2),rpt(2))
    else:
        out['polygon']=Polygon(Point(0,0,1),Point(3,0,1),Point(4,2,1),Point(1,3,1))
        out['triangle']=Triangle(rpt(3),rpt(3),rpt(3))
        out['cuboid']=Cuboid(Point(0,0,0),Point(1,0,0),Point(0,2,0),Point(0,0,3))
        out['simplex']=Simplex(rpt(3),rpt(3),rpt(3),rpt(3))
    out['pointcoll']=PointCollection([rpt(d),rpt(d),rpt(d)])
    out['linecoll']=LineCollection([Line(rpt(d),rpt(d)) for _ in range(3)])
    out['segcoll']=SegmentCollection(PointCollection([rpt(d),rpt(d)]),PointCollection([rpt(d),rpt(d)]))
    return out
res={}
for it in range(60):
    for d in (2,3):
        try:
            O=objs(d)
        except GeometryException: continue
        s,t=rmat(d),rmat(d)
        for k,x in O.items():
            key=(k,d)
            r=res.setdefault(key,{'n':0})
            r['n']+=1
            def chk(name,f):
                try:
                    ok=bool(f())
                except Exception as e:
                    ok=False; name=name+":"+type(e).__name__
                if not ok: r[name]=r.get(name,0)+1
            chk('assoc',lambda: (s*t)*x==s*(t*x))
            chk('ident',lambda: identity(d)*x==x)
            chk('inv',lambda: t.inverse()*(t*x)==x)
            chk('type',lambda: type(t*x) is type(x))
            chk('pow',lambda: (t**2)*x==t*(t*x) and (t**-1)*(t*x)==x and (t**0)*x==x)
for k,v in sorted(res.items()): print(k,v)
