import numpy as np, random, warnings
from geometer import *
from geometer.exceptions import *
warnings.simplefilter("ignore")
rng=random.Random(17)
def rpt(d,R=4): return Point(*[rng.randint(-R,R) for _ in range(d)])
def rmat(d):
    while True:
        M=np.array([[rng.randint(-2,2) for _ in range(d+1)] for _ in range(d+1)])
        if abs(round(np.linalg.det(M)))>=1: return Transformation(M)
fails={}
def chk(name,f):
    try: ok=bool(np.all(f()))
    except GeometryException as e: return
    except Exception as e: ok=False; name+=":"+type(e).__name__
    fails.setdefault(name,[0,0]); fails[name][1]+=1
    if not ok: fails[name][0]+=1
for it in range(300):
  try:
      t=rmat(2)
      a,b,c,d_,e=[rpt(2) for _ in range(5)]
      chk("2d join",lambda: t*join(a,b)==join(t*a,t*b))
      chk("2d meet",lambda: t*meet(join(a,b),join(c,d_))==meet(t*join(a,b),t*join(c,d_)))
      chk("2d contains",lambda: (t*join(a,b)).contains(t*a) and ((t*join(a,b)).contains(t*c)==join(a,b).contains(c)))
      chk("2d cr",lambda: np.isclose(crossratio(a,b,c,d_,e),crossratio(t*a,t*b,t*c,t*d_,t*e)))
      C=Conic.from_points(a,b,c,d_,e)
      chk("2d conic contains",lambda: (t*C).contains(t*a) and (t*C).contains(t*e))
      chk("2d conic tangent",lambda: (t*C).is_tangent(t*C.tangent(a)))
      chk("2d conic tangent2",lambda: t*C.tangent(a)==(t*C).tangent(t*a))
      t=rmat(3)
      a,b,c,d_,e=[rpt(3) for _ in range(5)]
      chk("3d join2",lambda: t*join(a,b)==join(t*a,t*b))
      chk("3d join3",lambda: t*join(a,b,c)==join(t*a,t*b,t*c))
      chk("3d joinlp",lambda: t*join(join(a,b),c)==join(t*join(a,b),t*c))
      chk("3d joinll",lambda: t*join(join(a,b),join(a,c))==join(t*join(a,b),t*join(a,c)))
      chk("3d meetll",lambda: t*meet(join(a,b),join(a,c))==meet(t*join(a,b),t*join(a,c)))
      E,F,G=join(a,b,c),join(a,b,d_),join(c,d_,e)
      chk("3d meet2",lambda: t*meet(E,F)==meet(t*E,t*F))
      chk("3d meet3",lambda: t*meet(E,F,G)==meet(t*E,t*F,t*G))
      chk("3d meetpl",lambda: t*meet(E,join(d_,e))==meet(t*E,t*join(d_,e)))
      chk("3d contains",lambda: (t*E).contains(t*a) and (t*E).contains(t*join(a,b)) and (t*E).contains(t*d_)==E.contains(d_))
      S=Sphere(a,3); p=a+Point(0,3,0)
      chk("3d quadric",lambda: (t*S).contains(t*p) and (t*S).is_tangent(t*Quadric(S.array).tangent(p)))
      seg=Segment(a,b); poly=Polygon(a,b,c)
      chk("3d seg verts",lambda: (t*seg).vertices==[t*a,t*b])
      chk("3d poly verts",lambda: (t*poly).vertices==[t*a,t*b,t*c])
      chk("3d poly plane",lambda: (t*poly)._plane==t*poly._plane)
      chk("3d seg line",lambda: (t*seg)._line==t*seg._line)
  except GeometryException: pass
for k,v in fails.items(): print(k,v)
