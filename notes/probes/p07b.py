import numpy as np, random, warnings
from geometer import *
from geometer.exceptions import *
warnings.simplefilter("ignore")
rng=random.Random(17)
def rpt(d,R=4): return Point(*[rng.randint(-R,R) for _ in range(d)])
def rmat(d):
    while True:
        M=np.array([[rng.randint(-2,2) for _ in range(d+1)] for _ in range(d+1)])
        if abs(round(np.linalg.det(M)))>=1: return Transformation(M)
n=0
for it in range(300):
    t=rmat(2)
    a,b,c,d_,e=[rpt(2) for _ in range(5)]
    cr1=crossratio(a,b,c,d_,e); cr2=crossratio(t*a,t*b,t*c,t*d_,t*e)
    if not np.isclose(cr1,cr2) and n<6:
        n+=1; print("cr",cr1,cr2,[x.array.tolist() for x in (a,b,c,d_,e)])
    try:
        C=Conic.from_points(a,b,c,d_,e)
        if abs(np.linalg.det(C.array))<1e-6: continue
        l=C.tangent(a)
        v=(t*C).dual.contains(t*l)
        if not v and n<12:
            n+=1
            tc=t*C; tl=t*l
            val=tl.array@np.linalg.inv(tc.array)@tl.array
            print("tan", val, np.linalg.det(tc.array), np.abs(tl.array).max(), np.abs(tc.array).max())
    except GeometryException: pass
