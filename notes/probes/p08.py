import numpy as np, random, warnings
from geometer import *
from geometer.exceptions import *
warnings.simplefilter("ignore")
rng=random.Random(19)
def rv(d,R=4): return [rng.randint(-R,R) for _ in range(d)]
fails={}
def chk(name,f,info=None):
    try: ok=bool(np.all(f()))
    except Exception as e: ok=False; name+=":"+type(e).__name__
    fails.setdefault(name,[0,0,None]); fails[name][1]+=1
    if not ok:
        fails[name][0]+=1
        if fails[name][2] is None: fails[name][2]=info
def cart(p): return p.normalized_array[:-1]
for it in range(300):
    for d in (2,3):
        v=rv(d); p=rv(d)
        t=translation(*v)
        chk(f"translation{d}",lambda: np.allclose(cart(t*Point(*p)),np.array(p)+v))
        chk(f"translationP{d}",lambda: np.allclose(cart(translation(Point(*v))*Point(*p)),np.array(p)+v))
        s=rv(d); s=[x if x else 1 for x in s]
        chk(f"scaling{d}",lambda: np.allclose(cart(scaling(*s)*Point(*p)),np.array(p)*s))
    a=rng.uniform(-7,7); b=rng.uniform(-7,7); p=rv(2)
    R=np.array([[np.cos(a),-np.sin(a)],[np.sin(a),np.cos(a)]])
    chk("rot2",lambda: np.allclose(cart(rotation(a)*Point(*p)),R@p))
    chk("rot2 add",lambda: rotation(a)*rotation(b)==rotation(a+b))
    ax=rv(3)
    if any(ax):
        r=rotation(a,axis=Point(*ax)); M=r.array[:3,:3]
        u=np.array(ax)/np.linalg.norm(ax)
        chk("rot3 orth",lambda: np.allclose(M@M.T,np.eye(3)) and np.isclose(np.linalg.det(M),1) and np.allclose(r.array[3],[0,0,0,1]) and np.allclose(r.array[:3,3],0),(a,ax))
        chk("rot3 axis fixed",lambda: np.allclose(M@u,u))
        chk("rot3 angle",lambda: np.isclose(np.trace(M),1+2*np.cos(a)))
        # right-hand rule reference (Rodrigues)
        K=np.array([[0,-u[2],u[1]],[u[2],0,-u[0]],[-u[1],u[0],0]])
        Rr=np.eye(3)+np.sin(a)*K+(1-np.cos(a))*K@K
        chk("rot3 rodrigues",lambda: np.allclose(M,Rr),(a,ax))
        chk("rot3 add",lambda: rotation(a,axis=Point(*ax))*rotation(b,axis=Point(*ax))==rotation(a+b,axis=Point(*ax)))
    # reflection 2D
    l=None
    try: l=Line(Point(*rv(2)),Point(*rv(2)))
    except GeometryException: pass
    if l is not None:
        r=reflection(l); q=Point(*rv(2)); on=l.base_point
        chk("refl2 fixes",lambda: r*on==on and r*l.direction==l.direction,(l.array.tolist()))
        chk("refl2 invol",lambda: r*r==identity(2))
        chk("refl2 mirror",lambda: r*q==l.mirror(q) if not l.contains(q) else r*q==q,(l.array.tolist(),q.array.tolist()))
        n=np.array(l.array[:2],float); n/=np.linalg.norm(n); c=l.array[2]/np.linalg.norm(l.array[:2])
        x=np.array(cart(q),float); ref=x-2*(n@x+c)*n
        chk("refl2 cart",lambda: np.allclose(cart(r*q),ref))
    e=None
    try: e=Plane(Point(*rv(3)),Point(*rv(3)),Point(*rv(3)))
    except GeometryException: pass
    if e is not None:
        r=reflection(e); q=Point(*rv(3))
        n=np.array(e.array[:3],float); nn=np.linalg.norm(n); c=e.array[3]/nn; n/=nn
        x=np.array(cart(q),float); ref=x-2*(n@x+c)*n
        chk("refl3 cart",lambda: np.allclose(cart(r*q),ref),(e.array.tolist(),q.array.tolist()))
        chk("refl3 invol",lambda: r*r==identity(3))
        chk("refl3 mirror",lambda: r*q==e.mirror(q) if not e.contains(q) else True,(e.array.tolist(),q.array.tolist()))
    # from_points
    for d in (2,3):
        src=[Point(*rv(d)) for _ in range(d+2)]; dst=[Point(*rv(d)) for _ in range(d+2)]
        try:
            # general position check
            import itertools
            gp=all(abs(np.linalg.det(np.array([x.array for x in c])))>0.5 for S in (src,dst) for c in itertools.combinations(S,d+1))
            if not gp: continue
            t=Transformation.from_points(*zip(src,dst))
            chk(f"from_points{d}",lambda: all(t*x==y for x,y in zip(src,dst)),([x.array.tolist() for x in src],[x.array.tolist() for x in dst]))
        except np.linalg.LinAlgError: pass
for k,v in fails.items(): print(k,v)
