import numpy as np, random, warnings
from geometer import *
from geometer.exceptions import *
warnings.simplefilter("ignore")
rng=random.Random(23)
def rv(d,R=5): return np.array([rng.randint(-R,R) for _ in range(d)],float)
fails={}
def chk(name,f,info=None):
    try: ok=bool(np.all(f()))
    except GeometryException: return
    except Exception as e: ok=False; name+=":"+type(e).__name__
    fails.setdefault(name,[0,0,None]); fails[name][1]+=1
    if not ok:
        fails[name][0]+=1
        if fails[name][2] is None: fails[name][2]=info
def angmod(a,b): 
    d=(a-b)%np.pi; return min(d,np.pi-d)<1e-7
for it in range(400):
    for d in (2,3):
        p,q,r,s=rv(d),rv(d),rv(d),rv(d)
        P,Q,R_,S=[Point(*x) for x in (p,q,r,s)]
        chk(f"pp{d}",lambda: np.isclose(dist(P,Q),np.linalg.norm(p-q)) and np.isclose(dist(Q,P),np.linalg.norm(p-q)),(p,q))
        if np.linalg.norm(q-r)>0:
            u=(r-q)/np.linalg.norm(r-q)
            ref=np.linalg.norm((p-q)-((p-q)@u)*u)
            chk(f"pl{d}",lambda: np.isclose(dist(P,Line(Q,R_)),ref,atol=1e-7) and np.isclose(dist(Line(Q,R_),P),ref,atol=1e-7),(p,q,r,ref))
            # segment
            tpar=np.clip(((p-q)@(r-q))/((r-q)@(r-q)),0,1); refs=np.linalg.norm(p-(q+tpar*(r-q)))
            chk(f"pseg{d}",lambda: np.isclose(dist(P,Segment(Q,R_)),refs,atol=1e-7) and np.isclose(dist(Segment(Q,R_),P),refs,atol=1e-7),(p,q,r,refs))
        chk(f"inf{d}",lambda: dist(P,Point(np.append(q,0)))==np.inf if any(q) else True)
        # angle 3 points
        if np.linalg.norm(q-p)>0 and np.linalg.norm(r-p)>0:
            if d==2:
                ref=-np.arctan2(r[1]-p[1],r[0]-p[0])+np.arctan2(q[1]-p[1],q[0]-p[0])
                chk("angle3_2",lambda: angmod(angle(P,Q,R_),ref),(p,q,r,ref))
                chk("angle3_2 antisym",lambda: angmod(angle(P,Q,R_),-angle(P,R_,Q)))
                chk("angle_ll2",lambda: angmod(angle(Line(P,Q),Line(P,R_)),ref),(p,q,r,ref))
                chk("angle_ldir2",lambda: angmod(angle(Line(Point(0,0),Point(*(q-p))),Point(*(r-p))),ref),(p,q,r,ref))
            else:
                c=(q-p)@(r-p)/np.linalg.norm(q-p)/np.linalg.norm(r-p); ref=np.arccos(np.clip(c,-1,1))
                chk("angle3_3",lambda: np.isclose(np.cos(angle(P,Q,R_))**2,np.cos(ref)**2) ,(p,q,r,ref))
                chk("angle_ll3",lambda: np.isclose(np.cos(angle(Line(P,Q),Line(P,R_)))**2,np.cos(ref)**2),(p,q,r,ref))
    # planes
    n1,n2=rv(3),rv(3); d1,d2=rng.randint(-5,5),rng.randint(-5,5)
    if any(n1) and any(n2) and np.linalg.norm(np.cross(n1,n2))>0:
        e,f=Plane(*n1,d1),Plane(*n2,d2)
        ref=np.arccos(np.clip(n1@n2/np.linalg.norm(n1)/np.linalg.norm(n2),-1,1))
        chk("angle_planes",lambda: np.isclose(np.cos(np.real(angle(e,f)))**2,np.cos(ref)**2),(n1,d1,n2,d2,ref))
        chk("angle_planes real",lambda: abs(np.imag(angle(e,f)))<1e-7,(n1,d1,n2,d2))
    if any(n1):
        e=Plane(*n1,d1); p=rv(3)
        ref=abs(n1@p+d1)/np.linalg.norm(n1)
        chk("dist plane pt",lambda: np.isclose(dist(e,Point(*p)),ref,atol=1e-7) and np.isclose(dist(Point(*p),e),ref,atol=1e-7),(n1,d1,p,ref))
        f=Plane(*n1,d2)
        if d1!=d2:
            chk("dist par planes",lambda: np.isclose(dist(e,f),abs(d1-d2)/np.linalg.norm(n1),atol=1e-7),(n1,d1,d2))
        # line parallel to plane
        v=np.cross(n1,rv(3))
        if np.linalg.norm(v)>0:
            l=Line(Point(*p),Point(*(p+v)))
            chk("dist plane parline",lambda: np.isclose(dist(e,l),ref,atol=1e-7) and np.isclose(dist(l,e),ref,atol=1e-7),(n1,d1,p,v,ref))
for k,v in fails.items(): print(k,v)
