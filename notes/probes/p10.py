import numpy as np, random, warnings
from geometer import *
from geometer.exceptions import *
warnings.simplefilter("ignore")
rng=random.Random(29)
def rv(d,R=5): return np.array([rng.randint(-R,R) for _ in range(d)],float)
fails={}
def chk(name,f,info=None):
    try: ok=bool(np.all(f()))
    except GeometryException as e: ok=False; name+=":"+type(e).__name__
    except Exception as e: ok=False; name+=":"+type(e).__name__
    fails.setdefault(name,[0,0,None]); fails[name][1]+=1
    if not ok:
        fails[name][0]+=1
        if fails[name][2] is None: fails[name][2]=info
def cart(p): return np.real(p.normalized_array[...,:-1])
def dirvec(l):
    # cartesian direction of a line from two of its points
    d=l.direction
    return np.real(d.array[...,:-1])
for it in range(400):
    for d in (2,3):
        a,b,p=rv(d),rv(d),rv(d)
        if np.linalg.norm(b-a)==0: continue
        u=(b-a)/np.linalg.norm(b-a)
        # special: make p on line sometimes
        if rng.random()<.3: p=a+rng.randint(-3,3)*(b-a)
        A,B,P=Point(*a),Point(*b),Point(*p)
        l=Line(A,B)
        info=(a,b,p)
        foot=a+((p-a)@u)*u
        online=np.linalg.norm(p-foot)<1e-9
        def perp_ok():
            m=l.perpendicular(P)
            dv=dirvec(m)
            return m.contains(P) and abs(dv@u)<1e-7*np.linalg.norm(dv) and np.linalg.norm(dv)>0
        chk(f"perp{d}{'on' if online else ''}",perp_ok,info)
        chk(f"parallel{d}",lambda: l.parallel(P).contains(P) and np.linalg.norm(np.cross(dirvec(l.parallel(P)),u))<1e-7*np.linalg.norm(dirvec(l.parallel(P))) if not online else True,info)
        chk(f"project{d}{'on' if online else ''}",lambda: np.allclose(cart(l.project(P)),foot,atol=1e-7),info)
        if not online or d==2:
            chk(f"mirror{d}{'on' if online else ''}",lambda: np.allclose(cart(l.mirror(P)),2*foot-p,atol=1e-7),info)
        chk(f"base_point{d}",lambda: l.contains(l.base_point) and not l.base_point.isinf,info)
        chk(f"direction{d}",lambda: l.contains(l.direction) and l.direction.isinf,info)
        def bm():
            m=l.basis_matrix
            return np.allclose(m@m.conj().T,np.eye(2),atol=1e-9) and all(l.contains(Point(r)) for r in m)
        chk(f"basis{d}",bm,info)
        chk(f"general_point{d}",lambda: not l.contains(l.general_point),info)
        chk(f"is_perp{d}",lambda: is_perpendicular(l,l.perpendicular(P)),info)
        chk(f"is_par{d}",lambda: l.is_parallel(l.parallel(Point(*(p+rv(d))))) ,info)
    # planes
    n=rv(3); dd=rng.randint(-5,5); p=rv(3)
    if not any(n): continue
    e=Plane(*n,dd); un=n/np.linalg.norm(n)
    if rng.random()<.3:
        # p on plane
        v=np.cross(n,rv(3)); 
        base=-dd*n/(n@n); p=base+v
    P=Point(*p); sd=(n@p+dd)/np.linalg.norm(n); foot=p-sd*un
    info=(n,dd,p)
    on=abs(sd)<1e-9
    chk(f"plane perp{'on' if on else ''}",lambda: e.perpendicular(P).contains(P) and np.linalg.norm(np.cross(dirvec(e.perpendicular(P)),un))<1e-7*np.linalg.norm(dirvec(e.perpendicular(P))),info)
    chk(f"plane project{'on' if on else ''}",lambda: np.allclose(cart(e.project(P)),foot,atol=1e-7),info)
    chk(f"plane mirror{'on' if on else ''}",lambda: np.allclose(cart(e.mirror(P)),2*foot-p,atol=1e-7),info)
    chk("plane parallel",lambda: e.parallel(P).contains(P) and e.is_parallel(e.parallel(P)) if not on else True,info)
    def bm():
        m=e.basis_matrix
        return np.allclose(m@m.T,np.eye(3),atol=1e-9) and all(e.contains(Point(r)) for r in m)
    chk("plane basis",bm,info)
    chk("plane general_point",lambda: not e.contains(e.general_point),info)
for k,v in sorted(fails.items()): print(k,v)
