import numpy as np, random, warnings
from geometer import *
from geometer.exceptions import *
warnings.simplefilter("ignore")
rng=random.Random(91)
def rv(d,R=5): return np.array([rng.randint(-R,R) for _ in range(d)])
f={}
def chk(n,fn,info=None):
    try: ok=bool(np.all(fn()))
    except Exception as e: ok=False; n+=":"+type(e).__name__
    f.setdefault(n,[0,0,None]); f[n][1]+=1
    if not ok:
        f[n][0]+=1
        if f[n][2] is None: f[n][2]=info
for it in range(500):
    # planes perpendicular exact
    n1=rv(3); 
    if not any(n1): continue
    w=rv(3); n2=np.cross(n1,w)
    if not any(n2): continue
    e,g=Plane(*n1,rng.randint(-4,4)),Plane(*n2,rng.randint(-4,4))
    chk("planes perp true",lambda: is_perpendicular(e,g),(n1.tolist(),n2.tolist()))
    n3=rv(3)
    if any(n3) and n1@n3!=0 and any(np.cross(n1,n3)):
        chk("planes perp false",lambda: not is_perpendicular(e,Plane(*n3,1)),(n1.tolist(),n3.tolist()))
    # lines 2D
    a,b=rv(2),rv(2)
    if any(a-b):
        l=Line(Point(*a),Point(*b)); dvec=b-a; p=rv(2)
        m=Line(Point(*p),Point(*(p+np.array([-dvec[1],dvec[0]]))))
        chk("lines2 perp true",lambda: is_perpendicular(l,m),(a.tolist(),b.tolist()))
        q=rv(2)
        if any(q-p) and (q-p)@dvec!=0: chk("lines2 perp false",lambda: not is_perpendicular(l,Line(Point(*p),Point(*q))),(a.tolist(),b.tolist(),p.tolist(),q.tolist()))
        if any(q-p): 
            par=np.cross(np.append(q-p,0),np.append(dvec,0))[2]==0
            if not Line(Point(*p),Point(*q))==l:
                chk("lines2 parallel",lambda: bool(l.is_parallel(Line(Point(*p),Point(*q))))==bool(par),(a.tolist(),b.tolist(),p.tolist(),q.tolist()))
    # 3D lines perpendicular intersecting
    a,b=rv(3),rv(3)
    if any(a-b):
        d=b-a; w=np.cross(d,rv(3))
        if any(w):
            l=Line(Point(*a),Point(*b)); m=Line(Point(*a),Point(*(a+w)))
            chk("lines3 perp true",lambda: is_perpendicular(l,m),(a.tolist(),b.tolist(),w.tolist()))
            c=rv(3)
            if any(np.cross(c-a,d)) and (c-a)@d!=0: chk("lines3 perp false",lambda: not is_perpendicular(l,Line(Point(*a),Point(*c))),(a.tolist(),b.tolist(),c.tolist()))
    # cocircular: rational points on circle centre c radius r
    tri=[(3,4,5),(5,12,13),(8,15,17),(7,24,25),(20,21,29)]
    c=rv(2); r=rng.randint(1,4)
    pts=[]
    for k in rng.sample(range(5),4):
        x,y,h=tri[k]; sx,sy=rng.choice([1,-1]),rng.choice([1,-1])
        if rng.random()<.5: x,y=y,x
        pts.append(Point(c[0]+sx*r*x/h,c[1]+sy*r*y/h))
    chk("cocircular true",lambda: is_cocircular(*pts),[p.array.tolist() for p in pts])
    q=[Point(*rv(2)) for _ in range(4)]
    import itertools
    M=np.array([[p.array[0]**2+p.array[1]**2,p.array[0],p.array[1],1] for p in q])
    dd=round(np.linalg.det(M))
    if len({tuple(p.array) for p in q})==4:
        chk("cocircular exact",lambda: bool(is_cocircular(*q))==(dd==0),([p.array.tolist() for p in q],dd))
    # coplanar with 5 args
    A,B,C=rv(4),rv(4),rv(4)
    if np.linalg.matrix_rank(np.stack([A,B,C]))==3:
        ps=[Point(A),Point(B),Point(C),Point(A+2*B-C),Point(3*A-B+C)]
        chk("coplanar5 true",lambda: is_coplanar(*ps))
        D=rv(4)
        if abs(round(np.linalg.det(np.stack([A,B,C,D]))))>0:
            chk("coplanar5 false",lambda: not is_coplanar(*ps[:4],Point(D)),(A.tolist(),B.tolist(),C.tolist(),D.tolist()))
            chk("coplanar4 false",lambda: not is_coplanar(*ps[:3],Point(D)))
for k,v in sorted(f.items()): print(k,v[:2],v[2] if v[0] else "")
