import numpy as np, random, warnings
from fractions import Fraction as F
from geometer import *
from geometer.exceptions import *
warnings.simplefilter("ignore")
rng=random.Random(31)
def rv(d,R=4): return np.array([rng.randint(-R,R) for _ in range(d)])
fails={}
def chk(name,f,info=None):
    try: ok=bool(np.all(f()))
    except Exception as e: ok=False; name+=":"+type(e).__name__
    fails.setdefault(name,[0,0,None]); fails[name][1]+=1
    if not ok:
        fails[name][0]+=1
        if fails[name][2] is None: fails[name][2]=info
def cr_ref(x): 
    a,b,c,d=x  # params (s,t) homogeneous on line: point = s*A + t*B
    det=lambda u,v: u[0]*v[1]-u[1]*v[0]
    num=det(a,c)*det(b,d); den=det(a,d)*det(b,c)
    return num,den
def close_p1(val,num,den):
    if den==0: return not np.isfinite(val) or abs(val)>1e12
    return np.isclose(val,num/den,atol=1e-7)
for it in range(500):
    for d in (1,2,3):
        while True:
            A=rv(d+1); B=rv(d+1)
            if np.linalg.matrix_rank(np.stack([A,B]))==2: break
        # 4 distinct params
        params=set()
        special=[(1,0),(0,1),(1,1),(1,-1)]
        while len(params)<4:
            st=rng.choice(special) if rng.random()<.3 else (rng.randint(-3,3),rng.randint(-3,3))
            if st==(0,0): continue
            # normalise projectively
            g=np.gcd(*st); st=(st[0]//g,st[1]//g)
            if st[0]<0 or (st[0]==0 and st[1]<0): st=(-st[0],-st[1])
            params.add(st)
        params=list(params); rng.shuffle(params)
        pts=[Point(s*A+t*B) for s,t in params]
        num,den=cr_ref(params)
        info=(d,A.tolist(),B.tolist(),params)
        chk(f"cr pts {d}",lambda: close_p1(crossratio(*pts),num,den),info)
        if d==2:
            # pencil of lines through vertex V
            V=Point(rv(3))
            if not any(V.array) or Line(pts[0],pts[1]).contains(V): continue
            lines=[join(V,p) for p in pts]
            chk("cr lines 2",lambda: close_p1(crossratio(*lines),num,den),info+(V.array.tolist(),))
            chk("cr from 2",lambda: close_p1(crossratio(*pts,V),num,den),info+(V.array.tolist(),))
        if d==3:
            # pencil of planes through an axis line skew to AB
            while True:
                U=Point(rv(4)); W=Point(rv(4))
                try:
                    if abs(np.linalg.det(np.stack([A,B,U.array,W.array])))>.5: break
                except: pass
            planes=[join(U,W,p) for p in pts]
            chk("cr planes 3",lambda: close_p1(crossratio(*planes),num,den),info+(U.array.tolist(),W.array.tolist()))
        # symmetries
        a,b,c,dd=pts
        v=crossratio(a,b,c,dd)
        if np.isfinite(v) and abs(v)>1e-9 and abs(v-1)>1e-9:
            chk(f"sym {d}",lambda: np.isclose(v,crossratio(b,a,dd,c)) and np.isclose(v,crossratio(c,dd,a,b)) and np.isclose(v,1/crossratio(a,b,dd,c)) and np.isclose(v,1-crossratio(a,c,b,dd)),info)
        # harmonic set
        if d>=2:
            try:
                h=harmonic_set(a,b,c)
                chk(f"harm {d}",lambda: np.isclose(crossratio(a,b,c,h),-1) and join(a,b).contains(h),info)
            except Exception as e:
                chk(f"harm {d}:"+type(e).__name__,lambda: False,info)
for k,v in sorted(fails.items()): print(k,v)
