import numpy as np, random, warnings, copy, itertools
import geometer
from geometer import *
from geometer.base import LeviCivitaTensor, KroneckerDelta, Tensor
from geometer.curve import absolute_conic
from geometer.exceptions import *
warnings.simplefilter("ignore")
rng=random.Random(37)
def rpt(d,R=4): return Point(*[rng.randint(-R,R) for _ in range(d)])
def snap(o):
    d={}
    for k,v in vars(o).items():
        if isinstance(v,np.ndarray): d[k]=v.copy()
        elif isinstance(v,Tensor): d[k]=snap(v)
        elif isinstance(v,(set,)): d[k]=set(v)
        else: d[k]=copy.deepcopy(v)
    return d
def same(a,b):
    if a.keys()!=b.keys(): return False
    for k in a:
        x,y=a[k],b[k]
        if isinstance(x,np.ndarray):
            if x.shape!=y.shape or x.dtype!=y.dtype or not np.array_equal(x,y,equal_nan=True): return False
        elif isinstance(x,dict):
            if not same(x,y): return False
        elif x!=y: return False
    return True
consts={'I':I,'J':J,'infty':infty,'infty_plane':infty_plane,'absolute_conic':absolute_conic}
def snap_globals():
    g={k:snap(v) for k,v in consts.items()}
    g['eps']={k:v.copy() for k,v in LeviCivitaTensor._cache.items()}
    g['delta']={k:v.copy() for k,v in KroneckerDelta._cache.items()}
    return g
def same_globals(a,b):
    for k in consts:
        if not same(a[k],b[k]): return k
    for c in ('eps','delta'):
        for k in a[c]:
            if not np.array_equal(a[c][k],b[c][k]): return c
    return None
# pool of objects and ops
def pool(d):
    P={}
    P['p']=rpt(d);P['q']=rpt(d);P['r']=rpt(d)
    P['l']=Line(rpt(d),rpt(d)); P['m']=Line(P['p'],rpt(d))
    P['pc']=PointCollection([rpt(d) for _ in range(3)]); P['lc']=LineCollection([Line(rpt(d),rpt(d)) for _ in range(3)])
    P['seg']=Segment(rpt(d),rpt(d)); P['segc']=SegmentCollection(PointCollection([rpt(d),rpt(d)]),PointCollection([rpt(d),rpt(d)]))
    if d==2:
        P['poly']=Polygon(Point(0,0),Point(3,0),Point(4,2),Point(1,3)); P['tri']=Triangle(Point(0,0),Point(3,1),Point(1,4))
        P['con']=Circle(rpt(2),2); P['ell']=Ellipse(rpt(2),2,3)
        P['polyc']=PolygonCollection([P['poly'].array, P['poly'].array+np.array([1,1,0])])
    else:
        P['e']=Plane(rpt(3),rpt(3),rpt(3)); P['ec']=PlaneCollection([Plane(rpt(3),rpt(3),rpt(3)) for _ in range(3)])
        P['poly']=Polygon(Point(0,0,1),Point(3,0,1),Point(4,2,1),Point(1,3,1)); P['tri']=Triangle(Point(0,0,2),Point(3,1,2),Point(1,4,2))
        P['cube']=Cuboid(Point(0,0,0),Point(1,0,0),Point(0,2,0),Point(0,0,3)); P['sph']=Sphere(rpt(3),2)
        P['polyc']=PolygonCollection([P['poly'].array, P['poly'].array+np.array([1,1,1,0])])
        P['cone']=Cone(Point(0,0,0),Point(0,0,2),1)
    M=np.eye(d+1); M[0,1]=2; M[1,0]=-1;M[0,d]=3
    P['t']=Transformation(M); P['tc']=TransformationCollection([M,M.T+np.eye(d+1)])
    return P
ops=[]
def O(name,f,*kinds): ops.append((name,f,kinds))
O('join',lambda a,b: join(a,b),'p','q'); O('linemeet',lambda a,b: meet(a,b),'l','m')
O('dist',lambda a,b: dist(a,b),'p','l'); O('dist pp',lambda a,b: dist(a,b),'p','q'); O('angle',lambda a,b,c: angle(a,b,c),'p','q','r')
O('perp',lambda l,p: l.perpendicular(p),'l','p'); O('project',lambda l,p: l.project(p),'l','p'); O('mirror',lambda l,p: l.mirror(p),'l','p'); O('parallel',lambda l,p:l.parallel(p),'l','p')
O('perpc',lambda l,p: l.perpendicular(p),'lc','pc'); O('projectc',lambda l,p: l.project(p),'lc','pc')
O('base',lambda l:(l.base_point,l.direction,l.basis_matrix,l.general_point),'l'); O('basec',lambda l:(l.base_point,l.direction,l.basis_matrix,l.general_point),'lc')
O('t*p',lambda t,p:t*p,'t','p');O('t*l',lambda t,p:t*p,'t','l');O('t*seg',lambda t,p:t*p,'t','seg');O('t*poly',lambda t,p:t*p,'t','poly');O('t*pc',lambda t,p:t*p,'t','pc')
O('tinv',lambda t:t.inverse(),'t');O('tpow',lambda t:t**3,'t');O('tcpow',lambda t:t**-2,'tc'); O('t*t',lambda t:t*t,'t')
O('seg.contains',lambda s,p:s.contains(p),'seg','p');O('seg.mid',lambda s:(s.midpoint,s.length),'seg');O('seg.int',lambda s,l:s.intersect(l),'seg','l')
O('segc.contains',lambda s,p:s.contains(p),'segc','p');O('segc.mid',lambda s:(s.midpoint,s.length),'segc')
O('poly.contains',lambda s,p:s.contains(p),'poly','p');O('poly.area',lambda s:(s.area,s.centroid,s.angles),'poly');O('poly.int',lambda s,l:s.intersect(l),'poly','l');O('poly.edges',lambda s:(s.edges,s.vertices,s.facets),'poly')
O('polyc.area',lambda s:s.area,'polyc');O('polyc.contains',lambda s,p:s.contains(p),'polyc','p');O('polyc.int',lambda s,l:s.intersect(l),'polyc','l')
O('tri.contains',lambda s,p:s.contains(p),'tri','p');O('tri.cc',lambda s:(s.circumcenter,s.area,s.volume),'tri')
O('dist poly',lambda s,p:dist(s,p),'poly','p');O('dist seg',lambda s,p:dist(s,p),'seg','p')
O('p+q',lambda p,q:(p+q,p-q,2*p,p/2,-p),'p','q'); O('l+p',lambda l,p:(l+p),'l','p'); O('poly+p',lambda l,p:(l+p,l-p),'poly','p')
O('eq',lambda a,b:(a==b,a==a),'p','q'); O('getitem',lambda a:(a[0],list(a),a[::-1]),'pc'); O('getitem seg',lambda a:(a[0],list(a)),'segc')
ops2=[('con.int',lambda c,l:c.intersect(l),('con','l')),('con.tan',lambda c,p:(Conic(c.array).tangent(p),c.polar(p),c.contains(p)),('con','p')),('con.foci',lambda c:(c.foci,c.center,c.radius,c.area),('con',)),
      ('con.con',lambda c,e:c.intersect(e),('con','ell')),('con.comp',lambda l,m:Conic.from_lines(l,m).components,('l','m')),('con.t',lambda t,c:t*c,('t','con')),('cr',lambda a,b,c,d:crossratio(a,b,c,join(a,b).meet(d),),('p','q','r','l')),
      ('cocirc',lambda a,b,c:is_cocircular(a,b,c,a+b),('p','q','r')),('bis',lambda l,m: angle_bisectors(l,m),('l','m')),('con.add',lambda c,p:(c+p,c-p),('con','p')),('conic5',lambda a,b,c:Conic.from_points(a,b,c,a+b,Point(7,-9)),('p','q','r'))]
ops3=[('e.meet',lambda e,l:e.meet(l),('e','l')),('e.proj',lambda e,p:(e.project(p),e.mirror(p),e.perpendicular(p),e.parallel(p)),('e','p')),('e.basis',lambda e:(e.basis_matrix,e.general_point,e.isinf),('e',)),('ec.basis',lambda e:(e.basis_matrix,e.general_point),('ec',)),
      ('ec.proj',lambda e,p:(e.project(p),e.mirror(p)),('ec','pc')),('cube.int',lambda c,l:c.intersect(l),('cube','l')),('cube.area',lambda c:(c.area,c.faces,c.edges,c.vertices),('cube',)),('t*cube',lambda t,c:t*c,('t','cube')),('dist cube',lambda c,p:dist(c,p),('cube','p')),
      ('sph.int',lambda s,l:s.intersect(l),('sph','l')),('sph.props',lambda s:(s.center,s.radius,s.volume,s.area),('sph',)),('sph.tan',lambda s,p:(Quadric(s.array).tangent(p),s.contains(p)),('sph','p')),('cone.int',lambda s,l:s.intersect(l),('cone','l')),('t*sph',lambda t,s:t*s,('t','sph')),
      ('angle ee',lambda e,f:angle(e,f[0]),('e','ec')),('isperp ee',lambda e,f:is_perpendicular(e,f[0]),('e','ec')),('dist e p',lambda e,p:dist(e,p),('e','p')),('l.coplanar',lambda l,m:l.is_coplanar(m),('l','m')),('join lm',lambda l,m:join(l,m),('p','l')),('poly3.area',lambda p:(p.area,p.centroid),('poly',)),
      ('polyc3.area',lambda p:p.area,('polyc',)),('cr planes',lambda l,p,q,r:crossratio(join(l,p),join(l,q),join(l,r),join(l,p+q)),('l','p','q','r'))]
viol={}
for d in (2,3):
    allops=ops+[(n,f,k) for n,f,k in (ops2 if d==2 else ops3)]
    for trial in range(15):
        try: P=pool(d)
        except GeometryException: continue
        for name,f,kinds in allops:
            if any(k not in P for k in kinds): continue
            args=[P[k] for k in kinds]
            before=[snap(a) for a in args]; gb=snap_globals()
            try: f(*args)
            except (GeometryException,np.linalg.LinAlgError,NotImplementedError,ValueError,TypeError,AttributeError,IndexError,RecursionError) as e:
                pass
            after=[snap(a) for a in args]; ga=snap_globals()
            for k,b,a in zip(kinds,before,after):
                if not same(b,a): viol[(d,name,k)]=viol.get((d,name,k),0)+1
            g=same_globals(gb,ga)
            if g: viol[(d,name,'GLOBAL '+g)]=viol.get((d,name,'GLOBAL '+g),0)+1
print(viol)
