import numpy as np, random, warnings
from geometer import *
warnings.simplefilter("ignore")
rng=random.Random(7)
def rpt(d,R=4): return [rng.randint(-R,R) for _ in range(d)]
def cone_pts(v,b,r,k=6):
    v=np.array(v,float); b=np.array(b,float); ax=b-v; h=np.linalg.norm(ax); ax/=h
    # orthonormal u,w
    t=np.array([1,0,0]) if abs(ax[0])<.9 else np.array([0,1,0])
    u=np.cross(ax,t); u/=np.linalg.norm(u); w=np.cross(ax,u)
    out=[]
    for i in range(k):
        th=2*np.pi*i/k+0.3
        c=b+r*(np.cos(th)*u+np.sin(th)*w)
        for s in (1,-0.5,2.5):
            out.append(v+s*(c-v))
    return out
bad=0;tot=0;ex=[]
for it in range(400):
    v=rpt(3); b=rpt(3); r=rng.choice([1,2,3,0.5])
    if v==b: continue
    try: c=Cone(Point(*v),Point(*b),r)
    except Exception as e:
        print("ERR",v,b,r,repr(e)[:100]); bad+=1; continue
    tot+=1
    ok=all(c.contains(Point(*p),tol=1e-6) for p in cone_pts(v,b,r))
    # also point off cone
    if not ok:
        bad+=1; ex.append((v,b,r))
print("cone bad",bad,tot,ex[:8])
bad=0;tot=0;ex=[]
for it in range(400):
    c0=rpt(3); d=rpt(3); r=rng.choice([1,2,3,0.5])
    if d==[0,0,0]: continue
    try: c=Cylinder(Point(*c0),Point(*d),r)
    except Exception as e:
        print("ERR",c0,d,r,repr(e)[:100]); bad+=1; continue
    tot+=1
    ax=np.array(d,float)/np.linalg.norm(d)
    t=np.array([1,0,0]) if abs(ax[0])<.9 else np.array([0,1,0])
    u=np.cross(ax,t); u/=np.linalg.norm(u); w=np.cross(ax,u)
    pts=[np.array(c0)+s*ax+r*(np.cos(th)*u+np.sin(th)*w) for s in (-2,0,3.5) for th in (0.1,1.3,2.9,4.4)]
    ok=all(c.contains(Point(*p),tol=1e-6) for p in pts)
    if not ok: bad+=1; ex.append((c0,d,r))
print("cyl bad",bad,tot,ex[:8])
