import numpy as np, random, warnings, itertools
from geometer import *
from geometer.exceptions import *
warnings.simplefilter("ignore")
rng=random.Random(41)
def rv(d,R=4): return np.array([rng.randint(-R,R) for _ in range(d)],float)
fails={}
def chk(name,f,info=None):
    try: ok=bool(np.all(f()))
    except Exception as e: ok=False; name+=":"+type(e).__name__
    fails.setdefault(name,[0,0,None]); fails[name][1]+=1
    if not ok:
        fails[name][0]+=1
        if fails[name][2] is None: fails[name][2]=info
def genpos(pts,k=3):
    return all(abs(np.linalg.det(np.array([np.append(p,1) for p in c])))>0.5 for c in itertools.combinations(pts,k))
for it in range(300):
    pts=[rv(2) for _ in range(5)]
    if not genpos(pts): continue
    P=[Point(*p) for p in pts]
    C=Conic.from_points(*P)
    info=[p.tolist() for p in pts]
    chk("from_points contains",lambda: all(C.contains(p) for p in P),info)
    chk("from_points nondeg",lambda: not C.is_degenerate,info)
    cr=crossratio(*P[:4],P[4])
    chk("from_crossratio",lambda: Conic.from_crossratio(cr,*P[:4])==C,info)
    # from_tangent: tangent line at P[4] of C, then conic through P[:4] tangent to it should... there are 2 solutions; check contains+tangent
for it in range(300):
    pts=[rv(2) for _ in range(4)]
    if not genpos(pts): continue
    P=[Point(*p) for p in pts]
    try: l=Line(Point(*rv(2)),Point(*rv(2)))
    except GeometryException: continue
    if any(l.contains(p) for p in P): continue
    info=([p.tolist() for p in pts],l.array.tolist())
    try:
        C=Conic.from_tangent(l,*P)
    except Exception as e:
        chk("from_tangent:"+type(e).__name__,lambda:False,info); continue
    chk("from_tangent contains",lambda: all(C.contains(p) for p in P),info)
    chk("from_tangent real",lambda: np.isrealobj(C.array) or np.allclose(C.array.imag,0),info)
    def tang():
        if abs(np.linalg.det(C.array))<1e-9: return True
        A=C.array; li=l.array/np.abs(l.array).max()
        return abs(li@np.linalg.inv(A)@li)<1e-6*np.abs(np.linalg.inv(A)).max()
    chk("from_tangent tangent",tang,info)
for it in range(300):
    f1,f2,b=rv(2),rv(2),rv(2)
    if np.linalg.norm(f1-f2)==0: continue
    s=np.linalg.norm(b-f1)+np.linalg.norm(b-f2); dd=abs(np.linalg.norm(b-f1)-np.linalg.norm(b-f2))
    if abs(s-np.linalg.norm(f1-f2))<1e-9 or dd<1e-9 : continue   # degenerate
    info=(f1.tolist(),f2.tolist(),b.tolist())
    try: C=Conic.from_foci(Point(*f1),Point(*f2),Point(*b))
    except Exception as e:
        chk("from_foci:"+type(e).__name__,lambda:False,info); continue
    chk("from_foci contains bound",lambda: C.contains(Point(*b),tol=1e-6),info)
    def foci_ok():
        f=C.foci
        return len(f)==2 and all(any(np.allclose(np.real(x.normalized_array[:2]),ff,atol=1e-6) for x in f) for ff in (f1,f2))
    chk("from_foci foci",foci_ok,info)
for it in range(300):
    c=rv(2); r=rng.choice([1,2,3,.5,2.5]); h=rng.choice([1,2,3,.5]); v=rng.choice([1,2,3,.5])
    C=Circle(Point(*c),r); info=(c.tolist(),r,h,v)
    th=rng.uniform(0,6.28)
    chk("circle contains",lambda: C.contains(Point(*(c+r*np.array([np.cos(th),np.sin(th)]))),tol=1e-7) and not C.contains(Point(*(c+1.1*r*np.array([np.cos(th),np.sin(th)])))),info)
    chk("circle center",lambda: np.allclose(np.real(C.center.normalized_array[:2]),c),info)
    chk("circle radius",lambda: np.isclose(C.radius,r),info)
    chk("circle area",lambda: np.isclose(C.area,np.pi*r*r),info)
    E=Ellipse(Point(*c),h,v)
    chk("ellipse contains",lambda: E.contains(Point(*(c+np.array([h*np.cos(th),v*np.sin(th)]))),tol=1e-7) and not E.contains(Point(*(c+1.1*np.array([h*np.cos(th),v*np.sin(th)])))),info)
    if h!=v:
        def ef():
            f=E.foci; e=np.sqrt(abs(h*h-v*v)); ax=np.array([1,0]) if h>v else np.array([0,1])
            return len(f)==2 and all(any(np.allclose(np.real(x.normalized_array[:2]),c+s*e*ax,atol=1e-6) for x in f) for s in (1,-1))
        chk("ellipse foci",ef,info)
    c3=rv(3); S=Sphere(Point(*c3),r); u=rv(3)
    if any(u):
        u=u/np.linalg.norm(u)
        chk("sphere contains",lambda: S.contains(Point(*(c3+r*u)),tol=1e-7) and not S.contains(Point(*(c3+1.2*r*u))),(c3.tolist(),r))
    chk("sphere props",lambda: S.center==Point(*c3) and np.isclose(S.radius,r) and np.isclose(S.volume,4/3*np.pi*r**3) and np.isclose(S.area,4*np.pi*r**2),(c3.tolist(),r))
    S2=Sphere(Point(*c),r)
    chk("sphere2d props",lambda: S2.center==Point(*c) and np.isclose(S2.radius,r) and np.isclose(S2.volume,np.pi*r**2) and np.isclose(S2.area,2*np.pi*r),(c.tolist(),r))
for k,v in sorted(fails.items()): print(k,v)
