import numpy as np, random, warnings, itertools
from geometer import *
from geometer.exceptions import *
warnings.simplefilter("ignore")
rng=random.Random(43)
def rv(d,R=4): return np.array([rng.randint(-R,R) for _ in range(d)],float)
fails={}
def chk(name,f,info=None):
    try: ok=bool(np.all(f()))
    except Exception as e: ok=False; name+=":"+type(e).__name__
    fails.setdefault(name,[0,0,None]); fails[name][1]+=1
    if not ok:
        fails[name][0]+=1
        if fails[name][2] is None: fails[name][2]=info
def symm(n,R=3):
    while True:
        S=np.array([[rng.randint(-R,R) for _ in range(n)] for _ in range(n)]); S=S+S.T
        if abs(np.linalg.det(S))>.5: return S
def on_q(Q,p,tol=1e-6): 
    v=p.array/np.abs(p.array).max(); return abs(v@Q@v)<tol*max(1,np.abs(Q).max())
def on_l(l,p,tol=1e-6):
    v=p.array/np.abs(p.array).max()
    if l.dim==2: return abs(l.array@v)<tol*np.abs(l.array).max()
    return np.all(np.abs(np.einsum('ij,i->j',l.array,v))<tol*np.abs(l.array).max())
for it in range(400):
    for d in (2,3):
        S=symm(d+1); Q=Quadric(S)
        a,b=rv(d),rv(d)
        if np.linalg.norm(a-b)==0: continue
        l=Line(Point(*a),Point(*b)); info=(S.tolist(),a.tolist(),b.tolist())
        try: X=Q.intersect(l)
        except Exception as e: chk(f"intersect{d}:"+type(e).__name__,lambda:False,info); continue
        chk(f"intersect{d} on both",lambda: all(on_q(S,x) and on_l(l,x) for x in X),info)
        chk(f"intersect{d} count",lambda: len(X) in (1,2),info)
        # completeness: roots of quadratic along the line
        A=np.append(a,1);B=np.append(b,1)
        qa,qb,qc=B@S@B, 2*A@S@B, A@S@A  # (A+tB) quadratic in t: qa t^2+qb t+qc
        rts=np.roots([qa,qb,qc]) if qa!=0 else ([-qc/qb] if qb!=0 else [])
        def complete():
            for t in rts:
                pt=A+t*B
                if not any(np.allclose(np.cross(np.stack([pt/np.abs(pt).max(), x.array/np.abs(x.array).max()])[:,None,:].repeat(1,0)[0],pt/np.abs(pt).max())*0,0) for x in X): return False
            return True
        def complete2():
            from geometer.utils import is_multiple
            return all(any(is_multiple(A+t*B,x.array,atol=1e-6,rtol=1e-6) for x in X) for t in rts)
        chk(f"intersect{d} complete",complete2,info)
        # secant through two known points
        # tangent at a point of the quadric
        x=X[0]
        tp=Q.tangent(x)
        chk(f"tangent{d} contains pt",lambda: tp.contains(x),info)
        chk(f"tangent{d} is_tangent",lambda: Q.is_tangent(tp),info)
        chk(f"dual{d} involution",lambda: Q.dual.dual==Q and Q.dual.is_dual and not Q.dual.dual.is_dual,info)
        if d==2:
            C=Conic(S)
            p=Point(*rv(2))
            if not C.contains(p):
                pol=C.polar(p)
                chk("pole-polar",lambda: Conic(np.linalg.inv(S)).polar(Point(pol.array))==Line(p.array) ,info)
                t=C.tangent(p)
                chk("two tangents",lambda: isinstance(t,tuple) and all(tt.contains(p) and C.is_tangent(tt) for tt in t),info+(p.array.tolist(),))
            # tangent line intersect: only contact point
            tl=C.tangent(x)
            if isinstance(tl,Line):
                Y=C.intersect(tl)
                chk("tangent line contact",lambda: all(y==x for y in Y) and len(Y) in (1,2),info)
for k,v in sorted(fails.items()): print(k,v)
# subclass dual
for obj in [Circle(Point(1,2),3),Ellipse(Point(1,2),3,2),Sphere(Point(1,2,3),2),Cone(),Cylinder(),Conic(np.diag([1,1,-1])),Quadric(np.diag([1,1,1,-1]))]:
    try: obj.dual; print(type(obj).__name__,"dual ok")
    except Exception as e: print(type(obj).__name__,"dual",type(e).__name__)
