import numpy as np, random, warnings
from geometer import *
from geometer.exceptions import *
from geometer.utils import is_multiple
warnings.simplefilter("ignore")
rng=random.Random(97)
def symm(n,R=3):
    while True:
        S=np.array([[rng.randint(-R,R) for _ in range(n)] for _ in range(n)]); S=S+S.T
        if abs(np.linalg.det(S))>.5: return S
def rv(d,R=4): return np.array([rng.randint(-R,R) for _ in range(d)],float)
f={}
def rec(n,info=None):
    f.setdefault(n,[0,None]); f[n][0]+=1
    if f[n][1] is None: f[n][1]=info
tot=0
for it in range(200):
    for d in (2,3):
        k=rng.randint(1,4)
        Ss=[symm(d+1) for _ in range(k)]
        ls=[]
        while len(ls)<k:
            a,b=rv(d),rv(d)
            if any(a-b): ls.append(Line(Point(*a),Point(*b)))
        for mode in ("QC x L","Q x LC","QC x LC"):
            try:
                if mode=="QC x L": res=QuadricCollection(Ss).intersect(ls[0]); pairs=[(S,ls[0]) for S in Ss]
                elif mode=="Q x LC": res=Quadric(Ss[0]).intersect(LineCollection(ls)); pairs=[(Ss[0],l) for l in ls]
                else: res=QuadricCollection(Ss).intersect(LineCollection(ls)); pairs=list(zip(Ss,ls))
            except Exception as e: rec(f"{mode} d{d} EXC {type(e).__name__}",str(e)[:80]); continue
            tot+=1
            for i,(S,l) in enumerate(pairs):
                single=Quadric(S).intersect(l)
                got=[r[i] if r.free_indices>0 else r for r in res]
                ok=all(any(is_multiple(np.ravel(g.array).astype(complex),s.array.astype(complex),atol=1e-6,rtol=1e-6) for s in single) for g in got) and all(any(is_multiple(np.ravel(g.array).astype(complex),s.array.astype(complex),atol=1e-6,rtol=1e-6) for g in got) for s in single)
                if not ok: rec(f"{mode} d{d} mismatch",(k,i)); break
print(tot,f)
# tangent exact: unit-circle image
def exact_tangent_case(d):
    # D = diag(1,..,1,-1); x rational on it via pythagorean
    tri=[(3,4,5),(5,12,13),(8,15,17)]
    a,b,h=tri[rng.randrange(3)]
    x=np.array([a,b,h]) if d==2 else np.array([a,b,0,h])
    if d==3 and rng.random()<.5: x=np.array([a,0,b,h])
    while True:
        M=np.array([[rng.randint(-2,2) for _ in range(d+1)] for _ in range(d+1)])
        if abs(round(np.linalg.det(M)))==1: break
    D=np.diag([1]*d+[-1])
    Minv=np.round(np.linalg.inv(M)).astype(int)
    S=Minv.T@D@Minv   # quadric containing M x
    X=M@x
    assert X@S@X==0
    T=S@X  # tangent hyperplane
    # y in tangent plane
    i,j=rng.sample(range(d+1),2)
    y=np.zeros(d+1,int); y[i]=T[j]; y[j]=-T[i]
    if not any(y) or np.linalg.matrix_rank(np.stack([X,y]))<2: return None
    return S,X,X+y
bad=0;n=0
for it in range(500):
    for d in (2,3):
        c=exact_tangent_case(d)
        if c is None: continue
        S,X,Y=c
        if Y@S@Y==0: continue
        n+=1
        res=Quadric(S).intersect(Line(Point(X),Point(Y)))
        if not (len(res) in (1,2) and all(is_multiple(r.array.astype(complex),X.astype(complex),atol=1e-6,rtol=1e-6) for r in res)):
            bad+=1
            if bad<3: print("tangent bad",d,S.tolist(),X.tolist(),Y.tolist(),[r.array.tolist() for r in res])
print("exact tangent bad",bad,n)
