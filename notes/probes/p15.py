import numpy as np, random, warnings, itertools
from geometer import *
from geometer.exceptions import *
from geometer.utils import is_multiple
warnings.simplefilter("ignore")
rng=random.Random(47)
def rv(d,R=4): return np.array([rng.randint(-R,R) for _ in range(d)])
fails={}
def chk(name,f,info=None):
    try: ok=bool(np.all(f()))
    except Exception as e: ok=False; name+=":"+type(e).__name__
    fails.setdefault(name,[0,0,None]); fails[name][1]+=1
    if not ok:
        fails[name][0]+=1
        if fails[name][2] is None: fails[name][2]=info
def pm(a,b): return is_multiple(np.asarray(a,complex),np.asarray(b,complex),atol=1e-7,rtol=1e-7)
for it in range(2000):
    g,h=rv(3),rv(3)
    if np.linalg.matrix_rank(np.stack([g,h]))<2: continue
    C=Conic.from_lines(Line(g),Line(h)); info=(g.tolist(),h.tolist())
    chk("conic deg",lambda: C.is_degenerate,info)
    def comp():
        p,q=C.components
        return (pm(p.array,g) and pm(q.array,h)) or (pm(p.array,h) and pm(q.array,g))
    chk("conic comps",comp,info)
    e,f=rv(4),rv(4)
    if np.linalg.matrix_rank(np.stack([e,f]))<2: continue
    Q=Quadric.from_planes(Plane(e),Plane(f)); info=(e.tolist(),f.tolist())
    chk("quadric deg",lambda: Q.is_degenerate,info)
    def comp2():
        p,q=Q.components
        return (pm(p.array,e) and pm(q.array,f)) or (pm(p.array,f) and pm(q.array,e))
    chk("quadric comps",comp2,info)
# double line / double plane?
for k,v in sorted(fails.items()): print(k,v)
# non reducible
n=0;bad=0
for it in range(300):
    S=np.array([[rng.randint(-3,3) for _ in range(4)] for _ in range(4)]); S=S+S.T
    r=np.linalg.matrix_rank(S)
    if r<3: continue
    n+=1
    try:
        Quadric(S).components
        if r==4 or r==3: bad+=1; 
    except NotReducible: pass
print("irreducible reported reducible",bad,n)
