import numpy as np, random, warnings, itertools
from geometer import *
from geometer.exceptions import *
from geometer.utils import is_multiple
warnings.simplefilter("ignore")
rng=random.Random(53)
def rv(d,R=4): return np.array([rng.randint(-R,R) for _ in range(d)],float)
fails={}
def chk(name,f,info=None):
    try: ok=bool(np.all(f()))
    except Exception as e: ok=False; name+=":"+type(e).__name__
    fails.setdefault(name,[0,0,None]); fails[name][1]+=1
    if not ok:
        fails[name][0]+=1
        if fails[name][2] is None: fails[name][2]=info
def genpos(pts,k=3):
    return all(abs(np.linalg.det(np.array([np.append(p,1) for p in c])))>0.5 for c in itertools.combinations(pts,k))
def on_q(Q,p,tol=1e-6): 
    v=p.array/np.abs(p.array).max(); return abs(v@Q@v)<tol*max(1,np.abs(Q).max())
# two conics through 4 common points + one extra each → must return exactly those 4
for it in range(400):
    pts=[rv(2) for _ in range(6)]
    if not genpos(pts): continue
    P=[Point(*p) for p in pts]
    C1=Conic.from_points(*P[:4],P[4]); C2=Conic.from_points(*P[:4],P[5])
    info=[p.tolist() for p in pts]
    if C1==C2: continue
    try: X=C1.intersect(C2)
    except Exception as e: chk("cc:"+type(e).__name__,lambda:False,info); continue
    chk("cc count<=4",lambda: len(X)<=4,info)
    chk("cc on both",lambda: all(on_q(C1.array,x) and on_q(C2.array,x) for x in X),info)
    chk("cc complete",lambda: all(any(is_multiple(p.array.astype(complex),x.array.astype(complex),atol=1e-6,rtol=1e-6) for x in X) for p in P[:4]),info)
# circles (repeated roots pencils: concentric/tangent)
for it in range(300):
    c1,c2=rv(2),rv(2); r1,r2=rng.randint(1,4),rng.randint(1,4)
    if np.allclose(c1,c2) : continue
    A,B=Circle(Point(*c1),r1),Circle(Point(*c2),r2); info=(c1.tolist(),r1,c2.tolist(),r2)
    try: X=A.intersect(B)
    except Exception as e: chk("circ:"+type(e).__name__,lambda:False,info); continue
    chk("circ count<=4",lambda: len(X)<=4,info)
    chk("circ on both",lambda: all(on_q(A.array,x,1e-5) and on_q(B.array,x,1e-5) for x in X),info)
    chk("circ has I,J",lambda: any(is_multiple(x.array,I.array,atol=1e-6,rtol=1e-6) for x in X) and any(is_multiple(x.array,J.array,atol=1e-6,rtol=1e-6) for x in X),info)
    d=np.linalg.norm(c1-c2)
    if abs(r1-r2)<d<r1+r2:
        a=(r1*r1-r2*r2+d*d)/(2*d); h=np.sqrt(r1*r1-a*a); u=(c2-c1)/d; n=np.array([-u[1],u[0]])
        exp=[c1+a*u+h*n,c1+a*u-h*n]
        chk("circ real pts",lambda: all(any(np.allclose(x.normalized_array[:2],e,atol=1e-6) for x in X if not x.isinf) for e in exp),info)
for k,v in sorted(fails.items()): print(k,v)
