import numpy as np, random, warnings, itertools
from fractions import Fraction as F
from geometer import *
from geometer.exceptions import *
warnings.simplefilter("ignore")
rng=random.Random(59)
# exact reference: closed polygon membership (integer coords)
def orient(a,b,c): return (b[0]-a[0])*(c[1]-a[1])-(b[1]-a[1])*(c[0]-a[0])
def on_seg(a,b,p):
    return orient(a,b,p)==0 and min(a[0],b[0])<=p[0]<=max(a[0],b[0]) and min(a[1],b[1])<=p[1]<=max(a[1],b[1])
def in_poly(V,p):
    n=len(V)
    for i in range(n):
        if on_seg(V[i],V[(i+1)%n],p): return True
    # winding/crossing exact
    c=False
    for i in range(n):
        a,b=V[i],V[(i+1)%n]
        if (a[1]>p[1])!=(b[1]>p[1]):
            # x coordinate of intersection > p.x ?
            t=F(p[1]-a[1],b[1]-a[1]); x=a[0]+t*(b[0]-a[0])
            if x>p[0]: c=not c
    return c
def seg_cross(a,b,c,d):
    o1,o2,o3,o4=orient(a,b,c),orient(a,b,d),orient(c,d,a),orient(c,d,b)
    if ((o1>0)!=(o2>0) and o1!=0 and o2!=0) and ((o3>0)!=(o4>0) and o3!=0 and o4!=0): return True
    return any([on_seg(a,b,c),on_seg(a,b,d),on_seg(c,d,a),on_seg(c,d,b)])
def simple(V):
    n=len(V)
    if len(set(V))<n: return False
    for i in range(n):
        if orient(V[i-1],V[i],V[(i+1)%n])==0 and False: return False
    for i in range(n):
        for j in range(i+1,n):
            if j==i or (j+1)%n==i or (i+1)%n==j: 
                # adjacent: must only share endpoint; check not overlapping collinear
                a,b,c,d=V[i],V[(i+1)%n],V[j],V[(j+1)%n]
                shared=b if (i+1)%n==j else a
                other1=a if shared==b else b
                other2=d if shared==c else c
                if orient(shared,other1,other2)==0 and ((other1[0]-shared[0])*(other2[0]-shared[0])+(other1[1]-shared[1])*(other2[1]-shared[1]))>0: return False
                continue
            if seg_cross(V[i],V[(i+1)%n],V[j],V[(j+1)%n]): return False
    return True
fails={}
tot=0
grid=[(x,y) for x in range(-1,6) for y in range(-1,6)]
for it in range(300):
    n=rng.choice([3,4,4,5,6])
    V=[(rng.randint(0,4),rng.randint(0,4)) for _ in range(n)]
    if not simple(V): continue
    area2=sum(V[i][0]*V[(i+1)%n][1]-V[(i+1)%n][0]*V[i][1] for i in range(n))
    if area2==0: continue
    cls=Triangle if n==3 else Polygon
    poly=cls(*[Point(*v) for v in V])
    got=poly.contains(PointCollection([Point(*g) for g in grid]))
    ref=np.array([in_poly(V,g) for g in grid])
    tot+=1
    if not np.array_equal(got,ref):
        key=cls.__name__
        fails.setdefault(key,[]).append((V,[g for g,a,b in zip(grid,got,ref) if a!=b][:3]))
    # generic Polygon for triangles too
    if n==3:
        got=Polygon(*[Point(*v) for v in V]).contains(PointCollection([Point(*g) for g in grid]))
        if not np.array_equal(got,ref): fails.setdefault("Polygon3",[]).append((V,[g for g,a,b in zip(grid,got,ref) if a!=b][:3]))
    # single point API
    for g in rng.sample(grid,5):
        if bool(poly.contains(Point(*g)))!=in_poly(V,g): fails.setdefault("single "+cls.__name__,[]).append((V,g))
    # rotation/reversal
    k=rng.randrange(n); V2=V[k:]+V[:k]
    if rng.random()<.5: V2=V2[::-1]
    got2=cls(*[Point(*v) for v in V2]).contains(PointCollection([Point(*g) for g in grid]))
    if not np.array_equal(got2,ref): fails.setdefault("rot "+cls.__name__,[]).append((V2,[g for g,a,b in zip(grid,got2,ref) if a!=b][:3]))
    # infinite pts
    for dvec in [(1,0),(0,1),(1,1),(-1,2)]:
        if poly.contains(Point([*dvec,0])): fails.setdefault("inf "+cls.__name__,[]).append((V,dvec))
print(tot,{k:(len(v),v[:2]) for k,v in fails.items()})
