import numpy as np, random, warnings, itertools
from geometer import *
from geometer.exceptions import *
warnings.simplefilter("ignore")
rng=random.Random(61)
fails={}
def chk(name,f,info=None):
    try: ok=bool(np.all(f()))
    except Exception as e: ok=False; name+=":"+type(e).__name__
    fails.setdefault(name,[0,0,None]); fails[name][1]+=1
    if not ok:
        fails[name][0]+=1
        if fails[name][2] is None: fails[name][2]=info
def shoelace(V): 
    n=len(V); return abs(sum(V[i][0]*V[(i+1)%n][1]-V[(i+1)%n][0]*V[i][1] for i in range(n)))/2
def centroid(V):
    n=len(V); A=sum(V[i][0]*V[(i+1)%n][1]-V[(i+1)%n][0]*V[i][1] for i in range(n))/2
    cx=sum((V[i][0]+V[(i+1)%n][0])*(V[i][0]*V[(i+1)%n][1]-V[(i+1)%n][0]*V[i][1]) for i in range(n))/(6*A)
    cy=sum((V[i][1]+V[(i+1)%n][1])*(V[i][0]*V[(i+1)%n][1]-V[(i+1)%n][0]*V[i][1]) for i in range(n))/(6*A)
    return np.array([cx,cy])
def randrot():
    q,_=np.linalg.qr(np.random.default_rng(rng.randrange(10**6)).normal(size=(3,3)))
    if np.linalg.det(q)<0: q[:,0]*=-1
    return q
polys=[[(0,0),(4,0),(4,3),(0,3)],[(0,0),(4,0),(1,1),(0,4)],[(0,0),(3,0),(5,2),(2,5),(-1,2)],[(1,1),(5,1),(5,4),(3,2),(1,4)],[(0,0),(2,0),(0,3)]]
for it in range(200):
    V=rng.choice(polys); off=np.array([rng.randint(-5,5),rng.randint(-5,5)])
    V2=[tuple(np.array(v)+off) for v in V]
    k=rng.randrange(len(V)); V3=V2[k:]+V2[:k]
    if rng.random()<.5: V3=V3[::-1]
    P=Polygon(*[Point(*v) for v in V3]); info=(V3,)
    chk("area2d",lambda: np.isclose(P.area,shoelace(V)),info)
    chk("centroid2d",lambda: np.allclose(P.centroid.normalized_array[:2],centroid(V2)),info)
    # embed in 3D
    R=randrot(); t=np.array([rng.randint(-5,5) for _ in range(3)])
    W=[R@np.array([*v,0.0])+t for v in V3]
    P3=Polygon(*[Point(*w) for w in W]); info=(V3,R.tolist(),t.tolist())
    chk("area3d",lambda: np.isclose(P3.area,shoelace(V)),info)
    c2=centroid(V2); c3=R@np.array([*c2,0.0])+t
    chk("centroid3d",lambda: np.allclose(P3.centroid.normalized_array[:3],c3),info)
    chk("eq rot",lambda: P==Polygon(*[Point(*v) for v in V2]) and P3==Polygon(*[Point(*w) for w in W[1:]+W[:1]]),info)
    chk("neq",lambda: P!=Polygon(*[Point(*v) for v in (V2[:1]+[tuple(np.array(V2[1])+[0,7])]+V2[2:])]),info)
    if len(V)>3:
        chk("neq swapped",lambda: P!=Polygon(*[Point(*v) for v in ([V2[1],V2[0]]+V2[2:])]),info)
    PC=PolygonCollection([[np.append(w,1) for w in W],[np.append(w+1,1) for w in W]])
    chk("area3d coll",lambda: np.allclose(PC.area,shoelace(V)),info)
# segments
for it in range(200):
    for d in (2,3):
        a=np.array([rng.randint(-5,5) for _ in range(d)],float); b=np.array([rng.randint(-5,5) for _ in range(d)],float)
        if np.allclose(a,b): continue
        s=Segment(Point(*a),Point(*b)); info=(a.tolist(),b.tolist())
        chk(f"seg length{d}",lambda: np.isclose(s.length,np.linalg.norm(a-b)),info)
        chk(f"seg midpoint{d}",lambda: np.allclose(s.midpoint.normalized_array[:-1],(a+b)/2),info)
# simplex
for it in range(200):
    pts=[np.array([rng.randint(-4,4) for _ in range(3)],float) for _ in range(4)]
    vol=abs(np.linalg.det(np.array([p-pts[0] for p in pts[1:]])))/6
    if vol<1e-9: continue
    chk("simplex vol",lambda: np.isclose(Simplex(*[Point(*p) for p in pts]).volume,vol),[p.tolist() for p in pts])
    a,b,c=pts[:3]; ar=np.linalg.norm(np.cross(b-a,c-a))/2
    if ar>1e-9:
        chk("tri3d vol(area)",lambda: np.isclose(Simplex(*[Point(*p) for p in pts[:3]]).volume,ar),[p.tolist() for p in pts[:3]])
        T=Triangle(*[Point(*p) for p in pts[:3]])
        chk("tri3d area",lambda: np.isclose(T.area,ar),[p.tolist() for p in pts[:3]])
        def cc():
            o=T.circumcenter.normalized_array[:3]
            return np.allclose([np.linalg.norm(o-p) for p in pts[:3]],np.linalg.norm(o-a)) and abs(np.dot(np.cross(b-a,c-a),o-a))<1e-7
        chk("tri3d circumcenter",cc,[p.tolist() for p in pts[:3]])
    a2,b2,c2=[p[:2] for p in pts[:3]]
    ar2=abs(np.cross(b2-a2,c2-a2))/2
    if ar2>1e-9:
        T=Triangle(Point(*a2),Point(*b2),Point(*c2))
        def cc2():
            o=T.circumcenter.normalized_array[:2]
            return np.allclose([np.linalg.norm(o-p) for p in (a2,b2,c2)],np.linalg.norm(o-a2))
        chk("tri2d circumcenter",cc2,[a2.tolist(),b2.tolist(),c2.tolist()])
        chk("tri2d area/vol",lambda: np.isclose(T.area,ar2) and np.isclose(T.volume,ar2),None)
# regular polygon
for it in range(100):
    n=rng.randint(3,8); r=rng.choice([1,2,.5,3]); c=np.array([rng.randint(-4,4) for _ in range(2)],float)
    P=RegularPolygon(Point(*c),r,n); info=(c.tolist(),r,n)
    chk("reg2 center",lambda: np.allclose(P.center.normalized_array[:2],c),info)
    chk("reg2 radius",lambda: np.isclose(P.radius,r),info)
    chk("reg2 inradius",lambda: np.isclose(P.inradius,r*np.cos(np.pi/n)),info)
    chk("reg2 area",lambda: np.isclose(P.area,n*r*r*np.sin(2*np.pi/n)/2),info)
    chk("reg2 verts",lambda: all(np.isclose(np.linalg.norm(v.normalized_array[:2]-c),r) for v in P.vertices),info)
    c3=np.array([rng.randint(-4,4) for _ in range(3)],float); ax=np.array([rng.randint(-3,3) for _ in range(3)],float)
    if not any(ax): continue
    P=RegularPolygon(Point(*c3),r,n,axis=Point(*ax)); info=(c3.tolist(),r,n,ax.tolist())
    chk("reg3 center",lambda: np.allclose(P.center.normalized_array[:3],c3),info)
    chk("reg3 radius",lambda: np.isclose(P.radius,r),info)
    chk("reg3 inradius",lambda: np.isclose(P.inradius,r*np.cos(np.pi/n)),info)
    chk("reg3 area",lambda: np.isclose(P.area,n*r*r*np.sin(2*np.pi/n)/2),info)
    chk("reg3 verts",lambda: all(np.isclose(np.linalg.norm(v.normalized_array[:3]-c3),r) and abs((v.normalized_array[:3]-c3)@ax)<1e-7 for v in P.vertices),info)
# cuboid
for it in range(100):
    a=np.array([rng.randint(-4,4) for _ in range(3)],float); R=randrot(); s=[rng.randint(1,4) for _ in range(3)]
    b,c,d=[a+s[i]*R[:,i] for i in range(3)]
    C=Cuboid(*[Point(*p) for p in (a,b,c,d)]); info=(a.tolist(),R.tolist(),s)
    chk("cuboid area",lambda: np.isclose(C.area,2*(s[0]*s[1]+s[1]*s[2]+s[0]*s[2])),info)
    chk("cuboid counts",lambda: len(C.vertices)==8 and len(C.edges)==12 and len(C.faces)==6,info)
    chk("cuboid face areas",lambda: np.allclose(sorted(C.faces.area),sorted([s[1]*s[2]]*2+[s[0]*s[2]]*2+[s[0]*s[1]]*2)),info)
for k,v in sorted(fails.items()): print(k,v[:2],v[2] if v[0] else "")
