import numpy as np, random, warnings, itertools
from fractions import Fraction as F
from geometer import *
from geometer.exceptions import *
warnings.simplefilter("ignore")
rng=random.Random(67)
fails={}
def chk(name,f,info=None):
    try: ok=bool(np.all(f()))
    except Exception as e: ok=False; name+=":"+type(e).__name__
    fails.setdefault(name,[0,0,None]); fails[name][1]+=1
    if not ok:
        fails[name][0]+=1
        if fails[name][2] is None: fails[name][2]=info
def orient(a,b,c): return (b[0]-a[0])*(c[1]-a[1])-(b[1]-a[1])*(c[0]-a[0])
def seg_seg_exact(a,b,c,d):
    # returns None (no common point), a point (tuple Fractions), or 'overlap'
    r=(b[0]-a[0],b[1]-a[1]); s=(d[0]-c[0],d[1]-c[1])
    den=r[0]*s[1]-r[1]*s[0]
    if den==0:
        if orient(a,b,c)!=0: return None
        # collinear: overlap or touching or disjoint
        key=(lambda p:p[0]) if a[0]!=b[0] else (lambda p:p[1])
        lo1,hi1=sorted([key(a),key(b)]);lo2,hi2=sorted([key(c),key(d)])
        lo,hi=max(lo1,lo2),min(hi1,hi2)
        if lo>hi: return None
        if lo==hi: return 'touch'
        return 'overlap'
    t=F((c[0]-a[0])*s[1]-(c[1]-a[1])*s[0],den); u=F((c[0]-a[0])*r[1]-(c[1]-a[1])*r[0],den)
    if 0<=t<=1 and 0<=u<=1: return (a[0]+t*r[0],a[1]+t*r[1])
    return None
def pts_close(X,exp):
    return len(X)==len(exp) and all(any(np.allclose(np.real(x.normalized_array[:-1]),np.array(e,float),atol=1e-7) for x in X) for e in exp)
for it in range(2000):
    a,b,c,d=[(rng.randint(-3,3),rng.randint(-3,3)) for _ in range(4)]
    if a==b or c==d: continue
    ref=seg_seg_exact(a,b,c,d)
    s1,s2=Segment(Point(*a),Point(*b)),Segment(Point(*c),Point(*d)); info=(a,b,c,d,str(ref))
    try: X=s1.intersect(s2)
    except Exception as e: chk("segseg:"+type(e).__name__,lambda:False,info); continue
    if ref is None: chk("segseg none",lambda: X==[],info)
    elif ref in('overlap','touch'): chk("segseg "+ref,lambda: all(s1.contains(x) and s2.contains(x) for x in X),info)
    else: chk("segseg pt",lambda: pts_close(X,[ref]),info)
    # segment-line
    l=Line(Point(*c),Point(*d))
    X=s1.intersect(l)
    o1,o2=orient(c,d,a),orient(c,d,b)
    if o1==0 and o2==0: chk("segline collinear",lambda: all(s1.contains(x) for x in X),info)
    elif (o1>0 and o2>0) or (o1<0 and o2<0): chk("segline none",lambda: X==[],info)
    else:
        t=F(o1,o1-o2); e=(a[0]+t*(b[0]-a[0]),a[1]+t*(b[1]-a[1]))
        chk("segline pt",lambda: pts_close(X,[e]),info)
# polygon-line 2D (convex): count
sq=[(0,0),(4,0),(4,4),(0,4)]
P=Polygon(*[Point(*v) for v in sq])
for it in range(1000):
    a,b=[(rng.randint(-2,6),rng.randint(-2,6)) for _ in range(2)]
    if a==b: continue
    l=Line(Point(*a),Point(*b)); info=(a,b)
    X=P.intersect(l)
    # exact: intersect line with each edge
    exp=set(); overlap=False
    for i in range(4):
        u,v=sq[i],sq[(i+1)%4]
        o1,o2=orient(a,b,u),orient(a,b,v)
        if o1==0 and o2==0: overlap=True; continue
        if (o1>0 and o2>0) or (o1<0 and o2<0): continue
        t=F(o1,o1-o2); exp.add((u[0]+t*(v[0]-u[0]),u[1]+t*(v[1]-u[1])))
    if overlap:
        chk("polyline edge-collinear",lambda: all(P.contains(x) and l.contains(x) for x in X) and len(X)<=2+0*len(exp),info+(len(X),))
    else:
        chk("polyline",lambda: pts_close(X,sorted(exp)),info+(sorted(map(str,exp)),[x.normalized_array.tolist() for x in X]))
    s=Segment(Point(*a),Point(*b))
    X=P.intersect(s)
    exp2=set()
    ov=False
    for i in range(4):
        r=seg_seg_exact(a,b,sq[i],sq[(i+1)%4])
        if r in ('overlap',): ov=True
        elif r=='touch':
            # the touching point is shared endpoint
            for p in (a,b):
                for q in (sq[i],sq[(i+1)%4]):
                    if p==q: exp2.add((F(p[0]),F(p[1])))
        elif r is not None: exp2.add(r)
    if not ov: chk("polyseg",lambda: pts_close(X,sorted(exp2)),info+(sorted(map(str,exp2)),[x.normalized_array.tolist() for x in X]))
for k,v in sorted(fails.items()): print(k,v[:2],v[2] if v[0] else "")
