import numpy as np, random, warnings, itertools
from geometer import *
from geometer.exceptions import *
warnings.simplefilter("ignore")
rng=random.Random(71)
fails={}
def chk(name,f,info=None):
    try: ok=bool(np.all(f()))
    except Exception as e: ok=False; name+=":"+type(e).__name__
    fails.setdefault(name,[0,0,None]); fails[name][1]+=1
    if not ok:
        fails[name][0]+=1
        if fails[name][2] is None: fails[name][2]=info
def cart(x):
    a=np.ravel(x.array); return np.real(a[:-1]/a[-1])
cube=Cuboid(Point(0,0,0),Point(4,0,0),Point(0,4,0),Point(0,0,4))
sq3=Polygon(Point(0,0,2),Point(4,0,2),Point(4,4,2),Point(0,4,2))
def inside_cube(p): return all(0<=c<=4 for c in p)
for it in range(1500):
    a=np.array([rng.randint(-2,6) for _ in range(3)]); b=np.array([rng.randint(-2,6) for _ in range(3)])
    if (a==b).all(): continue
    l=Line(Point(*a),Point(*b)); s=Segment(Point(*a),Point(*b)); info=(a.tolist(),b.tolist())
    d=b-a
    # exact line-box: slab method with fractions
    from fractions import Fraction as F
    tmin,tmax=None,None; miss=False
    for i in range(3):
        if d[i]==0:
            if not 0<=a[i]<=4: miss=True
        else:
            t1,t2=F(int(0-a[i]),int(d[i])),F(int(4-a[i]),int(d[i]))
            lo,hi=min(t1,t2),max(t1,t2)
            tmin=lo if tmin is None else max(tmin,lo); tmax=hi if tmax is None else min(tmax,hi)
    if miss or tmin>tmax: exp=[]
    elif tmin==tmax: exp=[tmin]
    else: exp=[tmin,tmax]
    # line lying in a face plane → many pts; skip those
    in_face=any(d[i]==0 and a[i] in (0,4) for i in range(3))
    try: X=cube.intersect(l)
    except Exception as e: chk("cube-line:"+type(e).__name__,lambda:False,info); continue
    chk("cube-line on both",lambda: all(l.contains(Point(np.ravel(x.array))) and inside_cube(np.round(cart(x),9)) for x in X),info)
    if not in_face:
        exppts=[a+float(t)*d for t in exp]
        chk("cube-line pts",lambda: len(X)==len(exppts) and all(any(np.allclose(cart(x),e,atol=1e-7) for x in X) for e in exppts),info+([cart(x).tolist() for x in X],[e.tolist() for e in exppts]))
        exps=[a+float(t)*d for t in exp if 0<=t<=1]
        try: Y=cube.intersect(s)
        except Exception as e: chk("cube-seg:"+type(e).__name__,lambda:False,info); continue
        chk("cube-seg pts",lambda: len(Y)==len(exps) and all(any(np.allclose(cart(x),e,atol=1e-7) for x in Y) for e in exps),info+([cart(x).tolist() for x in Y],[e.tolist() for e in exps]))
    # 3D polygon pierce
    try: X=sq3.intersect(l)
    except Exception as e: chk("poly3-line:"+type(e).__name__,lambda:False,info); continue
    if d[2]==0:
        if a[2]!=2: chk("poly3 parallel none",lambda: X==[],info)
        else: chk("poly3 coplanar ok",lambda: all(sq3.contains(Point(np.ravel(x.array))) and l.contains(Point(np.ravel(x.array))) for x in X),info)
    else:
        t=F(int(2-a[2]),int(d[2])); p=a+float(t)*d
        hit=0<=p[0]<=4 and 0<=p[1]<=4
        chk("poly3 pierce",lambda: (len(X)==1 and np.allclose(cart(X[0]),p,atol=1e-7)) if hit else X==[],info+([cart(x).tolist() for x in X],p.tolist()))
        Y=sq3.intersect(s)
        chk("poly3 seg",lambda: (len(Y)==1 and np.allclose(cart(Y[0]),p,atol=1e-7)) if hit and 0<=t<=1 else Y==[],info)
    # segment-plane
    e=Plane(0,0,1,-2)
    Z=s.intersect(e)
    if d[2]!=0:
        t=F(int(2-a[2]),int(d[2]))
        chk("seg-plane",lambda: (len(Z)==1 and np.allclose(cart(Z[0]),a+float(t)*d)) if 0<=t<=1 else Z==[],info)
for k,v in sorted(fails.items()): print(k,v[:2],v[2] if v[0] else "")
