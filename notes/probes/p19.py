import numpy as np, random, warnings, itertools
from geometer import *
from geometer.base import Tensor, TensorCollection
from geometer.exceptions import *
warnings.simplefilter("ignore")
rng=random.Random(73)
fails={}
def rec(name,info):
    fails.setdefault(name,[0,None]); fails[name][0]+=1
    if fails[name][1] is None: fails[name][1]=info
# getitem
def rand_index(shape):
    idx=[]; used=0; ell=False
    dims=list(shape)
    i=0
    while i<len(dims):
        r=rng.random()
        n=dims[i]
        if r<.2: idx.append(rng.randrange(-n,n)); i+=1
        elif r<.45: idx.append(slice(rng.choice([None,0,1,-1]),rng.choice([None,n,-1,1]),rng.choice([None,1,-1,2]))); i+=1
        elif r<.55: idx.append(None)
        elif r<.65 and not ell: 
            k=rng.randint(0,len(dims)-i); idx.append(Ellipsis); ell=True; i+=k
        elif r<.8: idx.append(np.array([rng.randrange(-n,n) for _ in range(rng.randint(1,3))])); i+=1
        elif r<.9: 
            m=np.array([rng.random()<.6 for _ in range(n)]); idx.append(m); i+=1
        elif r<.95 and i+1<len(dims):
            m=np.array([[rng.random()<.6 for _ in range(dims[i+1])] for _ in range(n)]); idx.append(m); i+=2
        else: idx.append(slice(None)); i+=1
    if rng.random()<.3 and not ell: 
        # truncate
        idx=idx[:rng.randint(0,len(idx))]
    return tuple(idx) if len(idx)!=1 or rng.random()<.5 else idx[0]
def expected_types(types, index, shape):
    # independent derivation using numpy on a label array: build array of axis-id probes
    # technique: for each source axis k, create array A_k of same shape whose value = index along axis k; after indexing, result axis j corresponds to source axis k if values vary only along j ... (works if dim sizes>=2 and selection keeps >=2 distinct) -> fallback: structural
    idx=index if isinstance(index,tuple) else (index,)
    # expand ellipsis
    n_consumed=sum((np.asarray(i).ndim if isinstance(i,np.ndarray) and i.dtype==bool else 1) for i in idx if i is not None and i is not Ellipsis)
    full=[]
    for i in idx:
        if i is Ellipsis: full+= [slice(None)]*(len(shape)-n_consumed)
        else: full.append(i)
    n_consumed2=sum((i.ndim if isinstance(i,np.ndarray) and i.dtype==bool else 1) for i in full if i is not None)
    full+=[slice(None)]*(len(shape)-n_consumed2)
    out=[]; ax=0; adv_pos=[]; adv=[]
    for i in full:
        if i is None: out.append('n')
        elif isinstance(i,slice): out.append(types[ax]); ax+=1
        elif isinstance(i,(int,np.integer)): adv_pos.append(len(out)); adv.append(np.asarray(i)); out.append(('A',)); ax+=1
        elif isinstance(i,np.ndarray) and i.dtype==bool:
            adv_pos.append(len(out)); adv.extend(np.nonzero(i)); out.append(('A',)); ax+=i.ndim
        else: adv_pos.append(len(out)); adv.append(np.asarray(i)); out.append(('A',)); ax+=1
    has_array=any(a.ndim>0 for a in adv)
    if not adv: return out
    bnd=np.broadcast(*adv).ndim if has_array else 0
    if not has_array:
        return [o for o in out if o!=('A',)]
    contiguous = adv_pos==list(range(adv_pos[0],adv_pos[-1]+1))
    rest=[o for o in out if o!=('A',)]
    if contiguous:
        pos=len([o for o in out[:adv_pos[0]] if o!=('A',)])
        return rest[:pos]+['n']*bnd+rest[pos:]
    return ['n']*bnd+rest
tot=0
for it in range(5000):
    rank=rng.randint(1,4); shape=tuple(rng.randint(2,3) for _ in range(rank))
    nfree=rng.randint(0,rank-1) if rank>1 else 0
    types=['f']*nfree+[rng.choice('cC') for _ in range(rank-nfree)]   # c=cov, C=contra
    arr=np.arange(int(np.prod(shape))).reshape(shape)
    t=Tensor(arr,covariant=[i-nfree for i,x in enumerate(types) if x=='c'],tensor_rank=rank-nfree)
    assert [('c' if i in t._covariant_indices else 'C' if i in t._contravariant_indices else 'f') for i in range(rank)]==types
    index=rand_index(shape)
    try: ref=arr[index]
    except IndexError: continue
    tot+=1
    try: got=t[index]
    except Exception as e:
        rec("getitem:"+type(e).__name__,(shape,types,index)); continue
    if isinstance(ref,np.generic) or np.ndim(ref)==0:
        if not (np.asarray(got if not isinstance(got,Tensor) else got.array)==ref).all(): rec("scalar value",(shape,index))
        continue
    if not isinstance(got,Tensor) or got.array.shape!=ref.shape or not np.array_equal(got.array,ref): rec("value",(shape,index)); continue
    exp=expected_types(types,index,shape)
    exp=['f' if e in('n','f') else e for e in exp]
    gott=[('c' if i in got._covariant_indices else 'C' if i in got._contravariant_indices else 'f') for i in range(got.rank)]
    if len(exp)!=ref.ndim: rec("ORACLE BUG",(shape,types,index,exp,ref.shape)); continue
    if gott!=exp: rec("types",(shape,types,index,exp,gott))
print(tot,{k:(v[0],v[1]) for k,v in fails.items()})
print("---- classify failures")
fails.clear()
cls_count={}
for it in range(20000):
    rank=rng.randint(1,4); shape=tuple(rng.randint(2,3) for _ in range(rank))
    nfree=rng.randint(0,rank-1) if rank>1 else 0
    types=['f']*nfree+[rng.choice('cC') for _ in range(rank-nfree)]
    arr=np.arange(int(np.prod(shape))).reshape(shape)
    t=Tensor(arr,covariant=[i-nfree for i,x in enumerate(types) if x=='c'],tensor_rank=rank-nfree)
    index=rand_index(shape)
    idx=index if isinstance(index,tuple) else (index,)
    has_int=any(isinstance(i,(int,np.integer)) for i in idx); has_arr=any(isinstance(i,np.ndarray) for i in idx); n_arr=sum(isinstance(i,np.ndarray) for i in idx)
    has_none=any(i is None for i in idx); has_bool2=any(isinstance(i,np.ndarray) and i.dtype==bool and i.ndim>1 for i in idx)
    has_bool=any(isinstance(i,np.ndarray) and i.dtype==bool for i in idx)
    c=("int+arr" if has_int and has_arr else "arr" if has_arr else "basic")+(f" narr={n_arr}" if n_arr>1 else "")+(" none" if has_none and has_arr else "")+(" bool2d" if has_bool2 else " bool" if has_bool else "")
    try: ref=arr[index]
    except IndexError: continue
    cls_count[c]=cls_count.get(c,0)+1
    try: got=t[index]
    except Exception as e:
        rec(c+" EXC "+type(e).__name__,(shape,types,index)); continue
    if isinstance(ref,np.generic) or np.ndim(ref)==0: continue
    exp=expected_types(types,index,shape); exp=['f' if e in('n','f') else e for e in exp]
    gott=[('c' if i in got._covariant_indices else 'C' if i in got._contravariant_indices else 'f') for i in range(got.rank)]
    if len(exp)!=ref.ndim: rec("ORACLE BUG",(shape,types,index,exp,ref.shape)); continue
    if gott!=exp: rec(c+" types",(shape,types,index,exp,gott))
for k in sorted(cls_count): print(k,cls_count[k],{f:v[0] for f,v in fails.items() if f.startswith(k+" ")})
for k,v in fails.items(): print(k,v)
