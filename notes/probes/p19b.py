import numpy as np, warnings
from geometer import *
from geometer.base import Tensor, TensorCollection
warnings.simplefilter("ignore")
def show(name,f):
    try:
        r=f(); print(name, type(r).__name__, getattr(r,'array',r).tolist() if hasattr(getattr(r,'array',r),'tolist') else r, getattr(r,'tensor_shape',None))
    except Exception as e: print(name,"EXC",type(e).__name__,str(e)[:80])
t=Tensor([[1,2],[3,4]],covariant=[0])
x=np.array([[10,20],[30,40]])
show("t+x",lambda:t+x); show("x+t",lambda:x+t); show("t-x",lambda:t-x); show("x-t",lambda:x-t); show("t*2",lambda:t*2); show("2*t",lambda:2*t); show("t/2",lambda:t/2); show("-t",lambda:-t)
show("np.add(t,x)",lambda:np.add(t,x)); show("np.add(x,t)",lambda:np.add(x,t)); show("np.subtract(t,x)",lambda:np.subtract(t,x)); show("np.subtract(x,t)",lambda:np.subtract(x,t)); show("np.multiply(t,3)",lambda:np.multiply(t,3)); show("np.multiply(3,t)",lambda:np.multiply(3,t)); show("np.negative(t)",lambda:np.negative(t)); show("np.true_divide(t,2)",lambda:np.true_divide(t,2))
show("t+5",lambda:t+5); show("5-t",lambda:5-t); show("t-5",lambda:t-5); show("np.float64(2)*t",lambda:np.float64(2)*t); show("t*np.int64(2)",lambda:t*np.int64(2)); show("t+t",lambda:t+t); show("t-t",lambda:t-t)
p=Point(1,2); q=Point(3,5); d=Point([1,1,0])
show("p+q",lambda:p+q); show("p-q",lambda:p-q); show("p+d",lambda:p+d); show("d+p",lambda:d+p); show("p-d",lambda:p-d); show("d-p",lambda:d-p);show("d+d",lambda:d+d); show("2*p",lambda:2*p); show("p*2",lambda:p*2); show("p/2",lambda:p/2); show("-p",lambda:-p); show("2*d",lambda:2*d)
a=np.array([1,1,0])
show("p+arr",lambda:p+a); show("p-arr",lambda:p-a); show("arr+p",lambda:a+p); show("arr-p",lambda:a-p); show("p+1",lambda:p+1); show("p-1",lambda:p-1)
show("np.add(p,q)",lambda:np.add(p,q)); show("np.subtract(p,q)",lambda:np.subtract(p,q)); show("np.negative(p)",lambda:np.negative(p)); show("np.multiply(2,p)",lambda:np.multiply(2,p))
P=Point(2*p.array)
show("P(2x rep)+q",lambda:P+q); show("P*3", lambda: P*3)
c=Circle(Point(1,1),2); m=np.ones((3,3))
show("c+pt",lambda:(c+p)==Circle(Point(2,3),2)); show("c-pt",lambda:(c-p)==Circle(Point(0,-1),2)); show("c+arr",lambda:(c+m).array-c.array); show("c-arr",lambda:(c-m).array-c.array)
l=Line(1,2,3)
show("l+pt",lambda:l+p); show("l-pt",lambda:l-p); show("l+arr",lambda:l+a);show("l-arr",lambda:l-a)
s=Segment(p,q); show("s+pt",lambda:s+p); show("s-pt",lambda:s-p)
