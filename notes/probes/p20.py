import numpy as np, random, warnings, itertools
from geometer.utils import det, adjugate, inv, null_space, orth, roots, is_multiple, hat_matrix, outer, matmul, matvec
warnings.simplefilter("ignore")
rng=np.random.default_rng(5)
fails={}
def rec(name,info=None):
    fails.setdefault(name,[0,None]); fails[name][0]+=1
    if fails[name][1] is None: fails[name][1]=info
def exact_det(M):
    M=[[int(x) for x in r] for r in M]; n=len(M)
    if n==1: return M[0][0]
    return sum((-1)**j*M[0][j]*exact_det([r[:j]+r[j+1:] for r in M[1:]]) for j in range(n))
for n in (2,3,4,5):
    for batch in [(),(1,),(3,),(63,),(64,),(65,),(8,8),(2,40)]:
        for kind in ('int','float','complex'):
            A=rng.integers(-4,5,size=batch+(n,n))
            if kind=='float': A=A+rng.integers(-4,5,size=A.shape)/8
            if kind=='complex': A=A+1j*rng.integers(-4,5,size=A.shape)
            try:
                d=det(A); ref=np.linalg.det(A.astype(complex if kind=='complex' else float))
                if d.shape!=batch or not np.allclose(d,ref,atol=1e-8): rec("det",(n,batch,kind))
            except Exception as e: rec("det EXC "+type(e).__name__,(n,batch,kind))
            try:
                adj=adjugate(A)
                I=np.eye(n)
                if adj.shape!=A.shape or not np.allclose(A@adj,np.asarray(det(A))[...,None,None]*I,atol=1e-7): rec("adjugate",(n,batch,kind))
            except Exception as e: rec("adj EXC "+type(e).__name__,(n,batch,kind,str(e)[:60]))
            try:
                ok=np.abs(np.linalg.det(A.astype(complex)))>0.1
                if np.all(ok):
                    iv=inv(A)
                    if not np.allclose(A@iv,np.eye(n),atol=1e-7): rec("inv",(n,batch,kind))
            except Exception as e: rec("inv EXC "+type(e).__name__,(n,batch,kind,str(e)[:60]))
# adjugate must not modify input
A=rng.integers(-4,5,size=(70,3,3)); B=A.copy(); adjugate(A); 
if not np.array_equal(A,B): rec("adjugate mutates")
A=rng.integers(-4,5,size=(2,2)); B=A.copy(); adjugate(A)
if not np.array_equal(A,B): rec("adjugate2 mutates")
# singular adjugate
A=np.array([[1,2,3],[2,4,6],[1,0,1]]); 
if not np.allclose(A@adjugate(A),0): rec("adj singular")
# null_space / orth
for it in range(300):
    m,n=rng.integers(1,5),rng.integers(2,6); r=rng.integers(0,min(m,n)+1)
    A=rng.integers(-3,4,size=(m,r))@rng.integers(-3,4,size=(r,n)) if r>0 else np.zeros((m,n),int)
    r=np.linalg.matrix_rank(A)
    N=null_space(A); 
    if N.shape!=(n,n-r) or not np.allclose(A@N,0,atol=1e-9) or not np.allclose(N.conj().T@N,np.eye(n-r),atol=1e-9): rec("null_space",(A.tolist(),N.shape,r))
    O=orth(A)
    if O.shape!=(m,r) or not np.allclose(O.conj().T@O,np.eye(r),atol=1e-9) or (r>0 and np.linalg.matrix_rank(np.concatenate([O,A],axis=1),tol=1e-8)!=r): rec("orth",(A.tolist(),O.shape,r))
# roots
import random
R=random.Random(3)
for it in range(3000):
    deg=R.choice([1,2,3,3,3])
    rts=[R.randint(-3,3) for _ in range(deg)]
    if R.random()<.3 and deg>=2: rts=[complex(rts[0],R.randint(1,3)),complex(rts[0],0)]+rts[2:]; rts[1]=rts[0].conjugate()
    lead=R.choice([1,2,-1,3])
    p=np.real_if_close(lead*np.poly(rts))
    try: got=roots(p)
    except Exception as e: rec("roots EXC "+type(e).__name__,(p.tolist(),)); continue
    ok=all(any(abs(g-r)<1e-4 for g in got) for r in rts) and all(any(abs(g-r)<1e-4 for r in rts) for g in got)
    if not ok:
        mult=max(rts.count(r) for r in rts)
        rec(f"roots deg{deg} maxmult{mult}",(p.tolist(),rts,got.tolist()))
# is_multiple
for it in range(3000):
    n=R.randint(1,5); a=np.array([R.randint(-5,5) for _ in range(n)]); 
    c=R.choice([2,-3,0.5,-1,7]); b=a*c
    if not is_multiple(a,b) or not is_multiple(b,a): rec("is_multiple true",(a.tolist(),c))
    b2=np.array([R.randint(-5,5) for _ in range(n)])
    exact=all(a[i]*b2[j]==a[j]*b2[i] for i in range(n) for j in range(n))
    if bool(is_multiple(a,b2))!=exact or bool(is_multiple(b2,a))!=exact: rec("is_multiple exact",(a.tolist(),b2.tolist(),exact,bool(is_multiple(a,b2)),bool(is_multiple(b2,a))))
# hat
for it in range(100):
    x=rng.integers(-5,6,size=3); v=rng.integers(-5,6,size=3)
    if not np.array_equal(hat_matrix(x)@v,np.cross(v,x)) or not np.array_equal(hat_matrix(*x),hat_matrix(x)): rec("hat3")
    x=rng.integers(-5,6,size=(4,3))
    if not all(np.array_equal(hat_matrix(x)[i],hat_matrix(x[i])) for i in range(4)): rec("hat batch")
    x=rng.integers(-5,6,size=6); H=hat_matrix(x)
    if H.shape!=(4,4) or not np.array_equal(H,-H.T) or sorted(H[np.triu_indices(4,1)].tolist())!=sorted(x.tolist()): rec("hat4")
print(fails)
