#!/venv/bin/python
"""Systematic memoisation mutants: every `@property` of geometer/{point,shapes,curve,transformation,base}.py is turned into a
`functools.cached_property`, one at a time, in a scratch copy under /tmp (removed afterwards). Tensor.copy() copies the
instance __dict__, so a memoised value survives `t * x`, `x + p`, indexing by copy ... and becomes stale. For each mutant:
repository tests, then the quick checks of the properties that observe that file. Results: notes/cache_mutants.json.

  tools/cachemut.py [substring filter]
"""
import json
import os
import re
import shutil
import subprocess
import sys
from concurrent.futures import ThreadPoolExecutor

HERE = os.path.dirname(os.path.dirname(os.path.abspath(__file__)))
SCRATCH = "/tmp/geometer-cachemut"
CHECKS = {
    "point.py": ["C01", "C07", "C09", "C10", "C12"],
    "shapes.py": ["C06", "C07", "C09", "C12", "C16", "C17", "C18"],
    "curve.py": ["C07", "C12", "C13", "C14", "C15"],
    "transformation.py": ["C06", "C07", "C08", "C12"],
    "base.py": ["C04", "C05", "C12", "C19"],
}


def run(cmd, env=None, cwd=None):
    p = subprocess.run(cmd, shell=True, env=env, cwd=cwd, capture_output=True, text=True)
    return p.returncode, p.stdout + p.stderr


def sites():
    out = []
    for fn in CHECKS:
        lines = open(os.path.join("/repo/geometer", fn)).read().split("\n")
        cls = None
        for i, l in enumerate(lines):
            m = re.match(r"class (\w+)", l)
            if m:
                cls = m.group(1)
            if l.strip() == "@property" and i + 1 < len(lines):
                m = re.match(r"\s+def (\w+)\(self\)", lines[i + 1])
                body = "\n".join(lines[i + 1 : i + 12])
                if m and "abstractmethod" not in lines[i - 1] and "NotImplementedError" not in body:
                    out.append((fn, i, cls, m.group(1)))
    return out


def one(site):
    fn, line, cls, name = site
    mid = f"{fn[:-3]}.{cls}.{name}"
    src = os.path.join(SCRATCH, mid)
    shutil.rmtree(src, ignore_errors=True)
    os.makedirs(src)
    shutil.copytree("/repo/geometer", os.path.join(src, "geometer"), ignore=shutil.ignore_patterns("__pycache__"))
    shutil.copytree("/repo/tests", os.path.join(src, "tests"), ignore=shutil.ignore_patterns("__pycache__"))
    p = os.path.join(src, "geometer", fn)
    lines = open(p).read().split("\n")
    lines[line] = lines[line].replace("@property", "@__import__('functools').cached_property")
    open(p, "w").write("\n".join(lines))
    env = dict(os.environ, PYTHONPATH=src, PYTHONDONTWRITEBYTECODE="1")
    rc, log = run("/venv/bin/python -m pytest -q -x -p no:cacheprovider tests 2>&1 | tail -1", env=env, cwd=src)
    res = {"file": fn, "class": cls, "property": name, "tests": log.strip().splitlines()[-1] if log.strip() else "", "checks": {}}
    res["tests_pass"] = "126 passed" in res["tests"]
    only = os.environ.get("CACHEMUT_CHECKS")
    for pid in (only.split(",") if only else CHECKS[fn]):
        env2 = dict(os.environ, VERIF_GEOMETER_SRC=src, VERIF_OUT_DIR=os.path.join(SCRATCH, "out-" + mid), VERIF_JOBS="4")
        rc, log = run(f"{HERE}/check {pid} --tier quick", env=env2, cwd=HERE)
        b = [l.strip()[:140] for l in log.splitlines() if l.startswith("  bucket")][:1]
        res["checks"][pid] = {"exit": rc, "killed": rc == 1, "bucket": b}
    shutil.rmtree(src, ignore_errors=True)
    shutil.rmtree(os.path.join(SCRATCH, "out-" + mid), ignore_errors=True)
    print(mid, "tests:", "pass" if res["tests_pass"] else "FAIL", {k: ("K" if v["killed"] else f"s{v['exit']}") for k, v in res["checks"].items()}, flush=True)
    return mid, res


def main():
    flt = sys.argv[1] if len(sys.argv) > 1 else ""
    todo = [s for s in sites() if flt in f"{s[0][:-3]}.{s[2]}.{s[3]}"]
    print(len(todo), "sites", flush=True)
    path = os.path.join(HERE, "notes", "cache_mutants.json")
    out = json.load(open(path)) if os.path.exists(path) else {}
    with ThreadPoolExecutor(4) as ex:
        for mid, res in ex.map(one, todo):
            if mid in out and os.environ.get("CACHEMUT_CHECKS"):
                out[mid]["checks"].update(res["checks"])  # re-run of selected checks: merge
            else:
                out[mid] = res
            json.dump(out, open(path, "w"), indent=1)
    shutil.rmtree(SCRATCH, ignore_errors=True)
    alive = [k for k, v in out.items() if v["tests_pass"] and not any(c["killed"] for c in v["checks"].values())]
    print("survivors (tests pass, no check fails):", alive)


if __name__ == "__main__":
    main()
