#!/venv/bin/python
"""Prints the complete list of laws per property (name, quick / thorough budget, stated rule) as markdown; used for DESIGN.md section 4."""
import importlib
import os
import sys

HERE = os.path.dirname(os.path.dirname(os.path.abspath(__file__)))
sys.path.insert(0, HERE)
out = ["| property | law | budget quick / thorough | what is generated and compared |", "|---|---|---|---|"]
n = 0
for i in range(1, 21):
    mod = importlib.import_module(f"vp.props.c{i:02d}")
    for law in mod.LAWS:
        kind = "enumerated" if law.enumerate is not None else ("machine / driver" if law.drive is not None else "generated")
        b = law.budget
        bud = f"{b.get('quick', '-')} / {b.get('thorough', '-')}" if kind != "enumerated" else "all / all (sharded)"
        rule = (law.rule or "").replace("|", "/").strip()
        out.append(f"| C{i:02d} | `{law.name}` ({kind}) | {bud} | {rule[:260]} |")
        n += 1
print("\n".join(out))
print(f"\n{n} laws in total.")
