#!/usr/bin/env python3
"""Regenerates MANIFEST.json from the per-property table below (claimed = module vp/props/cNN.py exists)."""
import json
import os

HERE = os.path.dirname(os.path.dirname(os.path.abspath(__file__)))
BASELINE = ("cd /repo && /venv/bin/python -m pytest -ra -q -p no:cacheprovider --timeout=900 "
            "--continue-on-collection-errors --junitxml=/tmp/geometer-baseline.junit.xml")
TB = ("Trusted base: CPython 3.12, numpy 1.26, Hypothesis 6.168 (seeded by VERIF_SEED, database=None), the exact "
      "Fraction/Gaussian-rational oracles in vp/exact.py and the tolerance policy of DESIGN.md 3.3 (projective equality "
      "over C after dividing by the largest entry, abs tol 1e-9 for integer pipelines, 1e-6 behind SVD/QR/sqrt). "
      "Only the generated domain is covered; inputs within 1e-6 of a degeneracy but not exactly on it are not generated.")
P = {
 "C01": ("generated integer/Gaussian-integer configurations (int / float / single precision / complex dtypes, collections of different rank and magnitude) vs exact rational span/intersection; permutation, round-trip and normalisation metamorphic relations", "4 C01"),
 "C02": ("exhaustive {-1,0,1} lattice enumeration + generated constructed degeneracies vs exact rank classification", "4 C02"),
 "C03": ("metamorphic: rescale one argument's homogeneous representative, compare results of ~every public operation; conic constructors on lattice data with every argument rescaled", "4 C03"),
 "C04": ("differential: collection call vs element-wise single calls over generated shapes and broadcasts", "4 C04"),
 "C05": ("model-based: generated tensor-diagram programs (incl. narrow integer types) vs a reference index-bookkeeping model evaluated by explicit einsum/loops in exact integers; exhaustive epsilon/delta tables and epsilon-epsilon contractions", "4 C05"),
 "C06": ("generated invertible integer matrices, exponents and application histories on every object kind; group laws; collections of up to 70 integer-typed matrices vs element-wise results", "4 C06"),
 "C07": ("metamorphic: conjugation of incidence/join/meet/tangency/cross-ratio configurations by generated non-affine (also complex) maps, single objects and collections with up to three axes under collections of maps", "4 C07"),
 "C08": ("generated parameters vs Cartesian closed forms of the constructors; frame mapping round-trips", "4 C08"),
 "C09": ("generated finite objects vs Euclidean closed forms; symmetry and isometry metamorphic relations", "4 C09"),
 "C10": ("generated lines/planes/points incl. exactly-incident and complex ones vs Cartesian definitions and exact predicates; collections of up to 70 elements and of subspaces in different special positions", "4 C10"),
 "C11": ("generated parameters on a line/pencil vs exact Fraction cross ratio; symmetry and invariance relations", "4 C11"),
 "C12": ("stateful rule-based machine over a shared object pool with deep snapshots, re-asked queries and history-free clones; enumerated query-derive-query triples; generated query sequences over the process-wide epsilon/delta tables; operand arrays of the numeric kernels; constructors must not alias their sources", "4 C12"),
 "C13": ("generated defining data vs parametrised Cartesian loci and textbook measures", "4 C13"),
 "C14": ("generated quadrics with exact rational points, secant/tangent/missing lines vs exact restriction roots; pole/polar/dual relations; circles / cones of radius 1/16 ... 5; collections mixing reducible and irreducible quadrics vs single calls", "4 C14"),
 "C15": ("exhaustive lattice of line pairs + generated plane pairs/pencils with planted repeated roots vs the generating pair / exact common points", "4 C15"),
 "C16": ("generated simple lattice polygons x exhaustive bounding-box query grid vs exact closed point-in-polygon", "4 C16"),
 "C17": ("generated polytopes under isometries vs shoelace/determinant closed forms; vertex-order metamorphic relations", "4 C17"),
 "C18": ("generated lattice operands incl. touching/parallel/coplanar vs exact Fraction intersection sets; collections mixing crossing, touching, parallel and in-plane members", "4 C18"),
 "C19": ("differential vs numpy: generated operand pairings and index-expression grammar with a structural index-type model", "4 C19"),
 "C20": ("differential vs exact integer linear algebra across batch thresholds; planted-root polynomials", "4 C20"),
}
checks, na = [], []
for pid, (tech, ref) in sorted(P.items()):
    if os.path.exists(os.path.join(HERE, "vp", "props", pid.lower() + ".py")):
        checks.append({
            "property_id": pid,
            "quick_cmd": f"./check {pid} --tier quick",
            "thorough_cmd": f"./check {pid} --tier thorough",
            "evidence_file": f"/verif/evidence/{pid}.json",
            "replay_cmd_template": f"./check {pid} --replay {{path}}",
            "engine": "vp",
            "level_claimed": {
                "category": "exploration",
                "text": "Property-based search: every law of the property is run on thousands of generated (and, where finite, "
                        "exhaustively enumerated) exactly-representable inputs against an oracle that shares no code with geometer. "
                        "Exploration is the right level because the property quantifies over an infinite input space of a numeric "
                        "library; no absence claim is made outside the generated domain.",
                "design_ref": f"DESIGN.md section {ref}",
            },
            "level_note": TB,
            "technique": "property-based testing (Hypothesis): " + tech,
        })
    else:
        na.append({"property_id": pid, "reason": "check not built yet at this commit (implementation in progress; the technique applies, see DESIGN.md section " + ref + ")"})
m = {
    "version": 1,
    "setup_cmd": "/venv/bin/python -c 'import hypothesis' 2>/dev/null || /venv/bin/pip install --no-index --find-links /opt/veriftools/wheels hypothesis; /venv/bin/python -c 'import geometer, hypothesis, numpy; print(geometer.__file__, hypothesis.__version__, numpy.__version__)'",
    "hooks": {"guard": "GEOMETER_VERIF", "enable": "no source hooks are needed: checks import /repo's working tree through the editable install in /venv and observe through the public API and private attributes", "baseline_off_cmd": BASELINE, "source_commits": [], "add_only": True},
    "engines": [{"name": "vp", "path": "/verif/vp", "serves_properties": [c["property_id"] for c in checks], "kind_free_text": "Hypothesis-driven law runner with collect-and-bucket search, ledger of known findings, greedy case reduction and replay"}],
    "checks": checks,
    "notes": "Entry point ./check <ID> [--tier quick|thorough] [--replay FILE]; VERIF_SEED selects the Hypothesis seed; exit 0 held / 1 VIOLATION / 2 harness error. known_findings.json is the committed ledger.",
    "not_applicable": na,
}
json.dump(m, open(os.path.join(HERE, "MANIFEST.json"), "w"), indent=1)
print(len(checks), "claimed;", len(na), "not yet")
