#!/venv/bin/python
"""Sensitivity experiment: apply hand-written mutants (one replacement each) to a scratch copy of /repo, make sure the
repository's own tests still pass, and run the quick checks of the affected properties against the scratch copy.

  tools/mutants.py [ID ...]        # default: all;  results are appended to notes/mutants_result.json

Nothing is written to /repo; scratch copies live under /tmp/geometer-mut and are removed afterwards.
"""
import json
import os
import shutil
import subprocess
import sys
import time

HERE = os.path.dirname(os.path.dirname(os.path.abspath(__file__)))
SCRATCH = "/tmp/geometer-mut"

# (id, properties expected to notice, file, old, new)
M = [
    ("m01a", ["C01"], "point.py", "        ie -= power\n", "        ie -= power + 1\n"),
    ("m01b", ["C01"], "point.py", "                        result = Tensor(array[i[0], ...], covariant=False, copy=False)", "                        result = Tensor(array[i[1], ...], covariant=False, copy=False)"),
    ("m01c", ["C05"], "base.py", "            diff = indices[j] - indices[i]\n", "            diff = indices[i] - indices[j]\n"),
    ("m01d", ["C01"], "point.py", "                    i = tuple(np.reshape(x, array.shape[: coplanar.ndim]) for x in i)\n", "                    i = tuple(np.reshape(x[::-1], array.shape[: coplanar.ndim]) for x in i)\n"),
    ("m02a", ["C02"], "point.py", '            raise LinearDependenceError("Some arguments are not linearly independent.", is_zero)', '            raise LinearDependenceError("Some arguments are not linearly independent.", ~is_zero)'),
    ("m02c", ["C02"], "point.py", "            elif intersect_lines or n == 4:\n", "            elif intersect_lines:\n"),
    ("m02d", ["C02"], "point.py", "        d = TensorDiagram(*[(e, self)] * (self.dim - 1), *[(e, other)] * (self.dim - 1))", "        d = TensorDiagram(*[(e, self)] * (self.dim - 1), *[(e, self)] * (self.dim - 1))"),
    ("m02e", ["C02"], "base.py", "        return np.all(np.isclose(self.array, 0, atol=tol), axis=axes)", "        return np.all(np.isclose(self.array, 0, atol=tol), axis=axes) & np.any(np.isclose(self.array, 0, atol=tol) | True, axis=axes) if self.free_indices == 0 else np.all(np.isclose(self.array, 0, atol=tol))"),
    ("m03a", ["C03", "C19"], "point.py", "            return super().__add__(other)\n        a, b = self.normalized_array, other.normalized_array\n        result = a[..., :-1] + b[..., :-1]", "            return super().__add__(other)\n        a, b = self.array, other.array\n        result = a[..., :-1] + b[..., :-1]"),
    ("m03b", ["C03", "C17"], "shapes.py", "        points = self._normalize_array(points)\n", "        points = points * 1.0\n"),
    ("m03c", ["C03", "C08"], "transformation.py", "    return affine_transform(offset=offset.normalized_array[:-1])", "    return affine_transform(offset=offset.array[:-1])"),
    ("m03d", ["C03", "C17"], "shapes.py", "        points = self.normalized_array\n        centroids", "        points = self.array\n        centroids"),
    ("m04a", ["C04"], "base.py", "                free_ind = list(reversed(range(node.free_indices)))\n", "                free_ind = list(range(node.free_indices))\n"),
    ("m04c", ["C04"], "point.py", "        i = np.argmax(np.abs(self.array) > EQ_TOL_ABS, axis=-1, keepdims=True)\n", "        i = np.argmax(np.abs(self.array) > EQ_TOL_ABS, axis=-1, keepdims=True)\n        i = np.broadcast_to(i.reshape(-1)[:1], i.shape).copy()\n"),
    ("m04d", ["C04"], "base.py", "        return self._element_class(result, copy=False)\n\n    def __len__", "        return result\n\n    def __len__"),
    ("m05a", ["C05"], "base.py", "        j = free_target.pop(0)\n", "        j = free_target.pop()\n"),
    ("m05b", ["C05"], "base.py", "            indices[max(i, j)] = min(i, j)\n", "            indices[j] = i\n"),
    ("m05c", ["C05"], "base.py", "                    (-1) ** (p + k + 1)\n", "                    (-1) ** (p + k)\n"),
    ("m05d", ["C05"], "base.py", "            if node is source:\n", "            if node == source:\n"),
    ("m06a", ["C06", "C07"], "base.py", "        edges: list[tuple[Tensor, Tensor]] = [(self, transformation.copy()) for _ in range(ts[0])]\n        if ts[1] > 0:\n            inv = transformation.inverse()\n", "        edges: list[tuple[Tensor, Tensor]] = [(self, transformation.copy()) for _ in range(ts[0])]\n        if ts[1] > 0:\n            inv = transformation.inverse().inverse().T if False else transformation.T\n"),
    ("m06b", ["C06"], "transformation.py", "        return TransformationCollection.from_array(matmul(transformation.array, self.array))", "        return TransformationCollection.from_array(matmul(self.array, transformation.array))"),
    ("m06d", ["C06", "C07"], "shapes.py", "        result._line = transformation.apply(result._line)\n", "        pass\n"),
    ("m07a", ["C06", "C07"], "shapes.py", "        if result.dim > 2:\n            result._plane = join(*result.vertices[: result.dim])\n        return result", "        return result"),
    ("m08b", ["C08"], "transformation.py", "    return translation(x) * p * translation(-x)", "    return translation(-x) * p * translation(x)"),
    ("m08c", ["C08"], "transformation.py", "        t1 = m1.dot(np.diag(d1))\n        t2 = m2.dot(np.diag(d2))", "        t1 = m1.dot(np.diag(d2))\n        t2 = m2.dot(np.diag(d1))"),
    ("m08d", ["C08"], "transformation.py", "    return affine_transform(np.diag(factors))", "    return affine_transform(np.diag(np.abs(factors)))"),
    ("m08e", ["C08"], "transformation.py", "    result = np.cos(angle) * np.eye(dimension) + np.sin(angle) * u + (1 - np.cos(angle)) * v", "    result = np.cos(angle) * np.eye(dimension) + np.sin(angle) * u + (1 - np.cos(angle)) * v * np.sign(a[0] + 0.5)"),
    ("m09a", ["C09"], "operators.py", "        return 4 * np.abs(np.sqrt(pqi * pqj) / (pij * qij))", "        return 4 * np.real(np.sqrt(pqi * pqj) / (pij * qij))"),
    ("m09b", ["C09"], "operators.py", "        return np.where(p.contains(r), dist(r, q), result)\n    if isinstance(p, PointTensor) and isinstance(q, PolygonTensor):", "        return np.where(p.contains(r), result, dist(r, q))\n    if isinstance(p, PointTensor) and isinstance(q, PolygonTensor):"),
    ("m09c", ["C09"], "operators.py", "    if isinstance(p, SubspaceTensor) and isinstance(q, PointTensor):\n        return dist(p.project(q), q)", "    if isinstance(p, SubspaceTensor) and isinstance(q, PointTensor):\n        return dist(p.project(q), q) if p.dim == 2 or not isinstance(p, LineTensor) else dist(p.base_point, q)"),
    ("m10a", ["C10"], "point.py", "        m1 = join(p1, J, _normalize_result=False)\n        m2 = join(p2, I, _normalize_result=False)", "        m1 = join(p1, I, _normalize_result=False)\n        m2 = join(p2, J, _normalize_result=False)"),
    ("m10b", ["C10"], "point.py", "        p = PointCollection.from_array(np.append(p, np.zeros(p.shape[:-1] + (1,), dtype=p.dtype), axis=-1))\n        return through.join(p)", "        p = PointCollection.from_array(np.append(p, self.array[..., -1:] * 0 + (self.array[..., -1:] == 0), axis=-1))\n        return through.join(p)"),
    ("m10c", ["C10"], "point.py", "        result[z_zero, 2] = 1\n", "        result[y_zero, 2] = 1\n"),
    ("m10d", ["C10"], "point.py", "        for i in range(n):\n            p[ind, -i - 1] = 1", "        for i in range(n - 1):\n            p[ind, -i - 1] = 1"),
    ("m11a", ["C11", "C07"], "operators.py", "    ad = det(np.stack([*o, a, d], axis=-2))", "    ad = det(np.stack([*o, d, a], axis=-2))"),
    ("m11b", ["C11"], "operators.py", "    result = l.meet(join(meet(o.join(a), p.join(b)), meet(o.join(b), p.join(a))))", "    result = l.meet(join(meet(o.join(a), p.join(b)), meet(o.join(b), p.join(b))))"),
    ("m12a", ["C12"], "point.py", "        result = array.astype(dtype)\n", "        result = array if array.dtype == dtype else array.astype(dtype)\n"),
    ("m12b", ["C12"], "curve.py", "        m = outer(g.array, h.array)\n        m += m.T\n        return Conic(m, normalize_matrix=True)", "        m = outer(g.array, h.array)\n        m += m.T\n        g.array = g.array / np.max(np.abs(g.array))\n        return Conic(m, normalize_matrix=True)"),
    ("m12c", ["C12"], "operators.py", "    o = l.general_point\n    n = l.dim + 1\n", "    o = l.general_point\n    n = l.dim + 1\n    J.array[2] += 1e-13\n"),
    ("m13a", ["C13"], "curve.py", "        r = np.array([vradius**2, hradius**2, 1])", "        r = np.array([hradius**2, vradius**2, 1])"),
    ("m13c", ["C13"], "curve.py", "        m = ace * bde * outer(np.cross(a, d), np.cross(b, c)) - ade * bce * outer(np.cross(a, c), np.cross(b, d))", "        m = ade * bce * outer(np.cross(a, d), np.cross(b, c)) - ace * bde * outer(np.cross(a, c), np.cross(b, d))"),
    ("m13d", ["C13"], "curve.py", "        return n * self._alpha(n) * self.radius ** (n - 1)", "        return n * self._alpha(n) * self.radius ** (n - 1) * (1 if n == 3 else 0.5)"),
    ("m14a", ["C14"], "curve.py", "                b = matmul(matmul(m, self.array, transpose_a=True), m)", "                b = matmul(matmul(m, self.array), m)"),
    ("m14b", ["C14"], "curve.py", "        if p.free_indices == 0 and p == q:\n            return [p]\n", ""),
    ("m14c", ["C14"], "curve.py", "        return Line(self.array.dot(pt.array), copy=False)", "        return Line(self.array.T.dot(pt.array) if np.allclose(self.array, self.array.T) else pt.array, copy=False)"),
    ("m15a", ["C15"], "curve.py", '            raise NotReducible("Quadric has no decomposition in 2 components.")', "            pass"),
    ("m15b", ["C15"], "curve.py", "            result += [x for x in self.intersect(h) if x not in result]", "            result += self.intersect(h)"),
    ("m15c", ["C15", "C20"], "utils/math.py", "        x = -np.cbrt(d / a)\n", "        x = np.cbrt(d / a)\n"),
    ("m16a", ["C16"], "shapes.py", "        return result & (~x_zero | ~y_zero) & (0 <= x + tol) & (x <= y + tol)", "        return result & (~x_zero | ~y_zero) & (0 < x - tol) & (x < y - tol)"),
    ("m16b", ["C16"], "shapes.py", "        result |= np.any(edge_points, axis=-1)\n", ""),
    ("m16c", ["C16"], "shapes.py", "        v1_intersections = (y1 <= y2) & is_multiple(", "        v1_intersections = (y1 < y2) & is_multiple("),
    ("m16d", ["C16"], "shapes.py", "        return np.all(lambdas >= -EQ_TOL_ABS, axis=-1) & ~other.isinf", "        return np.all(lambdas > EQ_TOL_ABS, axis=-1) & ~other.isinf"),
    ("m17a", ["C17"], "shapes.py", "        return 1 / 2 * np.abs(a)", "        return 1 / 2 * a"),
    ("m17b", ["C17"], "shapes.py", "        weights = [det(self._normalized_projection()[[0, i, i + 1]]) / 2 for i in range(1, points.shape[0] - 1)]", "        weights = [abs(det(self._normalized_projection()[[0, i, i + 1]])) / 2 for i in range(1, points.shape[0] - 1)]"),
    ("m17c", ["C17"], "shapes.py", "            if np.all(\n                is_multiple(self.array, np.roll(reversed_array, i, axis=-2), axis=-1, rtol=EQ_TOL_REL, atol=EQ_TOL_ABS)\n            ):\n                return True\n", ""),
    ("m18a", ["C18"], "shapes.py", "            ind = ~result.is_zero() & self.contains(result) & other.contains(result)", "            ind = ~result.is_zero() & self.contains(result)"),
    ("m18b", ["C18"], "shapes.py", "        return list(distinct(self.faces.intersect(other)))", "        return list(self.faces.intersect(other))"),
    ("m18c", ["C18"], "shapes.py", "                return list(result[self.contains(result) & other.contains(result)])", "                return list(result[self.contains(result)])"),
    ("m19a", ["C19"], "base.py", "        result._covariant_indices = {i + 1 if i >= axis else i for i in self._covariant_indices}", "        result._covariant_indices = {i + 1 if i > axis else i for i in self._covariant_indices}"),
    ("m19b", ["C19"], "base.py", "        advanced_indexing = any(s is not None and len(s) > 0 for s in shapes)", "        advanced_indexing = any(s is not None and len(s) > 1 for s in shapes)"),
    ("m19c", ["C19"], "base.py", "        return self._elementwise_result(other - self.array)  # type: ignore[operator]", "        return self._elementwise_result(self.array - other)  # type: ignore[operator]"),
    ("m19d", ["C19"], "base.py", "            for ind in range(len(perm)):\n                i, j = perm[ind], perm[(ind + 1) % len(perm)]\n                a[i] = j\n            perm = a", "            for ind in range(len(perm)):\n                i, j = perm[ind], perm[(ind + 1) % len(perm)]\n                a[i] = j\n            perm = a\n            perm[0], perm[0] = perm[0], perm[0]\n            self = Tensor(self.array, covariant=list(self._contravariant_indices))"),
    ("m20a", ["C20"], "utils/math.py", "            - A[..., 2, 1] * A[..., 1, 2] * A[..., 0, 0]\n", "            + A[..., 2, 1] * A[..., 1, 2] * A[..., 0, 0]\n"),
    ("m20b", ["C20"], "utils/math.py", "        result[..., ::2, 1::2] *= -1\n        return result", "        result[..., 1::2, 1::2] *= -1\n        return result"),
    ("m20c", ["C20"], "utils/math.py", "    if n <= 4 and A.size >= n * n * 64:\n        d = det(A)", "    if n <= 4 and A.size >= n * n * 64:\n        A = A.T if A.ndim == 2 else A\n        d = det(A) * (1 if n < 4 else 1.0000001)"),
    ("m20d", ["C20", "C03"], "utils/math.py", "    return (nonzero_multiple & zeros_equal) | all_zero", "    return nonzero_multiple | all_zero"),
    ("m20e", ["C20"], "utils/math.py", "        i, j = [1, 2, 0], [2, 0, 1]\n", "        i, j = [2, 0, 1], [1, 2, 0]\n"),
    ("m20f", ["C20"], "utils/math.py", "        tol = max(A.shape[-2:]) * np.spacing(np.max(s, axis=-1, keepdims=True))\n        dims = np.sum(s > tol, axis=-1, dtype=int)\n        if not np.all(dims == dims.flat[0]):\n            raise ValueError(\"Cannot calculate the null spaces", "        tol = 1e-3 * np.max(s, axis=-1, keepdims=True)\n        dims = np.sum(s > tol, axis=-1, dtype=int)\n        if not np.all(dims == dims.flat[0]):\n            raise ValueError(\"Cannot calculate the null spaces"),
]


def run(cmd, env=None, cwd=None, timeout=1800):
    p = subprocess.run(cmd, shell=True, env=env, cwd=cwd, capture_output=True, text=True, timeout=timeout)
    return p.returncode, p.stdout + p.stderr


def main():
    want = set(sys.argv[1:])
    out_path = os.path.join(HERE, "notes", "mutants_result.json")
    results = json.load(open(out_path)) if os.path.exists(out_path) else {}
    for mid, props, fname, old, new in M:
        if want and mid not in want:
            continue
        d = os.path.join(SCRATCH, mid)
        shutil.rmtree(d, ignore_errors=True)
        os.makedirs(d)
        run(f"cp -r /repo/geometer /repo/tests /repo/pyproject.toml {d}/")
        path = os.path.join(d, "geometer", fname)
        src = open(path).read()
        if src.count(old) != 1:
            results[mid] = {"status": f"pattern found {src.count(old)} times", "props": props}
            print(mid, results[mid]["status"])
            shutil.rmtree(d, ignore_errors=True)
            continue
        open(path, "w").write(src.replace(old, new))
        env = dict(os.environ, PYTHONPATH=d, PYTHONDONTWRITEBYTECODE="1")
        rc, log = run("/venv/bin/python -m pytest -q -p no:cacheprovider -x 2>&1 | tail -3", env=env, cwd=d)
        tests_pass = "126 passed" in log
        rec = {"props": props, "file": fname, "tests_pass": tests_pass, "checks": {}}
        env2 = dict(os.environ, VERIF_GEOMETER_SRC=d, VERIF_OUT_DIR=os.path.join(d, "out"), VERIF_JOBS=os.environ.get("VERIF_JOBS", "8"))
        for pid in props:
            t0 = time.time()
            rc, log = run(f"{HERE}/check {pid} --tier quick", env=env2, cwd=HERE)
            viol = [l for l in log.splitlines() if l.startswith("  bucket")]
            rec["checks"][pid] = {"exit": rc, "killed": rc == 1, "wall_s": round(time.time() - t0, 1), "buckets": [v.strip()[:160] for v in viol[:4]]}
        results[mid] = rec
        print(mid, "tests_pass" if tests_pass else "TESTS-FAIL", {p: ("KILLED" if c["killed"] else f"survived(rc={c['exit']})") for p, c in rec["checks"].items()}, flush=True)
        shutil.rmtree(d, ignore_errors=True)
        json.dump(results, open(out_path, "w"), indent=1)
    shutil.rmtree(SCRATCH, ignore_errors=True)


if __name__ == "__main__":
    main()
