#!/bin/sh
# run the repository's pinned test suite (guard off)
cd /repo && /venv/bin/python -m pytest -q -p no:cacheprovider --timeout=900 -x -n 8 2>&1 | tail -3
