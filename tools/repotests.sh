#!/bin/sh
# run the repository's pinned test suite exactly like the baseline (sequential: the session-scoped rng fixture makes
# test_roots depend on test order, so xdist would randomise it); exit status of pytest
cd /repo && /venv/bin/python -m pytest -q -p no:cacheprovider --timeout=900 > /tmp/repotests.log 2>&1
rc=$?
tail -2 /tmp/repotests.log
exit $rc
