#!/venv/bin/python
"""Regression of the sensitivity experiments: applies every seeded/<name>/patch.diff to a scratch copy of the current
/repo sources (under /tmp, removed afterwards), runs the quick check of the property it breaks against that copy
(VERIF_GEOMETER_SRC) and records whether it is (still) detected in notes/seeded_regression.json.

  tools/reseed.py [name ...]        (default: all)

Patches were written against the /repo HEAD of their round; later "fix:" commits may touch the same lines, in which case
the patch is applied with fuzz or reported as "does not apply". /repo itself is never modified.
"""
import glob
import json
import os
import shutil
import subprocess
import sys
import time
from concurrent.futures import ThreadPoolExecutor

HERE = os.path.dirname(os.path.dirname(os.path.abspath(__file__)))
SCRATCH = "/tmp/geometer-reseed"


def run(cmd, env=None, cwd=None):
    p = subprocess.run(cmd, shell=True, env=env, cwd=cwd, capture_output=True, text=True)
    return p.returncode, p.stdout + p.stderr


def one(name):
    d = os.path.join(HERE, "seeded", name)
    meta = json.load(open(os.path.join(d, "meta.json")))
    pid = meta["property"]
    src = os.path.join(SCRATCH, name)
    shutil.rmtree(src, ignore_errors=True)
    os.makedirs(src)
    shutil.copytree("/repo/geometer", os.path.join(src, "geometer"), ignore=shutil.ignore_patterns("__pycache__"))
    # a patch whose lines were rewritten by a later "fix:" commit is kept in a re-based form (same mutation, current code)
    pf = os.path.join(d, "patch_rebased.diff") if os.path.exists(os.path.join(d, "patch_rebased.diff")) else os.path.join(d, "patch.diff")
    rc, log = run(f"patch -p1 --fuzz=3 --no-backup-if-mismatch -i {pf}", cwd=src)
    res = {"property": pid, "applies": rc == 0}
    if rc == 0:
        env = dict(os.environ, PYTHONPATH=src, PYTHONDONTWRITEBYTECODE="1")
        drc, _ = run(f"/venv/bin/python {os.path.join(d, 'demo.py')}", env=env, cwd="/tmp")
        res["demo_fails_with_change"] = drc != 0
        env2 = dict(os.environ, VERIF_GEOMETER_SRC=src, VERIF_OUT_DIR=os.path.join(SCRATCH, "out-" + name), VERIF_JOBS="4")
        t0 = time.time()
        rc, log = run(f"{HERE}/check {pid} --tier quick", env=env2, cwd=HERE)
        res.update(exit=rc, detected=rc == 1, wall_s=round(time.time() - t0, 1),
                   buckets=[l.strip()[:160] for l in log.splitlines() if l.startswith("  bucket")][:3])
    else:
        res["patch_log"] = log[-300:]
    shutil.rmtree(src, ignore_errors=True)
    shutil.rmtree(os.path.join(SCRATCH, "out-" + name), ignore_errors=True)
    return name, res


def main():
    names = sys.argv[1:] or sorted(os.path.basename(p) for p in glob.glob(os.path.join(HERE, "seeded", "*")) if os.path.exists(os.path.join(p, "meta.json")))
    out = {}
    with ThreadPoolExecutor(4) as ex:
        for name, res in ex.map(one, names):
            out[name] = res
            stale = res["applies"] and not res.get("demo_fails_with_change") and not res.get("detected")
            res["stale"] = bool(stale)  # a later "fix:" commit made the change harmless for its own demonstration: no violation left to detect
            print(name, "DETECTED" if res.get("detected") else ("does not apply" if not res["applies"] else ("STALE (its demo passes on the current tree)" if stale else f"MISSED exit={res.get('exit')}")), flush=True)
    shutil.rmtree(SCRATCH, ignore_errors=True)
    path = os.path.join(HERE, "notes", "seeded_regression.json")
    old = json.load(open(path)) if os.path.exists(path) and sys.argv[1:] else {}
    old.update(out)
    json.dump(old, open(path, "w"), indent=1)
    n = sum(1 for r in old.values() if r.get("detected"))
    print(f"{n}/{len(old)} detected; not applying: {[k for k, r in old.items() if not r['applies']]}; stale: {[k for k, r in old.items() if r.get('stale')]}; "
          f"missed: {[k for k, r in old.items() if r['applies'] and not r.get('detected') and not r.get('stale')]}")


if __name__ == "__main__":
    main()
