#!/venv/bin/python
"""Confirm a seeded change produced in a scratch worktree and run the checks against it.

  tools/seeded.py <worktree> <property-id> <name> [other property ids to run as well]

Confirms (1) the repository tests pass with the change, (2) the demonstration fails with the change and passes on the
unchanged /repo, then runs ./check for the property against the worktree (VERIF_GEOMETER_SRC) and stores patch.diff,
demo.py, NOTES.md and meta.json under /verif/seeded/<name>/. Nothing in /repo is touched.
"""
import json
import os
import shutil
import subprocess
import sys
import time

HERE = os.path.dirname(os.path.dirname(os.path.abspath(__file__)))


def run(cmd, env=None, cwd=None):
    p = subprocess.run(cmd, shell=True, env=env, cwd=cwd, capture_output=True, text=True)
    return p.returncode, p.stdout + p.stderr


def main():
    wt, pid, name = sys.argv[1:4]
    others = sys.argv[4:]
    out = os.path.join(HERE, "seeded", name)
    os.makedirs(out, exist_ok=True)
    rc, diff = run("git diff -- geometer", cwd=wt)
    open(os.path.join(out, "patch.diff"), "w").write(diff)
    for f in ("demo.py", "NOTES.md"):
        if os.path.exists(os.path.join(wt, f)):
            shutil.copy(os.path.join(wt, f), os.path.join(out, f))
    env = dict(os.environ, PYTHONPATH=wt, PYTHONDONTWRITEBYTECODE="1")
    rc, log = run("/venv/bin/python -m pytest -q -p no:cacheprovider 2>&1 | tail -2", env=env, cwd=wt)
    tests = log.strip().splitlines()[-1] if log.strip() else ""
    rc_with, log_with = run("/venv/bin/python demo.py", env=env, cwd=wt)
    env0 = dict(os.environ, PYTHONDONTWRITEBYTECODE="1")
    env0.pop("PYTHONPATH", None)
    rc_without, log_without = run(f"/venv/bin/python {os.path.join(out, 'demo.py')}", env=env0, cwd="/tmp")
    meta = {
        "property": pid,
        "worktree_commit": run("git rev-parse --short HEAD", cwd=wt)[1].strip(),
        "files_changed": [l[6:] for l in diff.splitlines() if l.startswith("+++ b/")],
        "tests_with_change": tests,
        "demo_exit_with_change": rc_with,
        "demo_exit_on_unchanged_repo": rc_without,
        "confirmed": ("126 passed" in tests) and rc_with != 0 and rc_without == 0,
        "checks": {},
    }
    env2 = dict(os.environ, VERIF_GEOMETER_SRC=wt, VERIF_OUT_DIR=f"/tmp/seeded-out/{name}")
    for p in [pid] + others:
        for tier in ("quick",):
            t0 = time.time()
            rc, log = run(f"{HERE}/check {p} --tier {tier}", env=env2, cwd=HERE)
            buckets = [l.strip()[:200] for l in log.splitlines() if l.startswith("  bucket")]
            meta["checks"][f"{p}:{tier}"] = {"exit": rc, "detected": rc == 1, "wall_s": round(time.time() - t0, 1), "buckets": buckets[:5]}
    json.dump(meta, open(os.path.join(out, "meta.json"), "w"), indent=1)
    shutil.rmtree(f"/tmp/seeded-out/{name}", ignore_errors=True)
    print(json.dumps({k: v for k, v in meta.items() if k != "checks"}))
    for k, v in meta["checks"].items():
        print(k, "DETECTED" if v["detected"] else f"missed (exit {v['exit']})", v["buckets"][:2])


if __name__ == "__main__":
    main()
