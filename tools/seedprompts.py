#!/usr/bin/env python3
"""Writes the task descriptions for one round of independent seeded-change sub-agents to <dir>/prompt_<pid>.txt.

  tools/seedprompts.py <dir> <round>

Each sub-agent gets only this text (the property statement, quantifier and anchors from properties.jsonl) and its own scratch
worktree <dir>/<pid>; nothing from /verif. The AVOID table lists the mechanisms earlier rounds already changed so that a new
round explores a different part of the property.
"""
import json
import os
import sys

HERE = os.path.dirname(os.path.dirname(os.path.abspath(__file__)))

AVOID = {
    "C01": "the collection index grids of the coplanar-lines branch, the dtype conversion of the arguments, and the tolerance of the linear-dependence check in _join_meet_duality, and the single/collection path switch of the coplanar-lines branch, and the alignment of collection axes in TensorDiagram.calculate, and a snap-to-zero of small result coordinates, and the line/point contraction of the subspace*point branch, and the covariant / contravariant conversion of 3D lines, and the power-of-two normalisation of results, and shared work arrays / caches that leak state between calls (covered by the previous round), and the two-argument constructor path of Line, and an affine solve for three planes, and the width test of the dtype widening in TensorDiagram.calculate, and a shares-memory test between the arguments of _join_meet_duality",
    "C02": "the np.all(coplanar) test, the LinearDependenceError mask logic in _join_meet_duality, and Tensor.is_zero, and a fast path in LineTensor.meet, and the de-duplication of repeated argument objects in _join_meet_duality, and the pivot selection of the coplanar-lines collection path, and a reduction of n-ary join/meet to binary calls, and the narrow-integer widening in TensorDiagram.calculate, and the order of the error branches for 3D line pairs, and shared work arrays / caches that leak state between calls (covered by the previous round), and the method form PointTensor.join, and a parametric line / plane meet, and the axes of the power-of-two rescaling of join/meet results, and the base classes of the exception types, and the covariant/contravariant labels of LineTensor.__getitem__ and the segment branch of PolygonTensor.intersect",
    "C03": "PolygonTensor.contains, rotation() and Conic.from_tangent, and SegmentTensor.contains, and the last-coordinate test in PointLikeTensor.__mul__/__truediv__, and RegularPolygon.center, and the pivot of QuadricTensor.components, and the narrow-integer widening in TensorDiagram.calculate, and Simplex.volume, and shared work arrays / caches that leak state between calls (covered by the previous round), and the reversed-orientation branch of polytope ==, and a Householder formula in PlaneTensor.mirror, and the order of the dependence test and the rescaling in _join_meet_duality, and the comparison of the common end point of collinear segments in SegmentTensor.intersect",
    "C04": "TensorCollection.__iter__, the threshold in QuadricTensor.components and the early return of is_coplanar, and the early return of the 3D branch of PolygonTensor.contains, and the squeeze in the 3D branch of QuadricTensor.intersect, and TransformationTensor.__pow__ for power 0, and PointLikeTensor._normalize_array, and the pivot reshape of the coplanar-lines branch, and the coincidence mask of crossratio, and shared work arrays / caches that leak state between calls (covered by the previous round), and the vertex axis in PolygonTensor.__init__, and the normalisation in the 2D branch of Triangle.contains, and the sign pattern of the large-batch branch of utils.math.adjugate, and LineTensor.__getitem__ / the index types of elements of covariant line collections, and SegmentCollection.expand_dims and QuadricTensor.components for collections of mixed reducibility",
    "C05": "TensorDiagram.add_node, the KroneckerDelta cache and the dimension check of TensorDiagram.add_edge, and the sign computation of LeviCivitaTensor, and the dtype widening in TensorDiagram.calculate, and the construction of KroneckerDelta from epsilon tensors, and the free-index check of TensorDiagram.add_edge, and an edge-less shortcut in TensorDiagram.calculate, and the recursion of KroneckerDelta, and shared work arrays / caches that leak state between calls (covered by the previous round), and TensorDiagram.copy, and a tensordot fast path for two-node diagrams, and the order in which leading collection axes of later nodes are inserted in TensorDiagram.calculate, and the order of popping indices and raising in TensorDiagram.add_edge",
    "C06": "TransformationTensor.inverse, TransformationTensor.__pow__ and TransformationTensor.__apply__, and Tensor.__apply__, and the dtype of the result of utils.math.inv, and the cached plane in PolygonTensor.__apply__, and PolytopeTensor.__apply__, and the sign pattern of the batched adjugate, and an override of __apply__ for quadrics, and shared work arrays / caches that leak state between calls (covered by the previous round), and a fast path in TransformationTensor.__mul__, and exponentiation by squaring in Tensor.__pow__, and a rescaling of the cached line in SegmentTensor.__apply__, and the broadcasting of the reciprocal determinants in the large-batch branch of utils.math.inv, and the alignment of collection axes in TensorDiagram.calculate",
    "C07": "TransformationTensor.inverse, PolygonTensor.__apply__ and memoising QuadricTensor.dual, and a fast path in PointLikeTensor.__apply__, and the 3D-lines branch of crossratio, and the edge list of Tensor.__apply__, and a symmetrisation in QuadricTensor.__apply__, and the alignment of extra leading collection axes in TensorDiagram.calculate, and an override of __apply__ for polyhedra, and shared work arrays / caches that leak state between calls (covered by the previous round), and SubspaceTensor.__add__, and a closed form for the meet of coplanar 3D lines, and a fast path of utils.math.inv for matrices with unit columns, and an __apply__ override of LineTensor",
    "C08": "translation(), reflection() and Transformation.from_points, and Transformation.from_points_and_conics, and the angle handling of rotation(), and an affine fast path in TransformationTensor.inverse, and the axis normalisation of rotation(), and the dtype of affine_transform, and scaling(), and shared work arrays / caches that leak state between calls (covered by the previous round), and TransformationTensor.__pow__, and an alignment-angle construction of rotation(angle, axis), and np.reciprocal of the determinant in utils.math.inv, and a complex-conjugate shortcut in LineTensor.mirror, and the composition of a Transformation with a TransformationCollection in TransformationTensor.__apply__",
    "C09": "the plane/plane branch and the equality short-cut of dist, and the dtype handling of _point_dist, and the kind dispatch of angle(), and the plane/line branch of dist, and a fast path for 2D point/line distance, and the 3D three-point form of angle(), and the projection coordinate in the 3D branch of PolygonTensor.contains, and the 2D branch of _point_dist, and shared work arrays / caches that leak state between calls (covered by the previous round), and the segment / point branch of dist, and an atan2 fast path of the three-point angle, and a Rectangle.contains override (4-vertex polygons taken out of collections are Rectangle objects), and a face-culling shortcut in dist(point, polyhedron)",
    "C10": "SubspaceTensor.general_point, is_coplanar and the contains-branch of LineTensor.perpendicular, and PlaneTensor.basis_matrix, and SubspaceTensor.is_parallel, and the 2D branch of LineTensor.direction, and LineTensor.mirror, and the closed-form det for 64 and more matrices, and LineTensor.base_point, and shared work arrays / caches that leak state between calls (covered by the previous round), and SubspaceTensor.parallel, and a Householder formula in PlaneTensor.mirror, and a dot-product shortcut for is_perpendicular of planes, and a complex-conjugate shortcut in angle_bisectors, and the coplanarity flag of the 3D branch of is_cocircular",
    "C11": "the 3D-lines branch, the a == b shortcut and the collinear-points reduction of crossratio, and SubspaceTensor.general_point as used by harmonic_set, and the collinearity check of the points branch of crossratio, and a midpoint shortcut in harmonic_set, and the 2D-lines branch of crossratio, and the shape of the closed-form det for 64 and more matrices, and the 1D branch of crossratio, and shared work arrays / caches that leak state between calls (covered by the previous round), and the normalisation of the intermediate results in harmonic_set, and a reduction to directions in the from_point branch of crossratio, and a coaxiality check with an absolute tolerance in crossratio of planes, and the final quotient of crossratio",
    "C12": "PolygonTensor._normalized_projection, LineTensor.perpendicular and PointLikeTensor._normalize_array, and the KroneckerDelta cache, and dtype casts of the node arrays in TensorDiagram.calculate, and the cached line in SegmentTensor.__apply__, and SegmentCollection.expand_dims, and the 2x2 branch of adjugate, and the normalize_matrix branch of the quadric constructor, and shared work arrays / caches that leak state between calls (covered by the previous round), and in-place normalisation of the axis in rotation(), and a cross-product formula in Triangle.circumcenter, and a shallow copy of a constructor argument that is then written to (Cylinder), and a rebinding fast path in Tensor.__setitem__",
    "C13": "Cone.__init__, Ellipse.__init__ and Sphere.__init__, and Conic.foci, and the candidate ranking in Conic.from_tangent, and Sphere.radius, and Conic.from_points, and SubspaceTensor.general_point, and the unit() helper of from_tangent, and shared work arrays / caches that leak state between calls (covered by the previous round), and Circle.area, and a Euclidean construction in Conic.from_foci, and np.cross on raw integer arrays in Conic.from_crossratio, and Sphere.area, and Circle.radius and the direction argument of Cylinder",
    "C14": "the pivot argmax in QuadricTensor.components, QuadricTensor.dual and the plane selection for LineCollections in the 3D branch of QuadricTensor.intersect, and the single-Line path of the 3D branch of QuadricTensor.intersect, and QuadricTensor.is_degenerate, and QuadricTensor.__getitem__, and Conic.polar, and the NotReducible test in QuadricTensor.components, and the all/any decision on is_degenerate in QuadricTensor.intersect, and shared work arrays / caches that leak state between calls (covered by the previous round), and QuadricTensor.is_tangent, and a gradient construction in QuadricTensor.tangent, and the rank-one threshold of QuadricTensor.components, and the real part in QuadricTensor.contains",
    "C15": "QuadricTensor.components' pivot, the triple-root shortcut in roots() and the pencil computation in Conic.intersect, and the dispatch on the degenerate operand in Conic.intersect, and the reducibility guard of QuadricTensor.components, and the batched path of utils.math.adjugate, and QuadricTensor.is_degenerate, and the index order of hat_matrix for n = 4, and the component lines of the degenerate pencil member in Conic.intersect, and shared work arrays / caches that leak state between calls (covered by the previous round), and the scale of the double-line test in components, and an affine parametrisation in the line branch of Conic.intersect, and the branch criterion (sign of h) of utils.math.roots, and a shortcut for conics with proportional quadratic parts in Conic.intersect, and the merging loop over the component lines in Conic.intersect",
    "C16": "the 'coplanar &' of PolygonTensor.contains, Triangle.contains and memoising in SegmentTensor.contains, and the vertex-ordering step of the ray casting in PolygonTensor.contains, and the single-Point fast path of the 3D branch of PolygonTensor.contains, and the supporting plane in PolygonTensor.__apply__, and the normalisation of the end points in SegmentTensor.contains, and PointLikeTensor._normalize_array, and the ray direction for points at infinity in PolygonTensor.contains, and shared work arrays / caches that leak state between calls (covered by the previous round), and the dropped coordinate in the 3D branch of PolygonTensor.contains, and a barycentric test in SegmentTensor.contains, and the tolerance of the edge test in the ray casting of PolygonTensor.contains, and the axis arithmetic of SegmentCollection.expand_dims",
    "C17": "Polygon.centroid, PolytopeTensor.__eq__ and PolygonTensor.area, and SegmentTensor.midpoint, and Simplex.volume, and RegularPolygon.center, and RegularPolygon.radius, and the pivot of PlaneTensor.basis_matrix, and Triangle.circumcenter, and shared work arrays / caches that leak state between calls (covered by the previous round), and SegmentTensor.length, and a fan triangulation in Polyhedron.area, and a Rectangle.centroid override, and a RegularPolygon.area override, and Cuboid.__init__ and Segment.midpoint",
    "C18": "PolygonTensor.intersect's LinearDependenceError handler, the skew-segment branch of SegmentTensor.intersect and memoising Polyhedron.faces, and the membership filter of the segment branch of PolygonTensor.intersect, and SegmentTensor.contains, and the duplicate removal of Polyhedron.intersect, and the is_zero filter of the line/plane branch of SegmentTensor.intersect, and the projection coordinate in the 3D branch of PolygonTensor.contains, and the collinear end-point block of SegmentTensor.intersect, and shared work arrays / caches that leak state between calls (covered by the previous round), and the dispatch of SegmentTensor.intersect for polyhedra, and a sign-change method in the 2D branch of PolygonTensor.intersect, and the vertex rule (is_multiple vs ==) of the ray casting in PolygonTensor.contains, and a cap on the number of points returned by Polyhedron.intersect",
    "C19": "Tensor._get_index_mapping, Tensor.transpose and Tensor._elementwise_result, and the scalar branch of PointLikeTensor.__mul__/__truediv__, and Tensor.tensor_product, and Tensor.__rsub__, and PointLikeTensor.__sub__, and is_numerical_scalar, and TensorCollection.expand_dims, and shared work arrays / caches that leak state between calls (covered by the previous round), and QuadricTensor.__add__ / __sub__, and Tensor.__sub__ through negation, and the last coordinate of point + point, and a scalar-index shortcut in Tensor.__getitem__, and maybe_dispatch_ufunc_to_dunder_op",
    "C20": "adjugate, the quadratic branch of roots and null_space, and is_multiple, and the singularity test of inv, and hat_matrix, and orth, and the closed-form det for complex matrices, and the repeated-root shortcut of roots, and shared work arrays / caches that leak state between calls (covered by the previous round), and the division by the determinant in inv, and a Schur-complement determinant for 4x4 matrices, and an absolute clamp of h in utils.math.roots, and the SVD variant in utils.math.null_space, and _minor_indices / the minors branch of adjugate and the memory layout of the argument, and the cubic branch of roots",
}

EMPHASIS = {
    16: ("This time make the violation need TWO COOPERATING SITES or a MULTI-STEP SEQUENCE: either two small edits in different functions that each look "
         "harmless alone (for instance one function starts returning a differently shaped / ordered / scaled but still valid intermediate, and a second one "
         "silently relies on the old convention only in one of its branches), or a single edit whose wrong result only shows after a specific sequence of "
         "three or more public calls whose results feed into each other (construct, transform, index, intersect, compare). Assume that the property is also "
         "guarded by a strong randomised (property-based) test suite that draws every coordinate type and collection shape, degenerate and nearly degenerate "
         "configurations, compares every equivalent way of asking the same question and re-inspects earlier results after later calls - so prefer a mistake in "
         "the LOGIC of a less travelled branch (case distinction, pairing / ordering of elements, orientation convention, axis mix-up hidden by symmetric or "
         "square data, off-by-one over vertices / faces / axes). Say in NOTES.md why you believe it is hard to find. "
         "Do NOT use memoisation / caching / shared buffers, do not mutate an argument in place, and do not make the change depend on magnitudes, dtypes, "
         "tolerances or collection sizes."),
    15: ("This time the choice is yours. Assume that the property is guarded by a strong randomised (property-based) test suite written by someone who "
         "knows the library well, in addition to the existing unit tests. That suite already draws: decimal and integer coordinates of every array type, "
         "collections with one to three axes and with 64 and more elements (also as overlapping views of one collection), objects far from the origin, tiny radii, "
         "nearly tangent / parallel / coincident configurations, points at infinity up to rounding, complex points and representatives with complex factors "
         "(also the ones the library itself returns), lines of 3-space in covariant form, elements obtained by indexing or iterating collections, non-convex "
         "polygons and polyhedra, regular polygons after arbitrary maps, coinciding arguments, diagrams that are used further after a refused edge, item "
         "assignment, boolean and scalar indices, matrices with special structure; it compares every equivalent way of asking the same question, re-inspects "
         "earlier results after later calls and compares with a fresh interpreter. "
         "Choose the change that you judge LEAST likely to be found by such a suite while a real user could still plausibly run into it. Prefer a mistake in the "
         "LOGIC of a less travelled branch: a wrong case distinction, a wrong pairing or ordering of elements, a sign / orientation convention, an index or axis "
         "mix-up that symmetric or square data hide, an off-by-one in a loop over vertices / faces / axes, a clause of the property that is easy to overlook. "
         "Say in NOTES.md why you believe it is hard to find. "
         "Do NOT use memoisation / caching / shared buffers, do not mutate an argument in place, and do not make the change depend on magnitudes, dtypes, "
         "tolerances or collection sizes."),
    14: ("This time the choice is yours. Assume that the property is guarded by a strong randomised (property-based) test suite written by someone who "
         "knows the library well, in addition to the existing unit tests. That suite already draws: coordinates that are decimal fractions (0.1, 0.7, 1/3) as well "
         "as small integers, every integer and floating-point array type over its whole range, collections with one to three axes and with 64 and more elements, "
         "objects thousands of units away from the origin, tiny radii, nearly tangent and nearly parallel configurations, polynomials with tiny or clustered roots, "
         "points at infinity given only up to rounding, elements obtained by indexing or iterating collections, and matrices with special structure (permutations, "
         "unit columns, vanishing blocks); it also compares every equivalent way of asking the same question and re-inspects earlier results after later calls. "
         "Choose the change that you judge LEAST likely to be found by such a suite while a real user could still plausibly run into it, and that is of a DIFFERENT "
         "NATURE than a magnitude, dtype, tolerance or size threshold: think of a wrong case distinction, a wrong pairing of elements, a sign or orientation "
         "convention, an index or axis mix-up that symmetric data hide, a clause of the property that is easy to overlook, or an interplay of two features. "
         "Say in NOTES.md why you believe it is hard to find. "
         "Do NOT use memoisation / caching / shared buffers, and do not mutate an argument in place."),
    13: ("This time the choice is yours. Assume that the property is guarded by a strong randomised (property-based) test suite written by someone who "
         "knows the library well, in addition to the existing unit tests. Choose the change that you judge LEAST likely to be found by such a suite while a "
         "real user could still plausibly run into it. Think about which inputs a generator would have to construct on purpose, which observations a test "
         "would have to make (and when), and which coincidences (symmetric data, special values that hide a wrong factor or a wrong sign) make a wrong "
         "result look right. Say in NOTES.md why you believe it is hard to find. "
         "Do NOT use memoisation / caching / shared buffers, and do not mutate an argument in place."),
    12: ("Prefer to REPLACE THE ALGORITHM of one function by another textbook way of computing the same thing that is correct on the inputs people "
         "usually try but has a restricted domain: e.g. an atan2 / arccos of a dot product instead of a cross-ratio formula (wrong quadrant, reflex or "
         "oriented angles, complex input), Cramer's rule or a cross product instead of a null space (parallel / degenerate sub-cases, points at infinity), "
         "a barycentric or winding-number or half-plane test instead of ray casting (concave polygons, boundary points), shoelace on projected coordinates "
         "(vertical planes), a closed formula that assumes a finite / affine / real / normalised argument, Euclidean norms of raw coordinate arrays instead "
         "of projectively invariant expressions, a solver that assumes distinct roots. The rewritten function must agree with the original on the existing "
         "tests and on generic inputs of the kind a quick experiment uses, and differ on a whole sub-class of valid inputs. "
         "Do NOT use memoisation / caching / shared buffers, and do not mutate an argument in place."),
    11: ("Prefer a change that breaks the property only for ONE OF SEVERAL EQUIVALENT WAYS of asking the same thing, or for one way of passing the "
         "arguments: the method form vs. the function form vs. the operator form (a.join(b) / join(a, b) / Line(a, b); t * x / t.apply(x); x + p / "
         "translation(p) * x), positional vs. keyword arguments, a list / tuple / ndarray / Tensor / Python scalar / numpy scalar for the same value, "
         "an int vs. a float vs. a complex number with zero imaginary part, a Point vs. its coordinate array, *args unpacked vs. a collection object, "
         "the order in which mixed argument kinds are given (line, point vs. point, line), optional arguments left at their default vs. given explicitly "
         "with the default value. The other ways of asking must stay correct. "
         "Do NOT use memoisation / caching / shared buffers, and do not mutate an argument in place."),
    10: ("Prefer a change that makes a result depend on the HISTORY of earlier calls or on shared state, the way a well-meant optimisation does: a "
         "module-level or class-level scratch buffer / preallocated array that is reused between calls (so that an earlier result is overwritten by a later "
         "call, or two results share memory), a functools cache or dict keyed by too little (shape but not dtype, dimension but not variance, id() of an "
         "object), a default argument object that is shared between calls, numpy global state (errstate, print options), a generator / iterator that is "
         "consumed once, a class attribute used as instance state. The first call must still be right; the violation shows in a LATER call, in the value of "
         "an EARLIER result inspected after a later call, or for the second / third element processed. Do NOT memoise a property on the instance and do not "
         "mutate an argument in place (earlier rounds covered those)."),
    9: ("Read the property statement CLAUSE BY CLAUSE and aim at the clause that a test generator drawing generic random inputs is least likely to "
        "exercise: a symmetric form or the reversed argument order, an 'exactly when' / 'only' / 'each ... once' / 'in order' / 'of the same kind' wording, "
        "the behaviour for elements at infinity, the documented exception type and its attributes, the class / type / dtype / shape of a result, "
        "idempotence or involution (doing it twice), the second of two results, an object that is passed through unchanged, results that must NOT be "
        "returned. Your change should leave the main, generic clause intact and break only that side clause, for inputs that reach it. "
        "Do NOT use memoisation / caching of properties, and do not mutate an argument in place."),
    8: ("Prefer a change in SHARED INFRASTRUCTURE whose effect reaches this property only indirectly and only for some shapes / sizes: helpers in "
        "geometer/utils/math.py or geometer/utils/indexing.py, Tensor / TensorCollection construction in geometer/base.py (nested lists, other tensors as "
        "arguments, copy=False, the `covariant` argument, tensor_rank), `__getitem__` with ellipsis / None / boolean masks / index arrays / negative steps, "
        "`expand_dims`, `flat`, `size`, `__len__`, `__eq__`, or the handling of constructor arguments of the classes this property names (keyword arguments, "
        "scalar vs. array arguments, argument counts). Or the interplay of a subclass override with its base class. The violation may need a specific SIZE "
        "or SHAPE: a polygon with six or more vertices, a polyhedron with non-triangular faces, a collection with two or three collection axes or with a "
        "single element or with a prime number of elements, an ambient dimension of four or more where the code is generic in the dimension. "
        "Do NOT use memoisation / caching of properties, and do not mutate an argument in place."),
    7: ("Prefer a change that only matters for one of these valid but rarely exercised inputs: complex coordinates (complex points on a real line, "
        "complex lines, complex scale factors of a representative, the circular points), points / lines / planes at infinity among the arguments, "
        "objects through the origin or on a coordinate axis or plane, the projective line (1D points), objects whose coordinate array contains exact "
        "zeros in particular positions, or negative numbers where positive ones are usual (negative radius or scale, reversed orientation). "
        "It may also be a slip that only shows in ONE of two symmetric argument orders, or only for the LAST (not the first) element of a collection. "
        "Do NOT use memoisation / caching of properties, and do not mutate an argument in place."),
    6: ("Prefer a change in a LESS OFTEN USED part of the public API that still belongs to the property: methods of the collection classes, "
        "operations on objects obtained from other operations (the result of a meet, an edge or face of a polytope, an indexed element of a "
        "collection, a transformed object), the method form next to the function form, keyword arguments and optional parameters, the less common "
        "argument kinds (planes instead of lines, 1D points, dual quadrics, points at infinity, complex coordinates), or the second of two code paths "
        "that the documentation describes together. The violation may also need a short SEQUENCE of two or three public calls whose results feed into "
        "each other. Do NOT use memoisation / caching of properties, and do not mutate an argument in place."),
    5: ("Prefer one of these kinds of change: (a) an error path - the wrong exception type, an exception swallowed or raised for a valid input, a mask / "
        "dependent_values array with the wrong shape or content; (b) a tolerance, threshold or comparison (<= vs <, abs missing, relative vs absolute, "
        "isclose arguments swapped) that only matters for inputs close to but clearly on one side of a boundary, or for large / small but exactly "
        "representable coordinates; (c) dtype handling - integer-typed or complex input arrays, integer division, a cast that truncates; (d) handling of "
        "collections: several collection axes, an axis of length one, a single object broadcast against a collection, collections of collections "
        "(polygon collections), the order of axes in the result. Do NOT use memoisation / caching of properties, and do not mutate an argument in place."),
    4: ("Prefer a change whose effect is a wrong VALUE or a wrong branch for a boundary situation that is still a valid input: an exact tie, a zero "
        "coordinate, a coordinate-axis-parallel or origin-incident object, coincident or equal arguments, a collection of length one or with an axis of "
        "length one, an empty or single-element result list, the last element of a collection, a negative or non-unit homogeneous representative, a "
        "dimension other than the usual one (1D or 3D instead of 2D), or an argument order other than the documented example. Do NOT use memoisation / "
        "caching of properties, and do not mutate an argument in place (earlier rounds covered those mechanisms)."),
}

TMPL = '''You are helping to evaluate a verification effort for the Python library "geometer" (projective geometry on numpy). Your job: write ONE realistic code change (a "seeded defect") to the library that BREAKS the semantic property below, while the library still imports and its existing test suite still passes.

Work ONLY inside this scratch git worktree of the library: {wt}
Do NOT read, list or modify anything under /repo or /verif (they are out of bounds for this task). Do not use the network. NEVER use `git stash` (the stash is shared between worktrees); never commit.

How to run things in the worktree (the library is imported from the worktree when PYTHONPATH points at it):
  cd {wt} && PYTHONPATH={wt} /venv/bin/python -m pytest -q -p no:cacheprovider        # existing tests: must still be 126 passed
  cd {wt} && PYTHONPATH={wt} /venv/bin/python demo.py

THE PROPERTY ({pid}: {title})
{statement}

It is meant to hold for: {quant}
Relevant code: {files}; mechanisms: {mech}

REQUIREMENTS FOR YOUR CHANGE
1. Edit the library source under {wt}/geometer/ only (not the tests). Keep it small (a few lines), plausible as an honest mistake or a well-meant "optimisation"/refactoring, and syntactically valid.
2. All 126 existing tests must still pass with your change (run them).
3. The change must violate the property above, but it should need something SPECIFIC to manifest. Do NOT make a change that ordinary use exposes at once (e.g. not "always return the wrong answer").
   Previous experiments already changed {avoid} - pick a DIFFERENT function / mechanism this time, in a part of the property that those did not touch (another operation, another object kind, another code path).
   {emphasis}
4. Write a demonstration program {wt}/demo.py that exits with status 0 on the ORIGINAL code and with a non-zero status (e.g. failing assert) WITH your change, and that only uses the public API on valid inputs. Verify both: run it with your change applied; then save your change with `git diff -- geometer > {wt}_change.patch`, undo it with `git apply -R {wt}_change.patch`, run demo.py again on the original code (must exit 0), then re-apply with `git apply {wt}_change.patch`.
5. When done, leave your library change applied in the worktree (uncommitted), with demo.py present, and write {wt}/NOTES.md: which function(s) you changed, what input/sequence is needed for the violation to show, and why the existing tests do not notice.

Reply with a short summary: the files/functions changed, the triggering condition, and the exact commands you ran with their outcomes (tests with change: N passed; demo with change: exit code; demo without change: exit code).'''


def main():
    out, rnd = sys.argv[1], int(sys.argv[2])
    for l in open(os.path.join(HERE, "properties.jsonl")):
        d = json.loads(l)
        pid = d["id"]
        mech = "; ".join(m["name"] + " @ " + m["where"] for m in d["anchors"].get("mechanism", []))
        txt = TMPL.format(wt=f"{out}/{pid}", pid=pid, title=d["title"], statement=d["statement"], quant=d["quantifier"]["text"],
                          files=", ".join(d["anchors"]["files"]), mech=mech, avoid=AVOID[pid], emphasis=EMPHASIS.get(rnd, ""))
        open(os.path.join(out, f"prompt_{pid}.txt"), "w").write(txt)
    print("written", out)


if __name__ == "__main__":
    main()
