"""Shared generators (Hypothesis strategies of JSON-able values), builders (case -> numpy / geometer objects)
and comparators (projective equality over C, P^1, angles mod pi, multisets)."""
from __future__ import annotations

import math
from fractions import Fraction

import numpy as np
from hypothesis import strategies as st

from . import exact as X

# ------------------------------------------------------------------------------------------------ strategies


def ints(R=9):
    return st.integers(-R, R)


def ivec(n, R=9):
    """non-zero integer vector of length n"""
    return st.lists(ints(R), min_size=n, max_size=n).filter(any)


def gint(R=9):
    return st.tuples(ints(R), ints(R)).map(list)


def cvec(n, R=9):
    """non-zero Gaussian-integer vector, entries [re, im]; at least one entry genuinely complex most of the time"""
    return st.lists(gint(R), min_size=n, max_size=n).filter(lambda v: any(a or b for a, b in v))


def fin_point(d, R=9):
    """finite point, homogeneous integer coordinates with last coordinate 1"""
    return st.lists(ints(R), min_size=d, max_size=d).map(lambda v: v + [1])


def inf_point(d, R=9):
    return ivec(d, R).map(lambda v: v + [0])


def hpoint(d, R=9, p_inf=0.2):
    """general homogeneous point (finite w.p. 1 - p_inf, at infinity otherwise, or fully generic)"""
    return st.one_of(fin_point(d, R), fin_point(d, R), ivec(d + 1, R), inf_point(d, R))


def scale():
    """representative scale c = sign * 2^k * m  as [sign, k, m]"""
    return st.tuples(st.sampled_from([1, -1]), st.integers(-3, 3), st.sampled_from([1, 3, 5])).map(list)


def _valid_scale(s):
    from .runner import Skip

    if len(s) != 3 or s[0] not in (1, -1) or s[2] not in (1, 3, 5) or not -3 <= s[1] <= 3:
        raise Skip("invalid scale (only reachable through case reduction)")


def scale_value(s):
    _valid_scale(s)
    return s[0] * (2.0 ** s[1]) * s[2]


def scale_frac(s):
    _valid_scale(s)
    return Fraction(s[0] * s[2]) * (Fraction(2) ** s[1])


def cscale():
    """complex representative scale: real scale times one of 1, i, 1+i, 2-i"""
    return st.tuples(scale(), st.sampled_from([[1, 0], [0, 1], [1, 1], [2, -1]])).map(list)


def cscale_value(s):
    return scale_value(s[0]) * complex(s[1][0], s[1][1])


def shapes(max_n=4):
    """collection shapes"""
    return st.sampled_from([[1], [2], [3], [max_n], [2, 2], [2, 3], [2, 1, 2]])


def prod(shape):
    r = 1
    for s in shape:
        r *= s
    return r


def int_matrix(n, R=3):
    """invertible integer matrix (exact det != 0)"""
    return st.lists(st.lists(ints(R), min_size=n, max_size=n), min_size=n, max_size=n).filter(
        lambda m: X.det([[Fraction(x) for x in r] for r in m]) != 0
    )


# ------------------------------------------------------------------------------------------------ builders


def is_cplx(v) -> bool:
    if isinstance(v, (list, tuple)):
        if len(v) == 2 and all(isinstance(x, (int, float)) for x in v):
            # ambiguous: a pair of ints could be a 2-vector; callers use arr() only on vectors of entries
            return False
        return any(isinstance(x, (list, tuple)) and _is_pair(x) for x in v) or any(is_cplx(x) for x in v if isinstance(x, (list, tuple)) and not _is_pair(x))
    return False


def _is_pair(x):
    return isinstance(x, (list, tuple)) and len(x) == 2 and all(isinstance(y, (int, float)) for y in x)


def arr(v, cplx=False):
    """vector (list of ints, or list of [re, im] pairs if cplx) -> numpy array"""
    if cplx:
        return np.array([complex(a, b) for a, b in v])
    return np.array(v)


def exact_vec(v, cplx=False):
    if cplx:
        return [X.CQ(a, b) for a, b in v]
    return [Fraction(x) for x in v]


def to_c(v):
    """exact vector / nested list -> complex numpy array"""
    a = np.array([[X.to_complex(x) for x in r] if isinstance(r, (list, tuple)) else X.to_complex(r) for r in v])
    return a


# ------------------------------------------------------------------------------------------------ comparators


def pnorm(a, naxes=1):
    """divide each tensor (last naxes axes) by its entry of largest modulus -> canonical projective representative"""
    a = np.asarray(a, dtype=complex)
    sh = a.shape
    lead = sh[: a.ndim - naxes]
    flat = a.reshape(lead + (-1,))
    idx = np.argmax(np.abs(flat), axis=-1)
    piv = np.take_along_axis(flat, idx[..., None], axis=-1)
    with np.errstate(divide="ignore", invalid="ignore"):
        out = flat / piv
    return out.reshape(sh)


def peq(a, b, naxes=1, tol=1e-9):
    """projective equality over C of two coordinate arrays, element-wise over leading axes -> bool array"""
    a = np.asarray(a, dtype=complex)
    b = np.asarray(b, dtype=complex)
    lead_a, lead_b = a.shape[: a.ndim - naxes], b.shape[: b.ndim - naxes]
    ta, tb = a.shape[a.ndim - naxes :], b.shape[b.ndim - naxes :]
    if ta != tb:
        return np.zeros(np.broadcast_shapes(lead_a, lead_b), dtype=bool)
    fa = a.reshape(lead_a + (-1,))
    fb = b.reshape(lead_b + (-1,))
    fa, fb = np.broadcast_arrays(fa, fb)
    na = np.max(np.abs(fa), axis=-1)
    nb = np.max(np.abs(fb), axis=-1)
    ok = (na > 0) & (nb > 0) & np.isfinite(na) & np.isfinite(nb)
    # normalise b by the pivot position of a
    idx = np.argmax(np.abs(fa), axis=-1)[..., None]
    pa = np.take_along_axis(fa, idx, axis=-1)
    pb = np.take_along_axis(fb, idx, axis=-1)
    with np.errstate(divide="ignore", invalid="ignore"):
        qa = fa / pa
        qb = fb / pb
        diff = np.max(np.abs(qa - qb), axis=-1)
    return ok & (np.abs(pb[..., 0]) > 0) & (diff <= tol)


def peq_all(a, b, naxes=1, tol=1e-9) -> bool:
    return bool(np.all(peq(a, b, naxes, tol)))


def is_zero_arr(a, tol=1e-9) -> bool:
    a = np.asarray(a)
    return bool(np.all(np.abs(a) <= tol))


def p1_eq(x, y, tol=1e-7) -> bool:
    """equality of two cross ratios as points of P^1; x, y are numbers (possibly inf) or (num, den) pairs"""

    def pair(v):
        if isinstance(v, tuple):
            return complex(v[0]), complex(v[1])
        v = complex(v)
        if math.isinf(v.real) or math.isinf(v.imag):
            return 1 + 0j, 0j  # numpy's complex infinity may carry a nan in the other component ((0+5j) / 0 = nan+infj)
        if math.isnan(v.real) or math.isnan(v.imag):
            return None
        if abs(v) > 1e12:
            return 1 + 0j, 0j
        return v, 1 + 0j

    a, b = pair(x), pair(y)
    if a is None or b is None:
        return False
    if a == (0j, 0j) or b == (0j, 0j):
        return False
    return bool(peq(np.array(a), np.array(b), 1, tol))


def angle_eq_mod_pi(a, b, tol=1e-7) -> bool:
    d = (float(np.real(a)) - float(np.real(b))) % math.pi
    return min(d, math.pi - d) <= tol


def multiset_peq(A, B, tol=1e-7) -> bool:
    """two lists of coordinate vectors equal as multisets under projective equality"""
    A = [np.asarray(a, dtype=complex).ravel() for a in A]
    B = [np.asarray(b, dtype=complex).ravel() for b in B]
    if len(A) != len(B):
        return False
    used = [False] * len(B)
    for a in A:
        for j, b in enumerate(B):
            if not used[j] and a.shape == b.shape and bool(peq(a, b, 1, tol)):
                used[j] = True
                break
        else:
            return False
    return True


def set_peq(A, B, tol=1e-7) -> bool:
    """equal as sets under projective equality (multiplicities ignored)"""
    A = [np.asarray(a, dtype=complex).ravel() for a in A]
    B = [np.asarray(b, dtype=complex).ravel() for b in B]
    return all(any(bool(peq(a, b, 1, tol)) for b in B) for a in A) and all(
        any(bool(peq(a, b, 1, tol)) for a in A) for b in B
    )


def generic_vec(v) -> bool:
    """not a multiple of a unit vector and at least half of the coordinates non-zero"""
    nz = sum(1 for x in v if (x != 0 and x != [0, 0]))
    return nz >= 2 and nz * 2 >= len(v)


def short(x, n=300):
    s = repr(x)
    return s if len(s) <= n else s[:n] + "..."


def uniform_pick(seq, *material):
    """element of seq chosen by a hash of already drawn values: Hypothesis' sampled_from is far from uniform over long lists
    (counts per element differed by a factor of 20 in 5000 draws), which starves some operations; the choice is still a pure
    function of the drawn data and is stored by name in the case"""
    import json
    import zlib

    h = zlib.crc32(json.dumps(material, sort_keys=True, default=str).encode())
    return seq[h % len(seq)]
