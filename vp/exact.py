"""Exact oracles. No numpy, no einsum, no epsilon tensors: Python ints / Fractions / Gaussian rationals."""
from __future__ import annotations

from fractions import Fraction
from itertools import combinations, permutations


class CQ:
    """Gaussian rational a + b i with Fraction parts."""

    __slots__ = ("re", "im")

    def __init__(self, re=0, im=0):
        if isinstance(re, CQ):
            self.re, self.im = re.re, re.im
        elif isinstance(re, complex):
            self.re, self.im = Fraction(re.real), Fraction(re.imag)
        else:
            self.re, self.im = Fraction(re), Fraction(im)

    @staticmethod
    def of(x):
        return x if isinstance(x, CQ) else CQ(x)

    def __add__(self, o):
        o = CQ.of(o)
        return CQ(self.re + o.re, self.im + o.im)

    __radd__ = __add__

    def __neg__(self):
        return CQ(-self.re, -self.im)

    def __sub__(self, o):
        return self + (-CQ.of(o))

    def __rsub__(self, o):
        return CQ.of(o) - self

    def __mul__(self, o):
        o = CQ.of(o)
        return CQ(self.re * o.re - self.im * o.im, self.re * o.im + self.im * o.re)

    __rmul__ = __mul__

    def conj(self):
        return CQ(self.re, -self.im)

    def norm2(self):
        return self.re * self.re + self.im * self.im

    def __truediv__(self, o):
        o = CQ.of(o)
        n = o.norm2()
        r = self * o.conj()
        return CQ(r.re / n, r.im / n)

    def __rtruediv__(self, o):
        return CQ.of(o) / self

    def __eq__(self, o):
        try:
            o = CQ.of(o)
        except Exception:  # noqa: BLE001
            return NotImplemented
        return self.re == o.re and self.im == o.im

    def __hash__(self):
        return hash((self.re, self.im))

    def __bool__(self):
        return self.re != 0 or self.im != 0

    def __complex__(self):
        return complex(float(self.re), float(self.im))

    def __repr__(self):
        return f"({self.re}+{self.im}i)"


def num(x):
    """JSON number -> exact scalar. [re, im] pairs denote Gaussian integers/rationals."""
    if isinstance(x, (list, tuple)):
        if len(x) == 2 and x[1] == 0:
            return Fraction(x[0])
        return CQ(x[0], x[1])
    if isinstance(x, CQ):
        return x
    return Fraction(x)


def vec(v):
    return [num(x) for x in v]


def to_complex(x):
    if isinstance(x, CQ):
        return complex(x)
    return complex(float(x))


def is_zero(x) -> bool:
    return not bool(x)


def det(m):
    """Exact determinant by fraction elimination (works for Fraction and CQ entries)."""
    n = len(m)
    a = [list(r) for r in m]
    d = Fraction(1)
    for c in range(n):
        piv = next((r for r in range(c, n) if a[r][c]), None)
        if piv is None:
            return Fraction(0)
        if piv != c:
            a[c], a[piv] = a[piv], a[c]
            d = -d
        d = d * a[c][c]
        for r in range(c + 1, n):
            if a[r][c]:
                f = a[r][c] / a[c][c]
                a[r] = [x - f * y for x, y in zip(a[r], a[c])]
    return d


def det_leibniz(m):
    n = len(m)
    tot = 0
    for p in permutations(range(n)):
        s = perm_sign(p)
        prod = 1
        for i in range(n):
            prod = prod * m[i][p[i]]
        tot = tot + s * prod
    return tot


def perm_sign(p) -> int:
    """Sign of a sequence: 0 if an entry repeats, else parity of the permutation sorting it."""
    p = list(p)
    if len(set(p)) != len(p):
        return 0
    s = 1
    for i in range(len(p)):
        for j in range(i + 1, len(p)):
            if p[i] > p[j]:
                s = -s
    return s


def rref(m):
    a = [list(r) for r in m]
    rows = len(a)
    cols = len(a[0]) if rows else 0
    piv = []
    r = 0
    for c in range(cols):
        if r >= rows:
            break
        p = next((i for i in range(r, rows) if a[i][c]), None)
        if p is None:
            continue
        a[r], a[p] = a[p], a[r]
        inv = 1 / a[r][c] if not isinstance(a[r][c], CQ) else CQ(1) / a[r][c]
        a[r] = [x * inv for x in a[r]]
        for i in range(rows):
            if i != r and a[i][c]:
                f = a[i][c]
                a[i] = [x - f * y for x, y in zip(a[i], a[r])]
        piv.append(c)
        r += 1
    return a, piv


def rank(m) -> int:
    if not m:
        return 0
    return len(rref(m)[1])


def null_space(m, ncols=None):
    """Basis (list of vectors) of {x : m x = 0}."""
    if not m:
        return [[Fraction(int(i == j)) for j in range(ncols)] for i in range(ncols)]
    a, piv = rref(m)
    cols = len(m[0])
    free = [c for c in range(cols) if c not in piv]
    basis = []
    for f in free:
        v = [Fraction(0)] * cols
        v[f] = Fraction(1)
        for r, c in enumerate(piv):
            v[c] = -a[r][f]
        basis.append(v)
    return basis


def cofactor_hyperplane(points):
    """Coordinates h of the hyperplane through n points of P^n (h_i = signed minor), zero vector if dependent."""
    n1 = len(points[0])
    assert len(points) == n1 - 1
    h = []
    for i in range(n1):
        sub = [[r[j] for j in range(n1) if j != i] for r in points]
        h.append((-1) ** i * det(sub))
    return h


def dot(a, b):
    s = 0
    for x, y in zip(a, b):
        s = s + x * y
    return s


def proportional(a, b) -> bool:
    """a, b non-trivially proportional (both non-zero and rank 1)?"""
    if all(is_zero(x) for x in a) or all(is_zero(x) for x in b):
        return False
    return rank([list(a), list(b)]) == 1


def plucker(p, q):
    """Antisymmetric 4x4 matrix p^q of two points (contravariant line coordinates L^{ij} = p_i q_j - p_j q_i)."""
    n = len(p)
    return [[p[i] * q[j] - p[j] * q[i] for j in range(n)] for i in range(n)]


def classify_lines3(a1, a2, b1, b2) -> str:
    """Two lines of P^3 spanned by points (a1,a2), (b1,b2): 'equal' | 'meet' | 'skew' | 'degenerate'."""
    if rank([a1, a2]) < 2 or rank([b1, b2]) < 2:
        return "degenerate"
    r = rank([a1, a2, b1, b2])
    return {2: "equal", 3: "meet", 4: "skew"}[r]


# ------------------------------------------------------------------------------------------ plane geometry
def orient(a, b, c):
    """Twice the signed area of triangle abc (Cartesian 2D points as Fractions)."""
    return (b[0] - a[0]) * (c[1] - a[1]) - (b[1] - a[1]) * (c[0] - a[0])


def on_segment(a, b, p) -> bool:
    if orient(a, b, p) != 0:
        return False
    return min(a[0], b[0]) <= p[0] <= max(a[0], b[0]) and min(a[1], b[1]) <= p[1] <= max(a[1], b[1])


def on_segment_nd(a, b, p) -> bool:
    """p on closed segment ab in any dimension (Fractions)."""
    d = [y - x for x, y in zip(a, b)]
    w = [y - x for x, y in zip(a, p)]
    if all(x == 0 for x in d):
        return all(x == 0 for x in w)
    if rank([d, w]) > 1:
        return False
    k = next(i for i, x in enumerate(d) if x != 0)
    t = w[k] / d[k]
    return 0 <= t <= 1


def point_in_polygon(poly, p) -> bool:
    """Closed point-in-polygon: boundary test + exact half-open crossing number."""
    n = len(poly)
    for i in range(n):
        if on_segment(poly[i], poly[(i + 1) % n], p):
            return True
    inside = False
    for i in range(n):
        a, b = poly[i], poly[(i + 1) % n]
        if (a[1] > p[1]) != (b[1] > p[1]):
            # x coordinate of the edge at height p.y
            x = a[0] + (p[1] - a[1]) * (b[0] - a[0]) / (b[1] - a[1])
            if x > p[0]:
                inside = not inside
    return inside


def segments_cross_properly(a, b, c, d) -> bool:
    o1, o2 = orient(a, b, c), orient(a, b, d)
    o3, o4 = orient(c, d, a), orient(c, d, b)
    return (o1 > 0) != (o2 > 0) and o1 != 0 and o2 != 0 and (o3 > 0) != (o4 > 0) and o3 != 0 and o4 != 0


def segments_touch(a, b, c, d) -> bool:
    """Closed segments ab and cd share at least one point."""
    if segments_cross_properly(a, b, c, d):
        return True
    return on_segment(a, b, c) or on_segment(a, b, d) or on_segment(c, d, a) or on_segment(c, d, b)


def is_simple_polygon(poly) -> bool:
    n = len(poly)
    if n < 3:
        return False
    if len({tuple(p) for p in poly}) != n:
        return False
    if shoelace2(poly) == 0:
        return False
    for i in range(n):
        a, b = poly[i], poly[(i + 1) % n]
        # consecutive edges must not be collinear-overlapping / degenerate
        c = poly[(i + 2) % n]
        if orient(a, b, c) == 0:
            return False
        for j in range(i + 1, n):
            if j == i or (j + 1) % n == i or (i + 1) % n == j:
                continue
            c, d = poly[j], poly[(j + 1) % n]
            if segments_touch(a, b, c, d):
                return False
    return True


def shoelace2(poly):
    """Twice the signed area."""
    n = len(poly)
    return sum(poly[i][0] * poly[(i + 1) % n][1] - poly[(i + 1) % n][0] * poly[i][1] for i in range(n))


def polygon_centroid(poly):
    a2 = shoelace2(poly)
    n = len(poly)
    cx = sum((poly[i][0] + poly[(i + 1) % n][0]) * (poly[i][0] * poly[(i + 1) % n][1] - poly[(i + 1) % n][0] * poly[i][1]) for i in range(n))
    cy = sum((poly[i][1] + poly[(i + 1) % n][1]) * (poly[i][0] * poly[(i + 1) % n][1] - poly[(i + 1) % n][0] * poly[i][1]) for i in range(n))
    return [cx / (3 * a2), cy / (3 * a2)]


def seg_seg_intersection(a, b, c, d):
    """Exact intersection of closed segments ab, cd in 2D: ('none',) | ('point', p) | ('overlap',)."""
    d1 = [b[0] - a[0], b[1] - a[1]]
    d2 = [d[0] - c[0], d[1] - c[1]]
    den = d1[0] * d2[1] - d1[1] * d2[0]
    if den == 0:
        if orient(a, b, c) != 0:
            return ("none",)
        # collinear: compute overlap along parameter
        k = 0 if d1[0] != 0 else 1
        lo1, hi1 = sorted([a[k], b[k]])
        lo2, hi2 = sorted([c[k], d[k]])
        lo, hi = max(lo1, lo2), min(hi1, hi2)
        if lo > hi:
            return ("none",)
        if lo == hi:
            p = a if a[k] == lo else (b if b[k] == lo else None)
            if p is None:
                p = c if c[k] == lo else d
            return ("point", [Fraction(p[0]), Fraction(p[1])])
        return ("overlap",)
    t = ((c[0] - a[0]) * d2[1] - (c[1] - a[1]) * d2[0]) / den
    u = ((c[0] - a[0]) * d1[1] - (c[1] - a[1]) * d1[0]) / den
    if 0 <= t <= 1 and 0 <= u <= 1:
        return ("point", [a[0] + t * d1[0], a[1] + t * d1[1]])
    return ("none",)


def kron_delta_entry(mu, nu) -> int:
    """Generalised Kronecker delta: det[delta(mu_a, nu_b)]."""
    p = len(mu)
    m = [[1 if mu[a] == nu[b] else 0 for b in range(p)] for a in range(p)]
    return int(det_leibniz(m)) if p <= 4 else int(det([[Fraction(x) for x in r] for r in m]))


def frac_pairs(n):
    return list(combinations(range(n), 2))
