"""Equivalent ways of asking for the same object: positional / keyword arguments, Point objects / other representatives /
number types, defaults given explicitly, argument order where the object is symmetric in it. Shared by the argument_forms laws
of C08 (transformation constructors), C13 (quadric constructors) and C17 (polytopes).

Each entry: (name, dims, build) where build(v, d) -> list of (form name, zero-argument callable); v is a list of at least 16 small
integers. All forms of one entry must return projectively equal objects (polytopes: equal by ==)."""
from __future__ import annotations

import numpy as np

import geometer as G
from geometer import Circle, Cone, Conic, Cuboid, Cylinder, Ellipse, Line, Plane, Point, Polygon, Quadric, Rectangle, RegularPolygon, Segment, Sphere, Triangle

from .runner import Skip


def _k(v):
    return [2.0, -1.0, 0.5, -3.0][abs(v[15]) % 4]


def _pt(c, k=1.0):
    return Point(np.append(np.array(c, float), 1.0) * k)


def transformation_forms():
    out = []

    def tr(v, d):
        c = [float(x) for x in v[:d]]
        return [("translation(*xy)", lambda: G.translation(*c)), ("translation(Point)", lambda: G.translation(Point(*c))), ("translation(k*Point)", lambda: G.translation(_pt(c, _k(v)))),
                ("translation(int)", lambda: G.translation(*[int(x) for x in c])), ("translation(np.float64)", lambda: G.translation(*[np.float64(x) for x in c])),
                ("translation(p=...)" if False else "translation(Point(ints))", lambda: G.translation(Point(*[int(x) for x in c])))]

    out.append(("translation", (2, 3), tr))

    def rot2(v, d):
        a = v[0] * np.pi / 12
        return [("rotation(a)", lambda: G.rotation(a)), ("rotation(angle=a)", lambda: G.rotation(angle=a)), ("rotation(np.float64)", lambda: G.rotation(np.float64(a))), ("rotation(a, None)", lambda: G.rotation(a, None)),
                ("rotation(a, axis=None)", lambda: G.rotation(a, axis=None))]

    out.append(("rotation2", (2,), rot2))

    def rot3(v, d):
        a = v[0] * np.pi / 12
        ax = [float(x) for x in v[1:4]]
        if not any(ax):
            raise Skip("zero axis")
        return [("rotation(a, Point)", lambda: G.rotation(a, Point(*ax))), ("rotation(a, axis=Point)", lambda: G.rotation(a, axis=Point(*ax))), ("rotation(angle=a, axis=k*Point)", lambda: G.rotation(angle=a, axis=_pt(ax, abs(_k(v))))),
                ("rotation(a, Point(ints))", lambda: G.rotation(a, Point(*[int(x) for x in ax])))]

    out.append(("rotation3", (3,), rot3))

    def sc(v, d):
        f = [x / 2 if x else 1.5 for x in v[:d]]
        return [("scaling(*f)", lambda: G.scaling(*f)), ("scaling(np.float64)", lambda: G.scaling(*[np.float64(x) for x in f])), ("scaling(*tuple)", lambda: G.scaling(*tuple(f)))]

    out.append(("scaling", (2, 3), sc))

    def refl(v, d):
        h = [float(x) for x in v[: d + 1]]
        if not any(h[:-1]):
            raise Skip("no normal")
        cls = Line if d == 2 else Plane
        return [("reflection(h)", lambda: G.reflection(cls(np.array(h)))), ("reflection(k*h)", lambda: G.reflection(cls(np.array(h) * _k(v)))), ("reflection(axis=h)", lambda: G.reflection(axis=cls(np.array(h)))),
                ("reflection(int h)", lambda: G.reflection(cls(np.array([int(x) for x in h]))))]

    out.append(("reflection", (2, 3), refl))

    def aff(v, d):
        M = np.array(v[: d * d], float).reshape(d, d) + 5 * np.eye(d)
        off = np.array(v[9 : 9 + d], float)
        return [("affine_transform(M, off)", lambda: G.affine_transform(M, off)), ("affine_transform(matrix=, offset=)", lambda: G.affine_transform(matrix=M, offset=off)), ("affine_transform(lists)", lambda: G.affine_transform(M.tolist(), off.tolist())),
                ("affine_transform(offset=, matrix=)", lambda: G.affine_transform(offset=off, matrix=M))]

    out.append(("affine_transform", (2, 3), aff))

    def aff0(v, d):
        M = np.array(v[: d * d], float).reshape(d, d) + 5 * np.eye(d)
        return [("affine_transform(M)", lambda: G.affine_transform(M)), ("affine_transform(M, 0)", lambda: G.affine_transform(M, 0)), ("affine_transform(M, zeros)", lambda: G.affine_transform(M, np.zeros(d))),
                ("affine_transform(matrix=M)", lambda: G.affine_transform(matrix=M))]

    out.append(("affine_transform-no-offset", (2, 3), aff0))

    def ident(v, d):
        return [("identity(d)", lambda: G.identity(d)), ("identity(dim=d)", lambda: G.identity(dim=d)), ("identity(d, None)", lambda: G.identity(d, None)), ("translation(0)", lambda: G.translation(*([0] * d)))]

    out.append(("identity", (2, 3), ident))
    return out


def quadric_forms():
    out = []

    def circ(v, d):
        c = [float(x) for x in v[:2]]
        r = abs(v[2]) / 2 + 0.5
        return [("Circle(c, r)", lambda: Circle(Point(*c), r)), ("Circle(center=, radius=)", lambda: Circle(center=Point(*c), radius=r)), ("Circle(k*c, r)", lambda: Circle(_pt(c, _k(v)), r)),
                ("Circle(c, np.float64 r)", lambda: Circle(Point(*c), np.float64(r))), ("Circle(radius=, center=)", lambda: Circle(radius=r, center=Point(*c))), ("Ellipse(c, r, r)", lambda: Ellipse(Point(*c), r, r)),
                ("Sphere(c, r) in the plane", lambda: Sphere(Point(*c), r))]

    out.append(("Circle", (2,), circ))

    def circ_int(v, d):
        c = [int(x) for x in v[:2]]
        r = abs(v[2]) + 1
        return [("Circle(int c, int r)", lambda: Circle(Point(*c), r)), ("Circle(float c, float r)", lambda: Circle(Point(*[float(x) for x in c]), float(r)))]

    out.append(("Circle-int-vs-float", (2,), circ_int))

    def dflt(v, d):
        if d == 2:
            return [("Circle()", lambda: Circle()), ("Circle(Point(0,0), 1)", lambda: Circle(Point(0, 0), 1)), ("Ellipse()", lambda: Ellipse()), ("Ellipse(Point(0,0), 1, 1)", lambda: Ellipse(Point(0, 0), 1, 1)), ("Circle(radius=1)", lambda: Circle(radius=1))]
        return [("Sphere()", lambda: Sphere()), ("Sphere(Point(0,0,0), 1)", lambda: Sphere(Point(0, 0, 0), 1)), ("Sphere(radius=1)", lambda: Sphere(radius=1)), ("Sphere(center=Point(0,0,0))", lambda: Sphere(center=Point(0, 0, 0)))]

    out.append(("defaults", (2, 3), dflt))

    def ell(v, d):
        c = [float(x) for x in v[:2]]
        h, w = abs(v[2]) / 2 + 0.5, abs(v[3]) / 2 + 1.0
        return [("Ellipse(c, h, v)", lambda: Ellipse(Point(*c), h, w)), ("Ellipse(center=, hradius=, vradius=)", lambda: Ellipse(center=Point(*c), hradius=h, vradius=w)), ("Ellipse(k*c, h, v)", lambda: Ellipse(_pt(c, _k(v)), h, w)),
                ("Ellipse(vradius=, hradius=, center=)", lambda: Ellipse(vradius=w, hradius=h, center=Point(*c)))]

    out.append(("Ellipse", (2,), ell))

    def sph(v, d):
        c = [float(x) for x in v[:3]]
        r = abs(v[3]) / 2 + 0.5
        return [("Sphere(c, r)", lambda: Sphere(Point(*c), r)), ("Sphere(center=, radius=)", lambda: Sphere(center=Point(*c), radius=r)), ("Sphere(k*c, r)", lambda: Sphere(_pt(c, _k(v)), r)), ("Sphere(c, np.float64 r)", lambda: Sphere(Point(*c), np.float64(r)))]

    out.append(("Sphere", (3,), sph))

    def cone(v, d):
        a = [float(x) for x in v[:3]]
        ax = [float(x) for x in v[3:6]]
        if not any(ax):
            raise Skip("zero axis")
        b = [x + y for x, y in zip(a, ax)]
        r = abs(v[6]) / 2 + 0.5
        return [("Cone(vertex, base, r)", lambda: Cone(Point(*a), Point(*b), r)), ("Cone(vertex=, base_center=, radius=)", lambda: Cone(vertex=Point(*a), base_center=Point(*b), radius=r)),
                ("Cone(k*vertex, k*base, r)", lambda: Cone(_pt(a, _k(v)), _pt(b, -_k(v)), r)), ("Cone(radius=, base_center=, vertex=)", lambda: Cone(radius=r, base_center=Point(*b), vertex=Point(*a)))]

    out.append(("Cone", (3,), cone))

    def cyl(v, d):
        a = [float(x) for x in v[:3]]
        ax = [float(x) for x in v[3:6]]
        if not any(ax):
            raise Skip("zero axis")
        r = abs(v[6]) / 2 + 0.5
        return [("Cylinder(center, direction, r)", lambda: Cylinder(Point(*a), Point(*ax), r)), ("Cylinder(center=, direction=, radius=)", lambda: Cylinder(center=Point(*a), direction=Point(*ax), radius=r)),
                ("Cylinder(k*center, direction, r)", lambda: Cylinder(_pt(a, _k(v)), Point(*ax), r)), ("Cylinder(center, -direction, r)", lambda: Cylinder(Point(*a), Point(*[-x for x in ax]), r)),
                ("Cylinder(center, 2*direction, r)", lambda: Cylinder(Point(*a), Point(*[2 * x for x in ax]), r))]

    out.append(("Cylinder", (3,), cyl))

    def lines(v, d):
        g, h = np.array(v[:3], float), np.array(v[3:6], float)
        if np.linalg.matrix_rank(np.stack([g, h])) < 2:
            raise Skip("equal lines")
        return [("from_lines(g, h)", lambda: Conic.from_lines(Line(g), Line(h))), ("from_lines(h, g)", lambda: Conic.from_lines(Line(h), Line(g))), ("from_lines(k*g, h)", lambda: Conic.from_lines(Line(g * _k(v)), Line(h))),
                ("from_lines(g=, h=)", lambda: Conic.from_lines(g=Line(g), h=Line(h)))]

    out.append(("Conic.from_lines", (2,), lines))

    def planes(v, d):
        g, h = np.array(v[:4], float), np.array(v[4:8], float)
        if np.linalg.matrix_rank(np.stack([g, h])) < 2:
            raise Skip("equal planes")
        return [("from_planes(e, f)", lambda: Quadric.from_planes(Plane(g), Plane(h))), ("from_planes(f, e)", lambda: Quadric.from_planes(Plane(h), Plane(g))), ("from_planes(k*e, f)", lambda: Quadric.from_planes(Plane(g * _k(v)), Plane(h)))]

    out.append(("Quadric.from_planes", (3,), planes))
    return out


def polytope_forms():
    out = []

    def seg(v, d):
        a, b = [float(x) for x in v[:d]], [float(x) for x in v[d : 2 * d]]
        if v[9] % 3 == 0:
            # a segment on a coordinate axis / in a coordinate plane through the origin (one coordinate of both end points vanishes)
            k = abs(v[10]) % d
            a[k] = b[k] = 0.0
            if d == 3 and v[11] % 2:
                a[(k + 1) % 3] = b[(k + 1) % 3] = 0.0
        if a == b:
            raise Skip("degenerate")
        A, B = _pt(a), _pt(b)
        return [("Segment(p, q)", lambda: Segment(A, B)), ("Segment(array)", lambda: Segment(np.stack([A.array, B.array]))), ("Segment(q, p)", lambda: Segment(B, A)), ("Segment(k*p, q)", lambda: Segment(_pt(a, _k(v)), B)),
                ("Segment(Point(ints))", lambda: Segment(Point(*[int(x) for x in a]), Point(*[int(x) for x in b])))]

    out.append(("Segment", (2, 3), seg))

    def tri(v, d):
        P = [[float(x) for x in v[i * d : (i + 1) * d]] for i in range(3)]
        if np.linalg.matrix_rank(np.array([np.subtract(P[1], P[0]), np.subtract(P[2], P[0])])) < 2:
            raise Skip("degenerate")
        pts = [_pt(p) for p in P]
        return [("Triangle(a, b, c)", lambda: Triangle(*pts)), ("Polygon(a, b, c)", lambda: Polygon(*pts)), ("Triangle(b, c, a)", lambda: Triangle(pts[1], pts[2], pts[0])), ("Triangle(c, b, a)", lambda: Triangle(pts[2], pts[1], pts[0])),
                ("Polygon(array)", lambda: Polygon(np.stack([p.array for p in pts]))), ("Triangle(k*a, b, c)", lambda: Triangle(_pt(P[0], _k(v)), pts[1], pts[2]))]

    out.append(("Triangle", (2, 3), tri))

    def rect(v, d):
        o = np.array(v[:2], float)
        w, h = abs(v[2]) + 1.0, abs(v[3]) + 1.0
        P = [o, o + [w, 0], o + [w, h], o + [0, h]]
        pts = [_pt(p) for p in P]
        return [("Rectangle(a, b, c, d)", lambda: Rectangle(*pts)), ("Polygon(a, b, c, d)", lambda: Polygon(*pts)), ("Rectangle(d, c, b, a)", lambda: Rectangle(*pts[::-1])), ("Polygon(array)", lambda: Polygon(np.stack([p.array for p in pts]))),
                ("Rectangle(b, c, d, a)", lambda: Rectangle(pts[1], pts[2], pts[3], pts[0]))]

    out.append(("Rectangle", (2,), rect))

    def reg(v, d):
        c = [float(x) for x in v[:d]]
        r = abs(v[3]) / 2 + 1.0
        n = 3 + abs(v[4]) % 5
        if d == 2:
            return [("RegularPolygon(c, r, n)", lambda: RegularPolygon(Point(*c), r, n)), ("RegularPolygon(center=, radius=, n=)", lambda: RegularPolygon(center=Point(*c), radius=r, n=n)), ("RegularPolygon(c, r, n, None)", lambda: RegularPolygon(Point(*c), r, n, None)),
                    ("RegularPolygon(k*c, r, n)", lambda: RegularPolygon(_pt(c, _k(v)), r, n)), ("RegularPolygon(c, np.float64 r, n)", lambda: RegularPolygon(Point(*c), np.float64(r), n))]
        ax = [float(x) for x in v[5:8]]
        if not any(ax):
            raise Skip("zero axis")
        return [("RegularPolygon(c, r, n, axis)", lambda: RegularPolygon(Point(*c), r, n, Point(*ax))), ("RegularPolygon(..., axis=)", lambda: RegularPolygon(Point(*c), r, n, axis=Point(*ax))),
                ("RegularPolygon(k*c, r, n, axis)", lambda: RegularPolygon(_pt(c, _k(v)), r, n, Point(*ax))), ("RegularPolygon(c, r, n, 2*axis)", lambda: RegularPolygon(Point(*c), r, n, Point(*[2 * x for x in ax])))]

    out.append(("RegularPolygon", (2, 3), reg))

    def cub(v, d):
        o = np.array(v[:3], float)
        e = [np.array([abs(v[3]) + 1.0, 0, 0]), np.array([0, abs(v[4]) + 1.0, 0]), np.array([0, 0, abs(v[5]) + 1.0])]
        pts = [_pt(o)] + [_pt(o + x) for x in e]
        return [("Cuboid(a, b, c, d)", lambda: Cuboid(*pts)), ("Cuboid(a, c, b, d)", lambda: Cuboid(pts[0], pts[2], pts[1], pts[3])), ("Cuboid(a, d, c, b)", lambda: Cuboid(pts[0], pts[3], pts[2], pts[1])),
                ("Cuboid(k*a, b, c, d)", lambda: Cuboid(_pt(o, _k(v)), *pts[1:]))]

    out.append(("Cuboid", (3,), cub))

    def quad(v, d):
        # a simple quadrilateral that is no parallelogram in general (trapezoids, kites, darts): (0,0), (a,0), (b,c), (0,e) moved by o; in
        # 3-space lifted to the plane z = alpha x + beta y + gamma
        a, b, c, e = abs(v[2]) + 2.0, abs(v[3]) + 1.0, abs(v[4]) + 1.0, abs(v[5]) + 1.0
        o = np.array(v[:2], float)
        P2 = [o, o + [a, 0], o + [b, c], o + [0, e]]
        for i in range(4):
            x, y, z = P2[i], P2[(i + 1) % 4], P2[(i + 2) % 4]
            if (y[0] - x[0]) * (z[1] - y[1]) - (y[1] - x[1]) * (z[0] - y[0]) == 0:
                raise Skip("three consecutive vertices on a line")
        lift = (lambda p: list(p)) if d == 2 else (lambda p: [p[0], p[1], v[6] % 3 * p[0] - v[7] % 2 * p[1] + v[8]])
        pts = [_pt([float(x) for x in lift(p)]) for p in P2]
        other = [_pt([float(x) for x in lift(p + [7.0, 1.0])]) for p in P2]
        from geometer import PolygonCollection

        forms = [("Polygon(a, b, c, d)", lambda: Polygon(*pts)), ("PolygonCollection([g, h])[0]", lambda: PolygonCollection([Polygon(*pts), Polygon(*other)])[0]),
                 ("list(PolygonCollection([h, g]))[1]", lambda: list(PolygonCollection([Polygon(*other), Polygon(*pts)]))[1]), ("Polygon(b, c, d, a)", lambda: Polygon(pts[1], pts[2], pts[3], pts[0])),
                 ("PolygonCollection(array)[1]", lambda: PolygonCollection(np.stack([np.stack([p.array for p in other]), np.stack([p.array for p in pts])]))[1])]
        if d == 3:
            from geometer.shapes import Polyhedron

            forms.append(("Polyhedron(h, g).faces[1]", lambda: Polyhedron(Polygon(*other), Polygon(*pts)).faces[1]))
        return forms

    out.append(("Quadrilateral", (2, 3), quad))

    def treg(v, d):
        # a regular polygon moved by a map that is no similarity (non-uniform scaling and shear): the result keeps the class RegularPolygon but
        # is an ordinary polygon; its measures are those of Polygon(*vertices)
        from geometer import affine_transform

        c = [float(x) for x in v[:d]]
        r = abs(v[3]) / 2 + 1.0
        n = 3 + abs(v[4]) % 5
        A = np.eye(d)
        A[0, 0] = 2.0 + abs(v[5]) % 2
        A[0, 1] = float(v[6] % 3 - 1)
        if d == 3:
            A[2, 2] = 0.5
            A[1, 2] = float(v[7] % 2)
            ax = [float(x) for x in v[8:11]]
            if not any(ax):
                raise Skip("zero axis")
            mk = lambda: RegularPolygon(Point(*c), r, n, axis=Point(*ax))  # noqa: E731
        else:
            mk = lambda: RegularPolygon(Point(*c), r, n)  # noqa: E731
        t = affine_transform(A, offset=[float(x) for x in v[11:11 + d]])
        return [("Polygon(*(t * regular).vertices)", lambda: Polygon(*(t * mk()).vertices)), ("t * RegularPolygon(...)", lambda: t * mk()), ("t.apply(RegularPolygon(...))", lambda: t.apply(mk())),
                ("Polygon(*[t * v for v in regular.vertices])", lambda: Polygon(*[t * x for x in mk().vertices]))]

    out.append(("TransformedRegularPolygon", (2, 3), treg))
    return out


FORMS = {"C08": transformation_forms(), "C13": quadric_forms(), "C17": polytope_forms()}


def forms_case_strategy(pid):
    from hypothesis import strategies as st

    from . import common as C

    names = [(nm, d) for nm, dims, _ in FORMS[pid] for d in dims]

    @st.composite
    def strat(draw, tier="quick"):
        v = [draw(C.ints(6)) for _ in range(16)]
        nm, d = C.uniform_pick(names, v)
        return {"entry": nm, "d": d, "v": v}

    return strat


def run_forms(pid):
    from . import common as C
    from .runner import Checker, call

    table = {(nm, d): build for nm, dims, build in FORMS[pid] for d in dims}

    def run(c):
        build = table.get((c["entry"], c["d"]))
        if build is None or len(c["v"]) < 16:
            raise Skip("unknown entry")
        forms = build([int(x) for x in c["v"]], c["d"])
        ck = Checker()
        base_name, base = None, None
        probe_cache = {}
        for fname, f in forms:
            o, fail = call(f"forms:{c['entry']}:{fname}", f)
            if fail:
                ck.add(fail)
                continue
            if base is None:
                base_name, base = fname, o
                continue
            site = f"forms:{c['entry']}:d{c['d']}:{fname}=={base_name}"
            eq, fail = call(site, lambda: (o == base, base == o))
            if fail:
                ck.add(fail)
            else:
                ck.check(bool(np.all(eq[0])) and bool(np.all(eq[1])), site + ":library-equality", "")
            a, b = np.asarray(o.array), np.asarray(base.array)
            if isinstance(o, G.shapes.PolytopeTensor):
                # same vertex set (order may differ)
                va = sorted(tuple(np.round(C.pnorm(r).real, 7)) for r in a.reshape(-1, a.shape[-1]))
                vb = sorted(tuple(np.round(C.pnorm(r).real, 7)) for r in b.reshape(-1, b.shape[-1]))
                ck.check(va == vb, site + ":same-vertices", (va[:3], vb[:3]))
                if isinstance(o, G.shapes.SegmentTensor):
                    mid = np.append(0.5 * (np.real(b[0][:-1] / b[0][-1]) + np.real(b[1][:-1] / b[1][-1])), 1.0)
                    x, fx = call(site + ":midpoint", lambda: o.midpoint)
                    if fx:
                        ck.add(fx)
                    else:
                        ck.check(C.peq_all(np.asarray(x.array), mid, 1, 1e-9), site + ":midpoint", (np.asarray(x.array).tolist(), mid.tolist()))
                for attr in ("area", "length"):
                    if hasattr(o, attr) and hasattr(base, attr):
                        x, fx = call(site + ":" + attr, lambda: (getattr(o, attr), getattr(base, attr)))
                        if fx is None:
                            ck.check(np.allclose(x[0], x[1], rtol=1e-9, atol=1e-9), site + ":" + attr, (np.asarray(x[0]).tolist(), np.asarray(x[1]).tolist()))
                if hasattr(o, "centroid") and hasattr(base, "centroid"):
                    x, fx = call(site + ":centroid", lambda: (o.centroid, base.centroid))
                    if fx is None:
                        ck.check(C.peq_all(np.asarray(x[0].array), np.asarray(x[1].array), 1, 1e-9), site + ":centroid", (np.asarray(x[0].array).tolist(), np.asarray(x[1].array).tolist()))
                if isinstance(o, G.shapes.PolygonTensor) and a.ndim == 2 and b.shape == a.shape:
                    # membership of and distance from some points of the plane of the polygon (affine combinations of its vertices)
                    nv = a.shape[0]
                    W = [[1.0 / nv] * nv, [0.7] + [0.3 / (nv - 1)] * (nv - 1), [-0.3, 0.65, 0.65] + [0.0] * (nv - 3), [0.05] * (nv - 1) + [1 - 0.05 * (nv - 1)]]
                    va = np.array([C.pnorm(r).real for r in b])
                    for wts in W:
                        q = Point(np.asarray(wts) @ va)
                        key = (id(base), tuple(wts))
                        if key not in probe_cache:
                            probe_cache[key] = call(site + ":contains/dist", lambda: (base.contains(q), G.dist(base, q)))
                        y, fy = probe_cache[key]
                        x, fx = call(site + ":contains/dist", lambda: (o.contains(q), G.dist(o, q)))
                        if fx is None and fy is None:
                            ck.check(bool(x[0]) == bool(y[0]), site + ":contains", (wts, bool(x[0]), bool(y[0])))
                            ck.check(np.allclose(x[1], y[1], rtol=1e-9, atol=1e-9), site + ":dist", (wts, float(x[1]), float(y[1])))
            else:
                ck.check(a.shape == b.shape and C.peq_all(a.astype(complex), b.astype(complex), a.ndim, 1e-9), site + ":same-matrix", C.short((a.tolist(), b.tolist())))
        return ck.result()

    return run


# ------------------------------------------------------------------------------------------- equivalent forms of operations
def call_forms(pid):
    """-> list of (name, dims, build) with build(pool) -> list of (form name, callable); pool = ops.pool_for(d, v)"""
    E = []
    if pid == "C10":
        E += [("perpendicular", (2, 3), lambda P: [("positional", lambda: P["l0"].perpendicular(P["p2"])), ("through=", lambda: P["l0"].perpendicular(through=P["p2"]))]),
              ("parallel", (2, 3), lambda P: [("positional", lambda: P["l0"].parallel(P["p2"])), ("through=", lambda: P["l0"].parallel(through=P["p2"]))]),
              ("project", (2, 3), lambda P: [("positional", lambda: P["l0"].project(P["p2"])), ("pt=", lambda: P["l0"].project(pt=P["p2"]))]),
              ("mirror", (2,), lambda P: [("positional", lambda: P["l0"].mirror(P["p2"])), ("pt=", lambda: P["l0"].mirror(pt=P["p2"]))]),
              ("plane.perpendicular", (3,), lambda P: [("positional", lambda: P["e0"].perpendicular(P["p3"])), ("through=", lambda: P["e0"].perpendicular(through=P["p3"]))]),
              ("plane.project", (3,), lambda P: [("positional", lambda: P["e0"].project(P["p3"])), ("pt=", lambda: P["e0"].project(pt=P["p3"]))]),
              ("plane.mirror", (3,), lambda P: [("positional", lambda: P["e0"].mirror(P["p3"])), ("pt=", lambda: P["e0"].mirror(pt=P["p3"]))]),
              ("is_perpendicular", (2,), lambda P: [("(l, m)", lambda: G.is_perpendicular(P["l0"], P["l1"])), ("(m, l)", lambda: G.is_perpendicular(P["l1"], P["l0"])), ("l=, m=", lambda: G.is_perpendicular(l=P["l0"], m=P["l1"]))]),
              ("is_parallel", (2, 3), lambda P: [("l.is_parallel(m)", lambda: P["l0"].is_parallel(P["l1"])), ("m.is_parallel(l)", lambda: P["l1"].is_parallel(P["l0"])), ("other=", lambda: P["l0"].is_parallel(other=P["l1"]))]),
              ("angle_bisectors", (2,), lambda P: [("(l, m)", lambda: list(G.angle_bisectors(P["l0"], P["l1"]))), ("l=, m=", lambda: list(G.angle_bisectors(l=P["l0"], m=P["l1"])))])]
    if pid == "C09":
        E += [("dist(p, q)", (2, 3), lambda P: [("(p, q)", lambda: G.dist(P["p0"], P["p1"])), ("(q, p)", lambda: G.dist(P["p1"], P["p0"])), ("p=, q=", lambda: G.dist(p=P["p0"], q=P["p1"])), ("q=, p=", lambda: G.dist(q=P["p1"], p=P["p0"]))]),
              ("dist(p, l)", (2, 3), lambda P: [("(p, l)", lambda: G.dist(P["p2"], P["l0"])), ("(l, p)", lambda: G.dist(P["l0"], P["p2"])), ("p=, q=", lambda: G.dist(p=P["p2"], q=P["l0"]))]),
              ("dist(p, seg)", (2, 3), lambda P: [("(p, s)", lambda: G.dist(P["p2"], P["s0"])), ("(s, p)", lambda: G.dist(P["s0"], P["p2"]))]),
              ("dist(p, e)", (3,), lambda P: [("(p, e)", lambda: G.dist(P["p3"], P["e0"])), ("(e, p)", lambda: G.dist(P["e0"], P["p3"]))]),
              ("angle(l, m)", (2,), lambda P: [("(l, m)", lambda: G.angle(P["l0"], P["l1"])), ("-(m, l)", lambda: -G.angle(P["l1"], P["l0"]))], "angle")]
    if pid == "C07":
        E += [("t*p", (2, 3), lambda P: [("t * x", lambda: P["t0"] * P["p0"]), ("t.apply(x)", lambda: P["t0"].apply(P["p0"])), ("apply(other=)", lambda: P["t0"].apply(other=P["p0"]))]),
              ("t*l", (2, 3), lambda P: [("t * x", lambda: P["t0"] * P["l0"]), ("t.apply(x)", lambda: P["t0"].apply(P["l0"]))]),
              ("t*e", (3,), lambda P: [("t * x", lambda: P["t0"] * P["e0"]), ("t.apply(x)", lambda: P["t0"].apply(P["e0"]))]),
              ("t*q", (2, 3), lambda P: [("t * x", lambda: P["t0"] * P["q0"]), ("t.apply(x)", lambda: P["t0"].apply(P["q0"]))]),
              ("t*seg", (2, 3), lambda P: [("t * x", lambda: [P["t0"] * P["s0"], (P["t0"] * P["s0"])._line]), ("t.apply(x)", lambda: [P["t0"].apply(P["s0"]), P["t0"].apply(P["s0"])._line])]),
              ("t*polygon", (2, 3), lambda P: [("t * x", lambda: [P["t0"] * P["g0"]] + ([(P["t0"] * P["g0"])._plane] if P["g0"].dim > 2 else [])), ("t.apply(x)", lambda: [P["t0"].apply(P["g0"])] + ([P["t0"].apply(P["g0"])._plane] if P["g0"].dim > 2 else []))]),
              ("t*t", (2, 3), lambda P: [("s * t", lambda: P["t0"] * P["t1"]), ("s.apply(t)", lambda: P["t0"].apply(P["t1"]))]),
              ("join", (2, 3), lambda P: [("join(a, b)", lambda: G.join(P["p0"], P["p1"])), ("a.join(b)", lambda: P["p0"].join(P["p1"])), ("b.join(a)", lambda: P["p1"].join(P["p0"])), ("Line(a, b)", lambda: G.Line(P["p0"], P["p1"]))])]
    if pid == "C11":
        E += [("crossratio from_point", (2,), lambda P: [("positional", lambda: G.crossratio(P["c0"], P["c1"], P["c2"], P["c3"], P["p3"])), ("from_point=", lambda: G.crossratio(P["c0"], P["c1"], P["c2"], P["c3"], from_point=P["p3"])),
                                                          ("a=, b=, c=, d=", lambda: G.crossratio(a=P["c0"], b=P["c1"], c=P["c2"], d=P["c3"], from_point=P["p3"]))]),
              ("crossratio collinear", (2, 3), lambda P: [("positional", lambda: G.crossratio(P["c0"], P["c1"], P["c2"], P["c3"])), ("from_point=None", lambda: G.crossratio(P["c0"], P["c1"], P["c2"], P["c3"], None)),
                                                          ("keywords", lambda: G.crossratio(a=P["c0"], b=P["c1"], c=P["c2"], d=P["c3"]))]),
              ("harmonic_set", (2, 3), lambda P: [("positional", lambda: G.harmonic_set(P["c0"], P["c1"], P["c2"])), ("keywords", lambda: G.harmonic_set(a=P["c0"], b=P["c1"], c=P["c2"]))])]
    if pid == "C14":
        E += [("tangent", (2, 3), lambda P: [("positional", lambda: (P["circle"] if "circle" in P else P["sphere"]).tangent(P["qon"])), ("at=", lambda: (P["circle"] if "circle" in P else P["sphere"]).tangent(at=P["qon"]))]),
              ("is_tangent", (2, 3), lambda P: [("positional", lambda: (P["circle"] if "circle" in P else P["sphere"]).is_tangent(P["qtan"])), ("plane=", lambda: (P["circle"] if "circle" in P else P["sphere"]).is_tangent(plane=P["qtan"]))]),
              ("contains", (2, 3), lambda P: [("positional", lambda: (P["circle"] if "circle" in P else P["sphere"]).contains(P["qon"])), ("other=", lambda: (P["circle"] if "circle" in P else P["sphere"]).contains(other=P["qon"]))]),
              ("intersect", (2, 3), lambda P: [("positional", lambda: (P["circle"] if "circle" in P else P["sphere"]).intersect(P["l0"])), ("other=", lambda: (P["circle"] if "circle" in P else P["sphere"]).intersect(other=P["l0"]))])]
    if pid == "C16":
        E += [("segment.contains", (2, 3), lambda P: [("positional", lambda: P["s0"].contains(P["p0"])), ("other=", lambda: P["s0"].contains(other=P["p0"])), ("off", lambda: None)][:2]),
              ("polygon.contains", (2, 3), lambda P: [("positional", lambda: P["g0"].contains(P["gin"])), ("other=", lambda: P["g0"].contains(other=P["gin"]))]),
              ("polygon.contains(vertex)", (2, 3), lambda P: [("positional", lambda: P["tri"].contains(P["p1"])), ("other=", lambda: P["tri"].contains(other=P["p1"]))])]
    return E


def call_forms_strategy(pid):
    from hypothesis import strategies as st

    from . import common as C
    from . import zoo as Z

    names = [(e[0], d) for e in call_forms(pid) for d in e[1]]

    @st.composite
    def strat(draw, tier="quick"):
        v = draw(Z.params())
        nm, d = C.uniform_pick(names, v)
        return {"entry": nm, "d": d, "v": v}

    return strat


def run_call_forms(pid):
    from . import ops as O
    from .runner import Checker, Fail, call

    table = {(e[0], d): (e[2], e[3] if len(e) > 3 else "auto") for e in call_forms(pid) for d in e[1]}

    def run(c):
        build, cmp = table.get((c["entry"], c["d"]), (None, None))
        if build is None:
            raise Skip("unknown entry")
        pool = O.pool_for(c["d"], c["v"])
        try:
            forms = build(pool)
        except KeyError:
            raise Skip("pool entry missing")
        ck = Checker()
        base_name, base = None, None
        probe_cache = {}
        for fname, f in forms:
            try:
                o, fail = call(f"call-forms:{c['entry']}:{fname}", f)
            except KeyError:
                raise Skip("pool entry missing")
            if fail:
                if base_name is None:
                    raise Skip("the first form fails on these arguments (subject of another property)")
                ck.add(fail)
                continue
            if base_name is None:
                base_name, base = fname, o
                continue
            ok, detail = O.same(base, o, cmp, 1e-9)  # cmp "angle": equal modulo pi
            if not ok:
                ck.add(Fail("MISMATCH", f"call-forms:{c['entry']}:d{c['d']}:{fname}=={base_name}", str(detail)[:300]))
        return ck.result()

    return run
