"""Evaluates one registry operation in this (fresh) interpreter and prints the pickled answer on stdout (base64).

  python -m vp.fresh_eval <d> <op name> <json list v>

Used by the C12 law fresh_process_agreement: the answer of a query asked after a long history must be the answer of the same
query asked first in a new process."""
import base64
import json
import os
import pickle
import sys

HERE = os.path.dirname(os.path.dirname(os.path.abspath(__file__)))
sys.path.insert(0, HERE)
if os.environ.get("VERIF_GEOMETER_SRC"):
    sys.path.insert(0, os.environ["VERIF_GEOMETER_SRC"])


def plain(x, depth=0):
    """result -> nested lists / arrays / scalars (picklable without the library)"""
    import numpy as np

    arr = getattr(x, "array", None)
    if isinstance(arr, np.ndarray):
        return ("tensor", type(x).__name__, np.array(arr))
    if isinstance(x, np.ndarray):
        return ("ndarray", np.array(x))
    if isinstance(x, (list, tuple)) and depth < 4:
        return ("list", [plain(y, depth + 1) for y in x])
    if isinstance(x, (bool, int, float, complex, str)) or x is None:
        return ("scalar", x)
    if isinstance(x, np.generic):
        return ("scalar", x.item())
    return ("other", repr(type(x)))


def main():
    d, name, v = int(sys.argv[1]), sys.argv[2], json.loads(sys.argv[3])
    from vp import ops as O
    from vp.runner import Skip

    op = {(o.name, dd): o for o in O.OPS for dd in o.dims}[(name, d)]
    try:
        pool = O.pool_for(d, v)
        args = [pool[a] for a in op.args]
        out = ("ok", plain(op.fn(*args)))
    except Skip:
        out = ("skip", None)
    except Exception as e:  # noqa: BLE001
        out = ("exc", type(e).__name__)
    sys.stdout.write("RESULT:" + base64.b64encode(pickle.dumps(out)).decode() + "\n")


if __name__ == "__main__":
    main()
