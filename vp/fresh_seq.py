"""Runs a short program of conic queries as the first library calls of this (fresh) interpreter and prints the answers.

  python -m vp.fresh_seq '<json list of steps>'

step: {"g": [..3 ints], "h": [..3 ints], "how": "int-matrix" | "float-matrix" | "from_lines" | "complex-matrix", "query": "components" | "intersect", "line": [..3 ints]}
Used by the C15 law first_calls_of_a_process (state that the first call of a process leaves behind must not change later answers)."""
import base64
import json
import os
import pickle
import sys

HERE = os.path.dirname(os.path.dirname(os.path.abspath(__file__)))
sys.path.insert(0, HERE)
if os.environ.get("VERIF_GEOMETER_SRC"):
    sys.path.insert(0, os.environ["VERIF_GEOMETER_SRC"])


def main():
    import numpy as np

    import geometer as G

    out = []
    for st in json.loads(sys.argv[1]):
        g, h = np.array(st["g"]), np.array(st["h"])
        m = np.outer(g, h) + np.outer(h, g)
        try:
            if st["how"] == "int-matrix":
                q = G.Conic(m.astype(np.int64))
            elif st["how"] == "float-matrix":
                q = G.Conic(m.astype(float) * 0.5)
            elif st["how"] == "complex-matrix":
                q = G.Conic(m.astype(complex) * (1 + 1j))
            else:
                q = G.Conic.from_lines(G.Line(g.astype(float)), G.Line(h.astype(float)))
            if st["query"] == "components":
                r = q.components
            else:
                r = q.intersect(G.Line(np.array(st["line"], dtype=float)))
            out.append(("ok", [np.array(x.array) for x in r]))
        except Exception as e:  # noqa: BLE001
            out.append(("exc", type(e).__name__ + ": " + str(e)[:200]))
    sys.stdout.write("RESULT:" + base64.b64encode(pickle.dumps(out)).decode() + "\n")


if __name__ == "__main__":
    main()
