"""Operation registry shared by C03 (rescale representatives), C04 (collections vs singles) and C12 (purity machine).

A *pool* of named objects is built deterministically from 24 small integers (exact general-position tests, Skip otherwise).
An operation names the pool entries it takes, a callable and a comparator for its result.
"""
from __future__ import annotations

import math
from dataclasses import dataclass, field
from fractions import Fraction
from typing import Callable

import numpy as np

import geometer as G
from geometer import (
    Circle, Conic, Cuboid, Ellipse, Line, LineCollection, Plane, PlaneCollection, Point, PointCollection, Polygon, PolygonCollection, Quadric,
    QuadricCollection, Rectangle, Segment, SegmentCollection, Simplex, Sphere, Transformation, TransformationCollection, Triangle,
    angle, angle_bisectors, crossratio, dist, harmonic_set, is_cocircular, is_collinear, is_concurrent, is_coplanar, is_perpendicular, join, meet,
)

from . import common as C
from . import exact as X
from . import zoo as Z
from .runner import Skip

PT = G.point.PointTensor
LT = G.point.LineTensor
ET = G.point.PlaneTensor
QT = G.curve.QuadricTensor
TT = G.transformation.TransformationTensor
ST = G.shapes.SegmentTensor
GT = G.shapes.PolygonTensor
YT = G.shapes.PolytopeTensor


def fp(v):
    return np.array(list(v) + [1], dtype=float)


def irank(rows):
    return X.rank([[Fraction(int(x)) for x in r] for r in rows])


def build_pool(d: int, v) -> dict:
    """named objects of dimension d from 24 integers"""
    v = [int(x) for x in v]
    pool = {}
    n = d + 1
    pts = [list(v[i * d : i * d + d]) + [1] for i in range(4)]
    if d == 2:
        if any(irank([pts[i], pts[j], pts[k]]) < 3 for i in range(4) for j in range(i) for k in range(j)):
            raise Skip("points not in general position")
    else:
        pts.append(list(v[12:15]) + [1])
        if irank(pts[:4]) < 4 or any(irank([pts[i], pts[j], pts[k]]) < 3 for i in range(5) for j in range(i) for k in range(j)):
            raise Skip("points not in general position")
    for i, p in enumerate(pts):
        pool[f"p{i}"] = Point(np.array(p, float))
    dirv = list(v[15 : 15 + d])
    if not any(dirv):
        dirv[0] = 1
    pool["pinf"] = Point(np.array(dirv + [0], float))
    a, b = np.array(pts[0], float), np.array(pts[1], float)
    pool["pon"] = Point(2 * b - a)  # on the line p0 p1, finite (last coordinate 1)
    for k, (s, t) in enumerate([(1, 0), (0, 1), (1, 1), (2, -1)]):
        pool[f"c{k}"] = Point(s * a + t * b)  # four collinear points (last coordinates 1, 1, 2, 1)
    pool["mid"] = Point((a + b) / 2)
    if d == 2:
        from .props.c01 import pow2_normalise as _pn

        cr = lambda p, q: _pn(np.cross(np.array(p, float), np.array(q, float))) * 2  # noqa: E731  (moderate magnitude)
        pool["l0"] = Line(cr(pts[0], pts[1]))
        pool["l1"] = Line(cr(pts[2], pts[3]))
        pool["l2"] = Line(cr(pts[0], pts[2]))
        pool["l3"] = Line(cr(pts[1], pts[3]))
        dvec = b[:2] - a[:2]
        p2 = np.array(pts[2], float)
        nrm = np.array([-dvec[1], dvec[0]])
        pool["lpar"] = Line(np.array([nrm[0], nrm[1], -nrm @ p2[:2]]))  # parallel to l0 through p2
        pool["lperp"] = Line(np.array([dvec[0], dvec[1], -dvec @ p2[:2]]))  # perpendicular to l0 through p2
        for k in range(4):
            pool[f"m{k}"] = Line(cr(pts[2], pool[f"c{k}"].array))  # four concurrent lines through p2
        m = Z.build("quadric", 2, v[3:] + v[:3])[0]
        pool["q0"] = m
        pool["conic"] = Conic(m.array.copy())
        r = abs(v[20]) + 1
        cx, cy = v[21], v[22]
        pool["circle"] = Circle(Point(cx, cy), r)
        pool["ellipse"] = Ellipse(Point(cx, cy), r, r + 2)
        pool["qon"] = Point(np.array([cx + r * 3 / 5, cy + r * 4 / 5, 1.0]))  # on the circle
        pool["qon2"] = Point(np.array([cx - r * 5 / 13, cy + r * 12 / 13, 1.0]))
        pool["qtan"] = Line(np.array([3 / 5, 4 / 5, -(3 / 5 * cx + 4 / 5 * cy) - r]))  # tangent to the circle at qon
        pool["pair"] = Conic.from_lines(pool["l0"], pool["l1"])
        pool["g0"] = Z.build("polygon", 2, v)[0]
        pool["tri"] = Triangle(pool["p0"], pool["p1"], pool["p2"])
        pool["rect"] = Z.build("rectangle", 2, v[1:] + v[:1])[0]
        # a point inside the polygon template (template coordinates (1/2, 1/2) are interior for every template)
        gv = pool["g0"].array
        pool["gin"] = Point(gv[0] / gv[0][-1] * 0.5 + 0.25 * gv[1] / gv[1][-1] + 0.25 * gv[-1] / gv[-1][-1])
    else:
        pool["l0"] = Line(Z.plucker_dual(pts[0], pts[1]))
        pool["l1"] = Line(Z.plucker_dual(pts[2], pts[3]))  # skew to l0 (the four points are independent)
        pool["l2"] = Line(Z.plucker_dual(pts[0], pts[2]))  # meets l0 in p0
        pool["l3"] = Line(Z.plucker_dual(pts[1], pts[2]))
        from .props.c01 import pow2_normalise as _pn

        hp = lambda i, j, k: _pn(np.array([float(x) for x in X.cofactor_hyperplane([[Fraction(y) for y in pts[i]], [Fraction(y) for y in pts[j]], [Fraction(y) for y in pts[k]]])])) * 2  # noqa: E731
        pool["e0"] = Plane(hp(0, 1, 2))
        pool["e1"] = Plane(hp(0, 1, 3))
        pool["e2"] = Plane(hp(1, 2, 3))
        pool["e3"] = Plane(hp(0, 2, 3))
        n0 = pool["e0"].array[:3]
        pool["epar"] = Plane(np.append(n0, -n0 @ np.array(pts[3][:3], float)))  # parallel to e0 through p3
        pool["q0"] = Z.build("quadric", 3, v[3:] + v[:3])[0]
        r = abs(v[20]) + 1
        cx, cy, cz = v[21], v[22], v[23]
        pool["sphere"] = Sphere(Point(cx, cy, cz), r)
        pool["qon"] = Point(np.array([cx + r * 1 / 3, cy + r * 2 / 3, cz + r * 2 / 3, 1.0]))
        pool["qon2"] = Point(np.array([cx + r * 2 / 7, cy - r * 3 / 7, cz + r * 6 / 7, 1.0]))
        pool["qtan"] = Plane(np.array([1 / 3, 2 / 3, 2 / 3, -(cx / 3 + 2 * cy / 3 + 2 * cz / 3) - r]))
        pool["pair"] = Quadric.from_planes(pool["e0"], pool["e2"])
        pool["g0"] = Z.build("polygon", 3, v)[0]
        pool["tri"] = Triangle(pool["p0"], pool["p1"], pool["p2"])
        pool["tet"] = Simplex(pool["p0"], pool["p1"], pool["p2"], pool["p3"])
        pool["cub"] = Z.build("cuboid", 3, v[2:] + v[:2])[0]
        gv = pool["g0"].array
        pool["gin"] = Point(gv[0] / gv[0][-1] * 0.5 + 0.25 * gv[1] / gv[1][-1] + 0.25 * gv[-1] / gv[-1][-1])
    pool["s0"] = Segment(pool["p0"], pool["p1"])
    pool["s1"] = Segment(pool["p2"], pool["p3"])
    pool["t0"] = Transformation(Z.int_matrix(v, n, 1))
    pool["t1"] = Transformation(Z.int_matrix(v, n, 9))
    return pool


@dataclass
class Op:
    name: str
    dims: tuple
    args: tuple  # pool names
    fn: Callable
    cmp: str = "auto"  # auto | p1 | angle | angle3 | multiset | set | skip
    coll: bool = True  # accepts collections for every argument
    scal: tuple = ()  # argument positions that may be rescaled (default: all)
    tol: float = 1e-6


def _ops():
    O = []

    def op(name, dims, args, fn, cmp="auto", coll=True, scal=None, tol=1e-6):
        O.append(Op(name, tuple(dims), tuple(args), fn, cmp, coll, tuple(scal) if scal is not None else tuple(range(len(args))), tol))

    # ---- incidence, join, meet
    op("join(p,p)", (2, 3), ("p0", "p1"), lambda a, b: join(a, b))
    op("Point.join", (2, 3), ("p0", "pinf"), lambda a, b: a.join(b))
    op("meet(l,l)", (2,), ("l0", "l1"), lambda a, b: meet(a, b))
    op("Line.meet", (2,), ("l0", "lpar"), lambda a, b: a.meet(b))
    op("join(p,p,p)", (3,), ("p0", "p1", "p2"), lambda a, b, c: join(a, b, c))
    op("join(l,p)", (3,), ("l0", "p2"), lambda a, b: join(a, b))
    op("join(l,l)", (3,), ("l0", "l2"), lambda a, b: join(a, b))
    op("meet(l,l)3", (3,), ("l0", "l2"), lambda a, b: meet(a, b))
    op("meet(e,e)", (3,), ("e0", "e2"), lambda a, b: meet(a, b))
    op("meet(e,e,e)", (3,), ("e0", "e1", "e2"), lambda a, b, c: meet(a, b, c))
    op("meet(e,l)", (3,), ("e2", "l0"), lambda a, b: meet(a, b))
    op("Line.contains(on)", (2, 3), ("l0", "pon"), lambda a, b: a.contains(b))
    op("Line.contains(off)", (2, 3), ("l0", "p2"), lambda a, b: a.contains(b))
    op("Plane.contains(p)", (3,), ("e0", "p1"), lambda a, b: a.contains(b))
    op("Plane.contains(p off)", (3,), ("e0", "p3"), lambda a, b: a.contains(b))
    op("Plane.contains(l)", (3,), ("e0", "l0"), lambda a, b: a.contains(b))
    op("Plane.contains(l off)", (3,), ("e0", "l1"), lambda a, b: a.contains(b))
    op("is_collinear(3)", (2,), ("c0", "c1", "c2"), lambda a, b, c: is_collinear(a, b, c))
    op("is_collinear(not)", (2,), ("p0", "p1", "p2"), lambda a, b, c: is_collinear(a, b, c))
    op("is_concurrent", (2,), ("m0", "m1", "m2"), lambda a, b, c: is_concurrent(a, b, c))
    op("is_coplanar(4)", (3,), ("p0", "p1", "p2", "mid"), lambda a, b, c, e: is_coplanar(a, b, c, e))
    op("is_coplanar(not)", (3,), ("p0", "p1", "p2", "p3"), lambda a, b, c, e: is_coplanar(a, b, c, e))
    op("Line.is_coplanar", (3,), ("l0", "l2"), lambda a, b: a.is_coplanar(b))
    op("Line.is_coplanar(skew)", (3,), ("l0", "l1"), lambda a, b: a.is_coplanar(b))
    op("is_parallel", (2,), ("l0", "lpar"), lambda a, b: a.is_parallel(b))
    op("is_parallel(not)", (2,), ("l0", "l1"), lambda a, b: a.is_parallel(b))
    op("Plane.is_parallel", (3,), ("e0", "epar"), lambda a, b: a.is_parallel(b))
    op("is_perpendicular", (2,), ("l0", "lperp"), lambda a, b: is_perpendicular(a, b))
    op("is_perpendicular(not)", (2,), ("l0", "l1"), lambda a, b: is_perpendicular(a, b))
    op("is_cocircular", (2,), ("p0", "p1", "p2", "p3"), lambda a, b, c, e: is_cocircular(a, b, c, e))
    # ---- constructions
    op("perpendicular", (2, 3), ("l0", "p2"), lambda a, b: a.perpendicular(b))
    op("perpendicular(on)", (2,), ("l0", "pon"), lambda a, b: a.perpendicular(b))
    op("parallel", (2, 3), ("l0", "p2"), lambda a, b: a.parallel(b))
    op("project", (2, 3), ("l0", "p2"), lambda a, b: a.project(b))
    op("mirror", (2, 3), ("l0", "p2"), lambda a, b: a.mirror(b))
    op("Plane.perpendicular", (3,), ("e0", "p3"), lambda a, b: a.perpendicular(b))
    op("Plane.parallel", (3,), ("e0", "p3"), lambda a, b: a.parallel(b))
    op("Plane.project", (3,), ("e0", "p3"), lambda a, b: a.project(b))
    op("Plane.mirror", (3,), ("e0", "p3"), lambda a, b: a.mirror(b))
    op("angle_bisectors", (2,), ("l0", "l2"), lambda a, b: list(angle_bisectors(a, b)), cmp="set", coll=False)
    op("harmonic_set", (2, 3), ("c0", "c1", "c2"), lambda a, b, c: harmonic_set(a, b, c))
    # ---- measures
    op("dist(p,p)", (2, 3), ("p0", "p1"), lambda a, b: dist(a, b))
    op("dist(p,l)", (2, 3), ("p2", "l0"), lambda a, b: dist(a, b))
    op("dist(l,p)", (2, 3), ("l0", "p2"), lambda a, b: dist(a, b))
    op("dist(p,e)", (3,), ("p3", "e0"), lambda a, b: dist(a, b))
    op("dist(e,e)", (3,), ("e0", "epar"), lambda a, b: dist(a, b), coll=False)
    op("dist(p,seg)", (2, 3), ("p2", "s0"), lambda a, b: dist(a, b), coll=False)
    op("dist(p,polygon)", (2,), ("p3", "tri"), lambda a, b: dist(a, b), coll=False)
    op("dist(p,inf)", (2, 3), ("p0", "pinf"), lambda a, b: dist(a, b))
    op("angle(p,p,p)", (2,), ("p0", "p1", "p2"), lambda a, b, c: angle(a, b, c), cmp="angle")
    op("angle(p,p,p)3", (3,), ("p0", "p1", "p2"), lambda a, b, c: angle(a, b, c), cmp="angle3")
    op("angle(l,l)", (2,), ("l0", "l1"), lambda a, b: angle(a, b), cmp="angle")
    op("angle(l,l)3", (3,), ("l0", "l2"), lambda a, b: angle(a, b), cmp="angle3")
    op("angle(e,e)", (3,), ("e0", "e2"), lambda a, b: angle(a, b), cmp="angle3")
    op("crossratio(points)", (2, 3), ("c0", "c1", "c2", "c3"), lambda a, b, c, e: crossratio(a, b, c, e), cmp="p1")
    op("crossratio(lines)", (2,), ("m0", "m1", "m2", "m3"), lambda a, b, c, e: crossratio(a, b, c, e), cmp="p1")
    op("crossratio(from_point)", (2,), ("p0", "p1", "p3", "pon", "p2"), lambda a, b, c, e, f: crossratio(a, b, c, e, f), cmp="p1")
    # ---- point arithmetic / translation of objects
    op("p+p", (2, 3), ("p0", "p1"), lambda a, b: a + b)
    op("p-p", (2, 3), ("p0", "p1"), lambda a, b: a - b)
    op("p*2", (2, 3), ("p0",), lambda a: a * 2)
    op("p/2", (2, 3), ("p0",), lambda a: a / 2)
    op("-p", (2, 3), ("p0",), lambda a: -a)
    op("l+p", (2, 3), ("l0", "p2"), lambda a, b: a + b, coll=False)
    op("e+p", (3,), ("e0", "p2"), lambda a, b: a + b, coll=False)
    op("q+p", (2, 3), ("q0", "p2"), lambda a, b: a + b, coll=False)
    op("seg+p", (2, 3), ("s0", "p2"), lambda a, b: a + b, coll=False)
    op("polygon+p", (2, 3), ("g0", "p2"), lambda a, b: a + b, coll=False)
    # ---- transformations
    op("t*p", (2, 3), ("t0", "p0"), lambda t, x: t * x)
    op("t*pinf", (2, 3), ("t0", "pinf"), lambda t, x: t * x)
    op("t*l", (2, 3), ("t0", "l0"), lambda t, x: t * x)
    op("t*e", (3,), ("t0", "e0"), lambda t, x: t * x)
    op("t*q", (2, 3), ("t0", "q0"), lambda t, x: t * x)
    op("t*seg", (2, 3), ("t0", "s0"), lambda t, x: t * x)
    op("t*polygon", (2, 3), ("t0", "g0"), lambda t, x: t * x)
    op("t*t", (2, 3), ("t0", "t1"), lambda t, x: t * x)
    op("t.inverse", (2, 3), ("t0",), lambda t: t.inverse())
    op("t**2", (2, 3), ("t0",), lambda t: t**2)
    op("t**-1", (2, 3), ("t0",), lambda t: t**-1)
    op("t**0", (2, 3), ("t0",), lambda t: t**0)
    op("t**3", (2, 3), ("t0",), lambda t: t**3)
    op("t.apply", (2, 3), ("t1", "p1"), lambda t, x: t.apply(x))
    # ---- quadrics
    op("q.contains(on)", (2, 3), ("circle" , "qon"), lambda q, x: q.contains(x))
    op("q.contains(off)", (2, 3), ("q0", "p0"), lambda q, x: q.contains(x))
    op("q.tangent", (2, 3), ("q0", "p0"), lambda q, x: QT.tangent(q, x))
    op("q.is_tangent(touching)", (2, 3), ("circle", "qtan"), lambda q, h: q.is_tangent(h), coll=False)
    op("q.is_tangent(not)", (2, 3), ("q0", "l0"), lambda q, h: q.is_tangent(h), coll=False)
    op("conic.polar", (2,), ("conic", "p0"), lambda q, x: q.polar(x), coll=False)
    op("conic.tangent(on)", (2,), ("circle", "qon"), lambda q, x: q.tangent(x), coll=False)
    op("conic.tangent(outside)", (2,), ("conic", "p0"), lambda q, x: list(q.tangent(x)) if isinstance(q.tangent(x), tuple) else [q.tangent(x)], cmp="set", coll=False)
    op("q.dual", (2, 3), ("q0",), lambda q: q.dual)
    op("q.is_degenerate", (2, 3), ("q0",), lambda q: q.is_degenerate)
    op("pair.is_degenerate", (2, 3), ("pair",), lambda q: q.is_degenerate)
    op("pair.components", (2, 3), ("pair",), lambda q: q.components, cmp="multiset")
    op("q.intersect(l)", (2, 3), ("q0", "l0"), lambda q, l: q.intersect(l), cmp="multiset")
    op("circle.intersect(secant)", (2, 3), ("circle", "lsec"), lambda q, l: q.intersect(l), cmp="multiset")
    op("conic.intersect(conic)", (2,), ("conic", "circle"), lambda q, r: q.intersect(r), cmp="set", coll=False, tol=1e-5)
    op("circle.center", (2, 3), ("circle",), lambda q: q.center, coll=False)
    op("circle.radius", (2, 3), ("circle",), lambda q: q.radius, coll=False)
    op("ellipse.foci", (2,), ("ellipse",), lambda q: list(q.foci), cmp="set", coll=False)
    # ---- polytopes
    op("seg.contains(mid)", (2, 3), ("s0", "mid"), lambda s, x: s.contains(x))
    op("seg.contains(ext)", (2, 3), ("s0", "pon"), lambda s, x: s.contains(x))
    op("seg.contains(off)", (2, 3), ("s0", "p2"), lambda s, x: s.contains(x))
    op("seg.length", (2, 3), ("s0",), lambda s: s.length)
    op("seg.midpoint", (2, 3), ("s0",), lambda s: s.midpoint)
    op("seg.intersect(seg)", (2,), ("s0", "s1"), lambda s, o: s.intersect(o), cmp="multiset", coll=False)
    def _touching(a, b, b2):
        # two segments of one line that share exactly the end point b; the second one is built from another object b2 for the same point
        na, nb = np.asarray(a.normalized_array), np.asarray(b.normalized_array)
        far = Point(np.append(2 * nb[:-1] - na[:-1], 1.0))
        return Segment(a, b).intersect(Segment(b2, far))

    op("seg.intersect(collinear seg touching in an end point)", (2, 3), ("p0", "p1", "p1"), _touching, cmp="multiset", coll=False)
    op("seg.intersect(l)", (2,), ("s0", "l2"), lambda s, o: s.intersect(o), cmp="multiset", coll=False)
    op("seg.intersect(e)", (3,), ("s1", "e0"), lambda s, o: s.intersect(o), cmp="multiset", coll=False)
    op("polygon.contains(in)", (2, 3), ("g0", "gin"), lambda g, x: g.contains(x))
    op("polygon.contains(p)", (2, 3), ("g0", "p3"), lambda g, x: g.contains(x))
    op("polygon.contains(vertex)", (2, 3), ("tri", "p1"), lambda g, x: g.contains(x), coll=False)
    op("triangle.contains", (2, 3), ("tri", "p3"), lambda g, x: g.contains(x), coll=False)
    op("polygon.area", (2, 3), ("g0",), lambda g: g.area)
    op("polygon.centroid", (2, 3), ("g0",), lambda g: g.centroid, coll=False)
    op("polygon.angles", (2,), ("g0",), lambda g: g.angles, cmp="angle", coll=False)
    op("polygon.intersect(l)", (2, 3), ("g0", "lpoly"), lambda g, l: g.intersect(l), cmp="multiset", coll=False)
    op("triangle.circumcenter", (2, 3), ("tri",), lambda g: g.circumcenter, coll=False)
    op("triangle.area", (2, 3), ("tri",), lambda g: g.area, coll=False)
    op("tetrahedron.volume", (3,), ("tet",), lambda g: g.volume, coll=False)
    # constructions applied to a direction (a point at infinity): the mirror image of a direction is a direction
    op("mirror(direction)", (2,), ("l0", "pinf"), lambda a, b: a.mirror(b))
    op("Plane.mirror(direction)", (3,), ("e0", "pinf"), lambda a, b: a.mirror(b))
    op("mirror(mirror(direction))", (2,), ("l0", "pinf"), lambda a, b: a.mirror(a.mirror(b)))
    op("Plane.mirror(mirror(direction))", (3,), ("e0", "pinf"), lambda a, b: a.mirror(a.mirror(b)))
    # more objects than the dimension requires: the first ones dependent, a later one decides
    op("is_collinear(p,q,mid,r)", (2,), ("p0", "p1", "p2"), lambda a, b, c: G.is_collinear(a, b, G.Point(a.normalized_array + b.normalized_array), c), coll=False)
    op("is_coplanar(p,q,r,centroid,s)", (3,), ("p0", "p1", "p2", "p3"), lambda a, b, c, e: G.is_coplanar(a, b, c, G.Point(a.normalized_array + b.normalized_array + c.normalized_array), e), coll=False)
    op("is_concurrent(l,m,l+m,k)", (2,), ("l0", "l1", "l2"), lambda a, b, c: G.is_concurrent(a, b, G.Line(a.array + b.array), c), coll=False)
    # auxiliary points and bases of subspaces (the general point is not unique: its defining relation is the observable)
    op("l.contains(l.general_point)", (2, 3), ("l0",), lambda l: l.contains(l.general_point))
    op("e.contains(e.general_point)", (3,), ("e0",), lambda e: e.contains(e.general_point))
    op("l.contains(l.base_point)", (2, 3), ("l0",), lambda l: l.contains(l.base_point))
    op("l.base_point.isinf", (2, 3), ("l0",), lambda l: l.base_point.isinf)
    op("l.direction", (2, 3), ("l0",), lambda l: l.direction)
    op("basis_matrix rows on l", (2, 3), ("l0",), lambda l: l.contains(G.PointCollection(l.basis_matrix[..., 0, :])) & l.contains(G.PointCollection(l.basis_matrix[..., 1, :])))
    # simplices with fewer vertices than homogeneous coordinates (a triangle of 3-space; Simplex(p, q) is a Segment and has no volume)
    op("triangle.volume", (2, 3), ("tri",), lambda g: g.volume, coll=False)
    op("Simplex(p,q,r).volume", (2, 3), ("p0", "p1", "p2"), lambda a, b, c: Simplex(a, b, c).volume, coll=False)
    op("cuboid.area", (3,), ("cub",), lambda g: g.area, coll=False)
    op("cuboid.intersect(l)", (3,), ("cub", "l0"), lambda g, l: g.intersect(l), cmp="multiset", coll=False)
    op("dist(p,cuboid)", (3,), ("p3", "cub"), lambda a, b: dist(a, b), coll=False)
    # ---- constructors that take objects
    op("translation(p)", (2, 3), ("p1",), lambda a: G.translation(a), coll=False)
    op("rotation(axis)", (3,), ("p1",), lambda a: G.rotation(0.7, axis=a), coll=False)
    op("reflection(l)", (2,), ("l0",), lambda a: G.reflection(a), coll=False)
    op("reflection(e)", (3,), ("e0",), lambda a: G.reflection(a), coll=False)
    op("Transformation.from_points", (2,), ("p0", "p1", "p2", "p3"), lambda a, b, c, e: Transformation.from_points((a, b), (b, c), (c, e), (e, a)), coll=False)
    op("Circle(center)", (2,), ("p1",), lambda a: Circle(a, 2), coll=False)
    op("Ellipse(center)", (2,), ("p1",), lambda a: Ellipse(a, 2, 3), coll=False)
    op("Sphere(center)", (2, 3), ("p1",), lambda a: Sphere(a, 2), coll=False)
    op("Cone(vertex,base)", (3,), ("p0", "p1"), lambda a, b: G.Cone(a, b, 2), coll=False)
    op("Cylinder(center,direction)", (3,), ("p0", "p1"), lambda a, b: G.Cylinder(a, b, 2), coll=False)
    op("Conic.from_points", (2,), ("p0", "p1", "p2", "p3", "pon"), lambda *a: Conic.from_points(*a), coll=False)
    op("Conic.from_lines", (2,), ("l0", "l1"), lambda a, b: Conic.from_lines(a, b), coll=False)
    op("Quadric.from_planes", (3,), ("e0", "e2"), lambda a, b: Quadric.from_planes(a, b), coll=False)
    op("Conic.from_foci", (2,), ("p0", "p1", "p2"), lambda a, b, c: Conic.from_foci(a, b, c), coll=False, tol=1e-5)
    op("Conic.from_crossratio", (2,), ("p0", "p1", "p2", "p3"), lambda a, b, c, e: Conic.from_crossratio(0.5, a, b, c, e), coll=False)
    op("Conic.from_tangent", (2,), ("qtan", "p0", "p1", "p2", "p3"), lambda l, a, b, c, e: Conic.from_tangent(l, a, b, c, e), coll=False, tol=1e-5)
    op("Segment(p,p)", (2, 3), ("p0", "p1"), lambda a, b: Segment(a, b), coll=False)
    op("Triangle(p,p,p)", (2, 3), ("p0", "p1", "p2"), lambda a, b, c: Triangle(a, b, c), coll=False)
    op("Line(p,p)", (2, 3), ("p0", "p1"), lambda a, b: Line(a, b), coll=False)
    op("Plane(p,p,p)", (3,), ("p0", "p1", "p2"), lambda a, b, c: Plane(a, b, c), coll=False)
    op("Plane(l,p)", (3,), ("l0", "p2"), lambda a, b: Plane(a, b), coll=False)
    op("RegularPolygon(center)", (2,), ("p1",), lambda a: G.RegularPolygon(a, 2, 5), coll=False)
    # measures of objects that come out of another operation (a transformation given by any representative of its matrix);
    # the affine map with the same linear and translation part is used so that finite polytopes stay finite
    def aff(t):
        a = np.array(t.array, dtype=float)
        last = a[-1]
        s_ = last[-1] if last[-1] != 0 else last[np.flatnonzero(last)[0]]
        a[-1] = 0
        a[-1, -1] = s_
        if abs(np.linalg.det(a / np.max(np.abs(a)))) < 1e-6:
            raise Skip("the affine part of this map is singular")  # harness domain: an invertible map is needed
        return G.Transformation(a)

    op("(aff(t)*rp).center", (2,), ("t0", "p1"), lambda t, a: (aff(t) * G.RegularPolygon(a, 2, 5)).center, coll=False)
    op("(aff(t)*rp).radius", (2,), ("t0", "p1"), lambda t, a: (aff(t) * G.RegularPolygon(a, 2, 5)).radius, coll=False)
    op("(aff(t)*seg).midpoint", (2, 3), ("t0", "s0"), lambda t, x: (aff(t) * x).midpoint, coll=False)
    op("(aff(t)*seg).length", (2, 3), ("t0", "s0"), lambda t, x: (aff(t) * x).length, coll=False)
    op("(aff(t)*polygon).area", (2, 3), ("t0", "g0"), lambda t, x: (aff(t) * x).area, coll=False)
    op("(aff(t)*polygon).centroid", (2,), ("t0", "g0"), lambda t, x: (aff(t) * x).centroid, coll=False)
    op("(aff(t)*tri).circumcenter", (2, 3), ("t0", "tri"), lambda t, x: (aff(t) * x).circumcenter, coll=False)
    op("RegularPolygon(center,axis)", (3,), ("p1", "p2"), lambda a, b: G.RegularPolygon(a, 2, 5, axis=b), coll=False, scal=(0,))
    op("Cuboid(p,p,p,p)", (3,), ("cub",), lambda c: c.faces.area, coll=False)
    # ---- equality
    for nm, dims in (("p0", (2, 3)), ("l0", (2, 3)), ("e0", (3,)), ("q0", (2, 3)), ("t0", (2, 3)), ("s0", (2, 3)), ("g0", (2, 3))):
        op(f"=={nm}", dims, (nm, nm), lambda a, b: a == b, scal=(0,), coll=False)
    op("p0==p1", (2, 3), ("p0", "p1"), lambda a, b: a == b, coll=False)
    op("l0==l1", (2, 3), ("l0", "l1"), lambda a, b: a == b, coll=False)
    return O


OPS = _ops()


def complete_pool(d, pool):
    """entries that need other entries"""
    if d == 2:
        c = pool["circle"]
        pool["lsec"] = Line(pool["qon"], pool["qon2"])
        gv = pool["g0"].array
        pool["lpoly"] = Line(Point(gv[0] / gv[0][-1] * 0.5 + 0.5 * gv[1] / gv[1][-1]), pool["gin"])
    else:
        pool["circle"] = pool["sphere"]
        pool["lsec"] = Line(pool["qon"], pool["qon2"])
        pool["lpoly"] = Line(pool["gin"], Point(pool["gin"].array + np.append(pool["g0"]._plane.array[:3], 0)))
    return pool


def pool_for(d, v):
    pool = complete_pool(d, build_pool(d, v))
    if int(v[19]) % 2:
        # dtype diversity: integer-valued points and transformations get an integer array (mixed dtypes within one call
        # are part of the input space, e.g. Point(1, 2) next to a point returned by meet)
        for name, obj in pool.items():
            if isinstance(obj, (PT, TT)) and not isinstance(obj, YT):
                a = obj.array
                if not np.iscomplexobj(a) and np.all(a == np.round(a)):
                    obj.array = a.astype(np.int64)
    return pool


def ops_for(d):
    return [o for o in OPS if d in o.dims]


# ------------------------------------------------------------------------------------------------ rescaling and comparison
def rescale(obj, factors, cfac=1.0):
    """same projective object, other homogeneous representative; polytopes get one factor per vertex"""
    r = obj.copy()
    if isinstance(obj, YT):
        shape = obj.array.shape
        nv = int(np.prod(shape[:-1]))
        f = np.array([factors[i % len(factors)] for i in range(nv)]).reshape(shape[:-1] + (1,))
        r.array = obj.array * f
        if hasattr(obj, "_line") and obj._line is not None:
            r._line = obj._line
        return r
    r.array = obj.array * (factors[0] * cfac)
    return r


def naxes_of(x):
    if isinstance(x, LT):
        return 1 if x.dim == 2 else 2
    if isinstance(x, (QT, TT)):
        return 2
    return 1


def same(a, b, cmp="auto", tol=1e-6):
    """compare two results of the same operation -> (ok, detail)"""
    if cmp == "skip":
        return True, ""
    if isinstance(a, (list, tuple)) and isinstance(b, (list, tuple)):
        if cmp in ("multiset", "set"):
            if any(not isinstance(x, G.base.Tensor) for x in list(a) + list(b)):
                return False, "non-tensor in list"
            # elements may be collections: compare position-wise as multisets
            A = [np.asarray(x.array) for x in a]
            B = [np.asarray(x.array) for x in b]
            if len(A) == len(B) and all(x.shape == y.shape and np.array_equal(x, y, equal_nan=True) for x, y in zip(A, B)):
                return True, ""  # identical lists (also of degenerate all-zero / nan "points") agree
            if A and A[0].ndim > naxes_of(a[0]):
                # collection-valued list: compare per position
                if len(A) != len(B) or any(x.shape != y.shape for x, y in zip(A, B)):
                    return False, "shapes differ"
                lead = A[0].shape[: A[0].ndim - naxes_of(a[0])]
                for idx in np.ndindex(*lead):
                    f = C.multiset_peq if cmp == "multiset" else C.set_peq
                    if not f([x[idx] for x in A], [y[idx] for y in B], tol):
                        return False, f"position {idx}"
                return True, ""
            if cmp == "set":
                return C.set_peq(A, B, tol), "sets differ"
            # a double point may be reported once or twice
            if len(A) != len(B):
                return C.set_peq(A, B, tol), "multisets differ in size and as sets"
            return C.multiset_peq(A, B, tol), "multisets differ"
        if len(a) != len(b):
            return False, f"lengths {len(a)} != {len(b)}"
        for x, y in zip(a, b):
            ok, dt = same(x, y, cmp, tol)
            if not ok:
                return ok, dt
        return True, ""
    if isinstance(a, G.base.Tensor) and isinstance(b, G.base.Tensor):
        if type(a) is not type(b):
            return False, f"types {type(a).__name__} != {type(b).__name__}"
        if a.array.shape != b.array.shape:
            return False, f"shapes {a.array.shape} != {b.array.shape}"
        if np.array_equal(a.array, b.array, equal_nan=True):
            return True, ""  # identical arrays (also degenerate ones such as all-zero) agree
        return bool(C.peq_all(a.array, b.array, naxes_of(a), tol)), C.short((a.array.tolist(), b.array.tolist()), 200)
    if isinstance(a, G.base.Tensor) or isinstance(b, G.base.Tensor):
        return False, f"types {type(a).__name__} != {type(b).__name__}"
    A, B = np.asarray(a), np.asarray(b)
    if A.shape != B.shape:
        return False, f"shapes {A.shape} != {B.shape}"
    if A.dtype == bool or B.dtype == bool:
        return bool(np.array_equal(A, B)), (A.tolist(), B.tolist())
    nn = lambda x, y: bool(np.isnan(x) and np.isnan(y))  # noqa: E731  (undefined on both sides is agreement)
    if cmp == "p1":
        return all(nn(x, y) or C.p1_eq(complex(x), complex(y), tol) for x, y in zip(A.ravel(), B.ravel())), (A.tolist(), B.tolist())
    if cmp == "angle":
        return all(nn(x, y) or C.angle_eq_mod_pi(x, y, tol) for x, y in zip(A.ravel(), B.ravel())), (A.tolist(), B.tolist())
    if cmp == "angle3":
        return bool(np.all(np.abs(np.cos(np.real(A)) ** 2 - np.cos(np.real(B)) ** 2) <= tol)), (A.tolist(), B.tolist())
    with np.errstate(all="ignore"):
        both_inf = np.isinf(A) & np.isinf(B)
        both_nan = np.isnan(A) & np.isnan(B)  # differential / metamorphic comparison: undefined on both sides is agreement
        ok = both_inf | both_nan | (np.abs(A - B) <= tol * np.maximum(1.0, np.abs(B)))
    return bool(np.all(ok)), (A.tolist(), B.tolist())


# ------------------------------------------------------------------------------------------------ stacking singles into collections
def stack(objs):
    """list of single objects of one kind -> collection object (first axis = position)"""
    x = objs[0]
    if any(o.array.shape != x.array.shape for o in objs):
        raise Skip("elements of different shape cannot form a collection")
    arr = np.stack([o.array for o in objs])
    if isinstance(x, PT):
        return PointCollection(arr)
    if isinstance(x, LT):
        return LineCollection(arr)
    if isinstance(x, ET):
        return PlaneCollection(arr)
    if isinstance(x, TT):
        return TransformationCollection(arr)
    if isinstance(x, QT):
        return QuadricCollection(arr, is_dual=x.is_dual)
    if isinstance(x, ST):
        return SegmentCollection(arr)
    if isinstance(x, GT):
        return PolygonCollection(arr)
    raise Skip(f"no collection class for {type(x).__name__}")
