"""C01 join and meet return exactly the span / the intersection of their arguments."""
from __future__ import annotations

from fractions import Fraction
from itertools import permutations

import numpy as np
from hypothesis import strategies as st

import geometer as G
from geometer import Line, LineCollection, Plane, PlaneCollection, Point, PointCollection, join, meet

from .. import common as C
from .. import exact as X
from ..runner import Checker, Fail, HarnessError, Law, Skip, call, mismatch

RULE = (
    "Hypothesis draws integer / Gaussian-integer homogeneous coordinates (|c| <= 9 quick, <= 99 thorough), finite and "
    "at infinity, a representative scale per argument, single objects or collections (shapes (1,),(n,),(2,2),(2,3),"
    "(2,1,2), optionally one broadcast single argument); exact general position is decided by rational rank. "
    "Non-trivial = every defining vector has >= 2 and at least half non-zero coordinates; distinct by case hash."
)
ASSUMPTIONS = [
    "oracle: exact Fraction / Gaussian-rational span and intersection (vp/exact.py), projective equality over C with "
    "absolute tolerance 1e-9 after dividing by the entry of largest modulus",
    "general position means exactly independent; nearly dependent inputs are not generated",
]

# argument descriptors per kind: ("P", [indices of base vectors]) point; ("H", i) hyperplane given by base vector i;
# ("L", [i, j]) line through base points i, j ; ("Lc", ...) line through combination point and base point
KINDS = {
    # name: (dim, op, n_base, arg builders)
    "join_pp2": (2, "join", 2),
    "meet_ll2": (2, "meet", 2),
    "join_pp3": (3, "join", 2),
    "join_ppp3": (3, "join", 3),
    "join_lp3": (3, "join", 3),
    "join_pl3": (3, "join", 3),
    "join_ll3": (3, "join", 3),
    "meet_ee3": (3, "meet", 2),
    "meet_eee3": (3, "meet", 3),
    "meet_el3": (3, "meet", 3),
    "meet_le3": (3, "meet", 3),
    "meet_ll3": (3, "meet", 3),
}


def dual_plucker(p, q):
    """M^{kl} = eps^{ijkl} p_i q_j  (the array geometer stores for the line through p and q)"""
    n = len(p)
    m = [[0] * n for _ in range(n)]
    for k in range(n):
        for l in range(n):
            if k == l:
                continue
            i, j = [x for x in range(n) if x not in (k, l)]
            m[k][l] = X.perm_sign((i, j, k, l)) * (p[i] * q[j] - p[j] * q[i])
    return m


def pow2_normalise(a):
    """exact division by a power of two so that the largest modulus is in [0.5, 1) (the library's tolerances are absolute,
    Pluecker coordinates are products of point coordinates and would otherwise leave the moderate range)"""
    m = float(np.max(np.abs(a)))
    if m == 0:
        return a
    _, e = np.frexp(m)
    return a / (2.0 ** int(e))


def args_exact(kind, base, coef):
    """-> list of exact argument descriptions: ('P', v) | ('H', v) | ('L', p, q)"""
    if kind in ("join_pp2", "join_pp3"):
        return [("P", base[0]), ("P", base[1])]
    if kind == "meet_ll2":
        return [("H", base[0]), ("H", base[1])]
    if kind == "join_ppp3":
        return [("P", base[0]), ("P", base[1]), ("P", base[2])]
    if kind == "join_lp3":
        return [("L", base[0], base[1]), ("P", base[2])]
    if kind == "join_pl3":
        return [("P", base[2]), ("L", base[0], base[1])]
    if kind in ("join_ll3", "meet_ll3"):
        a, b = coef
        pp = [a * x + b * y for x, y in zip(base[0], base[1])]
        return [("L", base[0], base[1]), ("L", pp, base[2])]
    if kind == "meet_ee3":
        return [("H", base[0]), ("H", base[1])]
    if kind == "meet_eee3":
        return [("H", base[0]), ("H", base[1]), ("H", base[2])]
    if kind == "meet_el3":
        return [("H", base[2]), ("L", base[0], base[1])]
    if kind == "meet_le3":
        return [("L", base[0], base[1]), ("H", base[2])]
    raise KeyError(kind)


def span_points(arg):
    if arg[0] == "P":
        return [arg[1]]
    if arg[0] == "L":
        return [arg[1], arg[2]]
    return X.null_space([arg[1]])  # points of a hyperplane


def equations(arg, n):
    if arg[0] == "H":
        return [arg[1]]
    return X.null_space(span_points(arg), n)


def exact_result(kind, args, n):
    """-> ('P', v) | ('H', v) | ('L', p, q) or None if the arguments are not in general position for this kind"""
    op = KINDS[kind][1]
    for a in args:
        if a[0] == "L" and X.rank([a[1], a[2]]) < 2:
            return None
        if a[0] in "PH" and all(X.is_zero(x) for x in a[1]):
            return None
    if op == "join":
        pts = [p for a in args for p in span_points(a)]
        r = X.rank(pts)
        want = {"join_pp2": 2, "join_pp3": 2, "join_ppp3": 3, "join_lp3": 3, "join_pl3": 3, "join_ll3": 3}[kind]
        if r != want:
            return None
        if kind == "join_ll3" and X.rank(span_points(args[0]) + span_points(args[1])[:1]) != 2:
            return None
        rows, piv = X.rref(pts)
        basis = rows[:r]
        if r == n - 1:
            return ("H", X.cofactor_hyperplane(basis))
        return ("L", basis[0], basis[1])
    eqs = [e for a in args for e in equations(a, n)]
    r = X.rank(eqs)
    want = {"meet_ll2": 2, "meet_ee3": 2, "meet_eee3": 3, "meet_el3": 3, "meet_le3": 3, "meet_ll3": 3}[kind]
    if r != want:
        return None
    ns = X.null_space(eqs)
    if len(ns) == 1:
        return ("P", ns[0])
    return ("L", ns[0], ns[1])


def target_array(res):
    if res[0] in "PH":
        return C.to_c(res[1])
    return C.to_c(dual_plucker(res[1], res[2]))


def as_int(a, flag):
    """integer dtype for integer-valued real arrays if requested (the library accepts any numeric dtype; mixed dtypes of
    the arguments of one call are part of the input space)"""
    # integer arrays only while every product of up to four coordinates (and the sum of 24 of them) stays inside int64:
    # numpy integer arithmetic wraps silently, such magnitudes are outside the moderate range this check explores
    if flag and not np.iscomplexobj(a) and np.all(a == np.round(a)) and np.max(np.abs(a)) < 2**14:
        return a.astype(np.int64)
    return a


def build_single(arg, sc, cplx, line_via, int_dtype=False):
    s = C.cscale_value(sc) if cplx else C.scale_value(sc)
    if arg[0] == "P":
        return Point(as_int(C.to_c(arg[1]) * s if cplx else np.array([float(x) for x in arg[1]]) * s, int_dtype))
    if arg[0] == "H":
        a = as_int(C.to_c(arg[1]) * s if cplx else np.array([float(x) for x in arg[1]]) * s, int_dtype)
        return Line(a) if len(arg[1]) == 3 else Plane(a)
    m = dual_plucker(arg[1], arg[2])
    a = C.to_c(m) if cplx else np.array([[float(x) for x in r] for r in m])
    return Line(pow2_normalise(a) * s)


def build_coll(args_per_pos, sc, cplx, shape, int_dtype=False, mags=None):
    """stack one argument over all positions; mags: per-position exponent e, the representative at that position is
    multiplied by 2**e (elements of very different magnitude inside one collection; hyperplanes are brought to modulus
    ~1 first so that the library's absolute incidence tolerance stays meaningful)"""
    kind = args_per_pos[0][0]
    s = C.cscale_value(sc) if cplx else C.scale_value(sc)
    if kind == "P":
        a = np.array([C.to_c(a[1]) for a in args_per_pos]) * s
    elif kind == "H":
        a = np.array([pow2_normalise(C.to_c(a[1])) if mags else C.to_c(a[1]) for a in args_per_pos]) * s
    else:
        a = np.array([pow2_normalise(C.to_c(dual_plucker(a[1], a[2]))) for a in args_per_pos]) * s
    if mags:
        if len(mags) != len(args_per_pos) or not all(isinstance(e, int) and 0 <= e <= 15 for e in mags):
            raise Skip("malformed magnitudes")
        a = a * (2.0 ** np.array(mags)).reshape((-1,) + (1,) * (a.ndim - 1))
    if not cplx:
        a = np.real(a)
    a = as_int(a.reshape(tuple(shape) + a.shape[1:]), int_dtype)
    if kind == "P":
        return PointCollection(a)
    if kind == "H":
        return LineCollection(a) if a.shape[-1] == 3 else PlaneCollection(a)
    return LineCollection(a)


def strategy_for(kind):
    dim, op, nb = KINDS[kind]

    def strat(tier):
        R = 9 if tier == "quick" else st.sampled_from([9, 9, 99])

        @st.composite
        def s(draw):
            r = R if isinstance(R, int) else draw(R)
            cplx = draw(st.sampled_from([False, False, True]))
            coll = draw(st.sampled_from([None, None, "coll"]))
            shape = draw(st.one_of(C.shapes(5), st.sampled_from([[2, 3], [3, 2], [4, 3]]))) if coll else None
            if tier == "thorough" and coll and draw(st.integers(0, 19)) == 0:
                shape = [70]
            npos = C.prod(shape) if shape else 1
            vs = C.cvec(dim + 1, r) if cplx else C.hpoint(dim, r)
            elems = [[draw(vs) for _ in range(nb)] for _ in range(npos)]
            coefs = [[draw(st.integers(-3, 3)), draw(st.sampled_from([1, -1, 2]))] for _ in range(npos)]
            nargs = len(args_exact(kind, [[0] * (dim + 1)] * nb, [1, 1]))
            scales = [draw(C.cscale() if cplx else C.scale()) for _ in range(nargs)]
            bcast = draw(st.sampled_from([None, None] + list(range(nargs)))) if shape else None
            via = draw(st.sampled_from(["func", "func", "method", "ctor", "ctor-arrays", "ctor-lists", "ctor-mixed"]))
            ints = [draw(st.booleans()) for _ in range(nargs)]
            mags = None
            if shape and npos > 1 and draw(st.booleans()):
                mags = [draw(st.sampled_from([0, 0, 8, 15])) for _ in range(npos)]
            lowrank = None
            if shape and len(shape) == 2 and draw(st.booleans()):
                lowrank = [draw(st.integers(0, nargs - 1))] if draw(st.booleans()) else [k for k in range(nargs) if draw(st.booleans())]
            return {"kind": kind, "cplx": cplx, "shape": shape, "elems": elems, "coefs": coefs, "scales": scales,
                    "bcast": bcast, "via": via, "int_dtype": ints, "mags": mags, "lowrank": lowrank}

        return s()

    return strat


def invoke(kind, via, objs, **kw):
    op = KINDS[kind][1]
    if via == "method" and not kw:
        f = getattr(objs[0], op, None)
        if f is not None and not (op == "meet" and len(objs) > 2):
            return f(*objs[1:])
    if via in ("ctor-arrays", "ctor-lists", "ctor-mixed") and not kw:
        # Line(p, q) / LineCollection(p, q) with the points given by their homogeneous coordinate vectors (arrays, nested lists,
        # or a point object and an array)
        if kind in ("join_pp2", "join_pp3"):
            single = all(o.free_indices == 0 for o in objs)
            raw = [o.array if via != "ctor-lists" else o.array.tolist() for o in objs]
            if via == "ctor-mixed":
                raw[0] = objs[0]
            if single or all(o.free_indices > 0 for o in objs):
                return (Line if single else LineCollection)(*raw)
        via = "ctor"
    if via == "ctor" and op == "join" and not kw:
        if kind in ("join_pp2", "join_pp3"):
            r = Line(*objs) if all(o.free_indices == 0 for o in objs) else LineCollection(*objs)
            return r
        if kind in ("join_ppp3", "join_lp3", "join_pl3"):
            single = all(o.free_indices == 0 for o in objs)
            return Plane(*objs) if single else PlaneCollection(*objs)
    return (join if op == "join" else meet)(*objs, **kw)


def run(case):
    kind = case["kind"]
    dim, op, nb = KINDS[kind]
    n = dim + 1
    cplx = case["cplx"]
    shape = case["shape"]
    npos = C.prod(shape) if shape else 1
    per_pos_args = []
    per_pos_res = []
    for i in range(npos):
        base = [C.exact_vec(v, cplx) for v in case["elems"][i]]
        coef = [Fraction(x) for x in case["coefs"][i]]
        per_pos_args.append(args_exact(kind, base, coef))
    nargs = len(per_pos_args[0])
    bc = case["bcast"]
    if bc is not None:
        for i in range(npos):
            per_pos_args[i][bc] = per_pos_args[0][bc]
            if kind in ("join_ll3", "meet_ll3") and i > 0:
                # two lines of 3-space must stay coplanar: the line of position i passes through a point of the fixed line
                _, fp, fq = per_pos_args[0][bc]
                base = [C.exact_vec(v, cplx) for v in case["elems"][i]]
                a, b = [Fraction(x) for x in case["coefs"][i]]
                on = [a * x + b * y for x, y in zip(fp, fq)]
                per_pos_args[i][1 - bc] = ("L", on, base[2])
    # arguments with fewer collection axes than the others (aligned from the right): constant along the first axis
    low = [k for k in (case.get("lowrank") or []) if k != bc]
    if low and shape is not None and len(shape) == 2 and kind not in ("join_ll3", "meet_ll3") and len(low) + (bc is not None) < nargs:
        K = shape[1]
        for i in range(npos):
            for k in low:
                per_pos_args[i][k] = per_pos_args[i % K][k]
    else:
        low = []
    for i in range(npos):
        r = exact_result(kind, per_pos_args[i], n)
        if r is None:
            raise Skip("not in general position")
        per_pos_res.append(r)
    # build library arguments
    objs = []
    for k in range(nargs):
        idt = bool(case.get("int_dtype", [False] * nargs)[k])
        if shape is None or bc == k:
            objs.append(build_single(per_pos_args[0][k], case["scales"][k], cplx, None, idt))
        elif k in low:
            objs.append(build_coll([per_pos_args[i][k] for i in range(shape[1])], case["scales"][k], cplx, [shape[1]], idt))
        else:
            objs.append(build_coll([per_pos_args[i][k] for i in range(npos)], case["scales"][k], cplx, shape, idt, case.get("mags")))
    ck = Checker()
    tgt = np.array([target_array(r) for r in per_pos_res])
    naxes = tgt.ndim - 1
    if shape is None:
        tgt = tgt[0]
    else:
        tgt = tgt.reshape(tuple(shape) + tgt.shape[1:])
    res, f = call(f"{kind}/{case['via']}", invoke, kind, case["via"], objs)
    if f:
        return [f]
    want_cls = {"P": G.point.PointTensor, "H": (G.point.LineTensor if n == 3 else G.point.PlaneTensor),
                "L": G.point.LineTensor}[per_pos_res[0][0]]
    ck.check(isinstance(res, want_cls), f"{kind}:class", type(res).__name__)
    if shape is not None:
        ck.check(res.shape[: res.free_indices] == tuple(shape), f"{kind}:collection-shape", res.shape)
    if res.array.shape != tgt.shape:
        ck.check(False, f"{kind}:array-shape", (res.array.shape, tgt.shape))
        return ck.result()
    ck.check(C.peq_all(res.array, tgt, naxes), f"{kind}:value", C.short((res.array.tolist(), tgt.tolist())))
    # permutations of the arguments
    for perm in list(permutations(range(nargs)))[1:]:
        if kind in ("join_lp3", "join_pl3", "meet_el3", "meet_le3") or True:
            r2, f = call(f"{kind}:perm", (join if op == "join" else meet), *[objs[j] for j in perm])
            if f:
                ck.add(f)
            elif r2.array.shape != tgt.shape or not C.peq_all(r2.array, tgt, naxes):
                ck.check(False, f"{kind}:perm", perm)
    # un-normalised result: same projective class, exactly
    r3, f = call(f"{kind}:nonorm", (join if op == "join" else meet), *objs, _normalize_result=False)
    if f:
        ck.add(f)
    else:
        ck.check(r3.array.shape == res.array.shape and C.peq_all(r3.array, res.array, naxes, 1e-14), f"{kind}:normalisation", "")
    # incidence through the library's contains
    if op == "join":
        for k, o in enumerate(objs):
            c, f = call(f"{kind}:contains", res.contains, o)
            if f:
                ck.add(f)
            else:
                ck.check(np.all(c), f"{kind}:contains-arg", k)
    else:
        if isinstance(res, G.point.PointTensor):
            for k, o in enumerate(objs):
                c, f = call(f"{kind}:contains", o.contains, res)
                if f:
                    ck.add(f)
                else:
                    ck.check(np.all(c), f"{kind}:arg-contains-result", k)
        else:
            for k, o in enumerate(objs):
                c, f = call(f"{kind}:contains", o.contains, res)
                if f:
                    ck.add(f)
                else:
                    ck.check(np.all(c), f"{kind}:arg-contains-result", k)
    # own contraction for 3D lines: M^{kl} x_k = 0 for points on the line, != 0 off it
    if per_pos_res[0][0] == "L":
        ra = res.array.reshape((-1, n, n))
        for i in range(npos):
            _, p, q = per_pos_res[i]
            mix = [2 * a - 3 * b for a, b in zip(p, q)]
            for x in (p, q, mix):
                v = np.einsum("kl,k->l", ra[i] / np.max(np.abs(ra[i])), C.to_c(x) / np.max(np.abs(C.to_c(x))))
                ck.check(np.all(np.abs(v) < 1e-9), f"{kind}:own-incidence", "")
            off = next((e for e in ([[Fraction(int(a == b)) for a in range(n)] for b in range(n)]) if X.rank([p, q, e]) == 3), None)
            if off is not None:
                v = np.einsum("kl,k->l", ra[i] / np.max(np.abs(ra[i])), C.to_c(off))
                ck.check(np.max(np.abs(v)) > 1e-6, f"{kind}:own-nonincidence", "")
                c, f = call(f"{kind}:contains-off", res.contains if shape is None else res.contains, Point(C.to_c(off)))
                if f is None and shape is None:
                    ck.check(not bool(c), f"{kind}:contains-off-point", "")
    return ck.result()


def nontrivial(case):
    return all(C.generic_vec(v) for el in case["elems"] for v in el)


def labels(case):
    out = [case["via"]]
    out.append("complex" if case["cplx"] else "real")
    out.append("collection" if case["shape"] else "single")
    if case["shape"] and len(case["shape"]) > 1:
        out.append("multi-axis")
    if case["bcast"] is not None:
        out.append("broadcast")
    if not case["cplx"] and any(v[-1] == 0 for el in case["elems"] for v in el):
        out.append("has-infinite")
    if case.get("lowrank") and case["shape"] and len(case["shape"]) == 2 and 0 < len([k for k in case["lowrank"] if k != case["bcast"]]) < len(case["scales"]) - (case["bcast"] is not None):
        out.append("collections-of-different-rank")
    if case.get("mags") and len(set(case["mags"])) > 1:
        out.append("mixed-magnitude-collection")
    if any(case.get("int_dtype", [])) and not all(case.get("int_dtype", [])):
        out.append("mixed-dtype-requested")
    return out


# ---------------------------------------------------------------------------------------------- round trips
def rt_strategy(dim):
    def strat(tier):
        @st.composite
        def s(draw):
            cplx = draw(st.sampled_from([False, False, True]))
            vs = C.cvec(dim + 1, 9) if cplx else C.hpoint(dim, 9)
            which = draw(st.sampled_from(["meet_join", "join_meet", "planes"] if dim == 3 else ["meet_join", "join_meet"]))
            return {"dim": dim, "cplx": cplx, "which": which, "v": [draw(vs) for _ in range(4)],
                    "scales": [draw(C.cscale() if cplx else C.scale()) for _ in range(4)]}

        return s()

    return strat


def rt_run(case):
    dim, cplx = case["dim"], case["cplx"]
    n = dim + 1
    ex = [C.exact_vec(v, cplx) for v in case["v"]]
    sc = [C.cscale_value(s) if cplx else C.scale_value(s) for s in case["scales"]]
    ck = Checker()
    if case["which"] == "meet_join":
        p, q, r = ex[:3]
        if X.rank([p, q, r]) < 3:
            raise Skip("dependent")
        P, Q, R = [Point(C.to_c(v) * s if cplx else np.real(C.to_c(v)) * s) for v, s in zip(ex[:3], sc)]
        res, f = call("rt:meet(join,join)", lambda: meet(join(P, Q), join(P, R)))
        if f:
            return [f]
        ck.check(C.peq_all(res.array, C.to_c(p)), f"rt{dim}:meet(join(p,q),join(p,r))", C.short(res.array.tolist()))
    elif case["which"] == "join_meet":
        if dim == 2:
            l, m, k = ex[:3]
            if X.rank([l, m, k]) < 3:
                raise Skip("dependent")
            L, M, K = [Line(C.to_c(v) * s if cplx else np.real(C.to_c(v)) * s) for v, s in zip(ex[:3], sc)]
            res, f = call("rt:join(meet,meet)", lambda: join(meet(L, M), meet(L, K)))
            if f:
                return [f]
            ck.check(C.peq_all(res.array, C.to_c(l)), "rt2:join(meet(l,m),meet(l,n))", C.short(res.array.tolist()))
        else:
            # l through p,q ; m through p and r ; k through q and s (both meet l)
            p, q, r, s = ex
            if X.rank([p, q, r]) < 3 or X.rank([p, q, s]) < 3:
                raise Skip("dependent")
            L = Line(C.to_c(dual_plucker(p, q)) * sc[0] if cplx else np.real(C.to_c(dual_plucker(p, q))) * sc[0])
            M = Line(C.to_c(dual_plucker(p, r)) if cplx else np.real(C.to_c(dual_plucker(p, r))))
            K = Line(C.to_c(dual_plucker(q, s)) if cplx else np.real(C.to_c(dual_plucker(q, s))))
            res, f = call("rt:join(meet,meet)", lambda: join(meet(L, M), meet(L, K)))
            if f:
                return [f]
            ck.check(C.peq_all(res.array, C.to_c(dual_plucker(p, q)), 2), "rt3:join(meet(l,m),meet(l,n))", "")
    else:
        p, q, r, s = ex
        if X.rank([p, q, r, s]) < 4:
            raise Skip("dependent")
        P, Q, R, S = [Point(C.to_c(v) * t if cplx else np.real(C.to_c(v)) * t) for v, t in zip(ex, sc)]
        res, f = call("rt:meet(join3,join3)", lambda: meet(join(P, Q, R), join(P, Q, S)))
        if f:
            return [f]
        ck.check(C.peq_all(res.array, C.to_c(dual_plucker(p, q)), 2), "rt3:meet(join(p,q,r),join(p,q,s))", "")
        res2, f = call("rt:join(p,q)", lambda: join(P, Q))
        if f:
            return [f]
        ck.check(res == res2, "rt3:library-eq", "")
    return ck.result()


# ---------------------------------------------------------------------------------------------- wide dynamic range, exact
@st.composite
def wide_case(draw, tier="quick"):
    sm = st.integers(1, 9)
    return {"op": draw(st.sampled_from(["join", "meet"])), "a": draw(sm), "b": draw(sm), "c": draw(st.integers(-9, 9)), "e": draw(st.sampled_from([1, -1, 2, 3, -3])),
            "ka": draw(st.sampled_from([20, 30])), "kb": draw(st.sampled_from([10, 20])), "swap": draw(st.booleans())}


def run_wide(c):
    """two points (a*2^ka, b*2^kb, 1) and (c, b*2^kb + e, 1) - or dually two lines with these coefficients: every product and sum of
    the cross product is exactly representable, the entries of the result span up to 50 binary orders of magnitude. The result
    must be exactly proportional (by a power of two) to the exact cross product: an entry may be tiny, it is not noise."""
    a, b, cc, e, ka, kb = c["a"], c["b"], c["c"], c["e"], c["ka"], c["kb"]
    if not (1 <= a <= 9 and 1 <= b <= 9 and -9 <= cc <= 9 and e in (1, -1, 2, 3, -3) and ka in (20, 30) and kb in (10, 20)):
        raise Skip("malformed")
    u = [a * 2**ka, b * 2**kb, 1]
    w = [cc, b * 2**kb + e, 1]
    if c["swap"]:
        u, w = w, u
    exact = [u[1] * w[2] - u[2] * w[1], u[2] * w[0] - u[0] * w[2], u[0] * w[1] - u[1] * w[0]]
    if any(abs(x) >= 2**53 for x in exact + u + w) or not any(exact):
        raise Skip("not exactly representable")
    fu, fw = np.array(u, float), np.array(w, float)
    if c["op"] == "join":
        r, f = call("wide:join", join, Point(fu), Point(fw))
    else:
        r, f = call("wide:meet", meet, Line(fu), Line(fw))
    if f:
        return [f]
    ck = Checker()
    got = np.asarray(r.array, float)
    k = int(np.argmax(np.abs(exact)))
    # exact proportionality: got[i] * exact[k] == exact[i] * got[k] in exact rational arithmetic (all numbers are dyadic)
    ok = all(Fraction(float(got[i])) * exact[k] == Fraction(exact[i]) * Fraction(float(got[k])) for i in range(3)) and got[k] != 0
    ck.check(ok, f"wide:{c['op']}:exactly-the-cross-product", (got.tolist(), [int(x) for x in exact]))
    return ck.result()



# ------------------------------------------------------------------------------------------- single precision
@st.composite
def sp_case(draw, tier="quick"):
    kind = draw(st.sampled_from(["join_pp2", "meet_ll2", "join_pp3", "join_ppp3", "meet_ee3", "meet_eee3"]))
    dim, op, nb = KINDS[kind]
    cplx = draw(st.booleans())
    vs = C.cvec(dim + 1, 4) if cplx else C.hpoint(dim, 9)
    npos = draw(st.sampled_from([1, 1, 3]))
    return {"kind": kind, "cplx": cplx, "elems": [[draw(vs) for _ in range(nb)] for _ in range(npos)], "coefs": [[draw(st.integers(-3, 3)), draw(st.sampled_from([1, -1, 2]))] for _ in range(npos)],
            "mixed": draw(st.sampled_from([False, False, True]))}


def run_sp(case):
    """every argument stored in single precision (float32 / complex64; small integer coordinates, so every product is exact in
    that type): the result is the exact span / intersection and is incident with the arguments"""
    kind, cplx = case["kind"], case["cplx"]
    if kind not in KINDS:
        raise Skip("malformed")
    dim, op, nb = KINDS[kind]
    n = dim + 1
    per_pos = []
    for el, co in zip(case["elems"], case["coefs"]):
        if len(el) != nb:
            raise Skip("malformed")
        args = args_exact(kind, [C.exact_vec(v, cplx) for v in el], [Fraction(x) for x in co])
        if any(a[0] not in "PH" for a in args):
            raise Skip("line argument")
        r = exact_result(kind, args, n)
        if r is None:
            raise Skip("not in general position")
        per_pos.append((args, r))
    npos = len(per_pos)
    nargs = len(per_pos[0][0])
    dt = np.complex64 if cplx else np.float32
    objs = []
    for k in range(nargs):
        arr = np.array([C.to_c(per_pos[i][0][k][1]) for i in range(npos)])
        wide = case["mixed"] and k == 0
        arr = (arr if cplx else np.real(arr)).astype((np.complex128 if cplx else np.float64) if wide else dt)
        tag = per_pos[0][0][k][0]
        if npos == 1:
            o = (Point if tag == "P" else (Line if n == 3 else Plane))(arr[0])
        else:
            o = (PointCollection if tag == "P" else (LineCollection if n == 3 else PlaneCollection))(arr)
        if o.array.dtype != arr.dtype:
            raise HarnessError(f"dtype {o.array.dtype} instead of {arr.dtype}")
        objs.append(o)
    tgt = np.array([target_array(r) for _, r in per_pos])
    naxes = tgt.ndim - 1
    if npos == 1:
        tgt = tgt[0]
    site = f"single-precision:{kind}:{'complex64' if cplx else 'float32'}" + (":one-double-argument" if case["mixed"] else "")
    res, f = call(site, (join if op == "join" else meet), *objs)
    if f:
        return [f]
    ck = Checker()
    if not ck.check(res.array.shape == tgt.shape, site + ":shape", (res.array.shape, tgt.shape)):
        return ck.result()
    ck.check(C.peq_all(res.array, tgt, naxes, 1e-5), site + ":value", C.short((np.asarray(res.array).tolist(), tgt.tolist())))
    if op == "join" or isinstance(res, G.point.PointTensor):
        for k, o in enumerate(objs):
            cc, f = call(site + ":contains", (res.contains if op == "join" else o.contains), (o if op == "join" else res))
            if f:
                ck.add(f)
            else:
                ck.check(np.all(cc), site + ":incidence", k)
    return ck.result()



# ------------------------------------------------------------------------------------------- arguments that are views of one collection
@st.composite
def views_case(draw, tier="quick"):
    d = draw(st.sampled_from([2, 2, 3]))
    n = draw(st.integers(3, 7))
    return {"d": d, "pts": [draw(C.hpoint(d, 9)) for _ in range(n)], "what": draw(st.sampled_from(["polyline", "polyline", "triples", "dual", "strided", "reversed"])), "as_float": draw(st.booleans())}


def run_views(case):
    """the arguments of one call are overlapping views of a single collection (the edges of a polyline: join(pts[:-1], pts[1:]); the planes through
    consecutive triples; the corners meet(edges[:-1], edges[1:])): different elements that share memory - the result is that of independent copies"""
    d, what = case["d"], case["what"]
    n = d + 1
    V = [[int(x) for x in p] for p in case["pts"]]
    if any(len(p) != n for p in V) or len(V) < 3:
        raise Skip("malformed")
    arr = np.array(V, dtype=float if case["as_float"] else np.int64)
    dual = what == "dual"
    coll = (LineCollection if n == 3 else PlaneCollection)(arr) if dual else PointCollection(arr)
    k = 3 if (what == "triples" and d == 3) else 2
    if what == "strided":
        views = [coll[0:-1:2], coll[1::2]]
        idx = [list(range(0, len(V) - 1, 2)), list(range(1, len(V), 2))]
    elif what == "reversed":
        views = [coll[::-1][:-1], coll[1:]]
        idx = [list(range(len(V) - 1, 0, -1)), list(range(1, len(V)))]
    else:
        views = [coll[i:len(V) - (k - 1) + i] for i in range(k)]
        idx = [list(range(i, len(V) - (k - 1) + i)) for i in range(k)]
    m = min(len(x) for x in idx)
    idx = [x[:m] for x in idx]
    views = [v[:m] for v in views]
    if m < 1:
        raise Skip("too short")
    kind = {(2, 2, False): "join_pp2", (2, 2, True): "meet_ll2", (3, 2, False): "join_pp3", (3, 3, False): "join_ppp3", (3, 2, True): "meet_ee3"}.get((d, k, dual))
    if kind is None:
        raise Skip("no such operation")
    exact = []
    for j in range(m):
        args = args_exact(kind, [[Fraction(x) for x in V[idx[a][j]]] for a in range(k)], [Fraction(1), Fraction(1)])
        r = exact_result(kind, args, n)
        if r is None:
            raise Skip("consecutive elements not in general position")
        exact.append(r)
    site = f"views:{kind}:{what}"
    res, f = call(site, (meet if dual else join), *views)
    if f:
        return [f]
    ck = Checker()
    got_all = np.asarray(res.array)
    if not ck.check(got_all.shape[0] == m, site + ":shape", got_all.shape):
        return ck.result()
    for j, r in enumerate(exact):
        tgt = r[1] if r[0] in "PH" else [x for row in dual_plucker(r[1], r[2]) for x in row]
        got = np.asarray(got_all[j], float).ravel()
        t = max(range(len(tgt)), key=lambda q: abs(tgt[q]))
        ok = got.shape == (len(tgt),) and got[t] != 0 and all(Fraction(float(got[q])) * tgt[t] == tgt[q] * Fraction(float(got[t])) for q in range(len(tgt)))
        if not ck.check(ok, site + ":position-value", (j, got.tolist(), [float(x) for x in tgt])):
            break
    ck.check(np.array_equal(np.asarray(coll.array), arr), site + ":collection-unchanged")
    return ck.result()



# ------------------------------------------------------------------------------------------- lines through an isotropic point
ISO = [([1, 1j, 0, 0], 2), ([1, -1j, 0, 0], 2), ([1, 0, 1j, 0], 1), ([1j, 0, 1, 0], 1), ([0, 1, 1j, 0], 0), ([0, 1j, -1, 0], 0), ([3, 4, 5j, 0], None), ([5j, 12, 13, 0], None)]


@st.composite
def iso_case(draw, tier="quick"):
    return {"k": draw(st.integers(0, len(ISO) - 1)), "p": [draw(C.ints(6)) for _ in range(3)], "q": [draw(C.ints(6)) for _ in range(3)], "h": draw(C.ints(5)), "f": draw(st.sampled_from([1, 2, -1, 1j, 1 + 1j])), "swap": draw(st.booleans()),
            "inplane": draw(st.booleans())}


def run_iso(c):
    """two lines of 3-space through a common isotropic point k (a point of the absolute conic: k . k = 0, e.g. (1, i, 0, 0) - the circular points of
    the planes z = const) and two finite points: they are coplanar and meet exactly in k; with `inplane` both finite points lie in one coordinate
    plane translate, so that the common plane has a vanishing coefficient"""
    kv, ax = ISO[c["k"] % len(ISO)]
    kv = np.array(kv, dtype=complex)
    p, q = np.array([float(x) for x in c["p"]]), np.array([float(x) for x in c["q"]])
    if c["inplane"] and ax is not None:
        p[ax] = q[ax] = float(c["h"])
    if np.linalg.matrix_rank(np.stack([np.append(p, 1), np.append(q, 1), kv])) < 3:
        raise Skip("collinear")
    K = Point(kv * c["f"])
    l, f = call("iso:join(p,k)", join, Point(*p), K)
    m, g = call("iso:join(q,k)", join, Point(*q), K)
    if f or g:
        return [x for x in (f, g) if x]
    site = "isotropic-point:meet-of-two-lines-through-it" + (":common-plane-with-a-vanishing-coefficient" if c["inplane"] and ax is not None else "")
    r, f = call(site, (lambda: meet(m, l)) if c["swap"] else (lambda: meet(l, m)))
    if f:
        return [f]
    ck = Checker()
    ck.check(np.asarray(r.array).shape == (4,) and C.peq_all(np.asarray(r.array, complex), kv, 1, 1e-9), site + ":value", np.asarray(r.array).tolist())
    e, f = call("iso:join(l,m)", join, l, m)
    if f:
        ck.add(f)
    else:
        for name, x in (("p", np.append(p, 1)), ("q", np.append(q, 1)), ("k", kv)):
            ck.check(abs(np.dot(np.asarray(e.array, complex), x)) < 1e-9 * max(1.0, float(np.max(np.abs(x)))), site + ":common-plane-contains-" + name, np.asarray(e.array).tolist())
    return ck.result()



# ------------------------------------------------------------------------------------------- integer types, full range
INT_RANGES = {"int8": (-128, 127), "uint8": (0, 255), "int16": (-32768, 32767), "uint16": (0, 65535), "int32": (-2**31, 2**31 - 1), "uint32": (0, 2**32 - 1), "int64": (-2**40, 2**40)}


@st.composite
def it_case(draw, tier="quick"):
    kind = draw(st.sampled_from(["join_pp2", "meet_ll2", "join_pp3", "join_ppp3", "meet_ee3", "meet_eee3"]))
    dim, op, nb = KINDS[kind]
    dt = draw(st.sampled_from(sorted(INT_RANGES)))
    lo, hi = INT_RANGES[dt]
    # every product of nb coordinates and the sum of 24 of them must be an integer below 2^53: then the exact result is representable
    bound = 2**25 if nb == 2 else 2**15
    lo, hi = max(lo, -bound), min(hi, bound)
    coord = st.one_of(st.integers(lo, hi), st.integers(lo, hi), st.sampled_from([lo, hi, hi - 1, lo + 1]), st.integers(max(lo, -9), 9))
    npos = draw(st.sampled_from([1, 1, 3]))
    return {"kind": kind, "dt": dt, "elems": [[[draw(coord) for _ in range(dim)] + [1] for _ in range(nb)] for _ in range(npos)], "mixed": draw(st.sampled_from([None, None, "int64", "float64"]))}


def run_it(case):
    """every argument an array of one integer type, coordinates over the whole range of the type (as far as the exact result stays
    below 2^53): the result is exactly proportional to the exact span / intersection - numpy's integer arithmetic wraps around
    silently, the library must not compute in the narrow type"""
    kind, dt = case["kind"], case["dt"]
    if kind not in KINDS or dt not in INT_RANGES or case.get("mixed") not in (None, "int64", "float64"):
        raise Skip("malformed")
    dim, op, nb = KINDS[kind]
    n = dim + 1
    lo, hi = INT_RANGES[dt]
    bound = 2**25 if nb == 2 else 2**15
    per_pos = []
    for el in case["elems"]:
        if len(el) != nb or any(len(v) != n or any(not isinstance(x, int) or not max(lo, -bound) <= x <= min(hi, bound) for x in v) for v in el):
            raise Skip("malformed")
        args = args_exact(kind, [[Fraction(x) for x in v] for v in el], [Fraction(1), Fraction(1)])
        r = exact_result(kind, args, n)
        if r is None:
            raise Skip("not in general position")
        per_pos.append((args, r))
    npos = len(per_pos)
    objs = []
    for k in range(nb):
        arr = np.array([[int(x) for x in per_pos[i][0][k][1]] for i in range(npos)], dtype=np.int64)
        arr = arr.astype(case["mixed"] if case.get("mixed") and k == 0 else dt)
        tag = per_pos[0][0][k][0]
        if npos == 1:
            o = (Point if tag == "P" else (Line if n == 3 else Plane))(arr[0])
        else:
            o = (PointCollection if tag == "P" else (LineCollection if n == 3 else PlaneCollection))(arr)
        if o.array.dtype != arr.dtype:
            raise HarnessError(f"dtype {o.array.dtype} instead of {arr.dtype}")
        objs.append(o)
    site = f"integer-type:{kind}:{dt}" + (f":first-argument-{case['mixed']}" if case.get("mixed") else "")
    res, f = call(site, (join if op == "join" else meet), *objs)
    if f:
        return [f]
    ck = Checker()
    got_all = np.asarray(res.array)
    for i, (_, r) in enumerate(per_pos):
        tgt = r[1] if r[0] in "PH" else [x for row in dual_plucker(r[1], r[2]) for x in row]
        got = np.asarray(got_all if npos == 1 else got_all[i], float).ravel()
        if not ck.check(got.shape == (len(tgt),) and bool(np.all(np.isfinite(got))), site + ":shape", (got_all.shape, len(tgt))):
            break
        j = max(range(len(tgt)), key=lambda t: abs(tgt[t]))
        ok = got[j] != 0 and all(Fraction(float(got[t])) * tgt[j] == tgt[t] * Fraction(float(got[j])) for t in range(len(tgt)))
        if not ck.check(ok, site + ":exactly-the-span-or-intersection", C.short((got.tolist(), [float(x) for x in tgt]))):
            break
    return ck.result()



# ------------------------------------------------------------------------------------------- results and arguments at infinity
@st.composite
def inf_case(draw, tier="quick"):
    return {"what": draw(st.sampled_from(["parallel_lines2", "three_planes_common_direction", "plane_and_parallel_line", "parallel_planes", "line_at_infinity_meets_plane", "join_of_directions2", "join_of_directions3", "plane_at_infinity_argument"])),
            "v": [draw(C.ints(5)) for _ in range(16)], "s": [draw(C.scale()) for _ in range(3)], "coll": draw(st.booleans())}


def run_inf(c):
    """join / meet whose result or whose argument lies at infinity (parallel lines and planes, directions, the plane at infinity):
    exact result, every argument order"""
    what, v = c["what"], [float(x) for x in c["v"]]
    sc = [C.scale_value(x) for x in c["s"]]
    ck = Checker()

    def expect(site, fn, objs, want, naxes=1, perms=True):
        orders = list(permutations(range(len(objs)))) if perms else [tuple(range(len(objs)))]
        for od in orders:
            r, f = call(site, fn, *[objs[i] for i in od])
            if f:
                ck.add(f)
                return
            a = np.asarray(r.array)
            if c["coll"] and a.ndim > naxes:
                ok = all(C.peq_all(a[i], want, naxes, 1e-9) for i in range(a.shape[0]))
            else:
                ok = a.shape == np.shape(want) and C.peq_all(a, want, naxes, 1e-9)
            if not ck.check(ok, site + ":value", C.short((a.tolist(), np.asarray(want).tolist(), od))):
                return

    def two(o, cls):
        return cls(np.stack([o.array, o.array * -2.0])) if c["coll"] else o

    if what == "parallel_lines2":
        n = np.array(v[0:2])
        if not np.any(n) or v[2] == v[3]:
            raise Skip("degenerate")
        l, m = Line(np.append(n, v[2]) * sc[0]), Line(np.append(n, v[3]) * sc[1])
        expect("meet:parallel-lines2", meet, [two(l, LineCollection), m], np.array([-n[1], n[0], 0.0]))
    elif what == "three_planes_common_direction":
        d = np.array(v[0:3])
        ns = [np.cross(d, np.array(v[3 + 3 * i : 6 + 3 * i])) for i in range(3)]
        if not np.any(d) or np.linalg.matrix_rank(np.stack(ns)) < 2 or any(not np.any(n) for n in ns):
            raise Skip("degenerate")
        planes = [Plane(np.append(ns[i], v[12 + i]) * sc[i]) for i in range(3)]
        M = np.stack([pl.array for pl in planes])
        if np.linalg.matrix_rank(M) < 3:
            raise Skip("planes through a common line")
        expect("meet:three-planes-with-a-common-direction", meet, [two(planes[0], PlaneCollection), planes[1], planes[2]], np.append(d, 0.0))
    elif what == "plane_and_parallel_line":
        n, a = np.array(v[0:3]), np.array(v[3:6])
        d = np.cross(n, np.array(v[6:9]))
        if not np.any(n) or not np.any(d) or abs(n @ a + v[9]) < 0.5:
            raise Skip("degenerate or line in the plane")
        e = Plane(np.append(n, v[9]) * sc[0])
        l = Line(Point(*a), Point(*(a + d)))
        expect("meet:plane-and-parallel-line", meet, [two(e, PlaneCollection), l], np.append(d, 0.0))
    elif what == "parallel_planes":
        n = np.array(v[0:3])
        if not np.any(n) or v[3] == v[4]:
            raise Skip("degenerate")
        e, f_ = Plane(np.append(n, v[3]) * sc[0]), Plane(np.append(n, v[4]) * sc[1])
        for od in ((e, f_), (f_, e)):
            r, f = call("meet:parallel-planes", meet, *od)
            if f:
                ck.add(f)
                break
            from geometer.point import infty_plane

            ck.check(bool(infty_plane.contains(r)) and bool(e.contains(r)) and bool(f_.contains(r)), "meet:parallel-planes:line-at-infinity-in-both-planes", np.asarray(r.array).tolist())
    elif what == "line_at_infinity_meets_plane":
        n, g = np.array(v[0:3]), np.array(v[3:6])
        d = np.cross(n, g)
        if not np.any(d) or v[6] == v[7]:
            raise Skip("degenerate")
        linf, f = call("meet:parallel-planes", meet, Plane(np.append(n, v[6])), Plane(np.append(n, v[7])))
        if f:
            raise Skip("no line at infinity")
        gp = Plane(np.append(g, v[8]) * sc[0])
        expect("meet:line-at-infinity-and-plane", meet, [two(gp, PlaneCollection), linf], np.append(d, 0.0))
    elif what == "join_of_directions2":
        d1, d2 = np.array(v[0:2]), np.array(v[2:4])
        if abs(d1[0] * d2[1] - d1[1] * d2[0]) < 0.5:
            raise Skip("same direction")
        expect("join:two-directions2", join, [two(Point(np.append(d1, 0.0) * sc[0]), PointCollection), Point(np.append(d2, 0.0) * sc[1])], np.array([0.0, 0.0, 1.0]))
    elif what == "join_of_directions3":
        ds = [np.array(v[3 * i : 3 * i + 3]) for i in range(3)]
        if abs(np.linalg.det(np.stack(ds))) < 0.5:
            raise Skip("dependent directions")
        expect("join:three-directions3", join, [two(Point(np.append(ds[0], 0.0) * sc[0]), PointCollection), Point(np.append(ds[1], 0.0) * sc[1]), Point(np.append(ds[2], 0.0) * sc[2])], np.array([0.0, 0.0, 0.0, 1.0]))
    else:
        n1, n2 = np.array(v[0:3]), np.array(v[3:6])
        d = np.cross(n1, n2)
        if not np.any(d):
            raise Skip("parallel planes")
        e, f_ = Plane(np.append(n1, v[6]) * sc[0]), Plane(np.append(n2, v[7]) * sc[1])
        expect("meet:two-planes-and-the-plane-at-infinity", meet, [two(e, PlaneCollection), f_, Plane(np.array([0.0, 0.0, 0.0, 1.0]) * sc[2])], np.append(d, 0.0))
    return ck.result()


LAWS = [
    Law(
        name=k,
        strategy=strategy_for(k),
        run=run,
        nontrivial=nontrivial,
        labels=labels,
        budget={"quick": 300 if k in ("join_ppp3", "meet_eee3") else 220, "thorough": 6000},
        rule=f"{k}: exact span/intersection, all argument permutations, normalisation, incidence",
        mandatory=("collection", "complex", "single") + (("mixed-magnitude-collection",) if k in ("join_pp2", "meet_ll2", "join_pp3") else ()) + (("collections-of-different-rank",) if k in ("join_ppp3", "meet_eee3") else ()),
    )
    for k in KINDS
] + [
    Law("elements_at_infinity", lambda tier: inf_case(tier), run_inf, lambda c: True, lambda c: [c["what"], "coll" if c["coll"] else "single"], {"quick": 800, "thorough": 10000},
        "parallel lines / planes, a plane and a parallel line, three planes with a common direction, the line at infinity of parallel planes cut with a plane, joins of directions, the plane at infinity as an argument: exact result in every argument order", shard=300),
    Law("single_precision", lambda tier: sp_case(tier), run_sp, lambda c: True, lambda c: [c["kind"], "complex64" if c["cplx"] else "float32"] + (["one-double-argument"] if c["mixed"] else []) + (["collection"] if len(c["elems"]) > 1 else []),
        {"quick": 600, "thorough": 10000}, "all arguments in float32 / complex64 (small integer coordinates): exact span / intersection, incidence", shard=300, mandatory=("complex64", "float32")),
    Law("arguments_are_views_of_one_collection", lambda tier: views_case(tier), run_views, lambda c: True, lambda c: [f"d{c['d']}", c["what"]], {"quick": 1200, "thorough": 20000},
        "join / meet whose arguments are overlapping views of one collection (edges of a polyline, planes through consecutive triples, corners of consecutive edges, strided and reversed views): exactly the span / intersection at every position", shard=300,
        mandatory=("polyline", "triples", "dual")),
    Law("lines_through_an_isotropic_point", lambda tier: iso_case(tier), run_iso, lambda c: True, lambda c: [f"k{c['k']}"] + (["common-plane-with-a-vanishing-coefficient"] if c["inplane"] and ISO[c["k"] % len(ISO)][1] is not None else []),
        {"quick": 600, "thorough": 8000}, "two 3D lines through a common isotropic point (k . k = 0) and two finite points: meet = k, join = the common plane - also when that plane is a coordinate plane translate", shard=200,
        mandatory=("common-plane-with-a-vanishing-coefficient",)),
    Law("integer_types_full_range", lambda tier: it_case(tier), run_it, lambda c: max(abs(x) for el in c["elems"] for v in el for x in v) > 181,
        lambda c: [c["kind"], c["dt"]] + (["collection"] if len(c["elems"]) > 1 else []) + ([f"first-argument-{c['mixed']}"] if c.get("mixed") else [])
        + ([f"{c['dt']}:products-beyond-the-type"] if max(abs(x) for el in c["elems"] for v in el for x in v) ** 2 > INT_RANGES[c["dt"]][1] else []),
        {"quick": 1500, "thorough": 20000}, "all arguments arrays of one integer type (int8 ... uint32, int64) with coordinates over the whole range of the type: exactly the span / intersection", shard=300,
        mandatory=("int16:products-beyond-the-type", "uint16:products-beyond-the-type", "int32:products-beyond-the-type", "uint8:products-beyond-the-type", "int8:products-beyond-the-type")),
    Law("wide_range_exact", lambda tier: wide_case(tier), run_wide, lambda c: True, lambda c: [c["op"], f"spread=2^{c['ka'] + c['kb']}"], {"quick": 300, "thorough": 4000},
        "join / meet in the plane on exactly representable data whose result spans ~50 binary orders of magnitude: exact proportionality to the cross product"),
] + [
    Law(
        name=f"roundtrip{d}",
        strategy=rt_strategy(d),
        run=rt_run,
        nontrivial=lambda c: all(C.generic_vec(v) for v in c["v"]),
        labels=lambda c: [c["which"], "complex" if c["cplx"] else "real"],
        budget={"quick": 300, "thorough": 6000},
        rule="meet(join(p,q),join(p,r)) = p, join(meet(l,m),meet(l,n)) = l, meet(join(p,q,r),join(p,q,s)) = join(p,q)",
    )
    for d in (2, 3)
]
