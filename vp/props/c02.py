"""C02 Degenerate join/meet inputs raise the documented error, never a wrong answer."""
from __future__ import annotations

from fractions import Fraction
from itertools import product

import numpy as np
from hypothesis import strategies as st

import geometer as G
from geometer import Line, LineCollection, Plane, PlaneCollection, Point, PointCollection, join, meet
from geometer.exceptions import LinearDependenceError, NotCoplanar

from .. import common as C
from .. import exact as X
from ..runner import Batch, Checker, Fail, HarnessError, Law, Skip, call, check_observed, exc_fail, mismatch, observe
from .c01 import dual_plucker

RULE = (
    "(a) exhaustive lattice {-1,0,1}^(n+1) including the zero vector: all pairs in 2D (729) and 3D (6561) and all triples in 3D "
    "(531441), for points (join) and dually lines/planes (meet), through one collection call (mask check) and through single calls "
    "(all of the 2D lattice, a seed-selected stride sample otherwise); (b) pairs of 3D lines spanned by lattice points, "
    "line+point, line+plane, classified exactly; (c) Hypothesis-generated constructed degeneracies (|c|<=9, scrambled "
    "representatives) single and at random collection positions. Non-trivial = exactly degenerate or skew configuration."
)
ASSUMPTIONS = [
    "oracle: exact rank classification (integer minors in int64 / Fractions)",
    "mixed skew/coplanar line collections: only the exception type is checked (no mask is defined for NotCoplanar)",
]

LAT = {n: np.array(list(product([-1, 0, 1], repeat=n)), dtype=np.int64) for n in (3, 4)}


def cross3(a, b):
    return np.stack([a[..., 1] * b[..., 2] - a[..., 2] * b[..., 1], a[..., 2] * b[..., 0] - a[..., 0] * b[..., 2], a[..., 0] * b[..., 1] - a[..., 1] * b[..., 0]], axis=-1)


def det3(a, b, c):
    return np.sum(a * cross3(b, c), axis=-1)


def cross4(a, b, c):
    """generalised cross product of three 4-vectors (integer exact)"""
    out = []
    for i in range(4):
        idx = [j for j in range(4) if j != i]
        out.append((-1) ** i * det3(a[..., idx], b[..., idx], c[..., idx]))
    return np.stack(out, axis=-1)


def wedge(a, b):
    n = a.shape[-1]
    return np.stack([a[..., i] * b[..., j] - a[..., j] * b[..., i] for i in range(n) for j in range(i + 1, n)], axis=-1)


def lattice_cases(tier, seed):
    for space in ("pp2", "ll2", "pp3", "ee3", "ppp3", "eee3"):
        yield {"space": space, "seed": seed, "tier": tier}


def build(kind, arr):
    single = arr.ndim == 1
    if kind == "P":
        return Point(arr) if single else PointCollection(arr)
    if arr.shape[-1] == 3:
        return Line(arr) if single else LineCollection(arr)
    return Plane(arr) if single else PlaneCollection(arr)


def other_forms(space, kind, vs, dep, res):
    """the method and constructor spellings of the same operation must behave like the function"""
    objs = [build(kind, v) for v in vs]
    forms = []
    if kind == "P":
        ctor = Line if len(vs) == 2 else Plane
        forms += [("method", lambda: objs[0].join(*objs[1:])), ("constructor", lambda: ctor(*objs))]
    elif len(vs) == 2:
        forms.append(("method", lambda: objs[0].meet(objs[1])))
    for name, fn in forms:
        try:
            r2 = fn()
        except LinearDependenceError:
            if dep:
                continue
            return Fail("EXC:LinearDependenceError", f"lattice:{space}:single:{name}:general-position", str([v.tolist() for v in vs]))
        except Exception as e:  # noqa: BLE001
            return exc_fail(e, f"lattice:{space}:single:{name}")
        if dep:
            return Fail("NO_RAISE", f"lattice:{space}:single:{name}", f"{[v.tolist() for v in vs]} -> {r2.array.tolist()}")
        if r2.array.shape != res.array.shape or not C.peq_all(r2.array, res.array, res.array.ndim):
            return mismatch(f"lattice:{space}:single:{name}:value", ([v.tolist() for v in vs], r2.array.tolist()))
    return None


def single_check(space, vecs):
    """one single-object call; returns Fail or None"""
    kind = "P" if space[0] == "p" else "H"
    op = join if kind == "P" else meet
    vs = [np.array(v, dtype=np.int64) for v in vecs]
    if len(vs) == 2:
        dep = not np.any(wedge(vs[0], vs[1]))
        if vs[0].shape[-1] == 3:
            exp = cross3(vs[0], vs[1])
            naxes = 1
        else:
            exp = None
    else:
        exp = cross4(*vs)
        dep = not np.any(exp)
        naxes = 1
    # equal vectors are also passed as one and the same object (the most natural way to write a coincident pair)
    seen = {}
    aliased = [seen.setdefault(tuple(int(x) for x in v), build(kind, v)) for v in vs]
    if len({id(o) for o in aliased}) < len(aliased):
        try:
            r = op(*aliased)
            return Fail("NO_RAISE", f"lattice:{space}:single:same-object-twice", f"{vecs} -> {r.array.tolist()}")
        except LinearDependenceError:
            pass
        except Exception as e:  # noqa: BLE001
            return exc_fail(e, f"lattice:{space}:single:same-object-twice")
    try:
        res = op(*[build(kind, v) for v in vs])
    except LinearDependenceError as e:
        if dep:
            if not (np.ndim(e.dependent_values) == 0 and bool(e.dependent_values)):
                return mismatch(f"lattice:{space}:single:dependent_values", repr(e.dependent_values))
            return other_forms(space, kind, vs, dep, None)
        return Fail("EXC:LinearDependenceError", f"lattice:{space}:single:general-position", str(vecs))
    except Exception as e:  # noqa: BLE001
        return exc_fail(e, f"lattice:{space}:single")
    if dep:
        return Fail("NO_RAISE", f"lattice:{space}:single", f"{vecs} -> {res.array.tolist()}")
    f = other_forms(space, kind, vs, dep, res)
    if f is not None:
        return f
    if exp is not None and not C.peq_all(res.array, exp):
        return mismatch(f"lattice:{space}:single:value", (vecs, res.array.tolist()))
    if exp is None:
        # 3D join of 2 points / meet of 2 planes: incidence
        p, q = [[Fraction(int(x)) for x in v] for v in vs]
        tgt = C.to_c(dual_plucker(p, q)) if kind == "P" else None
        if kind == "P" and not C.peq_all(res.array, tgt, 2):
            return mismatch(f"lattice:{space}:single:value", (vecs, res.array.tolist()))
        if kind == "H":
            ns = X.null_space([p, q])
            tgt = C.to_c(dual_plucker(ns[0], ns[1]))
            if not C.peq_all(res.array, tgt, 2):
                return mismatch(f"lattice:{space}:single:value", (vecs, res.array.tolist()))
    return None


def run_lattice(case):
    if "vectors" in case:
        f = single_check(case["space"], case["vectors"])
        return [f] if f else []
    space = case["space"]
    n = 3 if space.endswith("2") else 4
    k = 3 if space in ("ppp3", "eee3") else 2
    L = LAT[n]
    m = len(L)
    idx = np.indices((m,) * k).reshape(k, -1)
    vs = [L[idx[i]] for i in range(k)]
    kind = "P" if space[0] == "p" else "H"
    op = join if kind == "P" else meet
    if k == 2:
        dep = ~np.any(wedge(vs[0], vs[1]), axis=-1)
    else:
        dep = ~np.any(cross4(*vs), axis=-1)
    fails = []
    total = len(dep)
    # (1) one collection call over the whole lattice: mask must equal the exact mask
    try:
        op(*[build(kind, v) for v in vs])
        fails.append((Fail("NO_RAISE", f"lattice:{space}:collection", "no LinearDependenceError for the full lattice"), case))
    except LinearDependenceError as e:
        dv = np.asarray(e.dependent_values)
        if dv.shape != dep.shape:
            fails.append((mismatch(f"lattice:{space}:mask-shape", (dv.shape, dep.shape)), case))
        elif not np.array_equal(dv, dep):
            bad = np.flatnonzero(dv != dep)
            for b in bad[:3]:
                fails.append((mismatch(f"lattice:{space}:mask", {"dependent": bool(dep[b]), "reported": bool(dv[b])}), {"space": space, "vectors": [v[b].tolist() for v in vs]}))
    except Exception as e:  # noqa: BLE001
        fails.append((exc_fail(e, f"lattice:{space}:collection"), case))
    # (1b) one and the same collection object as every argument: every position is dependent
    try:
        whole = build(kind, L)
        r = op(*([whole] * k))
        fails.append((Fail("NO_RAISE", f"lattice:{space}:collection:same-object-twice", ""), case))
    except LinearDependenceError as e:
        dv = np.asarray(e.dependent_values)
        if dv.shape != (m,) or not np.all(dv):
            fails.append((mismatch(f"lattice:{space}:collection:same-object-twice:mask", dv.shape), case))
    except Exception as e:  # noqa: BLE001
        fails.append((exc_fail(e, f"lattice:{space}:collection:same-object-twice"), case))
    # (2) the independent positions alone must not raise and give the right object
    ind = ~dep
    try:
        res = op(*[build(kind, v[ind]) for v in vs])
        if k == 3 or n == 3:
            exp = cross4(*[v[ind] for v in vs]) if k == 3 else cross3(vs[0][ind], vs[1][ind])
            ok = C.peq(res.array, exp)
            for b in np.flatnonzero(~ok)[:3]:
                fails.append((mismatch(f"lattice:{space}:value", res.array[b].tolist()), {"space": space, "vectors": [v[ind][b].tolist() for v in vs]}))
        else:
            # 3D pairs: the line must contain both points / lie in both planes
            a, b = vs[0][ind], vs[1][ind]
            if kind == "P":
                c1 = np.einsum("nkl,nk->nl", res.array, a)
                c2 = np.einsum("nkl,nk->nl", res.array, b)
                ok = (np.abs(c1).max(-1) < 1e-12) & (np.abs(c2).max(-1) < 1e-12) & (np.abs(res.array).reshape(len(a), -1).max(-1) > 0.1)
            else:
                ok = np.all(build("H", a).contains(res)) & np.all(build("H", b).contains(res)) & (np.abs(res.array).reshape(len(a), -1).max(-1) > 0.1)
            for bb in np.flatnonzero(~ok)[:3]:
                fails.append((mismatch(f"lattice:{space}:value", ""), {"space": space, "vectors": [v[ind][bb].tolist() for v in vs]}))
    except Exception as e:  # noqa: BLE001
        f = exc_fail(e, f"lattice:{space}:independent-subset")
        fails.append((f, case))
    # (3) single calls: whole 2D lattice, stride sample otherwise
    if n == 3:
        sel = np.arange(total)
    else:
        stride = (97 if k == 2 else 1999) if case["tier"] == "quick" else (7 if k == 2 else 211)
        sel = np.arange(case["seed"] % stride, total, stride)
    nsingle = 0
    for b in sel:
        vecs = [v[b].tolist() for v in vs]
        f = single_check(space, vecs)
        nsingle += 1
        if f is not None and len(fails) < 50:
            fails.append((f, {"space": space, "vectors": vecs}))
    return Batch(total + nsingle, int(dep.sum()), fails, [{"space": space, "vectors": [v[total // 3].tolist() for v in vs]}],
                 {f"{space}:dependent": int(dep.sum()), f"{space}:independent": int(ind.sum()), f"{space}:single-calls": nsingle})


# ----------------------------------------------------------------------------------------- (b) lines of 3-space on the lattice
def lattice_lines():
    pts = [tuple(p) for p in LAT[4] if any(p)]
    # one representative per projective point
    reps = []
    seen = set()
    for p in pts:
        k = next(x for x in p if x)
        q = tuple(x * k for x in p)
        if q not in seen:
            seen.add(q)
            reps.append(q)
    return reps


def lines_cases(tier, seed):
    reps = lattice_lines()  # 40 projective points
    n = len(reps)
    pairs = [(i, j) for i in range(n) for j in range(i + 1, n)]  # 780 point pairs (lines, with repetition)
    total = len(pairs) ** 2
    stride = 31 if tier == "quick" else 3
    off = seed % stride
    cnt = 0
    for t in range(off, total, stride):
        a, b = divmod(t, len(pairs))
        yield {"l": [list(reps[pairs[a][0]]), list(reps[pairs[a][1]])], "m": [list(reps[pairs[b][0]]), list(reps[pairs[b][1]])]}
        cnt += 1


def mk_line(p, q, scale=1.0):
    m = dual_plucker([Fraction(x) for x in p], [Fraction(x) for x in q])
    from .c01 import pow2_normalise

    return Line(pow2_normalise(np.array([[float(x) for x in r] for r in m])) * scale)


def run_lines(case):
    a1, a2 = case["l"]
    b1, b2 = case["m"]
    cls = X.classify_lines3(*[[Fraction(x) for x in v] for v in (a1, a2, b1, b2)])
    if cls == "degenerate":
        raise Skip("degenerate generator")
    sc = C.scale_value(case["scales"][0]) if "scales" in case else 1.0
    sc2 = C.scale_value(case["scales"][1]) if "scales" in case else 1.0
    l, m = mk_line(a1, a2, sc), mk_line(b1, b2, sc2)
    ck = Checker()
    cp, f = call("is_coplanar", l.is_coplanar, m)
    if f:
        ck.add(f)
    else:
        ck.check(bool(cp) == (cls != "skew"), f"lines:is_coplanar:{cls}", bool(cp))
    # round 16: the same two lines also as elements taken out of the covariant form of a collection and converted back
    # (collection -> covariant_tensor -> [i] -> contravariant_tensor): the same line, so the same outcome of every operation
    def _via_covariant(x, i):
        coll = G.LineCollection(np.stack([x.array, x.array * 2.0][::1 if i else -1]))
        return coll.covariant_tensor[i].contravariant_tensor

    l2, f = call("lines:covariant-element", lambda: (_via_covariant(l, 0), _via_covariant(m, 1)))
    if f:
        ck.add(f)
        pairs = [("", l, m)]
    else:
        pairs = [("", l, m), ("covariant-element:", l2[0], l2[1]), ("covariant-element-first:", l2[0], m)]
    for tag, name, op, l, m in [(t, n, o, x, y) for (t, x, y) in pairs for (n, o) in (("join", join), ("meet", meet))]:
        name = tag + name
        try:
            res = op(l, m)
        except NotCoplanar:
            ck.check(cls == "skew", f"lines:{name}:{cls}:NotCoplanar-raised")
            continue
        except LinearDependenceError as e:
            ck.check(cls == "equal", f"lines:{name}:{cls}:LinearDependenceError-raised")
            continue
        except Exception as e:  # noqa: BLE001
            ck.add(exc_fail(e, f"lines:{name}:{cls}"))
            continue
        if cls != "meet":
            ck.add(Fail("NO_RAISE", f"lines:{name}:{cls}", C.short(res.array.tolist())))
            continue
        pts = [[Fraction(x) for x in v] for v in (a1, a2, b1, b2)]
        if name.endswith("join"):
            rows, piv = X.rref(pts)
            exp = X.cofactor_hyperplane(rows[:3])
            ck.check(isinstance(res, G.Plane) and C.peq_all(res.array, C.to_c(exp)), f"lines:{tag}join:value", C.short(res.array.tolist()))
        else:
            e1 = X.null_space(pts[:2])
            e2 = X.null_space(pts[2:])
            ns = X.null_space(e1 + e2)
            ck.check(isinstance(res, G.Point) and len(ns) == 1 and C.peq_all(res.array, C.to_c(ns[0])), f"lines:{tag}meet:value", C.short(res.array.tolist()))
    return ck.result()


# ----------------------------------------------------------------------------------------- (b') collections of meeting lines
@st.composite
def meeting_case(draw, tier="quick"):
    k = draw(st.integers(1, 6))
    pt = st.lists(st.integers(-1, 1), min_size=4, max_size=4)
    return {"triples": [[draw(pt), draw(pt), draw(pt)] for _ in range(k)], "bcast": draw(st.booleans()), "form": draw(st.sampled_from(["function", "method"]))}


def run_meeting(c):
    """LineCollections of 3-space whose positions are pairs of distinct lines through a common lattice point p (lines p q1 and
    p q2, all coordinates in {-1, 0, 1}): meet gives p, join the plane p q1 q2 at every position, nothing is raised; with
    `bcast` the first line is one single Line for all positions"""
    tr = c["triples"]
    if not tr or any(len(t) != 3 or any(len(v) != 4 for v in t) for t in tr):
        raise Skip("malformed")
    FALLBACK = [[[0, 0, 0, 1], [1, 0, 0, 1], [0, 1, 0, 1]], [[-1, 0, 0, 1], [0, 0, 1, 1], [0, 1, 1, 0]], [[1, -1, -1, 1], [0, 1, 0, 0], [0, 0, 1, 1]], [[0, -1, 0, 1], [1, 1, 0, 1], [-1, 0, 1, 1]]]
    fix = lambda t: t if X.rank([[Fraction(int(x)) for x in v] for v in t]) == 3 else FALLBACK[sum(abs(int(x)) for v in t for x in v) % 4]  # noqa: E731
    tr = [fix(t) for t in tr]  # dependent draws are replaced deterministically instead of being rejected
    if c["bcast"]:
        tr = [[tr[0][0], tr[0][1], t[2]] for t in tr]
    ex = [[[Fraction(int(x)) for x in v] for v in t] for t in tr]
    if any(X.rank(t) < 3 for t in ex):
        raise Skip("dependent triple")
    L1 = [mk_line(t[0], t[1]) for t in tr]
    L2 = [mk_line(t[0], t[2]) for t in tr]
    A = L1[0] if c["bcast"] else LineCollection(np.stack([l.array for l in L1]))
    B = LineCollection(np.stack([l.array for l in L2]))
    ck = Checker()
    for name in ("meet", "join"):
        site = f"meeting-collections:{name}" + (":broadcast" if c["bcast"] else "")
        fn = (lambda: (meet if name == "meet" else join)(A, B)) if c["form"] == "function" else (lambda: getattr(A, name)(B))
        try:
            res = fn()
        except (LinearDependenceError, NotCoplanar) as e:
            ck.add(Fail(f"EXC:{type(e).__name__}", site + ":general-position", repr(getattr(e, "dependent_values", None))))
            continue
        except Exception as e:  # noqa: BLE001
            ck.add(exc_fail(e, site))
            continue
        arr = np.asarray(res.array)
        if not ck.check(arr.shape == (len(tr), 4), site + ":shape", arr.shape):
            continue
        for i, t in enumerate(ex):
            exp = t[0] if name == "meet" else X.cofactor_hyperplane(t)
            if not ck.check(C.peq_all(arr[i], C.to_c(exp)), site + ":position-value", (i, arr[i].tolist(), [str(x) for x in exp])):
                break
    return ck.result()


# ----------------------------------------------------------------------------------------- (c) generated degeneracies
CONFIGS = ["coincident_points2", "coincident_points3", "equal_lines2", "equal_planes", "three_collinear_points3", "three_planes_through_line",
           "point_on_line3", "line_in_plane", "zero_vector", "equal_lines3", "skew_lines3", "meeting_lines3", "general2", "general3", "line_at_infinity_and_plane"]


@st.composite
def degen_case(draw, tier="quick"):
    cfg = draw(st.sampled_from(CONFIGS))
    npos = draw(st.sampled_from([0, 0, 1, 2, 3, 5]))
    shape2 = draw(st.booleans())
    dim = 2 if cfg.endswith("2") else 3
    if cfg == "zero_vector":
        dim = draw(st.sampled_from([2, 3]))
    n = max(1, npos)
    base = [[draw(C.hpoint(dim, 9)) for _ in range(4)] for _ in range(n)]
    coef = [[draw(st.integers(-3, 3)) for _ in range(4)] for _ in range(n)]
    degen = [draw(st.booleans()) for _ in range(n)] if npos else [True]
    scales = [draw(C.scale()) for _ in range(3)]
    mags = [draw(st.sampled_from([0, 0, 8, 15])) for _ in range(n)] if npos > 1 and draw(st.booleans()) else None
    narrow = draw(st.sampled_from([None, None, None, "int16", "int32", "uint8", "uint16"]))
    return {"cfg": cfg, "dim": dim, "npos": npos, "base": base, "coef": coef, "degen": degen, "scales": scales,
            "zero_at": draw(st.integers(0, 2)), "twoaxes": shape2 and npos in (2,), "mags": mags, "narrow": narrow}


def config_args(cfg, dim, base, coef, degen, zero_at):
    """-> (op, [exact argument descriptions], expected) with expected in {'LDE', 'NotCoplanar', 'ok'}"""
    b = [[Fraction(x) for x in v] for v in base]
    c = [Fraction(x) for x in coef]
    nz = lambda k: c[k] if c[k] != 0 else Fraction(1)  # noqa: E731
    comb = lambda u, v, s, t: [s * x + t * y for x, y in zip(u, v)]  # noqa: E731
    gen = cfg.startswith("general")
    if cfg in ("coincident_points2", "coincident_points3", "general2", "general3") and (cfg.startswith("coincident") or True):
        if cfg.startswith("general"):
            if cfg == "general2":
                args = [("P", b[0]), ("P", b[1])]
            else:
                args = [("P", b[0]), ("P", b[1]), ("P", b[2])]
            return "join", args
        q = [nz(0) * x for x in b[0]] if degen else b[1]
        return "join", [("P", b[0]), ("P", q)]
    if cfg == "equal_lines2":
        q = [nz(0) * x for x in b[0]] if degen else b[1]
        return "meet", [("H", b[0]), ("H", q)]
    if cfg == "equal_planes":
        q = [nz(0) * x for x in b[0]] if degen else b[1]
        return "meet", [("H", b[0]), ("H", q)]
    if cfg == "three_collinear_points3":
        r = comb(b[0], b[1], c[0], nz(1)) if degen else b[2]
        return "join", [("P", b[0]), ("P", b[1]), ("P", r)]
    if cfg == "three_planes_through_line":
        r = comb(b[0], b[1], c[0], nz(1)) if degen else b[2]
        return "meet", [("H", b[0]), ("H", b[1]), ("H", r)]
    if cfg == "point_on_line3":
        r = comb(b[0], b[1], c[0], nz(1)) if degen else b[2]
        return "join", [("L", b[0], b[1]), ("P", r)]
    if cfg == "line_at_infinity_and_plane":
        # a line of the plane at infinity (join of two directions) and a plane: dependent only if the plane contains the line
        # (it is parallel to both directions, or the plane at infinity itself)
        d0, d1 = b[0][:-1] + [Fraction(0)], b[1][:-1] + [Fraction(0)]
        if X.rank([d0, d1]) < 2:
            raise Skip("dependent directions")
        if degen:
            if X.rank([d0, d1, b[2]]) < 3:
                raise Skip("dependent")
            h = X.cofactor_hyperplane([d0, d1, b[2]])
        else:
            h = b[3]
        return "meet", [("H", h), ("L", d0, d1)]
    if cfg == "line_in_plane":
        # plane through the line (b0,b1) and b2 if degenerate, else arbitrary plane b3 read as coordinates
        if degen:
            if X.rank([b[0], b[1], b[2]]) < 3:
                raise Skip("dependent")
            h = X.cofactor_hyperplane([b[0], b[1], b[2]])
        else:
            h = b[3]
        return "meet", [("H", h), ("L", b[0], b[1])]
    if cfg == "zero_vector":
        args = [("P", b[0]), ("P", b[1])] + ([("P", b[2])] if dim == 3 and c[3] > 0 else [])
        if degen:
            k = zero_at % len(args)
            args[k] = ("P", [Fraction(0)] * (dim + 1))
        return "join", args
    if cfg == "equal_lines3":
        if degen:
            p2 = comb(b[0], b[1], nz(0), c[1])
            q2 = comb(b[0], b[1], c[2], nz(3))
            if X.rank([p2, q2]) < 2:
                raise Skip("dependent")
            return "joinmeet", [("L", b[0], b[1]), ("L", p2, q2)]
        return "joinmeet", [("L", b[0], b[1]), ("L", comb(b[0], b[1], nz(0), c[1]), b[2])]
    if cfg == "skew_lines3":
        return "joinmeet", [("L", b[0], b[1]), ("L", b[2], b[3])]
    if cfg == "meeting_lines3":
        return "joinmeet", [("L", b[0], b[1]), ("L", comb(b[0], b[1], nz(0), c[1]), b[2])]
    raise KeyError(cfg)


def expected_outcome(op, args, n):
    """exact classification -> 'LDE' | 'NC' | 'ok' ; None if the generator produced an invalid argument"""
    for a in args:
        if a[0] == "L" and X.rank([a[1], a[2]]) < 2:
            return None
    if op == "joinmeet":
        cls = X.classify_lines3(args[0][1], args[0][2], args[1][1], args[1][2])
        return {"equal": "LDE", "skew": "NC", "meet": "ok"}[cls]
    if all(a[0] == "P" for a in args):
        return "LDE" if X.rank([a[1] for a in args]) < len(args) else "ok"
    if all(a[0] == "H" for a in args):
        return "LDE" if X.rank([a[1] for a in args]) < len(args) else "ok"
    # mixed line + point / plane + line
    l = next(a for a in args if a[0] == "L")
    o = next(a for a in args if a[0] != "L")
    if all(X.is_zero(x) for x in o[1]):
        return "LDE"
    if o[0] == "P":
        return "LDE" if X.rank([l[1], l[2], o[1]]) < 3 else "ok"
    on = X.is_zero(X.dot(o[1], l[1])) and X.is_zero(X.dot(o[1], l[2]))
    return "LDE" if on else "ok"


def arg_array(a):
    if a[0] in "PH":
        return np.array([float(x) for x in a[1]])
    from .c01 import pow2_normalise

    return pow2_normalise(np.array([[float(x) for x in r] for r in dual_plucker(a[1], a[2])]))


def build_arg(kind, arrs, dimn):
    single = not isinstance(arrs, list)
    a = arrs if single else np.array(arrs)
    if kind == "P":
        return Point(a) if single else PointCollection(a)
    if kind == "L":
        return Line(a) if single else LineCollection(a)
    if dimn == 3:
        return Line(a) if single else LineCollection(a)
    return Plane(a) if single else PlaneCollection(a)


def run_degen(case):
    cfg, dim, npos = case["cfg"], case["dim"], case["npos"]
    n = dim + 1
    N = max(1, npos)
    per = []
    exps = []
    for i in range(N):
        op, args = config_args(cfg, dim, case["base"][i], case["coef"][i], case["degen"][i], case["zero_at"])
        e = expected_outcome(op, args, n)
        if e is None:
            raise Skip("invalid argument generated")
        per.append(args)
        exps.append(e)
    nargs = len(per[0])
    if any(len(p) != nargs for p in per):
        raise Skip("arity differs")
    sc = [C.scale_value(s) for s in case["scales"]]
    objs = []
    narrow = case.get("narrow")
    if narrow is not None and narrow not in ("int16", "int32", "uint8", "uint16"):
        raise Skip("malformed dtype")
    if narrow and any(a[0] not in "PH" for args in per for a in args):
        narrow = None  # Pluecker matrices of lines are not integral here
    if narrow:
        # arguments stored in a small integer type, as large as that type allows (every coordinate fits, the products inside
        # join / meet do not): the outcome is that of the exact integers
        ints = [[np.array([int(x) for x in per[i][k][1]], dtype=np.int64) for i in range(N)] for k in range(nargs)]
        top = max(1, max(int(np.max(np.abs(a))) for row in ints for a in row))
        if narrow.startswith("u") and any(np.any(a < 0) for row in ints for a in row):
            narrow = narrow[1:]
        mul = 1
        while mul < 2**14 and top * mul * 2 <= np.iinfo(narrow).max:
            mul *= 2
        for k in range(nargs):
            kind = per[0][k][0]
            arrs = [(a * mul).astype(narrow) for a in ints[k]]
            o = build_arg(kind, arrs[0] if npos == 0 else arrs, n)
            if o.array.dtype != np.dtype(narrow):
                raise HarnessError(f"dtype {o.array.dtype} instead of {narrow}")
            if npos and case["twoaxes"]:
                o = type(o)(o.array.reshape((2, 1) + o.array.shape[1:]))
            objs.append(o)
    for k in range(nargs if not narrow else 0):
        kind = per[0][k][0]
        if npos == 0:
            objs.append(build_arg(kind, arg_array(per[0][k]) * sc[k], n))
        else:
            # elements of very different magnitude inside one collection: positions in general position may carry a
            # representative multiplied by 2**e (degenerate positions stay small so that they are exactly degenerate)
            mags = case.get("mags") or [0] * N
            if len(mags) != N or not all(isinstance(e, int) and 0 <= e <= 15 for e in mags):
                raise Skip("malformed magnitudes")
            arrs = [arg_array(per[i][k]) * sc[k] * (2.0 ** mags[i] if exps[i] == "ok" else 1.0) for i in range(N)]
            o = build_arg(kind, arrs, n)
            if case["twoaxes"]:
                o = type(o)(o.array.reshape((2, 1) + o.array.shape[1:]))
            objs.append(o)
    ck = Checker()
    ops = [("join", join), ("meet", meet)] if op == "joinmeet" else [(op, join if op == "join" else meet)]
    # the method form asks the same question (x.join(y, ...), x.meet(y)): same error, same mask
    for name, _fn in list(ops):
        if hasattr(objs[0], name) and not (name == "meet" and len(objs) > 2):
            ops.append((name + ".method", (lambda nm: (lambda *o: getattr(o[0], nm)(*o[1:])))(name)))
    for name, fn in ops:
        site = f"degen:{cfg}:{name}:{'single' if npos == 0 else 'collection'}"
        try:
            res = fn(*objs)
            raised = None
        except LinearDependenceError as e:
            raised = ("LDE", e)
        except NotCoplanar as e:
            raised = ("NC", e)
        except Exception as e:  # noqa: BLE001
            ck.add(exc_fail(e, site))
            continue
        # the masks of errors raised earlier (this case or the preceding ones) are still what they were
        changed = check_observed(site)
        if changed is not None:
            ck.add(changed)
        if raised is not None and raised[0] == "LDE" and isinstance(getattr(raised[1], "dependent_values", None), np.ndarray):
            observe(site + ":dependent_values", raised[1].dependent_values)
        if npos == 0:
            exp = exps[0]
            if raised is None:
                if exp != "ok":
                    ck.add(Fail("NO_RAISE", site + f":expected-{exp}", C.short(res.array.tolist())))
            else:
                if exp == "ok":
                    ck.add(Fail(f"EXC:{type(raised[1]).__name__}", site + ":general-position", str(raised[1])))
                elif raised[0] != exp:
                    ck.add(Fail(f"WRONG_EXC:{type(raised[1]).__name__}", site + f":expected-{exp}", ""))
                elif exp == "LDE":
                    dv = raised[1].dependent_values
                    ck.check(np.ndim(dv) == 0 and bool(dv), site + ":dependent_values", repr(dv))
        else:
            mask = np.array([e == "LDE" for e in exps])
            anync = any(e == "NC" for e in exps)
            if anync:
                # only the exception type is specified: NotCoplanar (or LinearDependenceError if some are also dependent)
                if raised is None:
                    ck.add(Fail("NO_RAISE", site + ":expected-NC", ""))
                continue
            if raised is None:
                if mask.any():
                    ck.add(Fail("NO_RAISE", site + ":expected-LDE", ""))
            elif raised[0] == "NC":
                ck.add(Fail("WRONG_EXC:NotCoplanar", site, ""))
            else:
                if not mask.any():
                    ck.add(Fail("EXC:LinearDependenceError", site + ":general-position", ""))
                else:
                    dv = np.asarray(raised[1].dependent_values)
                    want_shape = (2, 1) if case["twoaxes"] else (N,)
                    if ck.check(dv.shape == want_shape, site + ":mask-shape", (dv.shape, want_shape)):
                        ck.check(np.array_equal(dv.ravel(), mask), site + ":mask", (dv.ravel().tolist(), mask.tolist()))
    return ck.result()


def degen_nontrivial(c):
    return any(c["degen"]) and not c["cfg"].startswith("general")


def degen_labels(c):
    return _degen_labels(c) + (["narrow-integer-type"] if c.get("narrow") else [])


def _degen_labels(c):
    out = [c["cfg"], "single" if c["npos"] == 0 else "collection"]
    if c["npos"] and not any(c["degen"]):
        out.append("collection-without-degenerate-position")
    if c.get("mags") and len(set(c["mags"])) > 1:
        out.append("mixed-magnitude-collection")
    return out


# ----------------------------------------------------------------------------------------- (d) chains on grids of mixed magnitude
@st.composite
def chain_case(draw, tier="quick"):
    dim = draw(st.sampled_from([2, 2, 3]))
    shape = draw(st.sampled_from([[1, 2], [1, 3], [2, 2], [2, 3], [3, 1], [4], [2, 1, 2]]))
    npos = int(np.prod(shape))
    modes = ["general", "general", "general", "equal"] if dim == 2 else ["meeting", "meeting", "meeting", "skew"]
    return {"dim": dim, "shape": shape, "pos": [{"v": [draw(C.ints(5)) for _ in range(4 * dim)], "mag": draw(st.sampled_from([1, 1, 10, 100, 300])), "mode": draw(st.sampled_from(modes)), "t": [draw(st.integers(-2, 3)), draw(st.integers(-2, 3))]}
                                                for _ in range(npos)]}


def run_chain(c):
    """grids (collections with one to three axes) of points whose positions differ by up to a factor 300 in size: l = join(P, Q),
    m = join(R, S) and then meet(l, m) - the second step sees what the first one returned.  Positions whose two lines coincide are
    reported in the mask of LinearDependenceError and nowhere else; a skew pair of 3-space raises NotCoplanar; otherwise the result is
    the exact point at every position"""
    dim, shape = c["dim"], list(c["shape"])
    if dim not in (2, 3) or int(np.prod(shape)) != len(c["pos"]) or not 1 <= len(shape) <= 3:
        raise Skip("malformed")
    n = dim + 1
    pts = [[], [], [], []]
    want = []
    for q in c["pos"]:
        v, mag = [int(x) for x in q["v"]], int(q["mag"])
        if len(v) != 4 * dim or mag not in (1, 10, 100, 300) or len(q["t"]) != 2:
            raise Skip("malformed")
        A, B, Cc, D = [[Fraction(x * mag) for x in v[i * dim:(i + 1) * dim]] + [Fraction(1)] for i in range(4)]
        if dim == 2 and q["mode"] == "equal":
            t0, t1 = q["t"]
            Cc = [A[i] + t0 * (B[i] - A[i]) for i in range(dim)] + [Fraction(1)]
            D = [A[i] + t1 * (B[i] - A[i]) for i in range(dim)] + [Fraction(1)]
        if dim == 3 and q["mode"] == "meeting":
            Cc = A  # both lines pass through A
        if A == B or Cc == D:
            raise Skip("degenerate line")
        if dim == 2:
            l = [A[1] * B[2] - A[2] * B[1], A[2] * B[0] - A[0] * B[2], A[0] * B[1] - A[1] * B[0]]
            m = [Cc[1] * D[2] - Cc[2] * D[1], Cc[2] * D[0] - Cc[0] * D[2], Cc[0] * D[1] - Cc[1] * D[0]]
            x = [l[1] * m[2] - l[2] * m[1], l[2] * m[0] - l[0] * m[2], l[0] * m[1] - l[1] * m[0]]
            want.append(("equal", None) if not any(x) else ("point", x))
        else:
            r4 = X.rank([A, B, Cc, D])
            if r4 == 4:
                want.append(("skew", None))
            elif r4 == 2:
                want.append(("equal", None))
            else:
                # coplanar and distinct: the common point is the null vector of the equations of both lines
                if Cc == A:
                    want.append(("point", A))
                else:
                    raise Skip("coplanar by accident")
        for k, pnt in enumerate((A, B, Cc, D)):
            pts[k].append([float(x) for x in pnt])
    P, Q, R, S = [PointCollection(np.array(a).reshape(shape + [n])) for a in pts]
    site = f"chain{dim}:grid{'x'.join(str(x) for x in shape)}"
    l, f = call(site + ":join(P,Q)", join, P, Q)
    if f:
        return [f]
    m, f = call(site + ":join(R,S)", join, R, S)
    if f:
        return [f]
    ck = Checker()
    kinds = [w[0] for w in want]
    if dim == 3:
        cp, f = call(site + ":is_coplanar", l.is_coplanar, m)
        if f:
            ck.add(f)
        else:
            exp = np.array([k != "skew" for k in kinds]).reshape(shape)
            ck.check(np.asarray(cp).shape == exp.shape and bool(np.all(np.asarray(cp) == exp)), site + ":is_coplanar-mask", (np.asarray(cp).tolist(), exp.tolist()))
    try:
        x = meet(l, m)
    except NotCoplanar:
        ck.check("skew" in kinds, site + ":NotCoplanar-without-a-skew-pair", kinds)
        return ck.result()
    except LinearDependenceError as e:
        dv = getattr(e, "dependent_values", None)
        exp = np.array([k == "equal" for k in kinds]).reshape(shape)
        if "skew" in kinds:
            return ck.result()  # either error is documented for a collection that holds both
        ck.check(dv is not None and np.asarray(dv).shape == exp.shape and bool(np.all(np.asarray(dv) == exp)), site + ":dependent_values-mask", (None if dv is None else np.asarray(dv).tolist(), exp.tolist()))
        return ck.result()
    except Exception as e:  # noqa: BLE001
        ck.add(exc_fail(e, site + ":meet"))
        return ck.result()
    if not ck.check("skew" not in kinds and "equal" not in kinds, site + ":no-error-for-a-degenerate-position", kinds):
        return ck.result()
    arr = np.asarray(x.array)
    if not ck.check(arr.shape == tuple(shape + [n]), site + ":shape", arr.shape):
        return ck.result()
    flat = arr.reshape(-1, n)
    for i, w in enumerate(want):
        if not ck.check(C.peq_all(flat[i], C.to_c(w[1]), 1, 1e-7), site + ":position-value", (i, flat[i].tolist(), [float(t) for t in w[1]])):
            break
    return ck.result()


def chain_labels(c):
    mags = [q["mag"] for q in c["pos"]]
    out = [f"dim{c['dim']}", f"axes{len(c['shape'])}"]
    if len(c["shape"]) >= 2 and max(mags) >= 100 * min(mags):
        out.append("several-axes:magnitudes-differ-by-100")
    ms = {q["mode"] for q in c["pos"]}
    out += sorted(ms)
    return out


# ----------------------------------------------------------------------------------------- (e) consumers of the dependent_values mask
@st.composite
def inface_case(draw, tier="quick"):
    return {"o": [draw(C.ints(4)) for _ in range(3)], "e": [draw(st.integers(1, 3)) for _ in range(3)], "face": draw(st.integers(0, 5)), "a": [draw(st.integers(-4, 8)) for _ in range(2)], "b": [draw(st.integers(-4, 8)) for _ in range(2)],
            "what": draw(st.sampled_from(["cuboid", "cuboid", "polygons-vs-segments"]))}


def run_inface(c):
    """a segment that lies in the plane of one face of a box: the meet of that plane with the segment's line is linearly dependent, the library drops
    the position (using the mask of the error) and intersects the other faces - whatever it returns must lie on the segment and on the box"""
    from geometer import Cuboid, PolygonCollection, Segment, SegmentCollection

    o = np.array(c["o"], float)
    e = [float(x) for x in c["e"]]
    axis, side = c["face"] % 3, c["face"] // 3
    oa = [k for k in range(3) if k != axis]
    A, B = np.zeros(3), np.zeros(3)
    A[axis] = B[axis] = side * e[axis]
    A[oa[0]], A[oa[1]] = c["a"][0] / 4 * e[oa[0]], c["a"][1] / 4 * e[oa[1]]
    B[oa[0]], B[oa[1]] = c["b"][0] / 4 * e[oa[0]], c["b"][1] / 4 * e[oa[1]]
    if np.array_equal(A, B):
        raise Skip("degenerate")
    P_ = lambda x: Point(np.append(o + x, 1.0))  # noqa: E731
    box = Cuboid(P_(np.zeros(3)), P_(np.array([e[0], 0, 0])), P_(np.array([0, e[1], 0])), P_(np.array([0, 0, e[2]])))
    seg = Segment(P_(A), P_(B))
    site = f"segment-in-a-face-plane:{c['what']}"
    if c["what"] == "cuboid":
        r, f = call(site, box.intersect, seg)
    else:
        faces = box.faces
        n = np.asarray(faces.array).shape[0]
        r, f = call(site, faces.intersect, SegmentCollection([seg] * n))
    if f:
        return [f]
    ck = Checker()
    for pnt in r:
        arr = np.asarray(pnt.array).reshape(-1, 4)
        for row in arr:
            if abs(row[-1]) < 1e-12:
                ck.check(False, site + ":returned-point-at-infinity", row.tolist())
                continue
            q = np.real(row[:3] / row[3]) - o
            dvec = B - A
            t = float(np.dot(q - A, dvec) / np.dot(dvec, dvec))
            on_seg = np.linalg.norm(A + t * dvec - q) < 1e-7 and -1e-9 <= t <= 1 + 1e-9
            in_box = all(-1e-7 <= q[k] <= e[k] + 1e-7 for k in range(3))
            if not ck.check(on_seg and in_box, site + ":returned-point-not-on-" + ("the-segment" if not on_seg else "the-box"), (q.tolist(), A.tolist(), B.tolist())):
                return ck.result()
    return ck.result()


LAWS = [
    Law("lattice", None, run_lattice, enumerate=lattice_cases, enum_shards=6,
        exhaustive=lambda tier: {"name": "all pairs of {-1,0,1}^3 and {-1,0,1}^4 and all triples of {-1,0,1}^4 (zero vector included), for points (join) and hyperplanes (meet), through the collection API", "size": 2 * (729 + 6561 + 531441), "exhaustive": True},
        rule="exhaustive lattice: dependent_values mask == exact mask; independent subset gives the exact object; single calls raise iff dependent"),
    Law("lattice_lines3", None, run_lines, enumerate=lines_cases, nontrivial=lambda c: True, enum_shards=8,
        labels=lambda c: [X.classify_lines3(*[[Fraction(x) for x in v] for v in (c["l"][0], c["l"][1], c["m"][0], c["m"][1])])],
        exhaustive=lambda tier: {"name": "pairs of lines through two of the 40 projective lattice points of {-1,0,1}^4 (608400 ordered pairs), stride sample", "size": 608400 // (31 if tier == "quick" else 3), "exhaustive": False},
        rule="two 3D lines: equal -> LinearDependenceError, skew -> NotCoplanar (join and meet), meeting -> exact plane / point; is_coplanar exact"),
    Law("meeting_line_collections", lambda tier: meeting_case(tier), run_meeting, lambda c: len(c["triples"]) > 1, lambda c: ["broadcast" if c["bcast"] else "collections", c["form"]],
        {"quick": 1500, "thorough": 30000}, "collections of pairs of 3D lattice lines through a common point: meet / join give the exact point / plane at every position, nothing raised", shard=300),
    Law("constructed", lambda tier: degen_case(tier), run_degen, degen_nontrivial, degen_labels, {"quick": 2500, "thorough": 40000},
        "constructed degeneracies with scrambled representatives, single and inside collections", shard=300,
        mandatory=("collection", "single", "collection-without-degenerate-position", "mixed-magnitude-collection", "narrow-integer-type")),
    Law("segment_in_a_face_plane", lambda tier: inface_case(tier), run_inface, lambda c: True, lambda c: [c["what"], "ends-inside-the-face" if all(0 < x < 4 for x in c["a"] + c["b"]) else "reaches-out"], {"quick": 600, "thorough": 8000},
        "Cuboid / PolygonCollection.intersect(segment lying in a face plane): the dependent position is dropped through the mask of LinearDependenceError; every returned point lies on the segment and on the box", shard=150,
        mandatory=("ends-inside-the-face", "reaches-out")),
    Law("chains_on_grids", lambda tier: chain_case(tier), run_chain, lambda c: len(c["pos"]) > 1, chain_labels, {"quick": 1500, "thorough": 25000},
        "meet(join(P, Q), join(R, S)) on grids (1 to 3 collection axes) whose positions differ by up to a factor 300 in size: exact point at every position, mask of LinearDependenceError == positions with coinciding lines, NotCoplanar iff a skew pair",
        shard=300, mandatory=("several-axes:magnitudes-differ-by-100", "equal", "skew")),
]
