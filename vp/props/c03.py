"""C03 Results depend on the projective object, not on its homogeneous representative."""
from __future__ import annotations

import numpy as np
from hypothesis import strategies as st

import geometer as G
from geometer import Line, Plane, Point, Quadric, Transformation

from .. import common as C
from .. import ops as O
from .. import zoo as Z
from ..runner import Checker, Fail, HarnessError, Law, Skip, call, exc_fail

RULE = (
    "An operation of the registry (vp/ops.py, ~125 operation/argument patterns in 2D and 3D), valid arguments from a pool built "
    "from 24 integers |c|<=6 (exact general position), an argument position and a factor c = +-2^k*m (k in [-2,2], m in {1,3}; "
    "complex unit multiples for join, meet, == and crossratio); polytopes get an independent factor per vertex. The operation is "
    "evaluated before and after rescaling that argument. Non-trivial = c < 0 or the last coordinate of a point differs from 1 "
    "after rescaling; distinct by case hash."
)
ASSUMPTIONS = [
    "booleans must be identical, numbers equal (cross ratios on P^1, angles mod pi, cos^2 in 3-space), objects projectively equal "
    "over C (tol 1e-6), lists as multisets; representative-valued helpers (base_point, direction, basis_matrix, normalized_array) "
    "are not compared",
    "magnitudes are moderate (factors within [1/4, 12]) because the library's absolute tolerances are by design not scale free",
    "not asserted: starting vertex of RegularPolygon(..., axis) and the sense of rotation(a, axis) for an axis given at infinity, "
    "and the half line selected by the sign of the representative of a segment end point at infinity",
]

COMPLEX_OK = ("join", "meet", "Point.join", "Line.meet", "==", "crossratio(points)", "p0==p1", "l0==l1")


def mscale():
    return st.tuples(st.sampled_from([1, -1]), st.integers(-2, 2), st.sampled_from([1, 3])).map(list)


def mvalue(s):
    if len(s) != 3 or s[0] not in (1, -1) or s[2] not in (1, 3) or not -2 <= s[1] <= 2:
        raise Skip("invalid scale")
    return s[0] * 2.0 ** s[1] * s[2]


@st.composite
def case(draw, tier="quick"):
    d = draw(st.sampled_from([2, 3]))
    ops = O.ops_for(d)
    v, factors = draw(Z.params()), [draw(mscale()) for _ in range(4)]
    op = C.uniform_pick(ops, v, factors)
    k = C.uniform_pick(list(op.scal), factors, v)
    return {"d": d, "op": op.name, "k": k, "v": v, "factors": factors,
            "cplx": draw(st.sampled_from([None, None, None, [0, 1], [1, 1], [2, -1]]))}


OPMAP = {(o.name, d): o for o in O.OPS for d in o.dims}


def run(c):
    d = c["d"]
    op = OPMAP.get((c["op"], d))
    if op is None:
        raise Skip("unknown operation")
    pool = O.pool_for(d, c["v"])
    try:
        args = [pool[n] for n in op.args]
    except KeyError:
        raise Skip("pool entry missing")
    k = c["k"]
    if k >= len(args):
        raise Skip("bad position")
    factors = [mvalue(s) for s in c["factors"]]
    cfac = 1.0
    if c["cplx"] is not None and (op.name.startswith(COMPLEX_OK)):
        cfac = complex(*c["cplx"])
    site = f"{op.name}/d{d}/arg{k}:{op.args[k]}"
    r1, f = call(site, op.fn, *args)
    if f:
        raise Skip("operation fails on the original arguments (subject of another property)")
    args2 = list(args)
    args2[k] = O.rescale(args[k], factors, cfac)
    r2, f = call(site + ":rescaled", op.fn, *args2)
    if f:
        return [f]
    ok, detail = O.same(r1, r2, op.cmp, max(op.tol, 1e-6))
    if not ok:
        return [Fail("MISMATCH", site, str(detail)[:500])]
    return []


def nontrivial(c):
    return any(s[0] < 0 for s in c["factors"][:1]) or any(s[1] != 0 or s[2] != 1 for s in c["factors"][:1])


def labels(c):
    op = OPMAP.get((c["op"], c["d"]))
    out = [c["op"]]
    if op is not None and c["k"] < len(op.args):
        out.append("arg:" + "".join(ch for ch in op.args[c["k"]] if not ch.isdigit()))
    if c["cplx"] is not None and c["op"].startswith(COMPLEX_OK):
        out.append("complex-factor")
    if c["factors"][0][0] < 0:
        out.append("negative-factor")
    return out


# ------------------------------------------------------------------------------------------- equality laws
KINDS = {2: ["point", "pointinf", "line", "quadric", "dualquadric", "circle", "transformation", "segment", "polygon", "triangle", "pointcoll", "linecoll"],
         3: ["point", "pointinf", "line", "plane", "quadric", "sphere", "transformation", "segment", "polygon", "simplex", "cuboid", "planecoll", "linecoll"]}


@st.composite
def eq_case(draw, tier="quick"):
    d = draw(st.sampled_from([2, 3]))
    return {"d": d, "kind": draw(st.sampled_from(KINDS[d])), "v": draw(Z.params()), "w": draw(Z.params()), "factors": [draw(mscale()) for _ in range(4)],
            "cplx": draw(st.sampled_from([None, None, [0, 1], [1, 1]]))}


def run_eq(c):
    d, kind = c["d"], c["kind"]
    x, naxes = Z.build(kind, d, c["v"])
    factors = [mvalue(s) for s in c["factors"]]
    cf = complex(*c["cplx"]) if (c["cplx"] is not None and not isinstance(x, O.YT)) else 1.0
    y = O.rescale(x, factors, cf)
    ck = Checker()
    tag = f"{kind}{d}"
    for name, a, b, truth in (("x==c*x", x, y, True), ("c*x==x", y, x, True), ("x==x", x, x, True)):
        r, f = call(f"eq:{tag}", lambda: a == b)
        if f:
            ck.add(f)
        else:
            ck.check(bool(r) is truth, f"eq:{tag}:{name}" + (":complex" if cf != 1.0 else ""), bool(r))
    if kind in ("polygon", "triangle") and x.array.ndim == 2:
        # the same vertex cycle started elsewhere and run through in the other direction, every vertex with its own factor
        nv = x.array.shape[0]
        for shift in range(nv):
            for rev in (False, True):
                rows = np.roll(x.array, shift, axis=0)
                if rev:
                    rows = rows[::-1]
                rows = rows * np.array([factors[i % len(factors)] for i in range(nv)])[:, None]
                w_, f = call(f"eq:{tag}:construct", lambda: type(x)(*[G.Point(r) for r in rows]))
                if f:
                    ck.add(f)
                    continue
                for name, a, b in (("x==cycle", x, w_), ("cycle==x", w_, x)):
                    r, f = call(f"eq:{tag}", lambda: a == b)
                    if f:
                        ck.add(f)
                    else:
                        ck.check(bool(r) is True, f"eq:{tag}:{name}:{'reversed' if rev else 'rotated'}:per-vertex-factors", (shift, bool(r)))
    # a clearly different object of the same kind
    try:
        z, _ = Z.build(kind, d, c["w"])
    except Skip:
        return ck.result()
    if z.array.shape != x.array.shape:
        return ck.result()
    # exact margin: not proportional, quotients differ by at least 1e-4
    a0, b0 = np.asarray(x.array, dtype=complex), np.asarray(z.array, dtype=complex)
    if isinstance(x, O.YT):
        raise_skip = False
        # polytopes: compare vertex sets
        va = {tuple(np.round(C.pnorm(r).real, 6)) for r in a0.reshape((-1, a0.shape[-1]))}
        vb = {tuple(np.round(C.pnorm(r).real, 6)) for r in b0.reshape((-1, b0.shape[-1]))}
        different = va != vb
    else:
        na, nb = C.pnorm(a0, naxes), C.pnorm(b0, naxes)
        different = bool(np.max(np.abs(na - nb)) > 1e-3) and not bool(np.all(C.peq(a0, b0, naxes, 1e-3)))
    if different:
        zz = O.rescale(z, factors)
        for name, a, b in (("x==z", x, zz), ("z==x", zz, x)):
            r, f = call(f"eq:{tag}", lambda: a == b)
            if f:
                ck.add(f)
            else:
                ck.check(bool(r) is False, f"eq:{tag}:{name}:different-objects", bool(r))
    return ck.result()


# ------------------------------------------------------------------------------------------- polygons on a full query grid
def run_polygrid(c):
    """Polygon built from vertices with last coordinate 1 vs the same polygon with an independent factor per vertex:
    contains on the whole (half-)lattice grid of the enlarged bounding box, intersect with lines through grid points,
    area and == must agree (measure-zero positions such as rays through vertices are only reached this way)"""
    from . import c16

    base = c16.polygon2(c)
    n = len(base)
    emb = c16.embed(c, base)
    xs = [p[0] for p in base]
    ys = [p[1] for p in base]
    gx = [x / 2 for x in range(int(2 * min(xs)) - 2, int(2 * max(xs)) + 3)]
    gy = [y / 2 for y in range(int(2 * min(ys)) - 2, int(2 * max(ys)) + 3)]

    def h3(p2):
        if emb is None:
            return np.array([float(p2[0]), float(p2[1]), 1.0])
        o, u, w = emb
        return np.append(o + float(p2[0]) * u + float(p2[1]) * w, 1.0)

    V = np.array([h3(p) for p in base])
    fac = np.array([mvalue(c["factors"][i % len(c["factors"])]) for i in range(n)])
    W = V * fac[:, None]
    Q = np.array([h3((x, y)) for x in gx for y in gy])
    kind = c["kind"]
    cls = {"triangle": G.Triangle, "rectangle": G.Rectangle}.get(kind, G.Polygon)
    dim = 2 if emb is None else 3
    site = f"polygrid:{kind}{dim}"
    try:
        A = cls(*[Point(v) for v in V])
        B = cls(*[Point(v) for v in W])
    except Exception as e:  # noqa: BLE001
        return [exc_fail(e, site + ":construct")]
    ck = Checker()
    ra, f = call(site, A.contains, G.PointCollection(Q))
    rb, g = call(site + ":rescaled", B.contains, G.PointCollection(Q))
    if f:
        raise Skip("fails on the original polygon")
    if g:
        return [g]
    bad = np.flatnonzero(np.asarray(ra) != np.asarray(rb))
    ck.check(len(bad) == 0, site + ":contains(collection)", {"n_wrong": int(len(bad)), "first": Q[bad[0]].tolist() if len(bad) else None, "factors": fac.tolist()})
    for i in range(0, len(Q), max(1, len(Q) // 25)):
        r1, f = call(site, A.contains, Point(Q[i]))
        r2, g = call(site + ":rescaled", B.contains, Point(Q[i] * -2.0))
        if f:
            continue
        if g:
            ck.add(g)
            break
        if not ck.check(bool(r1) == bool(r2), site + ":contains(point)", Q[i].tolist()):
            break
    for attr in ("area",):
        a1, f = call(site, lambda: getattr(A, attr))
        a2, g = call(site + ":rescaled", lambda: getattr(B, attr))
        if f is None:
            if g:
                ck.add(g)
            else:
                ck.check(bool(np.allclose(a1, a2, rtol=1e-9, atol=1e-9)), site + ":" + attr, (float(a1), float(a2)))
    e1, f = call(site, lambda: A == B)
    if f is None:
        ck.check(bool(e1), site + ":==")
    # lines through pairs of grid points (they pass through vertices / along edges regularly)
    if dim == 2:
        step = max(1, len(Q) // 12)
        for i in range(0, len(Q) - step, step):
            p, q = Q[i], Q[(i * 7 + 3) % len(Q)]
            if np.allclose(p, q):
                continue
            L = G.Line(Point(p), Point(q))
            r1, f = call(site + ":intersect", A.intersect, L)
            r2, g = call(site + ":intersect:rescaled", B.intersect, L)
            if f:
                continue
            if g:
                ck.add(g)
                break
            ok, dt = O.same(r1, r2, "multiset", 1e-6)
            if not ck.check(ok, site + ":intersect(line)", dt):
                break
    return ck.result()


def polygrid_strategy(tier):
    from . import c16

    @st.composite
    def s(draw):
        c = draw(c16.poly_case(tier))
        c["factors"] = [draw(mscale()) for _ in range(7)]
        if c["kind"] == "collection":
            c["kind"] = "polygon"
        return c

    return s()


# ------------------------------------------------------------------------------------------- conic constructors on a lattice
@st.composite
def conic_case(draw, tier="quick"):
    line = draw(st.tuples(st.integers(-2, 2), st.integers(-2, 2), st.integers(-2, 2)).filter(lambda l: l[0] or l[1]).map(list))
    pt = st.tuples(st.integers(-3, 3), st.integers(-3, 3)).filter(lambda p: line[0] * p[0] + line[1] * p[1] + line[2] != 0)
    pts = draw(st.lists(pt, min_size=5, max_size=5, unique=True))
    return {"ctor": draw(st.sampled_from(["from_tangent", "from_tangent", "from_points", "from_foci", "from_lines"])),
            "pts": [list(p) for p in pts], "line": line, "factors": [draw(mscale()) for _ in range(6)]}


def _conic_args(c):
    pts = c["pts"]
    if len(pts) != 5 or any(len(p) != 2 for p in pts) or len(c["line"]) != 3:
        raise Skip("malformed")
    P = [np.array([p[0], p[1], 1.0]) for p in pts]
    l = np.array(c["line"], dtype=float)
    if not (l[0] or l[1]):
        raise Skip("not a finite line")
    return P, l


def run_conic(c):
    P, l = _conic_args(c)
    f = [mvalue(s) for s in c["factors"]]
    if len(f) < 6:
        raise Skip("malformed")
    ctor = c["ctor"]
    if ctor == "from_tangent":
        build = lambda P, l: G.Conic.from_tangent(Line(l), *[Point(p) for p in P[:4]])
    elif ctor == "from_points":
        build = lambda P, l: G.Conic.from_points(*[Point(p) for p in P])
    elif ctor == "from_foci":
        (ax, ay), (bx, by), (cx, cy) = c["pts"][:3]
        if (bx - ax) * (cy - ay) == (by - ay) * (cx - ax) and (cx - ax) * (cx - bx) + (cy - ay) * (cy - by) <= 0:
            raise Skip("boundary point on the segment between the foci: no non-degenerate conic")
        build = lambda P, l: G.Conic.from_foci(Point(P[0]), Point(P[1]), Point(P[2]))
    elif ctor == "from_lines":
        build = lambda P, l: G.Conic.from_lines(Line(l), Line(np.cross(P[0], P[1])))
    else:
        raise Skip("unknown constructor")
    site = "Conic." + ctor
    r1, fl = call(site, build, P, l)
    if fl:
        raise Skip("constructor rejects the original arguments (subject of C13)")
    a1 = np.asarray(r1.array)
    if not np.all(np.isfinite(a1)) or np.max(np.abs(a1)) == 0:
        raise Skip("no conic for the original arguments (subject of C13)")
    P2 = [p * s for p, s in zip(P, f)]
    r2, fl = call(site + ":rescaled", build, P2, l * f[5])
    if fl:
        return [fl]
    ck = Checker()
    ck.check(C.peq_all(a1, np.asarray(r2.array), naxes=2, tol=1e-6), site + ":same-conic", C.short((a1.tolist(), np.asarray(r2.array).tolist())))
    return ck.result()


def conic_labels(c):
    out = [c["ctor"]]
    if c["ctor"] == "from_tangent":
        try:
            P, l = _conic_args(c)
            par = 0
            for i, j in ((0, 2), (1, 3), (0, 1), (2, 3)):
                m = np.cross(np.cross(P[i], P[j]), l)
                par += abs(m[2]) < 1e-9 and np.max(np.abs(m)) > 0
            out.append("aux-point-at-infinity" if par else "aux-points-finite")
        except Skip:
            pass
    if sum(s[0] < 0 for s in c["factors"][:4]) % 2:
        out.append("odd-number-of-negative-factors")
    return out


# ------------------------------------------------------------------------------------------- degenerate quadrics, every representative
@st.composite
def degq_case(draw, tier="quick"):
    n = draw(st.sampled_from([3, 3, 4]))
    vec = st.lists(st.integers(-2, 2), min_size=n, max_size=n)
    return {"g": draw(vec), "h": draw(vec), "line": draw(st.lists(st.integers(-3, 3), min_size=3, max_size=3)), "factors": [draw(mscale()) for _ in range(3)]}


def run_degq(c):
    """the line pair / plane pair g h^T + h g^T with small integer coordinates (many exact zeros) given by the representatives
    k * M for several non-zero k (also negative): components are {g, h} and, for conics, intersect(line) gives the same points
    for every k"""
    g, h = np.array(c["g"], float), np.array(c["h"], float)
    n = len(g)
    if len(h) != n or n not in (3, 4) or np.linalg.matrix_rank(np.stack([g, h])) < 2:
        raise Skip("proportional or zero")
    M = np.outer(g, h) + np.outer(h, g)
    ks = [1.0] + [mvalue(s) for s in c["factors"]]
    ck = Checker()
    cls = G.Conic if n == 3 else Quadric
    ref_pts = None
    ln = np.array(c["line"], float)
    for k in ks:
        Q = cls(M * k)
        comp, f = call("degenerate-quadric:components", lambda: Q.components)
        if f:
            ck.add(f)
            continue
        arrs = [np.asarray(x.array) for x in comp]
        ok = len(arrs) == 2 and all(np.all(np.isfinite(a)) and np.max(np.abs(a)) > 1e-12 for a in arrs) and C.multiset_peq(arrs, [g, h], 1e-6)
        if not ck.check(ok, "degenerate-quadric:components:rescaled-matrix", (k, [a.tolist() for a in arrs], c["g"], c["h"])):
            continue
        if n == 3 and np.any(ln[:2]) and abs(np.linalg.det(np.stack([g, h, ln]))) > 0.5 and np.linalg.matrix_rank(np.stack([g, ln])) == 2 and np.linalg.matrix_rank(np.stack([h, ln])) == 2:
            pts, f = call("degenerate-quadric:intersect(line)", Q.intersect, Line(ln))
            if f:
                ck.add(f)
                continue
            pa = [np.asarray(x.array) for x in pts]
            exp = [np.cross(g, ln), np.cross(h, ln)]
            ck.check(len(pa) == 2 and C.multiset_peq(pa, exp, 1e-6), "degenerate-quadric:intersect(line):rescaled-matrix", (k, [a.tolist() for a in pa], [e.tolist() for e in exp]))
    return ck.result()


# ------------------------------------------------------------------------------------------- small integer types
@st.composite
def narrow_case(draw, tier="quick"):
    d = draw(st.sampled_from([2, 3]))
    return {"d": d, "dt": draw(st.sampled_from(["int16", "int32", "uint16", "uint8"])), "v": [draw(C.hpoint(d, 9)) for _ in range(3)],
            "k": draw(st.sampled_from([100, -100, 50, 7, 1000, -3000, 1024, -20000])), "pos": draw(st.integers(0, 2)), "dual": draw(st.booleans())}


def run_narrow(c):
    """points / hyperplanes with integer coordinates stored in a small integer type; one argument is replaced by the
    representative k * x with the largest listed |k| that still fits that type: join / meet / constructors return the same object"""
    d, dt = c["d"], c["dt"]
    if dt not in ("int16", "int32", "uint16", "uint8") or d not in (2, 3) or len(c["v"]) != 3 or not 0 <= c["pos"] <= 2:
        raise Skip("malformed")
    vs = [np.array([int(x) for x in v], dtype=np.int64) for v in c["v"]]
    if any(len(v) != d + 1 or not np.any(v) for v in vs):
        raise Skip("malformed")
    if dt.startswith("u"):
        vs = [np.abs(v) for v in vs]
    info = np.iinfo(dt)
    k = int(c["k"])
    if dt.startswith("u"):
        k = abs(k)
    pos = c["pos"]
    while abs(k) > 1 and (np.max(vs[pos] * k) > info.max or np.min(vs[pos] * k) < info.min):
        k = int(k / 2) if abs(k) > 3 else (1 if k > 0 else -1)
    if k == 1:
        raise Skip("no room for another representative")
    cls = (G.Line if d == 2 else G.Plane) if c["dual"] else G.Point
    objs = [cls(v.astype(dt)) for v in vs]
    objs2 = list(objs)
    objs2[pos] = cls((vs[pos] * k).astype(dt))
    if any(o.array.dtype != np.dtype(dt) for o in objs + objs2):
        raise HarnessError("dtype not kept")
    fn = G.meet if c["dual"] else G.join
    calls = [("two", lambda o: fn(o[0], o[1])), ("swapped", lambda o: fn(o[1], o[0])), ("==", lambda o: o[pos] == objs[pos])]
    if d == 3:
        calls.append(("three", lambda o: fn(o[0], o[1], o[2])))
        calls.append(("two-then-one", lambda o: fn(fn(o[0], o[1]), o[2])))
    if not c["dual"]:
        calls.append(("constructor", lambda o: (G.Line(o[0], o[1]) if d == 2 else G.Plane(o[0], o[1], o[2]))))
        calls.append(("contains", lambda o: bool(np.all((G.Line(o[0], o[1]) if d == 2 else G.Plane(o[0], o[1], o[2])).contains(o[pos])))))
    ck = Checker()
    opname = "meet" if c["dual"] else "join"
    for tag, f in calls:
        if pos == 2 and tag in ("two", "swapped"):
            continue
        site = f"narrow:{opname}:{tag}:d{d}"
        r1, e = call(site, f, objs)
        if e:
            continue  # dependent arguments: subject of C02
        r2, e = call(site + ":rescaled", f, objs2)
        if e:
            ck.add(e)
            continue
        if isinstance(r1, (bool, np.bool_)):
            ck.check(bool(r1) == bool(r2), site, (bool(r1), bool(r2), k, dt))
        else:
            a1, a2 = np.asarray(r1.array, dtype=float), np.asarray(r2.array, dtype=float)
            ck.check(C.peq_all(a1.ravel(), a2.ravel(), 1, 1e-9), site, (a1.tolist(), a2.tolist(), k, dt))
    return ck.result()



# ------------------------------------------------------------------------------------------- every operand rescaled, collections
@st.composite
def allres_case(draw, tier="quick"):
    d = draw(st.sampled_from([2, 3]))
    k = draw(st.integers(1, 4))
    return {"d": d, "P": [[draw(C.ints(6)) for _ in range(d)] + [1] for _ in range(k)], "Q": [[draw(C.ints(6)) for _ in range(d)] + [1] for _ in range(k)], "fp": [draw(mscale()) for _ in range(k)], "fq": [draw(mscale()) for _ in range(k)],
            "single": draw(st.sampled_from([False, False, True]))}


def run_allres(c):
    """two point collections (or two points) whose elements ALL carry other representatives, every element its own factor:
    p + q, p - q, dist, join, == and normalized_array agree with the results for the representatives with last coordinate 1
    (held side by side: results of the two operands must not overwrite each other)"""
    d = c["d"]
    if d not in (2, 3) or len(c["P"]) != len(c["Q"]) or len(c["fp"]) != len(c["P"]) or len(c["fq"]) != len(c["Q"]) or not c["P"]:
        raise Skip("malformed")
    P0 = np.array(c["P"], float)
    Q0 = np.array(c["Q"], float)
    if np.any(P0[:, -1] == 0) or np.any(Q0[:, -1] == 0):
        raise Skip("points at infinity: the sum of a direction and a point is covered by C19")
    P0, Q0 = P0 / P0[:, -1:], Q0 / Q0[:, -1:]
    if any(np.array_equal(a, b) for a, b in zip(P0, Q0)):
        raise Skip("equal points")
    fp = np.array([mvalue(x) for x in c["fp"]])[:, None]
    fq = np.array([mvalue(x) for x in c["fq"]])[:, None]
    if c["single"]:
        mk = lambda A: G.Point(A[0])  # noqa: E731
    else:
        mk = lambda A: G.PointCollection(A)  # noqa: E731
    p0, q0, p1, q1 = mk(P0), mk(Q0), mk(P0 * fp), mk(Q0 * fq)
    ck = Checker()
    tag = "single" if c["single"] else "collection"
    for name, fn, kind in (("p+q", lambda a, b: a + b, "points"), ("p-q", lambda a, b: a - b, "points"), ("dist", lambda a, b: G.dist(a, b), "number"),
                           ("join", lambda a, b: G.join(a, b), "lines"), ("normalized_arrays", lambda a, b: (a.normalized_array, b.normalized_array), "pair")):
        site = f"all-rescaled:{name}:{tag}:d{d}"
        r0, f = call(site, fn, p0, q0)
        if f:
            continue
        r1, f = call(site + ":rescaled", fn, p1, q1)
        if f:
            ck.add(f)
            continue
        if kind == "number":
            ck.check(np.allclose(np.asarray(r0, float), np.asarray(r1, float), rtol=1e-9, atol=1e-9), site, (np.asarray(r0).tolist(), np.asarray(r1).tolist()))
        elif kind == "pair":
            ck.check(all(np.allclose(x, y, atol=1e-12) for x, y in zip(r0, r1)) and np.allclose(r1[0], P0 if not c["single"] else P0[0], atol=1e-12) and np.allclose(r1[1], Q0 if not c["single"] else Q0[0], atol=1e-12), site,
                     ([np.asarray(x).tolist() for x in r1], P0.tolist(), Q0.tolist()))
        else:
            a0, a1 = np.asarray(r0.array), np.asarray(r1.array)
            nax = 1 if (kind == "points" or d == 2) else 2
            ck.check(a0.shape == a1.shape and C.peq_all(a0, a1, nax, 1e-9), site, C.short((a0.tolist(), a1.tolist())))
    e, f = call(f"all-rescaled:==:{tag}:d{d}", lambda: (p1 == p0, q1 == q0))
    if f:
        ck.add(f)
    else:
        ck.check(bool(np.all(e[0])) and bool(np.all(e[1])), f"all-rescaled:==:{tag}:d{d}", (np.asarray(e[0]).tolist(), np.asarray(e[1]).tolist()))
    return ck.result()


# ------------------------------------------------------------------------------------------- one object given twice
COINCIDENT_FACTORS = [3.0, 0.3, 1.1, -7.0, 1.7, 2.0, -0.5, 1 / 3, -1.0, 5.0]


@st.composite
def coinc_case(draw, tier="quick"):
    d = draw(st.sampled_from([2, 3]))
    return {"d": d, "what": draw(st.sampled_from(["points", "hyperplanes", "lines3", "points", "hyperplanes"])), "v": [draw(C.ints(9)) for _ in range(2 * (d + 1))], "den": draw(st.sampled_from([1, 10, 3, 7, 10])),
            "f": [draw(st.integers(0, len(COINCIDENT_FACTORS) - 1)) for _ in range(2)], "form": draw(st.sampled_from(["function", "method", "constructor"])), "coll": draw(st.booleans()), "swap": draw(st.booleans())}


def run_coinc(c):
    """the same point / line / plane given twice, the second time as another representative f * x (coordinates k/10, k/3, k/7, so that
    f * x is rounded): joining or intersecting an object with itself raises LinearDependenceError whatever the factor f is - for
    f = 2 the products are exact, for f = 3 or 0.3 they are not, and the outcome must not depend on that"""
    from geometer import LineCollection, PlaneCollection, PointCollection, join, meet
    from geometer.exceptions import LinearDependenceError

    d, what, den = c["d"], c["what"], c["den"]
    if d not in (2, 3) or den not in (1, 3, 7, 10) or len(c["v"]) != 2 * (d + 1) or any(not 0 <= k < len(COINCIDENT_FACTORS) for k in c["f"]):
        raise Skip("malformed")
    v = np.array([float(x) for x in c["v"]]) / den
    x, y = v[: d + 1], v[d + 1:]
    if what == "points":
        x = np.append(x[:d], 1.0)
    if not np.any(x[:d]) or (what == "lines3" and d != 3):
        raise Skip("zero vector / no lines")
    ck = Checker()
    outcomes = []
    for k in c["f"]:
        f = COINCIDENT_FACTORS[k]
        site = f"coincident:{what}{d}:{c['form']}" + (":collection" if c["coll"] else "")
        if what == "lines3":
            x1, y1 = np.append(x[:d], 1.0), np.append(y[:d], 1.0)
            if np.allclose(x1, y1):
                raise Skip("same point")
            a, fa = call(site + ":construct", lambda: Line(Point(x1), Point(y1)))
            if fa:
                raise Skip("degenerate line")
            b = Line(np.asarray(a.array) * f)
            op = meet if not c["swap"] else join
            args = (a, b)
        else:
            cls, ccls = (Point, PointCollection) if what == "points" else ((Line, LineCollection) if d == 2 else (Plane, PlaneCollection))
            if c["coll"]:
                a, b = ccls(np.stack([x, x])), ccls(np.stack([x * f, x * f]))
            else:
                a, b = cls(x), cls(x * f)
            op = join if what == "points" else meet
            args = (b, a) if c["swap"] else (a, b)
        if c["form"] == "method" and what != "lines3":
            fn = lambda: getattr(args[0], "join" if op is join else "meet")(args[1])  # noqa: E731
        elif c["form"] == "constructor" and what == "points" and not c["coll"]:
            fn = lambda: Line(*args)  # noqa: E731
        else:
            fn = lambda: op(*args)  # noqa: E731
        try:
            r = fn()
            outcomes.append((f, "returned " + type(r).__name__ + " " + str(np.asarray(r.array).tolist())[:120]))
        except LinearDependenceError as e:
            dv = getattr(e, "dependent_values", None)
            if c["coll"] and what != "lines3":
                ck.check(dv is not None and bool(np.all(dv)) and np.shape(dv) == (2,), site + ":mask-marks-every-position", (f, None if dv is None else np.asarray(dv).tolist()))
            outcomes.append((f, "LinearDependenceError"))
        except G.exceptions.GeometryException as e:
            outcomes.append((f, type(e).__name__))
        except Exception as e:  # noqa: BLE001
            ck.add(exc_fail(e, site))
            return ck.result()
        ck.check(outcomes[-1][1] == "LinearDependenceError", site + ":an-object-and-its-multiple-are-dependent", (x.tolist(), outcomes[-1]))
    return ck.result()


LAWS = [
    Law("rescale_argument", lambda tier: case(tier), run, nontrivial, labels, {"quick": 6000, "thorough": 150000},
        "op(args) vs op(args with one argument's homogeneous representative rescaled)", shard=400, mandatory=("negative-factor", "complex-factor")),
    Law("polygon_grid", polygrid_strategy, run_polygrid, lambda c: any(f[0] < 0 for f in c["factors"]), lambda c: [c["kind"], "embedded3d" if c["embed"] else "planar"],
        {"quick": 400, "thorough": 8000}, "polygon with rescaled vertices vs the same polygon: contains on the full query grid, area, ==, intersect", shard=50),
    Law("conic_constructors", lambda tier: conic_case(tier), run_conic, lambda c: any(s[0] < 0 or s[1] != 0 or s[2] != 1 for s in c["factors"]), conic_labels,
        {"quick": 1500, "thorough": 40000}, "Conic.from_tangent/from_points/from_foci/from_lines on lattice data (parallel connecting lines are common) vs the same call with every argument rescaled independently", shard=300,
        mandatory=("aux-point-at-infinity", "odd-number-of-negative-factors")),
    Law("degenerate_quadric_representatives", lambda tier: degq_case(tier), run_degq, lambda c: any(s[0] < 0 for s in c["factors"]),
        lambda c: [f"n{len(c['g'])}"] + (["zero-coordinates"] if 0 in c["g"] or 0 in c["h"] else []) + (["negative-factor"] if any(s[0] < 0 for s in c["factors"]) else []),
        {"quick": 600, "thorough": 10000}, "line / plane pairs with small integer coordinates given by k*M for several k: components and intersect(line) independent of k", shard=300,
        mandatory=("zero-coordinates", "negative-factor")),
    Law("narrow_integer_representatives", lambda tier: narrow_case(tier), run_narrow, lambda c: True, lambda c: [c["dt"], f"d{c['d']}", "meet" if c["dual"] else "join"],
        {"quick": 800, "thorough": 15000}, "integer coordinates stored as int16 / int32 / uint16 / uint8, one argument replaced by the largest listed multiple that fits the type", shard=300,
        mandatory=("int16", "int32", "uint16")),
    Law("all_operands_rescaled", lambda tier: allres_case(tier), run_allres, lambda c: any(x[0] < 0 or x[1] != 0 or x[2] != 1 for x in c["fp"] + c["fq"]),
        lambda c: ["single" if c["single"] else f"collection{len(c['P'])}", f"d{c['d']}"], {"quick": 700, "thorough": 12000},
        "points / point collections with every element of both operands given by another representative: sum, difference, dist, join, ==, normalized_array", shard=300),
    Law("coincident_operands_rescaled", lambda tier: coinc_case(tier), run_coinc, lambda c: c["den"] != 1, lambda c: [f"{c['what']}{c['d']}", c["form"], "collection" if c["coll"] else "single"] + (["non-dyadic-coordinates"] if c["den"] != 1 else []),
        {"quick": 1500, "thorough": 25000}, "an object joined / intersected with another representative f * x of itself (coordinates k/10, k/3, k/7; f = 3, 0.3, 1.1, -7, 2, ...): LinearDependenceError for every f, mask marks every position", shard=300,
        mandatory=("non-dyadic-coordinates", "lines33")),
    Law("equality", lambda tier: eq_case(tier), run_eq, lambda c: True, lambda c: [f"{c['kind']}{c['d']}"], {"quick": 1500, "thorough": 30000},
        "== holds for every non-zero multiple, is reflexive and symmetric, and is false for objects that are clearly not multiples", shard=400),
]
