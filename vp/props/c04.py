"""C04 Collections compute element by element what single objects compute."""
from __future__ import annotations

import numpy as np
from hypothesis import strategies as st

import geometer as G
from geometer import (
    Circle, Line, LineCollection, Plane, PlaneCollection, Point, PointCollection, Polygon, PolygonCollection, Quadric, QuadricCollection, Rectangle,
    Segment, SegmentCollection, Sphere, Transformation, TransformationCollection, Triangle,
)

from .. import common as C
from .. import ops as O
from .. import zoo as Z
from ..runner import Checker, Fail, Law, Skip, call, exc_fail

RULE = (
    "An operation of the registry that accepts collections, a collection shape S from {(1,),(2,),(3,),(4,),(2,2),(2,3),(2,1,2)}, "
    "per argument the choice collection / single (broadcast); every position gets its own pool of objects (24 integers |c|<=6 "
    "each, exact general position). The collection result at every position is compared with the single-object result there. "
    "Indexing laws: coll[i], coll[i, j], list(coll), iteration for every collection class. Non-trivial = |S| >= 2 with pairwise "
    "different elements, or a broadcast argument; distinct by case hash."
)
ASSUMPTIONS = [
    "comparators of the registry (projective equality over C tol 1e-6, P^1 for cross ratios, angles mod pi); list-valued results are "
    "compared position by position as multisets",
    "an exception of the collection form where all single calls succeed is a failure bucketed by (operation, shape class, frame)",
]

SHAPES = [[1], [2], [3], [4], [2, 2], [2, 3], [2, 1, 2]]
COLL_OPS = {d: [o for o in O.ops_for(d) if o.coll] for d in (2, 3)}
OPMAP = {(o.name, d): o for o in O.OPS for d in o.dims}


def shape_class(shape, bcast):
    s = "one-axis" if len(shape) == 1 else "several-axes"
    if any(bcast):
        s += "+broadcast"
    return s


@st.composite
def case(draw, tier="quick"):
    d = draw(st.sampled_from([2, 3]))
    shape = draw(st.sampled_from(SHAPES + ([[64]] if tier == "thorough" else [])))
    npos = C.prod(shape)
    vs = [draw(Z.params()) for _ in range(min(npos, 6))]
    op = C.uniform_pick(COLL_OPS[d], vs)
    nargs = len(op.args)
    bcast = [draw(st.integers(0, 3)) == 0 for _ in range(nargs)]
    if all(bcast):
        bcast[draw(st.integers(0, nargs - 1))] = False
    return {"d": d, "op": op.name, "shape": shape, "vs": vs, "bcast": bcast}


BIG_SHAPES = [[8, 8], [4, 4, 4], [64], [2, 40], [65], [16, 4], [1, 64]]
# operations that end in the batched numeric kernels (inverse, adjugate, determinant, components of a quadric), which switch formulas at 64 matrices
KERNEL_OPS = {d: [o for o in COLL_OPS[d] if o.name.startswith(("t*", "t.", "t**", "q.", "pair.", "circle."))] for d in (2, 3)}


@st.composite
def big_case(draw, tier="quick"):
    d = draw(st.sampled_from([2, 3]))
    shape = draw(st.sampled_from(BIG_SHAPES))
    vs = [draw(Z.params()) for _ in range(6)]
    op = C.uniform_pick(KERNEL_OPS[d], vs)
    nargs = len(op.args)
    bcast = [draw(st.integers(0, 3)) == 0 for _ in range(nargs)]
    if all(bcast):
        bcast[draw(st.integers(0, nargs - 1))] = False
    if (op.name.startswith("t*") or op.name == "t.apply") and nargs >= 2 and not bcast[0] and bcast[1]:
        # a TransformationCollection applied to a single object is the known finding KF-C04-1 (reported through collection_vs_single):
        # excluded here by construction, so that the search goes on behind it
        bcast[1] = False
    return {"d": d, "op": op.name, "shape": shape, "vs": vs, "bcast": bcast}


def pools_for(c):
    d = c["d"]
    npos = C.prod(c["shape"])
    # every position needs a polygon with the same number of vertices: use the template of the first position
    vs = [list(v) for v in c["vs"]]
    for v in vs[1:]:
        if len(v) > 9 and len(vs[0]) > 9:
            v[9] = vs[0][9]
    base = [O.pool_for(d, v) for v in vs]
    return [base[i % len(base)] for i in range(npos)]


def reshape_coll(coll, shape):
    if len(shape) == 1:
        return coll
    r = type(coll)(coll.array.reshape(tuple(shape) + coll.array.shape[1:]), **({"is_dual": coll.is_dual} if hasattr(coll, "is_dual") else {}))
    return r


def index_result(res, idx, nlead):
    """element of a collection-valued result at a position"""
    if isinstance(res, (list, tuple)):
        return [index_result(r, idx, nlead) for r in res]
    if isinstance(res, G.base.Tensor):
        return res[idx] if nlead else res
    a = np.asarray(res)
    return a[idx] if a.ndim >= nlead and nlead else a


def run(c):
    d = c["d"]
    op = OPMAP.get((c["op"], d))
    if op is None or not op.coll:
        raise Skip("unknown operation")
    shape = c["shape"]
    pools = pools_for(c)
    npos = len(pools)
    nargs = len(op.args)
    bcast = list(c["bcast"])[:nargs] + [False] * (nargs - len(c["bcast"]))
    if all(bcast):
        raise Skip("no collection argument")
    singles = []  # per position the argument list
    for i in range(npos):
        singles.append([pools[0][n] if bcast[k] else pools[i][n] for k, n in enumerate(op.args)])
    site = f"{op.name}/d{d}/{shape_class(shape, bcast)}"
    # single results
    exp = []
    for i in range(npos):
        r, f = call(site + ":single", op.fn, *singles[i])
        if f:
            raise Skip("single call fails (subject of another property)")
        exp.append(r)
    cargs = []
    for k in range(nargs):
        if bcast[k]:
            cargs.append(singles[0][k])
        else:
            cargs.append(reshape_coll(O.stack([singles[i][k] for i in range(npos)]), shape))
    res, f = call(site, op.fn, *cargs)
    if f:
        return [f]
    ck = Checker()
    nlead = len(shape)
    # shape of the result
    probe = res[0] if isinstance(res, (list, tuple)) and len(res) else res
    if isinstance(probe, G.base.Tensor):
        lead = probe.array.shape[: probe.array.ndim - O.naxes_of(exp[0][0] if isinstance(exp[0], (list, tuple)) and exp[0] else exp[0]) ] if not isinstance(exp[0], (list, tuple)) or exp[0] else None
    else:
        lead = np.asarray(probe).shape
    if isinstance(res, (list, tuple)) and op.cmp in ("multiset", "set"):
        # list-valued: every element is a collection aligned by position; a position with a double point may collapse
        for idx_flat in range(npos):
            idx = np.unravel_index(idx_flat, shape)
            try:
                got = [np.asarray(r.array)[idx] for r in res]
            except Exception as e:  # noqa: BLE001
                return [Fail("MISMATCH", site + ":result-shape", repr(e)[:200])]
            want = [np.asarray(x.array) for x in exp[idx_flat]]
            ok = C.set_peq(got, want, max(op.tol, 1e-6)) if (op.cmp == "set" or len(got) != len(want)) else C.multiset_peq(got, want, max(op.tol, 1e-6))
            if not ck.check(ok, site + ":position-value", (idx, [g.tolist() for g in got], [w.tolist() for w in want])):
                break
        return ck.result()
    for idx_flat in range(npos):
        idx = tuple(int(x) for x in np.unravel_index(idx_flat, shape))
        try:
            got = index_result(res, idx, nlead)
        except Exception as e:  # noqa: BLE001
            return ck.result() + [Fail("MISMATCH", site + ":result-shape", repr(e)[:200])]
        want = exp[idx_flat]
        if isinstance(want, G.base.Tensor) and isinstance(got, G.base.Tensor):
            ok = got.array.shape == want.array.shape and bool(C.peq_all(got.array, want.array, O.naxes_of(want), max(op.tol, 1e-6)))
            detail = (idx, got.array.tolist(), want.array.tolist())
            fam = next((f for f in (O.PT, O.LT, O.ET, O.QT, O.TT, O.ST, O.GT, O.YT) if isinstance(want, f)), type(want))
            related = isinstance(got, fam)  # same kind of object; e.g. a 4-gon may come back as Rectangle
            if ok and (not related or isinstance(got, G.base.TensorCollection)):
                ck.check(False, site + ":element-class", (type(got).__name__, type(want).__name__))
                break
        else:
            ok, detail = O.same(got, want, op.cmp, max(op.tol, 1e-6))
        if not ck.check(ok, site + ":position-value", C.short(detail, 300)):
            break
    return ck.result()


def nontrivial(c):
    return C.prod(c["shape"]) >= 2 or any(c["bcast"])


def labels(c):
    return [c["op"], shape_class(c["shape"], c["bcast"]), "shape:" + "x".join(map(str, c["shape"]))]


# ------------------------------------------------------------------------------------------- indexing / iteration
IDX_KINDS = {2: ["pointcoll", "linecoll", "quadriccoll", "normquadriccoll", "dualquadriccoll", "circlecoll", "transformationcoll", "segmentcoll", "polygoncoll", "trianglecoll", "rectanglecoll", "pentagoncoll"],
             3: ["pointcoll", "linecoll", "planecoll", "quadriccoll", "spherecoll", "transformationcoll", "segmentcoll", "polygoncoll", "trianglecoll", "rectanglecoll", "cuboidcoll", "covlinecoll"]}


@st.composite
def idx_case(draw, tier="quick"):
    d = draw(st.sampled_from([2, 3]))
    return {"d": d, "kind": draw(st.sampled_from(IDX_KINDS[d])), "vs": [draw(Z.params()) for _ in range(4)], "shape": draw(st.sampled_from([[1], [2], [3], [4], [2, 2]])),
            "how": draw(st.sampled_from(["int", "neg-int", "iter", "list", "tuple-index", "npint"]))}


def build_elements(kind, d, vs, n):
    """n single objects + the element class expected from indexing + constructor of the collection"""
    base = kind[:-4]
    extra = {}
    if base == "dualquadric":
        objs = [Z.build("dualquadric", d, vs[i % len(vs)])[0] for i in range(n)]
        return objs, Quadric, lambda arr: QuadricCollection(arr, is_dual=True)
    if base == "normquadric":
        # constructor flag normalize_matrix=True: every element keeps its own (projectively unchanged) matrix
        objs = [Z.build("quadric", d, vs[i % len(vs)])[0] for i in range(n)]
        return objs, Quadric, lambda arr: QuadricCollection(arr, normalize_matrix=True)
    if base == "covline":
        # lines of 3-space in covariant form (the public covariant_tensor of a Line / LineCollection): an element of the covariant
        # collection is the covariant form of the element
        contra = [Z.build("line", 3, vs[i % len(vs)])[0] for i in range(n)]
        objs = [o.covariant_tensor for o in contra]
        carr = np.stack([o.array for o in contra])
        return objs, Line, lambda arr: LineCollection(carr.reshape(arr.shape)).covariant_tensor
    if base == "circle":
        objs = [Z.build("circle", d, vs[i % len(vs)])[0] for i in range(n)]
        return objs, Quadric, QuadricCollection
    if base == "sphere":
        objs = [Z.build("sphere", d, vs[i % len(vs)])[0] for i in range(n)]
        return objs, Quadric, QuadricCollection
    if base == "cuboid":
        # several polyhedra in one Polyhedron tensor with a collection axis in front of the face and vertex axes
        objs = [Z.build("cuboid", 3, vs[i % len(vs)])[0] for i in range(n)]
        return objs, G.shapes.Polyhedron, lambda arr: G.shapes.Polyhedron(arr)
    if base == "pentagon":
        objs = []
        for i in range(n):
            v = list(vs[i % len(vs)])
            v[9] = 1  # template with five vertices
            objs.append(Z.build("polygon", d, v)[0])
        return objs, Polygon, PolygonCollection
    if base == "polygon":
        objs = []
        for i in range(n):
            v = list(vs[i % len(vs)])
            v[9] = [1, 3][abs(vs[0][9]) % 2]  # all elements need the same number of vertices (5 or 6)
            objs.append(Z.build("polygon", d, v)[0])
        return objs, Polygon, PolygonCollection
    objs = [Z.build(base, d, vs[i % len(vs)])[0] for i in range(n)]
    cls = {"point": (Point, PointCollection), "line": (Line, LineCollection), "plane": (Plane, PlaneCollection), "quadric": (Quadric, QuadricCollection),
           "transformation": (Transformation, TransformationCollection), "segment": (Segment, SegmentCollection), "triangle": (Triangle, PolygonCollection),
           "rectangle": (Rectangle, PolygonCollection)}[base]
    return objs, cls[0], cls[1]


def run_idx(c):
    d, kind, shape = c["d"], c["kind"], c["shape"]
    n = C.prod(shape)
    objs, elem_cls, make = build_elements(kind, d, c["vs"], n)
    arr = np.stack([o.array for o in objs])
    arr = arr.reshape(tuple(shape) + arr.shape[1:])
    coll, f = call(f"construct:{kind}", make, arr)
    if f:
        return [f]
    ck = Checker()
    site = f"index:{kind}{d}"
    how = c["how"]

    def check_elem(e, o, where):
        if not ck.check(isinstance(e, G.base.Tensor), site + ":element-is-tensor", type(e).__name__):
            return
        ck.check(isinstance(e, elem_cls) and not isinstance(e, G.base.TensorCollection), site + ":element-class", (type(e).__name__, elem_cls.__name__, where))
        ok = e.array.shape == o.array.shape and C.peq_all(e.array, o.array, O.naxes_of(o), 1e-12)
        ck.check(ok, site + ":element-value", where)
        ck.check(sorted(e._covariant_indices) == sorted(o._covariant_indices) and sorted(e._contravariant_indices) == sorted(o._contravariant_indices), site + ":element-index-types",
                 (sorted(e._covariant_indices), sorted(o._covariant_indices)))
        for attr in ("is_dual", "pdim"):
            if hasattr(o, attr):
                ck.check(getattr(e, attr, None) == getattr(o, attr), site + ":element-" + attr, (getattr(e, attr, None), getattr(o, attr)))
        for attr in ("_line", "_plane"):
            if getattr(o, attr, None) is not None:
                got = getattr(e, attr, None)
                if ck.check(got is not None, site + ":element-cached" + attr):
                    ck.check(got.array.shape == getattr(o, attr).array.shape and C.peq_all(got.array, getattr(o, attr).array, O.naxes_of(getattr(o, attr)), 1e-7), site + ":element-cached" + attr + ":value")

    if len(shape) == 1:
        if how in ("int", "neg-int", "npint", "tuple-index"):
            for i in range(n):
                key = {"int": i, "neg-int": i - n, "npint": np.int64(i), "tuple-index": (i,)}[how]
                e, f = call(site + ":getitem", lambda: coll[key])
                if f:
                    ck.add(f)
                    break
                check_elem(e, objs[i], how)
        else:
            items, f = call(site + ":iter", lambda: list(coll) if how == "list" else [x for x in coll])
            if f:
                ck.add(f)
            elif ck.check(len(items) == n, site + ":iter-length", len(items)):
                for e, o in zip(items, objs):
                    check_elem(e, o, how)
        if isinstance(coll, G.base.TensorCollection):  # a Polyhedron tensor with a collection axis is not a collection class: no len()
            ln, f = call(site + ":len", lambda: len(coll))
            if f is None:
                ck.check(ln == n, site + ":len", ln)
    else:
        for i in range(shape[0]):
            for j in range(shape[1]):
                e, f = call(site + ":getitem2", lambda: coll[i, j])
                if f:
                    ck.add(f)
                    return ck.result()
                check_elem(e, objs[i * shape[1] + j], "coll[i, j]")
        row, f = call(site + ":getitem-row", lambda: coll[0])
        if f:
            ck.add(f)
        else:
            ck.check((isinstance(row, G.base.TensorCollection) or kind == "cuboidcoll") and row.array.shape == coll.array.shape[1:], site + ":row-is-collection", type(row).__name__)
    return ck.result()


# ------------------------------------------------------------------------------------------- elements of very different magnitude
@st.composite
def mag_case(draw, tier="quick"):
    k = draw(st.integers(2, 4))
    return {"pairs": [[draw(C.ivec(3, 5)), draw(C.ivec(3, 5))] for _ in range(k)], "exp": [draw(st.sampled_from([0, 0, 4, 3])) for _ in range(k)]}


def run_mag(c):
    """collections of line pairs (degenerate conics) whose matrices differ by factors up to 1e4: components / is_degenerate per
    position must equal the single-object answers (the decomposition is scale free for every single matrix)"""
    from fractions import Fraction

    from .. import exact as X

    mats, singles = [], []
    for (g, h), e in zip(c["pairs"], c["exp"]):
        if X.rank([[Fraction(x) for x in g], [Fraction(x) for x in h]]) < 2:
            raise Skip("proportional")
        m = (np.outer(g, h) + np.outer(h, g)).astype(float) * 10.0**e
        mats.append(m)
        singles.append(G.Conic(m))
    ck = Checker()
    coll = QuadricCollection(np.stack(mats))
    comp, f = call("components:mixed-magnitude", lambda: coll.components)
    if f:
        return [f]
    for i, q in enumerate(singles):
        want, f = call("components:single", lambda: q.components)
        if f:
            raise Skip("single call fails")
        got = [np.asarray(x.array)[i] for x in comp]
        ok = C.multiset_peq(got, [np.asarray(x.array) for x in want], 1e-6)
        gen = C.multiset_peq(got, [np.array(c["pairs"][i][0], float), np.array(c["pairs"][i][1], float)], 1e-6)
        if not ck.check(ok and gen, "components:mixed-magnitude:position-value", (i, c["exp"], [g.tolist() for g in got])):
            break
    return ck.result()


# ------------------------------------------------------------------------------------------- predicates with extra arguments
def run_pred_coll(c):
    """is_collinear / is_concurrent (4 arguments) and is_coplanar (5 arguments) on collections whose positions have different
    truth values: the collection answer at every position == the answer of the same call on the single objects there"""
    from . import c10

    what, cols, truth = c10.mixed_columns(c)
    conc = what == "concurrent2"
    ccls, scls = (G.LineCollection, G.Line) if conc else (G.PointCollection, G.Point)
    fn = {"collinear2": G.is_collinear, "concurrent2": G.is_concurrent, "coplanar3": G.is_coplanar}[what]
    k = len(truth)
    args = [ccls(np.array(col)) for col in cols]
    two = c.get("bcast_first") and k == 4
    if two:
        args = [ccls(np.array(col).reshape((2, 2, -1))) for col in cols]
    r, f = call(f"predicate:{what}:collection", fn, *args)
    if f:
        return [f]
    ck = Checker()
    r = np.asarray(r)
    if not ck.check(r.shape == ((2, 2) if two else (k,)), f"predicate:{what}:result-shape", r.shape):
        return ck.result()
    r = r.ravel()
    for i in range(k):
        single, f = call(f"predicate:{what}:single", fn, *[scls(col[i]) for col in cols])
        if f:
            ck.add(f)
            continue
        if not ck.check(bool(single) == bool(r[i]), f"predicate:{what}:position-vs-single", (i, r.tolist(), truth, [p["mode"] for p in c["pos"]])):
            break
    return ck.result()


# ------------------------------------------------------------------------------------------- 3D polygons, mixed coplanarity
def polymix_strategy(tier):
    from . import c16

    @st.composite
    def s(draw):
        c = draw(c16.poly_case(tier))
        c["embed"] = "3d"
        c["kind"] = "polygon"
        c["lift"] = [draw(st.sampled_from([0, 0, 1, -2])) for _ in range(12)]
        return c

    return s()


def run_polymix(c):
    """a polygon embedded in 3-space against a PointCollection that mixes points of its plane (inside, on the boundary, outside)
    with points off the plane, through Polygon.contains(collection), PolygonCollection.contains(collection) and
    PolygonCollection.contains(point): every position == the single call Polygon.contains(Point)"""
    from . import c16

    base = c16.polygon2(c)
    emb = c16.embed(c, base)
    if emb is None:
        raise Skip("not embedded")
    o, u, w = emb
    nrm = np.cross(u, w)
    xs = [p[0] for p in base]
    ys = [p[1] for p in base]
    grid = [(x, y) for x in range(int(min(xs)) - 1, int(max(xs)) + 2) for y in range(int(min(ys)) - 1, int(max(ys)) + 2)][:12]
    lift = list(c.get("lift", [0] * 12)) + [0] * 12
    V = np.array([np.append(o + float(p[0]) * u + float(p[1]) * w, 1.0) for p in base])
    Q = np.array([np.append(o + x * u + y * w + lift[i] * nrm, 1.0) for i, (x, y) in enumerate(grid)])
    poly = Polygon(V)
    singles = []
    for q in Q:
        r, f = call("polygon3.contains(point)", poly.contains, Point(q))
        if f:
            raise Skip("single call fails (subject of C16)")
        singles.append(bool(r))
    singles = np.array(singles)
    ck = Checker()
    calls = [("Polygon.contains(collection)", lambda: poly.contains(PointCollection(Q))),
             ("PolygonCollection.contains(collection)", lambda: PolygonCollection(np.stack([V] * len(Q))).contains(PointCollection(Q)))]
    for name, fn in calls:
        r, f = call(name, fn)
        if f:
            ck.add(f)
            continue
        r = np.asarray(r)
        ck.check(r.shape == singles.shape and np.array_equal(r, singles), f"polygon3-mixed-coplanarity:{name}:position-vs-single", (r.tolist(), singles.tolist(), lift[: len(Q)]))
    for i in (0, len(Q) - 1):
        r, f = call("PolygonCollection.contains(point)", PolygonCollection(np.stack([V, V])).contains, Point(Q[i]))
        if f:
            ck.add(f)
        else:
            ck.check(np.asarray(r).shape == (2,) and np.all(np.asarray(r) == singles[i]), "polygon3-mixed-coplanarity:PolygonCollection.contains(point)", (np.asarray(r).tolist(), bool(singles[i])))
    return ck.result()


# ------------------------------------------------------------------------------------------- mixed representatives in one collection
@st.composite
def mixrep_case(draw, tier="quick"):
    d = draw(st.sampled_from([2, 3]))
    k = draw(st.integers(2, 5))
    return {"d": d, "rows": [[draw(C.ints(6)) for _ in range(d)] for _ in range(k)], "w": [draw(st.sampled_from([1, 1, 2, -1, 4, 0])) for _ in range(k)],
            "q": [draw(C.ints(5)) for _ in range(d)], "two_axes": draw(st.booleans())}


def run_mixrep(c):
    """a PointCollection whose elements are given by different kinds of representatives - last coordinate exactly 1, another
    non-zero factor (2, -1, 4), or 0 (a point at infinity): point arithmetic and normalisation at every position == the same
    operation on the single point"""
    d, rows, ws = c["d"], c["rows"], c["w"]
    if len(rows) != len(ws) or any(len(r) != d for r in rows):
        raise Skip("malformed")
    H = []
    for r, w in zip(rows, ws):
        if w == 0:
            if not any(r):
                raise Skip("zero vector")
            H.append(np.array(list(r) + [0], float))
        else:
            H.append(np.array(list(r) + [1], float) * w)
    H = np.array(H)
    k = len(H)
    shape = (k,)
    coll = PointCollection(H)
    if c["two_axes"] and k == 4:
        shape = (2, 2)
        coll = PointCollection(H.reshape((2, 2, d + 1)))
    q = Point(*[float(x) for x in c["q"]])
    ops = [("x+q", lambda x: x + q), ("x-q", lambda x: x - q), ("q-x", lambda x: q - x), ("x*2", lambda x: x * 2), ("x/2", lambda x: x / 2), ("-x", lambda x: -x), ("3*x", lambda x: 3 * x),
           ("normalized_array", lambda x: x.normalized_array), ("isinf", lambda x: x.isinf), ("dist(x,q)", lambda x: G.dist(x, q))]
    ck = Checker()
    for name, fn in ops:
        R, f = call(f"mixed-representatives:{name}:collection", fn, coll)
        if f:
            ck.add(f)
            continue
        Ra = np.asarray(R.array if isinstance(R, G.base.Tensor) else R)
        if not ck.check(Ra.shape[: len(shape)] == shape, f"mixed-representatives:{name}:shape", Ra.shape):
            continue
        Ra = Ra.reshape((k,) + Ra.shape[len(shape):])
        for i in range(k):
            S_, f = call(f"mixed-representatives:{name}:single", fn, Point(H[i]))
            if f:
                ck.add(f)
                break
            Sa = np.asarray(S_.array if isinstance(S_, G.base.Tensor) else S_)
            if Sa.ndim == 1 and name != "normalized_array":
                ok = Sa.shape == Ra[i].shape and bool(C.peq_all(Ra[i], Sa, 1, 1e-9))
            else:
                ok = Sa.shape == Ra[i].shape and bool(np.allclose(Ra[i], Sa, rtol=1e-9, atol=1e-12, equal_nan=True))
            if not ck.check(ok, f"mixed-representatives:{name}:position-vs-single", (i, ws, Ra[i].tolist(), Sa.tolist())):
                break
    return ck.result()



# ------------------------------------------------------------------------------------------- polygon collections from vertex arguments
@st.composite
def pcv_case(draw, tier="quick"):
    d = draw(st.sampled_from([2, 3]))
    nv = 3 if d == 3 else draw(st.sampled_from([3, 4]))
    k = draw(st.sampled_from([2, 3, 4]))
    return {"d": d, "k": k, "verts": [[[draw(C.ints(6)) for _ in range(d)] for _ in range(k)] for _ in range(nv)], "single": [draw(st.booleans()) for _ in range(nv)], "cls": draw(st.sampled_from(["PolygonCollection", "SegmentCollection"]))}


def run_pcv(c):
    """PolygonCollection(v1, v2, v3, ...) / SegmentCollection(a, b) from vertex arguments of which some are single points (shared by
    all elements) and some are point collections, in every position: element i is the polygon / segment of the i-th vertices"""
    d, k = c["d"], c["k"]
    verts, single = c["verts"], list(c["single"])
    if c["cls"] == "SegmentCollection":
        verts, single = verts[:2], single[:2]
    nv = len(verts)
    if all(single):
        single[-1] = False
    args, per = [], []
    for j in range(nv):
        rows = np.array([list(map(float, v)) + [1.0] for v in verts[j]])
        if single[j]:
            args.append(G.Point(rows[0]))
            per.append([rows[0]] * k)
        else:
            args.append(PointCollection(rows))
            per.append(list(rows))
    # every element must be a proper segment / simple polygon
    for i in range(k):
        P = [per[j][i][:-1] for j in range(nv)]
        if nv == 2:
            if np.array_equal(P[0], P[1]):
                raise Skip("degenerate")
        elif d == 2:
            from fractions import Fraction

            from .. import exact as X

            if not X.is_simple_polygon([[Fraction(x) for x in p] for p in P]) or abs(np.linalg.det(np.array([[*P[0], 1], [*P[1], 1], [*P[2], 1]]))) < 0.5:
                raise Skip("not a simple polygon")
        elif np.linalg.matrix_rank(np.array([P[1] - P[0], P[2] - P[0]])) < 2:
            raise Skip("degenerate triangle")
    cls = PolygonCollection if nv > 2 else G.SegmentCollection
    one = G.Polygon if nv > 2 else G.Segment
    site = f"{cls.__name__}(vertices):" + "".join("s" if x else "c" for x in single) + f":d{d}"
    coll, f = call(site, lambda: cls(*args))
    if f:
        return [f]
    ck = Checker()
    if not ck.check(coll.array.shape == (k, nv, d + 1), site + ":shape", coll.array.shape):
        return ck.result()
    for i in range(k):
        ref = one(*[G.Point(per[j][i]) for j in range(nv)])
        e, f = call(site + ":getitem", lambda: coll[i])
        if f:
            ck.add(f)
            break
        ck.check(np.allclose(np.asarray(e.array, float), np.asarray(ref.array, float)), site + ":element-vertices", (i, np.asarray(e.array).tolist(), np.asarray(ref.array).tolist()))
        if nv > 2:
            a1, f = call(site + ":area", lambda: coll.area)
            if f is None:
                ck.check(abs(np.asarray(a1)[i] - ref.area) < 1e-9, site + ":area", (i, float(np.asarray(a1)[i]), float(ref.area)))
    return ck.result()



# ------------------------------------------------------------------------------------------- triangles inside collections
@st.composite
def tric_case(draw, tier="quick"):
    k = draw(st.sampled_from([1, 2, 3]))
    return {"k": k, "tris": [[[draw(C.ints(5)), draw(C.ints(5))] for _ in range(3)] for _ in range(k)], "bary": [[draw(st.integers(-1, 3)) for _ in range(3)] for _ in range(k)],
            "fv": [[draw(C.scale()) for _ in range(3)] for _ in range(k)], "fp": [draw(C.scale()) for _ in range(k)], "single_point": draw(st.booleans())}


def run_tric(c):
    """a PolygonCollection of triangles of the plane (every vertex and every query point given by its own representative, also
    negative ones): contains() of the collection, of the element obtained by indexing (a Triangle, which has its own algorithm)
    and of the element obtained by iteration give the exact answer at every position"""
    from fractions import Fraction

    from .. import exact as X

    k = c["k"]
    V, Q, truth = [], [], []
    for i in range(k):
        T = [[Fraction(x) for x in p] for p in c["tris"][i]]
        if X.orient(T[0], T[1], T[2]) == 0:
            raise Skip("degenerate triangle")
        w = [Fraction(x) for x in c["bary"][0 if c["single_point"] else i]]
        if sum(w) == 0:
            raise Skip("weights sum to zero")
        Ti = [[Fraction(x) for x in p] for p in c["tris"][0 if c["single_point"] else i]]
        q = [sum(w[j] * Ti[j][d] for j in range(3)) / sum(w) for d in range(2)]
        V.append(np.array([[float(p[0]), float(p[1]), 1.0] for p in T]) * np.array([C.scale_value(f) for f in c["fv"][i]])[:, None])
        Q.append(np.array([float(q[0]), float(q[1]), 1.0]) * C.scale_value(c["fp"][0 if c["single_point"] else i]))
        truth.append(X.point_in_polygon(T, q))
    coll = PolygonCollection(np.stack(V))
    pts = G.Point(Q[0]) if c["single_point"] else PointCollection(np.stack(Q))
    ck = Checker()
    site = "triangle-collection.contains:" + ("single-point" if c["single_point"] else "point-collection")
    r, f = call(site, coll.contains, pts)
    if f:
        return [f]
    r = np.asarray(r)
    if not ck.check(r.shape == (k,), site + ":shape", r.shape):
        return ck.result()
    ck.check(r.tolist() == truth, site + ":collection-answer", (r.tolist(), truth))
    for how, elems in (("coll[i]", lambda: [coll[i] for i in range(k)]), ("iteration", lambda: list(coll))):
        es, f = call(site + ":" + how, elems)
        if f:
            ck.add(f)
            continue
        for i, e in enumerate(es):
            if not ck.check(isinstance(e, G.Triangle), site + f":{how}:element-class", type(e).__name__):
                break
            ri, f = call(site + f":{how}.contains", e.contains, G.Point(Q[0 if c["single_point"] else i]))
            if f:
                ck.add(f)
                break
            ck.check(bool(ri) == truth[i], site + f":{how}.contains", (i, bool(ri), truth[i], Q[0 if c["single_point"] else i].tolist(), V[i].tolist()))
    return ck.result()


# ------------------------------------------------------------------------------------------- degenerate quadrics of mixed reducibility
@st.composite
def mixred_case(draw, tier="quick"):
    return {"v": [draw(C.ints(5)) for _ in range(24)], "order": draw(st.sampled_from([[0, 1], [1, 0], [0, 1, 0], [1, 1, 0], [0, 0, 1]])), "r": draw(st.sampled_from([1, 2, 0.5]))}


def run_mixred(c):
    """a QuadricCollection of 3-space whose members are all degenerate but not all reducible (pairs of planes next to cones): components refuses
    the collection as it refuses the cone alone, and intersect(line) gives at every position what the single member gives"""
    from geometer import Cone
    from geometer.exceptions import NotReducible

    v = [float(x) for x in c["v"]]
    e, f_ = np.array(v[0:4]), np.array(v[4:8])
    if np.linalg.matrix_rank(np.stack([e, f_])) < 2 or not np.any(e[:3]) or not np.any(f_[:3]):
        raise Skip("planes not distinct")
    apex, base = np.array(v[8:11]), np.array(v[11:14])
    if not np.any(base - apex):
        raise Skip("degenerate cone")
    try:
        pair = Quadric.from_planes(Plane(e), Plane(f_))
        cone = Cone(Point(*apex), Point(*base), float(c["r"]))
    except Exception:  # noqa: BLE001
        raise Skip("construction refused") from None
    members = [pair if k == 0 else cone for k in c["order"]]
    coll = QuadricCollection([m.array for m in members])
    ck = Checker()
    site = "mixed-reducibility:" + "".join("P" if k == 0 else "C" for k in c["order"])
    try:
        comp = coll.components
        ck.check(False, site + ":components-accepted-although-a-member-is-irreducible", type(comp).__name__)
    except NotReducible:
        pass
    except Exception as ex:  # noqa: BLE001
        ck.add(exc_fail(ex, site + ":components"))
    p0, p1 = np.array(v[14:17]), np.array(v[17:20])
    if not np.any(p1 - p0):
        raise Skip("degenerate line")
    line = Line(Point(*p0), Point(*p1))
    singles = []
    for m in members:
        r, f = call(site + ":single", m.intersect, line)
        if f:
            raise Skip("single call fails (subject of another property)")
        singles.append([np.asarray(x.array) for x in r])
    res, f = call(site + ":intersect", coll.intersect, line)
    if f:
        return ck.result() + [f]
    for i, want in enumerate(singles):
        try:
            got = [np.asarray(x.array)[i] for x in res]
        except Exception as ex:  # noqa: BLE001
            ck.check(False, site + ":result-shape", repr(ex)[:120])
            break
        if not ck.check(C.set_peq(got, want, 1e-6), site + ":position-value", (i, [g.tolist() for g in got], [w.tolist() for w in want])):
            break
    return ck.result()


@st.composite
def segx_case(draw, tier=None):
    d = draw(st.sampled_from([2, 3, 3]))
    shape = draw(st.sampled_from([[2], [3], [4], [2, 3], [3, 2]]))
    k = C.prod(shape)
    segs = [[[draw(C.ints(5)) for _ in range(d)], [draw(C.ints(5)) for _ in range(d)]] for _ in range(k)]
    rank = len(shape) + 2
    axis = draw(st.sampled_from(list(range(len(shape) + 1)) + list(range(-rank - 1, -2))))
    return {"d": d, "shape": shape, "segs": segs, "axis": axis, "t": draw(st.sampled_from([0, 1, 2, 3, -1])), "which": draw(st.integers(0, k - 1))}


def run_segx(c):
    """SegmentCollection.expand_dims(axis) for every admissible axis (non-negative and negative, plane and 3-space, one and two
    collection axes): the result is the collection of the same segments with one more axis of length one - contains(single point)
    is the exact answer at every position, midpoint / length / contains(own midpoints) agree with the collection built afresh from
    the expanded vertex array."""
    from fractions import Fraction

    d, shape, axis = c["d"], list(c["shape"]), c["axis"]
    k = C.prod(shape)
    rank = len(shape) + 2
    if d not in (2, 3) or len(c["segs"]) != k or not (0 <= axis <= len(shape) or -rank - 1 <= axis <= -3):
        raise Skip("malformed")
    S = [([Fraction(int(x)) for x in a], [Fraction(int(x)) for x in b]) for a, b in c["segs"]]
    if any(len(a) != d or len(b) != d or a == b for a, b in S):
        raise Skip("degenerate segment")
    a0, b0 = S[c["which"] % k]
    t = Fraction(int(c["t"]), 2)
    p = [x + t * (y - x) for x, y in zip(a0, b0)]

    def on(a, b, q):
        e = [y - x for x, y in zip(a, b)]
        w = [y - x for x, y in zip(a, q)]
        if any(e[i] * w[j] != e[j] * w[i] for i in range(d) for j in range(i)):
            return False
        dot = sum(x * y for x, y in zip(e, w))
        return 0 <= dot <= sum(x * x for x in e)

    arr = np.array([[[float(x) for x in a] + [1.0], [float(x) for x in b] + [1.0]] for a, b in S]).reshape(tuple(shape) + (2, d + 1))
    pos = axis if axis >= 0 else axis + rank + 1
    truth = np.expand_dims(np.array([on(a, b, p) for a, b in S]).reshape(tuple(shape)), pos)
    coll = SegmentCollection(arr.copy())
    ck = Checker()
    site = f"segments{d}.expand_dims({'neg' if axis < 0 else 'pos'})"
    E, f = call(site, coll.expand_dims, axis)
    if f:
        return [f]
    want = np.expand_dims(arr, pos)
    if not ck.check(isinstance(E, SegmentCollection) and np.shape(E.array) == want.shape and np.array_equal(E.array, want), site + ":array", np.shape(getattr(E, "array", None))):
        return ck.result()
    fresh = SegmentCollection(want.copy())
    P = Point(*[float(x) for x in p])
    r, f = call(site + ".contains(point)", E.contains, P)
    if f:
        ck.add(f)
    else:
        r = np.asarray(r)
        if ck.check(r.shape == truth.shape, site + ".contains(point):shape", (r.shape, truth.shape)):
            ck.check(np.array_equal(r, truth), site + ".contains(point):value", (r.tolist(), truth.tolist()))
    m, f = call(site + ".midpoint", lambda: E.midpoint)
    if f:
        ck.add(f)
    else:
        mf = fresh.midpoint
        if ck.check(np.shape(m.array) == np.shape(mf.array), site + ".midpoint:shape", (np.shape(m.array), np.shape(mf.array))):
            ck.check(m == mf, site + ".midpoint:value")
            r, f = call(site + ".contains(midpoints)", E.contains, mf)
            if f:
                ck.add(f)
            else:
                ck.check(np.shape(r) == truth.shape and bool(np.all(r)), site + ".contains(midpoints)", np.shape(r))
    ln, f = call(site + ".length", lambda: E.length)
    if f:
        ck.add(f)
    else:
        lf = np.asarray(fresh.length)
        ck.check(np.shape(ln) == lf.shape and np.allclose(ln, lf, rtol=1e-9, atol=1e-9), site + ".length", np.shape(ln))
    ck.check(np.array_equal(coll.array, arr), site + ":receiver-changed")
    return ck.result()


LAWS = [
    Law("collection_vs_single", lambda tier: case(tier), run, nontrivial, labels, {"quick": 3500, "thorough": 80000},
        "collection result at every position == single-object result there, with broadcasting", shard=250, mandatory=("one-axis", "several-axes", "one-axis+broadcast")),
    Law("many_elements", lambda tier: big_case(tier), run, lambda c: True, lambda c: [c["op"], "several-axes:>=64" if len(c["shape"]) > 1 else "one-axis:>=64"], {"quick": 480, "thorough": 6000},
        "collections of 64 and more elements, in one and in several axes (8x8, 4x4x4, 2x40, 16x4, 1x64), for the operations that end in the batched numeric kernels (transformations applied / inverted / powers, quadric contains / tangent / dual / components / intersect): every position equals the single call",
        shard=20, mandatory=("several-axes:>=64", "one-axis:>=64")),
    Law("degenerate_quadrics_of_mixed_reducibility", lambda tier: mixred_case(tier), run_mixred, lambda c: True, lambda c: ["order=" + "".join("P" if k == 0 else "C" for k in c["order"])], {"quick": 400, "thorough": 6000},
        "QuadricCollection of plane pairs and cones: components raises NotReducible as for the cone alone, intersect(line) equals the single members at every position", shard=100),
    Law("components_mixed_magnitude", lambda tier: mag_case(tier), run_mag, lambda c: len(set(c["exp"])) > 1, lambda c: ["mixed" if len(set(c["exp"])) > 1 else "uniform"],
        {"quick": 500, "thorough": 8000}, "QuadricCollection.components for line pairs whose matrices differ in magnitude by up to 1e4 vs the single-object results", shard=250),
    Law("predicates_extra_arguments", lambda tier: __import__("vp.props.c10", fromlist=["x"]).mixed_case(tier), run_pred_coll, lambda c: len({p["mode"] for p in c["pos"]}) > 1,
        lambda c: [c["what"]] + sorted({p["mode"] for p in c["pos"]}) + (["2-axes"] if c.get("bcast_first") and len(c["pos"]) == 4 else []), {"quick": 700, "thorough": 12000},
        "is_collinear/is_concurrent (4 arguments), is_coplanar (5 arguments): collection positions with different truth values vs the single-object calls", shard=350),
    Law("polygon3d_mixed_coplanarity", polymix_strategy, run_polymix, lambda c: len({x != 0 for x in c["lift"]}) > 1, lambda c: ["mixed" if len({x != 0 for x in c["lift"]}) > 1 else "uniform"],
        {"quick": 250, "thorough": 5000}, "3D polygon vs point collections mixing in-plane and off-plane points: collection answers == single answers", shard=125, mandatory=("mixed",)),
    Law("point_collection_mixed_representatives", lambda tier: mixrep_case(tier), run_mixrep, lambda c: len({min(abs(w), 2) for w in c["w"]}) > 1,
        lambda c: ["mixed" if len({min(abs(w), 2) for w in c["w"]}) > 1 else "uniform"] + (["with-infinite-point"] if 0 in c["w"] else []), {"quick": 500, "thorough": 8000},
        "PointCollection mixing unit, scaled and infinite representatives: arithmetic / normalisation / dist per position == single point", shard=250, mandatory=("mixed", "with-infinite-point")),
    Law("triangle_collection_contains", lambda tier: tric_case(tier), run_tric, lambda c: True, lambda c: [f"k{c['k']}", "single-point" if c["single_point"] else "point-collection"] + (["negative-representative"] if any(f[0] < 0 for fs in c["fv"] for f in fs) or any(f[0] < 0 for f in c["fp"]) else []),
        {"quick": 600, "thorough": 8000}, "PolygonCollection of plane triangles with arbitrary representatives: collection answer = Triangle element answer = exact membership", shard=200, mandatory=("negative-representative",)),
    Law("collections_from_vertex_arguments", lambda tier: pcv_case(tier), run_pcv, lambda c: any(c["single"]), lambda c: [c["cls"], f"d{c['d']}"] + (["single-point-first"] if c["single"][0] and not all(c["single"][: (2 if c["cls"] == "SegmentCollection" else None)]) else []),
        {"quick": 600, "thorough": 8000}, "PolygonCollection / SegmentCollection built from vertex arguments mixing single points and point collections in every position", shard=200, mandatory=("single-point-first",)),
    Law("segment_collection_expand_dims", lambda tier: segx_case(tier), run_segx, lambda c: True, lambda c: [f"d{c['d']}", "negative-axis" if c["axis"] < 0 else "non-negative-axis", f"{len(c['shape'])}-axes"],
        {"quick": 400, "thorough": 6000}, "SegmentCollection.expand_dims for every admissible axis: contains / midpoint / length of the result, position by position, against exact membership and the collection built afresh", shard=200,
        mandatory=("d3", "negative-axis")),
    Law("indexing", lambda tier: idx_case(tier), run_idx, lambda c: True, lambda c: [f"{c['kind']}{c['d']}", c["how"], "2-axes" if len(c["shape"]) > 1 else "1-axis"],
        {"quick": 1500, "thorough": 25000}, "coll[i], coll[i,j], iteration yield instances of the element class with attributes intact", shard=300, mandatory=("covlinecoll3",)),
]


def transformations_collection_times_single(case):
    """a TransformationCollection applied to a single (non-collection) object"""
    if not (str(case.get("op", "")).startswith("t*") or case.get("op") == "t.apply"):
        return False
    b = list(case.get("bcast", []))
    return len(b) >= 2 and b[0] is False and b[1] is True


PREDICATES = {"transformations_collection_times_single": transformations_collection_times_single}
