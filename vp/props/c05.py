"""C05 Tensor diagrams equal the Einstein sum they denote; epsilon/delta are exact."""
from __future__ import annotations

from itertools import product

import math

import numpy as np
from hypothesis import strategies as st

from geometer.base import KroneckerDelta, LeviCivitaTensor, Tensor, TensorDiagram
from geometer.exceptions import TensorComputationError

from .. import common as C
from .. import exact as X
from ..runner import Batch, Checker, Fail, HarnessError, Law, Skip, call, exc_fail, mismatch

RULE = (
    "Diagram programs: 1-4 nodes (rank 1-3 plus 0-3 collection axes, axis sizes 2/3 with occasional mismatch, random "
    "co/contravariant pattern, entries |c|<=3, optional epsilon/delta nodes) and 0-6 edges incl. repeated edges, self loops "
    "and one Python object at several endpoints; built by constructor tuples or add_node/add_edge; surface forms a*b, a**k, "
    "tensor_product. Reference = index-bookkeeping model + explicit einsum string + pure-Python loops (cross-checked). "
    "Non-trivial = >=2 nodes and >=2 edges, or the model predicts TensorComputationError. epsilon(n), delta(n,p): every entry."
)
ASSUMPTIONS = [
    "reference model written from the property statement: an edge consumes the lowest-numbered unused covariant axis of its "
    "source and the lowest-numbered unused contravariant axis of its target; result axes = collection axes, unused covariant "
    "axes in node order, unused contravariant axes in node order",
    "collection axes of different nodes are aligned from the right and have equal sizes (numpy.einsum cannot broadcast named axes)",
]


# ------------------------------------------------------------------------------------------- strategy
@st.composite
def program(draw, tier="quick"):
    d = draw(st.sampled_from([2, 3, 3]))
    n_nodes = draw(st.integers(1, 4))
    use_free = draw(st.sampled_from([False, False, True]))
    # one case in five: two plain bound tensors joined by edges in both directions (trace-like contractions)
    pair = draw(st.integers(0, 4)) == 0
    if pair:
        n_nodes, use_free = 2, False
    free_sizes = [draw(st.sampled_from([1, 2, 3])) for _ in range(3)]
    nodes = []
    narrow_case = draw(st.integers(0, 3)) == 0  # every plain node of the diagram has a narrow integer type
    for _ in range(n_nodes):
        special = draw(st.sampled_from([None] * 6 + ["eps", "delta"])) if not pair else None
        if special == "eps":
            nodes.append({"eps": d, "cov": draw(st.booleans())})
            continue
        if special == "delta":
            nodes.append({"delta": [d, draw(st.sampled_from([1, 1, 2]))]})
            continue
        rank = draw(st.integers(1, 3)) if not pair else draw(st.integers(2, 3))
        sizes = [d if (pair or draw(st.integers(0, 11))) else (5 - d) for _ in range(rank)]
        cov = [i for i in range(rank) if draw(st.booleans())]
        nfree = draw(st.integers(0, 3)) if use_free else 0
        fs = free_sizes[3 - nfree :] if nfree else []
        total = C.prod(fs + sizes)
        ent = draw(st.lists(st.integers(-3, 3), min_size=total, max_size=total))
        node = {"free": fs, "sizes": sizes, "cov": cov, "ent": ent, "covform": draw(st.sampled_from(["list", "list", "negative", "mixed", "bool", "range"]))}
        if narrow_case:
            # a narrow integer type with entries whose products leave its range (the sums are still far inside int64)
            node["dt"] = draw(st.sampled_from(["int8", "int16", "int16", "int32", "int32", "uint8", "uint16", "float32"]))
            node["mul"] = draw(st.sampled_from([1, 40, 300, 40000]))
        nodes.append(node)
    metas = [node_meta(n) for n in nodes]
    # edges, guided by the model so that most programs are valid
    unused = [(list(m["cov"]), list(m["con"])) for m in metas]
    edges = []
    # one program in four is built edge by edge by a caller who catches the error of a refused edge and goes on
    keep_going = not pair and draw(st.integers(0, 3)) == 0
    for _ in range(draw(st.integers(0, 6))):
        want_valid = draw(st.integers(0, 6)) != 0
        srcs = [i for i in range(n_nodes) if unused[i][0]]
        tgts = [i for i in range(n_nodes) if unused[i][1]]
        if keep_going and draw(st.integers(0, 2)) == 0:
            # an edge that must be refused although its source still has an unused covariant index: the target has no contravariant one left
            full = [i for i in range(n_nodes) if not unused[i][1]]
            if srcs and full:
                edges.append([draw(st.sampled_from(srcs)), draw(st.sampled_from(full))])
                continue
        if pair and len(edges) < 2 and unused[len(edges)][0] and unused[1 - len(edges)][1]:
            s, t = len(edges), 1 - len(edges)  # first 0 -> 1, then 1 -> 0
            unused[s][0].pop(0)
            unused[t][1].pop(0)
        elif want_valid and srcs and tgts:
            s = draw(st.sampled_from(srcs))
            t = draw(st.sampled_from(tgts))
            unused[s][0].pop(0)
            unused[t][1].pop(0)
        elif want_valid:
            break  # no unused index pair is left: a further edge could only be an invalid one
        else:
            s = draw(st.integers(0, n_nodes - 1))
            t = draw(st.integers(0, n_nodes - 1))
        edges.append([s, t])
    form = draw(st.sampled_from(["ctor", "ctor", "add_edge", "add_node"]))
    if not edges or keep_going:
        form = "add_node"  # a diagram without edges can only be built node by node
    return {"nodes": nodes, "edges": edges, "form": form, "pair": pair, "keep_going": keep_going}


def node_meta(n):
    if "eps" in n:
        k = n["eps"]
        return {"free": 0, "shape": [k] * k, "cov": list(range(k)) if n["cov"] else [], "con": [] if n["cov"] else list(range(k))}
    if "delta" in n:
        k, p = n["delta"]
        return {"free": 0, "shape": [k] * (2 * p), "cov": list(range(p)), "con": list(range(p, 2 * p))}
    nf = len(n["free"])
    rank = len(n["sizes"])
    cov = [nf + i for i in n["cov"]]
    con = [nf + i for i in range(rank) if i not in n["cov"]]
    return {"free": nf, "shape": list(n["free"]) + list(n["sizes"]), "cov": cov, "con": con}


def build_node(n):
    if "eps" in n:
        return LeviCivitaTensor(n["eps"], n["cov"])
    if "delta" in n:
        return KroneckerDelta(*n["delta"])
    arr = np.array(n["ent"], dtype=int).reshape(list(n["free"]) + list(n["sizes"]))
    if n.get("dt"):
        if n["dt"] not in ("int8", "int16", "int32", "uint8", "uint16", "float32") or n.get("mul") not in (1, 40, 300, 40000):
            raise Skip("malformed")
        arr = arr * n["mul"]
        if n["dt"].startswith("u"):
            arr = np.abs(arr)
        info = np.iinfo(n["dt"]) if n["dt"] != "float32" else None
        if info is not None and (arr.max(initial=0) > info.max or arr.min(initial=0) < info.min):
            arr = arr // n["mul"]  # entries must be representable in the requested type
        arr = arr.astype(n["dt"])
    cov = n["cov"]
    how = n.get("covform", "list")
    rank = len(n["sizes"])
    if how == "negative":
        cov = [i - rank for i in cov]  # the same indices counted from the end of the tensor part
    elif how == "mixed":
        cov = [i - rank if k % 2 else i for k, i in enumerate(cov)]
    elif how == "bool" and len(cov) in (0, rank):
        cov = len(cov) == rank
    elif how == "range" and cov == list(range(len(cov))):
        cov = range(len(cov))
    return Tensor(arr, covariant=cov, tensor_rank=rank)


# ------------------------------------------------------------------------------------------- reference model
def model(metas, edges, form):
    """-> ('error',) or ('ok', order, pairs, unused) following the property statement"""
    order = []
    unused = {}

    def add(i):
        order.append(i)
        unused[i] = (list(metas[i]["cov"]), list(metas[i]["con"]))

    if form == "add_node":
        for i in range(len(metas)):
            add(i)
    pairs = []
    for s, t in edges:
        if s not in unused:
            add(s)
        if t not in unused:
            add(t)
        fs, ft = unused[s][0], unused[t][1]
        if not fs or not ft:
            return ("error",)
        i = fs.pop(0)
        j = ft.pop(0)
        if metas[s]["shape"][i] != metas[t]["shape"][j]:
            return ("error",)
        pairs.append(((s, i), (t, j)))
    return ("ok", order, pairs, unused)


LETTERS = "abcdefghijklmnopqrstuvwxyzABCDEFGHIJKLMNOPQRSTUVWXYZ"


def reference(metas, arrays, order, pairs, unused):
    """explicit einsum subscripts for the contraction and the expected (n_free, n_cov, n_con)"""
    lab = {}
    nxt = iter(LETTERS)
    parent = {}

    def find(x):
        while parent.get(x, x) != x:
            x = parent[x]
        return x

    for a, b in pairs:
        ra, rb = find(a), find(b)
        if ra != rb:
            parent[rb] = ra
    # collection axes aligned from the right
    maxfree = max((metas[i]["free"] for i in order), default=0)
    free_lab = [next(nxt) for _ in range(maxfree)]
    subs = []
    for i in order:
        m = metas[i]
        s = ""
        for ax in range(len(m["shape"])):
            if ax < m["free"]:
                s += free_lab[maxfree - m["free"] + ax]
            else:
                r = find((i, ax))
                if r not in lab:
                    lab[r] = next(nxt)
                s += lab[r]
        subs.append(s)
    out = "".join(free_lab)
    ncov = ncon = 0
    for i in order:
        for ax in unused[i][0]:
            out += lab[find((i, ax))]
            ncov += 1
    for i in order:
        for ax in unused[i][1]:
            out += lab[find((i, ax))]
            ncon += 1
    expr = ",".join(subs) + "->" + out
    return expr, (maxfree, ncov, ncon)


def loops_eval(expr, arrays):
    """pure-Python evaluation of an explicit einsum expression (self-check of the reference)"""
    ins, out = expr.split("->")
    ins = ins.split(",")
    size = {}
    for s, a in zip(ins, arrays):
        for ch, n in zip(s, a.shape):
            if size.setdefault(ch, n) != n:
                raise HarnessError("inconsistent sizes in reference expression")
    letters = sorted(size)
    total = 1
    for ch in letters:
        total *= size[ch]
    if total > 4096:
        return None
    res = np.zeros([size[ch] for ch in out], dtype=object)
    res[...] = 0
    for vals in product(*[range(size[ch]) for ch in letters]):
        env = dict(zip(letters, vals))
        p = 1
        for s, a in zip(ins, arrays):
            p *= int(a[tuple(env[ch] for ch in s)])
            if p == 0:
                break
        if p:
            res[tuple(env[ch] for ch in out)] += p
    return res.astype(np.int64)


def run_program(case):
    nodes, edges, form = case["nodes"], case["edges"], case["form"]
    metas = [node_meta(n) for n in nodes]
    objs = [build_node(n) for n in nodes]
    arrays = [o.array for o in objs]
    for o, m, nd_ in zip(objs, metas, nodes):
        if sorted(o._covariant_indices) != m["cov"] or sorted(o._contravariant_indices) != m["con"]:
            if "ent" in nd_:
                # Tensor(array, covariant=..., tensor_rank=...) recorded other index types than it was asked for
                return [Fail("MISMATCH", "node:index-types-of-the-constructed-tensor:" + str(nd_.get("covform", "list")) + (":with-collection-axes" if nd_.get("free") else ""), str((sorted(o._covariant_indices), m["cov"])))]
            raise HarnessError("node construction does not match meta")
    keep_going = bool(case.get("keep_going")) and form == "add_node"
    refused = []
    if keep_going:
        # the caller catches the TensorComputationError of a refused edge and goes on with the same diagram: a refused edge has no effect, the
        # diagram denotes the sum of the accepted edges (all nodes are in the diagram already, so a refusal cannot leave a node behind)
        accepted = []
        for k, e in enumerate(edges):
            if model(metas, accepted + [e], form)[0] == "ok":
                accepted.append(e)
            else:
                refused.append(k)
        all_edges, edges = edges, accepted
    mres = model(metas, edges, form)
    if not nodes or (form != "add_node" and not edges):
        raise Skip("empty diagram")
    # check free-axis size compatibility (outside the model: numpy cannot broadcast named einsum axes)
    if mres[0] == "ok":
        order = mres[1]
        mf = max((metas[i]["free"] for i in order), default=0)
        al = {}
        for i in order:
            m = metas[i]
            for ax in range(m["free"]):
                pos = mf - m["free"] + ax
                if al.setdefault(pos, m["shape"][ax]) != m["shape"][ax]:
                    raise Skip("free axis sizes differ")
    ck = Checker()
    try:
        if form == "ctor":
            d = TensorDiagram(*[(objs[s], objs[t]) for s, t in edges])
        else:
            d = TensorDiagram()
            if form == "add_node":
                for o in objs:
                    d.add_node(o)
            if keep_going:
                for k, (s, t) in enumerate(all_edges):
                    try:
                        d.add_edge(objs[s], objs[t])
                    except TensorComputationError:
                        if k not in refused:
                            return [Fail("EXC:TensorComputationError", "diagram:valid-edge-refused-after-an-earlier-refusal", str((k, all_edges)))]
                        continue
                    if k in refused:
                        return [Fail("NO_RAISE", "diagram:error-expected:edge-by-edge", str((k, all_edges)))]
            else:
                for s, t in edges:
                    d.add_edge(objs[s], objs[t])
        res = d.calculate()
    except TensorComputationError as e:
        if mres[0] != "error":
            return [Fail("EXC:TensorComputationError", "diagram:unexpected-error", str(e))]
        return []
    except Exception as e:  # noqa: BLE001
        return [exc_fail(e, "diagram")]
    if mres[0] == "error":
        return [Fail("NO_RAISE", "diagram:error-expected", "model predicts TensorComputationError")]
    _, order, pairs, unused = mres
    expr, (nf, ncov, ncon) = reference(metas, arrays, order, pairs, unused)
    narrow = any(n.get("dt") for n in nodes)
    if narrow:
        # exact reference in Python integers; results that do not fit into int64 comfortably are outside the domain
        ref = np.einsum(expr, *[np.asarray(arrays[i]).astype(np.int64).astype(object) if arrays[i].dtype.kind in "iu" else arrays[i].astype(np.float64) for i in order])
        ref = np.asarray(ref)
        if ref.dtype == object:
            if max((abs(int(x)) for x in np.ravel(ref)), default=0) >= 2**62:
                raise Skip("result outside int64")
            ref = ref.astype(np.int64)
        ref2 = None
    else:
        ref = np.einsum(expr, *[arrays[i] for i in order])
        ref2 = loops_eval(expr, [arrays[i] for i in order])
    if ref2 is not None and not np.array_equal(ref, ref2):
        raise HarnessError(f"reference einsum and loops disagree for {expr}")
    selfloop = any(s == t for s, t in edges)
    tag = ":selfloop" if selfloop else ""
    ok = ck.check(res.array.shape == ref.shape, "diagram:shape" + tag, (res.array.shape, ref.shape, expr))
    if ok:
        ck.check(np.array_equal(res.array, ref) if not any(n.get("dt") == "float32" for n in nodes) else bool(np.all(np.abs(np.asarray(res.array, float) - np.asarray(ref, float)) <= 2e-5 * np.einsum(expr, *[np.abs(np.asarray(arrays[i], float)) for i in order]) + 1e-9)), "diagram:values" + tag + (":narrow-dtype" if narrow else ""), expr)
    ck.check(res.tensor_shape == (ncov, ncon), "diagram:tensor_shape" + tag, (res.tensor_shape, (ncov, ncon)))
    ck.check(sorted(res._covariant_indices) == list(range(nf, nf + ncov)), "diagram:cov-first" + tag, sorted(res._covariant_indices))
    ck.check(sorted(res._contravariant_indices) == list(range(nf + ncov, nf + ncov + ncon)), "diagram:contra-last" + tag, "")
    ck.check(res.free_indices == nf, "diagram:free" + tag, res.free_indices)
    # a copy of the diagram denotes the same sum (diagram.copy(), copy.copy(diagram)), also when it is extended afterwards
    import copy as _copy

    for cname, mk in (("copy()", lambda: d.copy()), ("copy.copy", lambda: _copy.copy(d))):
        r2, f = call("diagram:" + cname, lambda: mk().calculate())
        if f:
            ck.add(f)
        else:
            same = r2.array.shape == res.array.shape and np.array_equal(r2.array, res.array) and r2.tensor_shape == res.tensor_shape and sorted(r2._covariant_indices) == sorted(res._covariant_indices)
            ck.check(same, f"diagram:{cname}:same-result" + tag, (r2.array.shape, res.array.shape, r2.tensor_shape, res.tensor_shape))
    # ... and a diagram and its copy are independent of each other: an edge added to the copy (the first still possible one) changes what the
    # copy denotes, the original still denotes the same sum
    ext = next(((s_, t_) for s_ in order for t_ in order if unused[s_][0] and unused[t_][1] and metas[s_]["shape"][unused[s_][0][0]] == metas[t_]["shape"][unused[t_][1][0]]), None)
    if ext is not None:
        def extended():
            d2 = d.copy()
            d2.add_edge(objs[ext[0]], objs[ext[1]])
            return d2.calculate(), d.calculate()

        r3, f = call("diagram:copy-extended", extended)
        if f:
            ck.add(f)
        else:
            same = r3[1].array.shape == res.array.shape and np.array_equal(r3[1].array, res.array) and r3[1].tensor_shape == res.tensor_shape
            ck.check(same, "diagram:original-changed-by-an-edge-added-to-its-copy" + tag, (r3[1].array.shape, res.array.shape))
            ck.check(r3[0].array.ndim == res.array.ndim - 2, "diagram:copy-extended:rank", (r3[0].array.shape, res.array.shape))
    # ... also when BOTH are extended by new nodes of different rank (last, the diagram under test is changed by this): the original with an extra
    # matrix node denotes what a diagram built afresh from the same steps denotes, whatever was added to its copy in between
    if not any(m["free"] for m in metas) and not narrow:
        def rebuild():
            if form == "ctor":
                return TensorDiagram(*[(objs[s_], objs[t_]) for s_, t_ in edges])
            nd = TensorDiagram()
            if form == "add_node":
                for o in objs:
                    nd.add_node(o)
            for s_, t_ in edges:
                nd.add_edge(objs[s_], objs[t_])
            return nd

        dim0 = metas[order[0]]["shape"][-1] if order else 2
        new_m = Tensor(np.arange(1, dim0 * dim0 + 1).reshape(dim0, dim0), covariant=[0])
        new_v = Tensor(np.arange(2, dim0 + 2))

        def both_extended():
            d2 = d.copy()
            d2.add_node(new_v)
            d.add_node(new_m)
            d2.add_node(new_m)
            fresh = rebuild()
            fresh.add_node(new_m)
            return d.calculate(), fresh.calculate()

        r4, f = call("diagram:copy-and-original-extended-by-new-nodes", both_extended)
        if f:
            ck.add(f)
        else:
            ck.check(r4[0].array.shape == r4[1].array.shape and np.array_equal(r4[0].array, r4[1].array) and r4[0].tensor_shape == r4[1].tensor_shape,
                     "diagram:original-with-a-new-node-differs-from-a-diagram-built-afresh-after-its-copy-was-extended" + tag, (r4[0].array.shape, r4[1].array.shape))
    # operands untouched
    for o, a, n in zip(objs, arrays, nodes):
        if "ent" in n and not n.get("dt"):
            ck.check(np.array_equal(o.array.ravel(), np.array(n["ent"])), "diagram:operand-mutated")
    return ck.result()


def prog_nontrivial(c):
    used = {x for e in c["edges"] for x in e}
    if len(used) >= 2 and len(c["edges"]) >= 2:
        return True
    metas = [node_meta(n) for n in c["nodes"]]
    return model(metas, c["edges"], c["form"])[0] == "error"


def prog_labels(c):
    metas = [node_meta(n) for n in c["nodes"]]
    out = [c["form"], "predicted-error" if model(metas, c["edges"], c["form"])[0] == "error" else "valid"]
    if c.get("keep_going") and c["form"] == "add_node":
        acc, ref_then_ok = [], False
        seen_refusal = False
        for e in c["edges"]:
            if model(metas, acc + [e], c["form"])[0] == "ok":
                acc.append(e)
                ref_then_ok = ref_then_ok or seen_refusal
            else:
                seen_refusal = True
        out.append("goes-on-after-a-refused-edge" + (":accepted-edge-after-it" if ref_then_ok else ""))
    if any(s == t for s, t in c["edges"]):
        out.append("self-loop")
    if len({tuple(e) for e in c["edges"]}) < len(c["edges"]):
        out.append("repeated-edge")
    if any(n.get("covform") in ("negative", "mixed") and n.get("cov") and n.get("free") for n in c["nodes"]):
        out.append("negative-covariant-indices:node-with-collection-axes")
    if any(m["free"] for m in metas):
        out.append("collection-axes")
        fr = [m["free"] for m in metas if m["free"] is not None]
        if any(fr[j] >= max(fr[:j]) + 2 and max(fr[:j]) >= 1 for j in range(1, len(fr))):
            out.append("collection-axes:later-node-has-two-more")
    if any("eps" in n or "delta" in n for n in c["nodes"]):
        out.append("eps/delta-node")
    if any(n.get("dt") and n.get("mul", 1) >= 300 for n in c["nodes"]):
        out.append("narrow-integer-type-large-entries")
    if len(c["nodes"]) == 2 and [0, 1] in [list(e) for e in c["edges"]] and [1, 0] in [list(e) for e in c["edges"]]:
        out.append("two-nodes-edges-in-both-directions")
    return out


# ------------------------------------------------------------------------------------------- surface forms
@st.composite
def surface(draw, tier="quick"):
    d = draw(st.sampled_from([2, 3]))

    def node():
        rank = draw(st.integers(1, 3))
        cov = [i for i in range(rank) if draw(st.booleans())]
        total = d**rank
        return {"free": [], "sizes": [d] * rank, "cov": cov, "ent": draw(st.lists(st.integers(-3, 3), min_size=total, max_size=total))}

    return {"a": node(), "b": node(), "k": draw(st.integers(1, 4)), "form": draw(st.sampled_from(["mul", "rmul", "pow", "tensor_product", "mul_array"]))}


def run_surface(case):
    a, b = build_node(case["a"]), build_node(case["b"])
    ma, mb = node_meta(case["a"]), node_meta(case["b"])
    form = case["form"]
    ck = Checker()

    def expect(metas, arrays, edges):
        r = model(metas, edges, "ctor")
        if r[0] == "error":
            return None
        expr, sh = reference(metas, arrays, r[1], r[2], r[3])
        return np.einsum(expr, *[arrays[i] for i in r[1]]), sh

    try:
        if form == "mul":
            res = a * b
            exp = expect([mb, ma], [b.array, a.array], [[0, 1]])
        elif form == "mul_array":
            res = a * b.array
            mb2 = {"free": 0, "shape": mb["shape"], "cov": list(range(len(mb["shape"]))), "con": []}
            exp = expect([mb2, ma], [b.array, a.array], [[0, 1]])
        elif form == "rmul":
            res = a.__rmul__(b)
            exp = expect([ma, mb], [a.array, b.array], [[0, 1]])
        elif form == "pow":
            k = case["k"]
            res = a**k
            if k == 1:
                exp = (a.array, (0, len(ma["cov"]), len(ma["con"])))
                ck.check(np.array_equal(res.array, a.array) and sorted(res._covariant_indices) == ma["cov"], "pow:1")
                return ck.result()
            # a**k: chain cur -> prev, (k-1) edges, nodes in order [copy1, a, copy2, ...]: d.add_edge(cur, prev)
            metas = [ma] * k
            arrays = [a.array] * k
            # node creation order in the library: edge(cur1, prev0) adds cur1 then prev0; edge(cur2, cur1) adds cur2
            # model indices: 0 = self, i = i-th copy; edges (1,0), (2,1), ...
            edges = [[i + 1, i] for i in range(k - 1)]
            exp = expect(metas, arrays, edges)
        else:
            res = a.tensor_product(b)
            r = model([ma, mb], [], "add_node")
            expr, sh = reference([ma, mb], [a.array, b.array], r[1], r[2], r[3])
            exp = (np.einsum(expr, a.array, b.array), sh)
    except TensorComputationError as e:
        if form in ("mul", "rmul", "pow", "mul_array") and exp_is_error(case, ma, mb):
            return []
        return [Fail("EXC:TensorComputationError", f"surface:{form}:unexpected-error", str(e))]
    except Exception as e:  # noqa: BLE001
        return [exc_fail(e, f"surface:{form}")]
    if exp is None:
        return [Fail("NO_RAISE", f"surface:{form}:error-expected", "")]
    ref, (nf, ncov, ncon) = exp
    ok = ck.check(res.array.shape == ref.shape, f"surface:{form}:shape", (res.array.shape, ref.shape))
    if ok:
        ck.check(np.array_equal(res.array, ref), f"surface:{form}:values")
    ck.check(res.tensor_shape == (ncov, ncon), f"surface:{form}:tensor_shape", (res.tensor_shape, ncov, ncon))
    ck.check(sorted(res._covariant_indices) == list(range(ncov)), f"surface:{form}:cov-first")
    return ck.result()


def exp_is_error(case, ma, mb):
    form = case["form"]
    if form == "mul":
        return model([mb, ma], [[0, 1]], "ctor")[0] == "error"
    if form == "mul_array":
        mb2 = {"free": 0, "shape": mb["shape"], "cov": list(range(len(mb["shape"]))), "con": []}
        return model([mb2, ma], [[0, 1]], "ctor")[0] == "error"
    if form == "rmul":
        return model([ma, mb], [[0, 1]], "ctor")[0] == "error"
    if form == "pow":
        k = case["k"]
        return model([ma] * k, [[i + 1, i] for i in range(k - 1)], "ctor")[0] == "error"
    return False


# ------------------------------------------------------------------------------------------- epsilon / delta tables
def eps_cases(tier, seed):
    for n in range(1, (8 if tier == "thorough" else 7)):
        for cov in (True, False):
            yield {"eps": n, "cov": cov}


def run_eps(case):
    n = case["eps"]
    before = {k: v.copy() for k, v in LeviCivitaTensor._cache.items()}
    t = LeviCivitaTensor(n, case["cov"])
    t2 = LeviCivitaTensor(n, case["cov"])
    fails = []
    bad = 0
    cnt = 0
    if t.array.shape != (n,) * n:
        fails.append((mismatch(f"eps:shape:n{n}", t.array.shape), case))
    else:
        it = product(range(n), repeat=n) if n <= 6 else None
        if it is not None:
            for idx in it:
                cnt += 1
                if int(t.array[idx]) != X.perm_sign(idx):
                    bad += 1
                    if bad <= 3:
                        fails.append((mismatch(f"eps:entry:n{n}", (idx, int(t.array[idx]))), case))
        else:
            # n = 7: all 5040 permutations exactly, all other entries must be zero (count of non-zeros)
            from itertools import permutations

            for idx in permutations(range(n)):
                cnt += 1
                if int(t.array[idx]) != X.perm_sign(idx):
                    bad += 1
                    if bad <= 3:
                        fails.append((mismatch(f"eps:entry:n{n}", (idx, int(t.array[idx]))), case))
            cnt += t.array.size - 5040
            if int(np.count_nonzero(t.array)) != 5040:
                fails.append((mismatch(f"eps:nonzeros:n{n}", int(np.count_nonzero(t.array))), case))
    want = (n, 0) if case["cov"] else (0, n)
    if t.tensor_shape != want:
        fails.append((mismatch(f"eps:tensor_shape:n{n}", t.tensor_shape), case))
    if not np.array_equal(t.array, t2.array):
        fails.append((mismatch("eps:instances-differ"), case))
    for k, v in before.items():
        if not np.array_equal(LeviCivitaTensor._cache[k], v):
            fails.append((mismatch("eps:cache-changed", k), case))
    return Batch(cnt, cnt if n >= 3 else 0, fails, [case])


def delta_cases(tier, seed):
    cap = 2e5 if tier == "thorough" else 5e4
    for n in range(1, 7):
        for p in range(1, 5):
            if n ** (2 * p) <= cap:
                yield {"delta": [n, p]}


def run_delta(case):
    n, p = case["delta"]
    t = KroneckerDelta(n, p)
    t2 = KroneckerDelta(n, p)
    fails = []
    cnt = bad = 0
    if t.array.shape != (n,) * (2 * p):
        fails.append((mismatch(f"delta:shape:{n},{p}", t.array.shape), case))
    else:
        for idx in product(range(n), repeat=2 * p):
            cnt += 1
            mu, nu = idx[:p], idx[p:]
            if int(t.array[idx]) != X.kron_delta_entry(mu, nu):
                bad += 1
                if bad <= 3:
                    fails.append((mismatch(f"delta:entry:n{n}p{p}", (idx, int(t.array[idx]), X.kron_delta_entry(mu, nu))), case))
    if t.tensor_shape != (p, p):
        fails.append((mismatch(f"delta:tensor_shape:{n},{p}", t.tensor_shape), case))
    if sorted(t._covariant_indices) != list(range(p)):
        fails.append((mismatch(f"delta:cov-indices:{n},{p}", sorted(t._covariant_indices)), case))
    if not np.array_equal(t.array, t2.array):
        fails.append((mismatch("delta:instances-differ"), case))
    return Batch(cnt, cnt if p >= 2 else 0, fails, [case])


# ------------------------------------------------------------------------------------------- epsilon x epsilon contractions
def epseps_cases(tier, seed):
    for n in range(2, (8 if tier == "thorough" else 7)):
        for k in range(n, -1, -1):
            if n ** (2 * (n - k)) <= (3e5 if tier == "thorough" else 5e4):
                yield {"n": n, "k": k}


def run_epseps(case):
    """diagram of eps_cov(n) and eps_contra(n) with k edges between them: the result is the contraction over k index pairs,
    entries up to k! in modulus (720 for n = k = 6, 5040 for 7) - evaluated against int64 einsum of own permutation-sign tables"""
    from itertools import permutations

    n, k = case["n"], case["k"]
    own = np.zeros((n,) * n, dtype=np.int64)
    for idx in permutations(range(n)):
        own[idx] = X.perm_sign(idx)
    letters = "abcdefghijklmnopqrstuvwxyz"
    ia = letters[:n]
    ib = letters[:k] + letters[n : 2 * n - k]
    exp = np.einsum(f"{ia},{ib}->{ia[k:]}{ib[k:]}", own, own)
    e1, e2 = LeviCivitaTensor(n, True), LeviCivitaTensor(n, False)
    site = f"eps-eps:n{n}:k{k}"
    r, f = call(site, lambda: TensorDiagram(*[(e1, e2)] * k).calculate() if k else e1.tensor_product(e2))
    if f:
        return Batch(1, 1, [(f, case)], [case])
    fails = []
    got = np.asarray(r.array)
    if got.shape != exp.shape:
        fails.append((mismatch(site + ":shape", (got.shape, exp.shape)), case))
    elif not np.array_equal(got.astype(np.int64), exp):
        bad = np.argwhere(got.astype(np.int64) != exp)
        fails.append((mismatch(site + ":value", (bad[0].tolist(), int(got[tuple(bad[0])]), int(exp[tuple(bad[0])]), int(len(bad)))), case))
    if r.tensor_shape != (n - k, n - k):
        fails.append((mismatch(site + ":tensor_shape", r.tensor_shape), case))
    return Batch(int(exp.size), int(exp.size) if math.factorial(k) > 127 else 0, fails, [case], {"max-entry>127" if math.factorial(k) > 127 else "max-entry<=127": 1})


LAWS = [
    Law("diagram_program", lambda tier: program(tier), run_program, prog_nontrivial, prog_labels, {"quick": 3000, "thorough": 60000},
        "generated diagram programs vs reference bookkeeping model", shard=4000,
        mandatory=("self-loop", "repeated-edge", "collection-axes", "predicted-error", "valid", "narrow-integer-type-large-entries", "two-nodes-edges-in-both-directions", "collection-axes:later-node-has-two-more", "goes-on-after-a-refused-edge:accepted-edge-after-it", "negative-covariant-indices:node-with-collection-axes")),
    Law("surface_forms", lambda tier: surface(tier), run_surface, lambda c: True, lambda c: [c["form"]], {"quick": 800, "thorough": 10000},
        "a*b, b.__rmul__(a), a**k, a.tensor_product(b), a*ndarray as their defining programs", shard=4000),
    Law("epsilon_table", None, run_eps, enumerate=eps_cases, exhaustive=lambda tier: {"name": "all entries of LeviCivitaTensor(n), n=1..%d, both variances" % (7 if tier == "thorough" else 6), "size": sum(n**n for n in range(1, 8 if tier == "thorough" else 7)) * 2, "exhaustive": True},
        rule="every entry equals the permutation sign"),
    Law("epsilon_contractions", None, run_epseps, enumerate=epseps_cases, exhaustive=lambda tier: {"name": "eps_cov(n) x eps_contra(n) joined by k edges, all (n, k) with n <= %d and result size <= cap" % (7 if tier == "thorough" else 6), "size": 0, "exhaustive": True},
        rule="diagram value == int64 einsum of own permutation-sign tables (entries up to k!)", mandatory=("max-entry>127",)),
    Law("delta_table", None, run_delta, enumerate=delta_cases, exhaustive=lambda tier: {"name": "all entries of KroneckerDelta(n,p) with n^(2p) <= cap", "size": sum(n ** (2 * p) for n in range(1, 7) for p in range(1, 5) if n ** (2 * p) <= (2e5 if tier == "thorough" else 5e4)), "exhaustive": True},
        rule="every entry equals det[delta(mu_a, nu_b)], incl. p > n and p = n"),
]
