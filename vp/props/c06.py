"""C06 Transformations act as a group on every kind of object."""
from __future__ import annotations

import numpy as np
from hypothesis import strategies as st

import geometer as G
from geometer import Point, PointCollection, Transformation, TransformationCollection, identity, join

from .. import common as C
from .. import zoo as Z
from ..runner import Checker, Fail, Law, Skip, call

RULE = (
    "Object of every transformable kind (zoo: point, point at infinity, line, plane, collections, generic/dual quadric, circle, "
    "ellipse, sphere, cone, cylinder, segment, polygon (2D and planar in 3D, convex and non-convex), triangle, rectangle, "
    "tetrahedron, cuboid, polytope collections, transformation(s)) from 24 integers |c|<=6; two or three invertible integer "
    "matrices with entries in [-3,3] (exact det != 0), exponent k in [-8,8] (half of them in [-3,4]; the library evaluates t**k as one einsum over k operands, larger k is infeasible), histories of 1-6 applications. "
    "Non-trivial = at least one matrix is not affine and not symmetric; distinct by case hash."
)
ASSUMPTIONS = [
    "group laws are checked as metamorphic relations between library results (projective equality of arrays, tol 1e-7, and the "
    "library's own ==); for points and polytopes the action is additionally anchored to numpy's M @ v",
]


def kinds(d):
    return Z.KINDS2 if d == 2 else Z.KINDS3


@st.composite
def case(draw, tier="quick"):
    d = draw(st.sampled_from([2, 3]))
    kind = draw(st.sampled_from(kinds(d)))
    return {"d": d, "kind": kind, "v": draw(Z.params()), "m": draw(Z.params(9)), "k": draw(st.one_of(st.integers(-3, 4), st.integers(-8, 8))),
            "hist": draw(st.lists(st.integers(0, 2), min_size=1, max_size=6)), "mclass": [draw(st.sampled_from(Z.MCLASSES)) for _ in range(3)]}


def mats(c):
    n = c["d"] + 1
    cls = c.get("mclass", ["projective"] * 3)
    return [Z.class_matrix(c["m"], n, cls[i], off) for i, off in enumerate((0, 7, 13))]


def same_kind(ck, x, y, site):
    ck.check(type(y) is type(x), site + ":type", (type(x).__name__, type(y).__name__))
    ck.check(y.array.shape == x.array.shape, site + ":shape", (x.array.shape, y.array.shape))
    ck.check(sorted(y._covariant_indices) == sorted(x._covariant_indices) and sorted(y._contravariant_indices) == sorted(x._contravariant_indices), site + ":index-types",
             (sorted(y._covariant_indices), sorted(y._contravariant_indices)))
    for attr in ("is_dual", "pdim"):
        if hasattr(x, attr):
            ck.check(getattr(y, attr, None) == getattr(x, attr), site + ":" + attr)


def eq(ck, a, b, naxes, site, tol=1e-7):
    ok = a.array.shape == b.array.shape and C.peq_all(a.array, b.array, naxes, tol)
    ck.check(ok, site + ":peq", C.short((a.array.tolist(), b.array.tolist()), 200))
    if ok and C.peq_all(a.array, b.array, naxes, 1e-12):
        # the library's == has its own (tighter) tolerances: it is asked only when the two results agree far inside them - a chain of six
        # projective maps may lose seven digits, which is accuracy, not inequality
        r, f = call(site + ":==", lambda: a == b)
        if f:
            ck.add(f)
        else:
            ck.check(bool(r), site + ":library-eq")


def run_group(c):
    d, kind = c["d"], c["kind"]
    x, naxes = Z.build(kind, d, c["v"])
    s, t, u = [Transformation(m) for m in mats(c)]
    ck = Checker()
    tag = f"{kind}{d}"
    # associativity
    a, f = call(f"assoc:{tag}", lambda: (s * t) * x)
    b, g = call(f"assoc:{tag}", lambda: s * (t * x))
    if f or g:
        return [z for z in (f, g) if z]
    eq(ck, a, b, naxes, f"assoc:{tag}")
    same_kind(ck, x, b, f"kind:{tag}")
    # identity
    i, f = call(f"identity:{tag}", lambda: identity(d) * x)
    if f:
        ck.add(f)
    else:
        eq(ck, i, x, naxes, f"identity:{tag}")
        same_kind(ck, x, i, f"kind-identity:{tag}")
    # inverse
    r, f = call(f"inverse:{tag}", lambda: t.inverse() * (t * x))
    if f:
        ck.add(f)
    else:
        eq(ck, r, x, naxes, f"inverse:{tag}")
    # anchor of the action for point-like objects: rows are M v
    if kind in ("point", "pointinf", "pointcoll", "segment", "segmentcoll", "polygon", "polygoncoll", "triangle", "rectangle", "simplex", "cuboid"):
        tx, f = call(f"apply:{tag}", lambda: t * x)
        if f:
            ck.add(f)
        else:
            exp = np.einsum("ij,...j->...i", t.array, x.array)
            ck.check(tx.array.shape == exp.shape and C.peq_all(tx.array, exp, 1, 1e-9), f"action:{tag}:M@v", "")
    return ck.result()


def run_history(c):
    d, kind = c["d"], c["kind"]
    x, naxes = Z.build(kind, d, c["v"])
    ms = mats(c)
    ts = [Transformation(m) for m in ms]
    ck = Checker()
    tag = f"{kind}{d}"

    def seq():
        y = x
        for h in c["hist"]:
            y = ts[h] * y
        return y

    def once():
        p = None
        for h in c["hist"]:
            p = ts[h] if p is None else ts[h] * p
        return p * x

    a, f = call(f"history:{tag}", seq)
    b, g = call(f"history:{tag}", once)
    if f or g:
        return [z for z in (f, g) if z]
    eq(ck, a, b, naxes, f"history:{tag}", 1e-6)
    same_kind(ck, x, a, f"kind-history:{tag}")
    # product of transformations equals matrix product
    p = None
    M = np.eye(d + 1)
    for h in c["hist"]:
        p = ts[h] if p is None else ts[h] * p
        M = ms[h] @ M
    ck.check(isinstance(p, Transformation) and C.peq_all(p.array, M, 2, 1e-9), "history:product-matrix", "")
    return ck.result()


def run_power(c):
    d, k = c["d"], c["k"]
    n = d + 1
    ms = mats(c)
    coll = c["kind"].endswith("coll")
    ck = Checker()
    if coll:
        t = TransformationCollection(np.array(ms[:2]))
        arrs = ms[:2]
    else:
        t = Transformation(ms[0])
        arrs = ms[:1]
    site = f"power:{'coll' if coll else 'single'}:{'neg' if k < 0 else ('zero' if k == 0 else 'pos')}"
    r, f = call(site, lambda: t**k)
    if f:
        return [f]
    exp = np.array([np.linalg.matrix_power(a, k) if k >= 0 else np.linalg.matrix_power(np.linalg.inv(a), -k) for a in arrs])
    if not coll:
        exp = exp[0]
    ck.check(type(r) is type(t), site + ":type", type(r).__name__)
    ck.check(r.array.shape == exp.shape and C.peq_all(r.array, exp, 2, 1e-7), site + ":value", C.short((r.array.tolist(), exp.tolist())))
    ck.check(sorted(r._covariant_indices) == sorted(t._covariant_indices) and sorted(r._contravariant_indices) == sorted(t._contravariant_indices), site + ":index-types",
             (sorted(r._covariant_indices), sorted(r._contravariant_indices)))
    # k-fold composition through the library
    if k > 0:
        p = t
        for _ in range(k - 1):
            p, f = call(site, lambda: t * p)
            if f:
                return ck.result() + [f]
        ck.check(C.peq_all(p.array, r.array, 2, 1e-7), site + ":k-fold-composition")
    if k < 0 and all(np.linalg.cond(np.linalg.matrix_power(a, -k)) < 1e8 for a in arrs):
        # (inverting a high power is only meaningful while the power is well conditioned: M^8 of an integer matrix with
        # determinant 1 and entries of 1e5 is numerically singular for any LU based inverse)
        q, f = call(site, lambda: (t ** (-k)).inverse())
        if f:
            ck.add(f)
        else:
            ck.check(C.peq_all(q.array, r.array, 2, 1e-7), site + ":inverse-of-power")
    inv, f = call("inverse", t.inverse)
    if f:
        ck.add(f)
    else:
        prod = np.matmul(inv.array, t.array)
        ck.check(C.peq_all(prod, np.broadcast_to(np.eye(n), prod.shape), 2, 1e-9), "inverse:matrix")
        ck.check(type(inv) is type(t), "inverse:type")
    return ck.result()


def run_polytope_obs(c):
    """observational checks of transformed polytopes: cached subspaces and membership"""
    d, kind = c["d"], c["kind"]
    if kind not in ("segment", "segmentcoll", "polygon", "polygoncoll", "triangle", "rectangle"):
        raise Skip("not a segment/polygon")
    x, _ = Z.build(kind, d, c["v"])
    tag = f"{kind}{d}"
    if kind == "segment" and c["k"] % 3 != 2:
        # structured positions: segments on lines parallel to a coordinate axis / through the origin, in either vertex order (lines with a
        # vanishing coefficient and every sign pattern of the others)
        from geometer import Segment

        v = [int(q) for q in c["v"]]
        p0 = np.array([float(q) for q in v[:d]])
        if c["k"] % 3 == 0:
            e = np.zeros(d)
            e[abs(v[d]) % d] = float(v[d + 1] or 1)
            p0, p1 = p0, p0 + e
            tag += ":axis-parallel"
        else:
            if not np.any(p0):
                raise Skip("zero direction")
            p0, p1 = p0 * float(v[d] or 1), p0 * float((v[d] or 1) + (v[d + 1] or 2))
            tag += ":through-the-origin"
        if c["k"] < 0:
            p0, p1 = p1, p0
        x = Segment(Point(np.append(p0, 1.0)), Point(np.append(p1, 1.0)))
    t = Transformation(mats(c)[0])
    if ":" in tag and abs(c["k"]) % 2 == 0:
        # ... moved by a map that keeps the structure: identity, translation, scaling, quarter turn, reflection in a coordinate axis
        simple = np.eye(d + 1)
        which = abs(int(c["m"][0])) % 5
        if which == 1:
            simple[:d, -1] = [float(q) for q in c["m"][1:1 + d]]
        elif which == 2:
            simple[:d, :d] = np.diag([float((abs(int(q)) % 3) + 1) * (1 if int(q) % 2 else -1) for q in c["m"][1:1 + d]])
        elif which == 3:
            simple[0, 0], simple[0, 1], simple[1, 0], simple[1, 1] = 0.0, -1.0, 1.0, 0.0
        elif which == 4:
            simple[0, 0] = -1.0
        t = Transformation(simple)
        tag += ":structure-preserving-map"
    ck = Checker()
    y, f = call(f"apply:{tag}", lambda: t * x)
    if f:
        return [f]
    if kind.startswith("segment"):
        a, b = x.array[..., 0, :], x.array[..., 1, :]
        mid = a / a[..., -1:] + b / b[..., -1:]
        tm = np.einsum("ij,...j->...i", t.array, mid)
        pm = Point(tm) if tm.ndim == 1 else PointCollection(tm)
        lt, f = call(f"apply-line:{tag}", lambda: t * x._line)
        if f:
            ck.add(f)
        else:
            ck.check(C.peq_all(y._line.array, lt.array, y._line.array.ndim - (1 if kind == "segmentcoll" else 0) if False else (1 if d == 2 else 2), 1e-7), f"cached-line:{tag}", "")
        ck.check(bool(np.all(np.any(np.abs(np.asarray(y._line.array)) > 1e-12, axis=tuple(range(-1, -(2 if d == 2 else 3), -1))))), f"cached-line-is-not-the-zero-tensor:{tag}", "")
        # the cached line must contain the transformed vertices
        for vtx in y.vertices:
            cc, f = call(f"contains:{tag}", y._line.contains, vtx)
            if f:
                ck.add(f)
            else:
                ck.check(np.all(cc), f"cached-line-contains-vertices:{tag}")
        # the image of the midpoint lies in the image segment iff the map does not send a point of the segment to infinity
        w = np.einsum("j,...j->...", t.array[-1], a / a[..., -1:]) * np.einsum("j,...j->...", t.array[-1], b / b[..., -1:])
        if np.all(w > 0):
            cc, f = call(f"contains:{tag}", y.contains, pm)
            if f:
                ck.add(f)
            else:
                ck.check(np.all(cc), f"image-contains-image-of-midpoint:{tag}")
    else:
        if d == 3:
            vs = y.vertices
            pl, f = call(f"join:{tag}", lambda: join(*vs[:3]))
            if f:
                ck.add(f)
            else:
                ck.check(y._plane is not None and C.peq_all(y._plane.array, pl.array, 1, 1e-7), f"cached-plane:{tag}")
            for vtx in vs:
                cc, f = call(f"contains:{tag}", y._plane.contains, vtx)
                if f:
                    ck.add(f)
                else:
                    ck.check(np.all(cc), f"cached-plane-contains-vertices:{tag}")
        else:
            ck.check(y._plane is None, f"cached-plane-2d:{tag}")
    return ck.result()


def nontrivial(c):
    return any(m != "isometry" for m in c.get("mclass", ["projective"])[:2])


def labels(c):
    return [f"{c['kind']}{c['d']}"] + ["matrix:" + m for m in c.get("mclass", [])[:2]]


# ------------------------------------------------------------------------------------------- large collections of transformations
@st.composite
def big_case(draw, tier="quick"):
    return {"d": draw(st.sampled_from([2, 3])), "m": draw(Z.params(9)), "mclass": [draw(st.sampled_from(Z.MCLASSES)) for _ in range(3)], "size": draw(st.sampled_from([5, 63, 64, 70])),
            "int": draw(st.booleans()), "v": draw(Z.params(6)), "grid": draw(st.sampled_from([None, None, 0, 1, 2, 3]))}


GRIDS = {64: [(8, 8), (2, 32), (1, 64), (4, 4, 4)], 70: [(7, 10), (2, 5, 7), (70, 1)], 63: [(7, 9), (3, 3, 7)], 5: [(5, 1), (1, 5)]}


def run_big(c):
    """a TransformationCollection of up to 70 matrices (integer-typed or float): inverse, t**-1 and the action on point and line
    collections agree element by element with the single transformations (the linear-algebra kernels switch algorithm at 64)"""
    d = c["d"]
    n = d + 1
    base = mats(c)
    size = c["size"]
    arrs = []
    for i in range(size):
        a = np.array(base[i % 3], float) * [1, 2, -1, 3][(i // 3) % 4]
        if i % 7 == 3:
            a = a.T.copy()
        arrs.append(a)
    A = np.stack(arrs)
    if c["int"]:
        if not np.all(A == np.round(A)):
            raise Skip("not integral")
        A = A.astype(np.int64)
    grid = (size,)
    if c.get("grid") is not None:
        # the same matrices arranged along two or three collection axes
        if size not in GRIDS or not isinstance(c["grid"], int):
            raise Skip("malformed grid")
        grid = GRIDS[size][c["grid"] % len(GRIDS[size])]
    t = TransformationCollection(A.reshape(grid + (n, n)))
    ck = Checker()
    site = f"big:{'int' if c['int'] else 'float'}:{'>=64' if size >= 64 else '<64'}" + (":several-axes" if len(grid) > 1 else "")

    class _Flat:  # results are compared position by position in the flat order of the collection axes
        def __init__(self, o, m):
            self.ok = o.array.shape[: len(grid)] == grid
            self.array = o.array.reshape((size,) + o.array.shape[len(grid):]) if self.ok else np.zeros((size,) + (n,) * m)

    inv, f = call(site + ":inverse", t.inverse)
    if f:
        return [f]
    inv_t = inv
    if not ck.check(inv.array.shape == grid + (n, n), site + ":inverse:shape", inv.array.shape):
        return ck.result()
    inv = _Flat(inv, 2)
    if True:
        prod = np.matmul(inv.array.astype(float), A.astype(float))
        ck.check(C.peq_all(prod, np.broadcast_to(np.eye(n), prod.shape), 2, 1e-9), site + ":inverse*t=identity", C.short(prod[0].tolist()))
    p, f = call(site + ":power", lambda: t**-1)
    if f:
        ck.add(f)
    else:
        p = _Flat(p, 2)
        ck.check(p.ok and C.peq_all(p.array, np.linalg.inv(A.astype(float)), 2, 1e-9), site + ":t**-1")
    pts = np.array([[((7 * i + 3 * j + c["v"][j % len(c["v"])]) % 11) - 5 for j in range(n)] for i in range(size)], float)
    pts[:, -1] = 1
    X_ = PointCollection(pts.reshape(grid + (n,)))
    y, f = call(site + ":apply", lambda: inv_t * (t * X_))
    if f:
        ck.add(f)
    else:
        y = _Flat(y, 1)
        ck.check(y.ok and C.peq_all(y.array, pts, 1, 1e-7), site + ":inverse*(t*x)=x:points")
    lines = np.array([[((5 * i + 2 * j + c["v"][(j + 3) % len(c["v"])]) % 9) - 4 for j in range(n)] for i in range(size)], float)
    lines[~np.any(lines, axis=1), 0] = 1
    if d == 2:
        Lc = G.LineCollection(lines.reshape(grid + (n,)))
        z, f = call(site + ":apply-lines", lambda: t * Lc)
        if f:
            ck.add(f)
        else:
            exp = np.einsum("nji,nj->ni", np.linalg.inv(A.astype(float)), lines)  # l' = M^-T l
            z = _Flat(z, 1)
            ck.check(z.ok and C.peq_all(z.array, exp, 1, 1e-7), site + ":t*lines")
        if len(grid) >= 2:
            # a collection of lines with one collection axis more than the transformations (three layers): transformation [j, k] acts on the lines
            # [i, j, k] of every layer i
            layers = np.stack([lines, np.roll(lines, 1, axis=1) + np.array([1.0, 0, 0]), lines[::-1] * 2.0])
            layers[~np.any(layers, axis=2), 0] = 1
            L3 = G.LineCollection(layers.reshape((3,) + grid + (n,)))
            z3, f = call(site + ":apply-lines-with-an-extra-axis", lambda: t * L3)
            if f:
                ck.add(f)
            elif ck.check(np.asarray(z3.array).shape == (3,) + grid + (n,), site + ":t*lines-with-an-extra-axis:shape", np.asarray(z3.array).shape):
                exp3 = np.einsum("nji,lnj->lni", np.linalg.inv(A.astype(float)), layers)
                got3 = np.asarray(z3.array).reshape((3, size, n))
                ck.check(all(C.peq_all(got3[i], exp3[i], 1, 1e-7) for i in range(3)), site + ":t*lines-with-an-extra-axis", "")
        # round 16: TWO collection axes more than the transformations (2 x 3 layers, a non-square leading shape): transformation [k...] acts on
        # the lines [a, b, k...] of every layer (a, b); the order of the two new axes must be the one of the argument
        lay2 = np.stack([np.stack([np.roll(lines, a + b, axis=1) * (1.0 + a) + np.array([float(b), 0, 0]) for b in range(3)]) for a in range(2)])
        lay2[~np.any(lay2, axis=3), 0] = 1
        L4 = G.LineCollection(lay2.reshape((2, 3) + grid + (n,)))
        z4, f = call(site + ":apply-lines-with-two-extra-axes", lambda: t * L4)
        if f:
            ck.add(f)
        elif ck.check(np.shape(z4.array) == (2, 3) + grid + (n,), site + ":t*lines-with-two-extra-axes:shape", np.shape(z4.array)):
            exp4 = np.einsum("nji,abnj->abni", np.linalg.inv(A.astype(float)), lay2)
            got4 = np.asarray(z4.array).reshape((2, 3, size, n))
            ck.check(all(C.peq_all(got4[a, b], exp4[a, b], 1, 1e-7) for a in range(2) for b in range(3)), site + ":t*lines-with-two-extra-axes", "")
    return ck.result()


# ------------------------------------------------------------------------------------------- collections of polyhedra
@st.composite
def polycoll_case(draw, tier="quick"):
    return {"n": draw(st.sampled_from([1, 2, 3, 6])), "m": draw(Z.params(9)), "mclass": [draw(st.sampled_from(["affine", "isometry", "shear", "unimodular"])) for _ in range(3)],
            "v": draw(Z.params(4)), "single_t": draw(st.booleans())}


def run_polycoll(c):
    """n cuboids stored in one Polyhedron tensor with a collection axis (shape (n, faces, vertices, 4)) under a
    TransformationCollection of n matrices (or one Transformation): polyhedron k is moved by transformation k, face by face
    and vertex by vertex; the inverse collection moves it back"""
    n = c["n"]
    c3 = dict(c, d=3)
    base = mats(c3)
    v = c["v"]
    cubs = []
    for i in range(n):
        o = np.array([v[(3 * i) % len(v)], v[(3 * i + 1) % len(v)], v[(3 * i + 2) % len(v)]], float)
        e = [1.0 + (v[(i + 5) % len(v)] % 3), 1.0 + (v[(i + 7) % len(v)] % 2), 2.0]
        cubs.append(G.Cuboid(Point(*o), Point(*(o + [e[0], 0, 0])), Point(*(o + [0, e[1], 0])), Point(*(o + [0, 0, e[2]]))))
    P_ = G.Polyhedron(np.stack([x.array for x in cubs]))
    Ms = [np.array(base[i % 3], float) * [1, 2, -1][(i // 3) % 3] for i in range(n)]
    if any(abs(np.linalg.det(M)) < 1e-9 for M in Ms):
        raise Skip("singular")
    single = c["single_t"] or n == 1
    t = Transformation(Ms[0]) if single else TransformationCollection(np.stack(Ms))
    ck = Checker()
    site = f"polyhedra-collection:n{n}:{'single-t' if single else 't-collection'}"
    R, f = call(site, lambda: t * P_)
    if f:
        return [f]
    if not ck.check(np.asarray(R.array).shape == P_.array.shape and isinstance(R, G.Polyhedron), site + ":shape", (np.asarray(R.array).shape, type(R).__name__)):
        return ck.result()
    for k in range(n):
        M = Ms[0] if single else Ms[k]
        exp = np.einsum("ij,fvj->fvi", M, cubs[k].array)
        if not ck.check(C.peq_all(np.asarray(R.array)[k], exp, 1, 1e-9), site + ":polyhedron-k-moved-by-transformation-k", k):
            break
    back, f = call(site + ":inverse", lambda: t.inverse() * R)
    if f:
        ck.add(f)
    else:
        ck.check(np.asarray(back.array).shape == P_.array.shape and C.peq_all(back.array, P_.array, 1, 1e-7), site + ":inverse*(t*x)=x")
    return ck.result()


LAWS = [
    Law("group", lambda tier: case(tier), run_group, nontrivial, labels, {"quick": 1600, "thorough": 40000},
        "(s*t)*x = s*(t*x), identity, inverse, same kind; action anchored to M@v for point-like objects", shard=400),
    Law("history", lambda tier: case(tier), run_history, nontrivial, labels, {"quick": 1000, "thorough": 25000},
        "applying t1..tm in sequence = applying their product once", shard=400),
    Law("power", lambda tier: case(tier), run_power, lambda c: c["k"] not in (0, 1), lambda c: [f"k={c['k']}", "coll" if c["kind"].endswith("coll") else "single"],
        {"quick": 600, "thorough": 10000}, "t**k = k-fold composition / inverse power / identity, for single and collection", shard=400),
    Law("large_collection", lambda tier: big_case(tier), run_big, lambda c: c["size"] >= 64, lambda c: ["int" if c["int"] else "float", "size>=64" if c["size"] >= 64 else "size<64", f"d{c['d']}"] + (["several-axes>=64"] if c.get("grid") is not None and c["size"] >= 64 else []),
        {"quick": 300, "thorough": 5000}, "TransformationCollection of up to 70 (integer-typed or float) matrices: inverse, t**-1, action on points and lines element by element", shard=100,
        mandatory=("int", "size>=64", "several-axes>=64")),
    Law("polyhedra_collection", lambda tier: polycoll_case(tier), run_polycoll, lambda c: c["n"] > 1, lambda c: [f"n{c['n']}", "single-t" if (c["single_t"] or c["n"] == 1) else "t-collection"],
        {"quick": 300, "thorough": 5000}, "collections of cuboids in one Polyhedron tensor under transformation collections: element-wise action and inverse", shard=150,
        mandatory=("t-collection", "n6")),
    Law("polytope_observation", lambda tier: case(tier).filter(lambda c: c["kind"] in ("segment", "segmentcoll", "polygon", "polygoncoll", "triangle", "rectangle")),
        run_polytope_obs, nontrivial, labels, {"quick": 2400, "thorough": 20000},
        "cached _line/_plane of transformed polytopes and membership of transformed interior points", shard=400),
]
