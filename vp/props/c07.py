"""C07 Transformations preserve incidence and commute with join and meet."""
from __future__ import annotations

from fractions import Fraction

import numpy as np
from hypothesis import strategies as st

import geometer as G
from geometer import Conic, Line, Plane, Point, PointCollection, Quadric, Transformation, crossratio, join, meet, translation

from .. import common as C
from .. import exact as X
from .. import zoo as Z
from ..runner import Checker, Fail, Law, Skip, call
from . import c01

RULE = (
    "Invertible integer matrix with entries in [-3,3] (generally non-affine) and a configuration from integers |c|<=9: the "
    "arguments of every join/meet kind of C01; exactly incident and exactly non-incident point/line, point/plane, line/plane "
    "pairs; quadrics N^T D N with exact rational points, exact off-points, tangent hyperplanes S x and exactly classified "
    "non-tangent ones; four collinear points (and a viewpoint); polytopes from the zoo. "
    "Non-trivial = the matrix is not a similarity (M^T M not a multiple of a diagonal +-1 form in the affine part) and not affine."
)
ASSUMPTIONS = ["exact truth values from Fraction arithmetic; projective comparison tol 1e-7 (results pass through SVD/QR in _matrix_transform)"]


def tmat(c):
    return Z.class_matrix(c["m"], c["d"] + 1, c.get("mclass", "projective"))


def nontrivial(c):
    try:
        m = tmat(c)
    except Skip:
        return False
    return c.get("mclass", "projective") != "isometry"


# ------------------------------------------------------------------------------------------- join / meet commute
@st.composite
def jm_case(draw, tier="quick"):
    kind = draw(st.sampled_from(list(c01.KINDS)))
    dim, op, nb = c01.KINDS[kind]
    base = [draw(C.hpoint(dim, 9)) for _ in range(nb)]
    return {"d": dim, "kind": kind, "base": base, "coef": [draw(st.integers(-3, 3)), draw(st.sampled_from([1, -1, 2]))],
            "scales": [draw(C.scale()) for _ in range(3)], "m": draw(Z.params(9)), "mclass": draw(st.sampled_from(Z.MCLASSES)),
            "plus": draw(st.sampled_from([None, None, [1, 0, 1], [-1, 1, 1], [1, -1, 3], [-1, 0, 3]]))}


def run_jm(c):
    kind, d = c["kind"], c["d"]
    n = d + 1
    base = [C.exact_vec(v) for v in c["base"]]
    args = c01.args_exact(kind, base, [Fraction(x) for x in c["coef"]])
    if c01.exact_result(kind, args, n) is None:
        raise Skip("not in general position")
    objs = [c01.build_single(a, s, False, None) for a, s in zip(args, c["scales"])]
    t = Transformation(tmat(c))
    op = join if c01.KINDS[kind][1] == "join" else meet
    a, f = call(f"t*{kind}", lambda: t * op(*objs))
    b, g = call(f"{kind}(t*)", lambda: op(*[t * o for o in objs]))
    if f or g:
        return [z for z in (f, g) if z]
    ck = Checker()
    naxes = a.array.ndim
    ck.check(type(a) is type(b), f"commute:{kind}:type", (type(a).__name__, type(b).__name__))
    ck.check(a.array.shape == b.array.shape and C.peq_all(a.array, b.array, naxes, 1e-7), f"commute:{kind}", C.short((a.array.tolist(), b.array.tolist())))
    at_inf = lambda z: isinstance(z, G.point.PointTensor) and bool(np.any(z.isinf))  # noqa: E731
    plain, fplain = call(f"{kind}", lambda: op(*objs))
    if c.get("plus") is not None and fplain is None and not any(at_inf(z) for z in list(objs) + [plain]):
        # the translation by a point written with the operator: x + p (p given by any representative) is translation(p) * x
        # (for finite points; a point at infinity is a direction in the point arithmetic of C19 and becomes a finite point)
        vec = np.array([float(x) for x in c["m"][:d]])
        fac = C.scale_value(c["plus"])
        Pp = Point(np.append(vec, 1.0) * fac)
        tr = translation(*vec)
        x0, f0 = call(f"{kind}:+p", lambda: op(*objs) + Pp)
        x1, f1 = call(f"{kind}(+p)", lambda: op(*[o + Pp for o in objs]))
        x2, f2 = call(f"translation*{kind}", lambda: tr * op(*objs))
        x3, f3 = call(f"{kind}:-(-p)", lambda: op(*objs) - Point(np.append(-vec, 1.0) * fac))
        for f in (f0, f1, f2, f3):
            if f:
                ck.add(f)
        if not (f0 or f1 or f2 or f3):
            for name, y in (("x+p=op(args+p)", x1), ("x+p=translation(p)*x", x2), ("x+p=x-(-p)", x3)):
                ck.check(y.array.shape == x0.array.shape and C.peq_all(x0.array, y.array, naxes, 1e-7), f"commute:{kind}:{name}", C.short((np.asarray(x0.array).tolist(), np.asarray(y.array).tolist())))
    return ck.result()


# ------------------------------------------------------------------------------------------- incidence
INC = ["point_line2", "point_line3", "point_plane", "line_plane"]


@st.composite
def inc_case(draw, tier="quick"):
    cfg = draw(st.sampled_from(INC))
    d = 2 if cfg.endswith("2") else 3
    return {"d": d, "cfg": cfg, "on": draw(st.booleans()), "base": [draw(C.hpoint(d, 9)) for _ in range(4)],
            "coef": [draw(st.integers(-3, 3)) for _ in range(3)], "m": draw(Z.params(9)), "mclass": draw(st.sampled_from(Z.MCLASSES)), "scale": draw(C.scale()), "covform": draw(st.sampled_from([False, False, True]))}


def run_inc(c):
    cfg, d, on = c["cfg"], c["d"], c["on"]
    b = [C.exact_vec(v) for v in c["base"]]
    co = [Fraction(x) for x in c["coef"]]
    nz = lambda x: x if x != 0 else Fraction(1)  # noqa: E731
    s = C.scale_value(c["scale"])
    f2 = lambda v: np.array([float(x) for x in v])  # noqa: E731
    if cfg in ("point_line2", "point_plane"):
        k = d  # number of spanning points of the hyperplane
        span = b[:k]
        if X.rank(span) < k:
            raise Skip("dependent")
        h = X.cofactor_hyperplane(span)
        if on:
            p = [sum((co[i] if i else nz(co[0])) * span[i][j] for i in range(k)) for j in range(d + 1)]
        else:
            p = b[3]
        if all(x == 0 for x in p):
            raise Skip("zero point")
        truth = X.dot(h, p) == 0
        S = (Line if d == 2 else Plane)(c01.pow2_normalise(f2(h)) * s)
        P = Point(f2(p))
    elif cfg == "point_line3":
        if X.rank(b[:2]) < 2:
            raise Skip("dependent")
        p = [nz(co[0]) * x + co[1] * y for x, y in zip(b[0], b[1])] if on else b[2]
        if all(x == 0 for x in p):
            raise Skip("zero point")
        truth = X.rank([b[0], b[1], p]) == 2
        S = Line(Z.plucker_dual([int(x) for x in b[0]], [int(x) for x in b[1]]) * s)
        P = Point(f2(p))
    else:
        if X.rank(b[:2]) < 2:
            raise Skip("dependent")
        if on:
            if X.rank(b[:3]) < 3:
                raise Skip("dependent")
            h = X.cofactor_hyperplane(b[:3])
        else:
            h = b[3]
            if all(x == 0 for x in h):
                raise Skip("zero")
        truth = X.dot(h, b[0]) == 0 and X.dot(h, b[1]) == 0
        S = Plane(c01.pow2_normalise(f2(h)) * s)
        P = Line(Z.plucker_dual([int(x) for x in b[0]], [int(x) for x in b[1]]))
    t = Transformation(tmat(c))
    ck = Checker()
    site = f"incidence:{cfg}:{'on' if truth else 'off'}"
    if c.get("covform") and d == 3 and cfg not in ("point_line2", "point_plane"):
        # the line of 3-space in its covariant form (the public covariant_tensor): the same line, moved by the same rule
        # (as the argument of Plane.contains; a covariant line does not accept points in its own contains)
        if isinstance(P, Line):
            P = P.covariant_tensor
            site += ":line-in-covariant-form"
    before, f = call(site, S.contains, P)
    if f:
        return [f]
    after, f = call(site, lambda: (t * S).contains(t * P))
    if f:
        return [f]
    ck.check(bool(before) == truth, site + ":before", bool(before))
    ck.check(bool(after) == truth, site + ":after", bool(after))
    return ck.result()


# ------------------------------------------------------------------------------------------- quadrics
PYTH2 = [(3, 4, 5), (5, 12, 13), (4, -3, 5), (0, 1, 1), (1, 0, -1), (-8, 15, 17)]  # y0^2 + y1^2 - y2^2 = 0
PYTH3 = [(1, 2, 2, 3), (2, 3, 6, 7), (1, 4, 8, 9), (0, 0, 1, 1), (4, 4, -7, 9), (2, -6, 9, 11)]  # y0^2+y1^2+y2^2-y3^2 = 0


@st.composite
def quad_case(draw, tier="quick"):
    d = draw(st.sampled_from([2, 3]))
    return {"d": d, "n": draw(Z.params(9)), "m": draw(Z.params(9)), "mclass": draw(st.sampled_from(Z.MCLASSES)), "pt": draw(st.integers(0, 5)), "pt2": draw(st.integers(0, 5)),
            "h": draw(C.ivec(d + 1, 5)), "off": draw(C.hpoint(d, 5)), "cls": draw(st.sampled_from(["Quadric", "Conic"])), "scale": draw(C.scale()), "used": draw(st.booleans()), "cplx": draw(st.sampled_from([False, False, True]))}


def run_quad(c):
    d = c["d"]
    n = d + 1
    N = Z.int_matrix(c["n"], n, 3)
    Nf = [[Fraction(int(x)) for x in r] for r in N]
    D = [1] * d + [-1]
    # S = N^T D N ; x on S  <=>  N x on D
    S = [[sum(Nf[k][i] * D[k] * Nf[k][j] for k in range(n)) for j in range(n)] for i in range(n)]
    adjN = [[(-1) ** (i + j) * X.det([[Nf[r][cc] for cc in range(n) if cc != i] for r in range(n) if r != j]) for j in range(n)] for i in range(n)]
    pts = PYTH2 if d == 2 else PYTH3
    y = [Fraction(a) for a in pts[c["pt"]]]
    x = [sum(adjN[i][j] * y[j] for j in range(n)) for i in range(n)]  # x = adj(N) y ~ N^-1 y
    off = C.exact_vec(c["off"])
    q_off = sum(off[i] * S[i][j] * off[j] for i in range(n) for j in range(n))
    s = C.scale_value(c["scale"])
    Sa = np.array([[float(v) for v in r] for r in S]) * s
    cls = Conic if (c["cls"] == "Conic" and d == 2) else Quadric
    Q = cls(Sa)
    t = Transformation(tmat(c))
    ck = Checker()
    f2 = lambda v: np.array([float(a) for a in v])  # noqa: E731
    if c.get("used"):
        # the quadric has been queried before it is transformed (tangency, dual, degeneracy, ...)
        Z.warm(Q)
        call("is_tangent", Q.is_tangent, (Line if d == 2 else Plane)(f2([Fraction(a) for a in c["h"]])))
    tQ, f = call("t*quadric", lambda: t * Q)
    if f:
        return [f]
    ck.check(type(tQ) is type(Q), "quadric:type", type(tQ).__name__)
    xs = max(abs(a) for a in x)
    X_ = Point(f2(x) / float(xs))  # moderate magnitude: the library's tolerances are absolute by design
    for name, P, truth in (("on", X_, True), ("off", Point(f2(off)), q_off == 0)):
        b, f = call("quadric.contains", Q.contains, P)
        a, g = call("quadric.contains", lambda: tQ.contains(t * P))
        if f or g:
            ck.add(f or g)
            continue
        ck.check(bool(b) == truth, f"quadric:contains:{name}:before", bool(b))
        ck.check(bool(a) == truth, f"quadric:contains:{name}:after", bool(a))
    # tangent hyperplane at x and its image
    hx = [sum(S[i][j] * x[j] for j in range(n)) for i in range(n)]
    tg, f = call("quadric.tangent", lambda: Q.tangent(X_))
    if f:
        ck.add(f)
    elif isinstance(tg, tuple):
        ck.check(False, "quadric:tangent:point-on-conic-not-recognised")
    else:
        ck.check(C.peq_all(tg.array, C.to_c(hx), 1, 1e-9), "quadric:tangent:value", "")
        a, f = call("t*tangent", lambda: t * tg)
        b, g = call("tangent(t*)", lambda: tQ.tangent(t * X_))
        if f or g:
            ck.add(f or g)
        elif isinstance(b, tuple):
            ck.check(False, "quadric:tangent:image-point-not-recognised-on-image-conic")
        else:
            ck.check(C.peq_all(a.array, b.array, 1, 1e-7), "quadric:tangent:commutes", C.short((a.array.tolist(), b.array.tolist())))
    # is_tangent: exact classification  h^T adj(S) h == 0
    adjS = [[(-1) ** (i + j) * X.det([[S[r][cc] for cc in range(n) if cc != i] for r in range(n) if r != j]) for j in range(n)] for i in range(n)]
    for name, h in (("tangent", hx), ("generic", [Fraction(a) for a in c["h"]])):
        val = sum(h[i] * adjS[i][j] * h[j] for i in range(n) for j in range(n))
        truth = val == 0
        H = (Line if d == 2 else Plane)(f2(h) / max(1.0, float(max(abs(a) for a in h))))
        b, f = call("is_tangent", Q.is_tangent, H)
        a, g = call("is_tangent", lambda: tQ.is_tangent(t * H))
        if f or g:
            ck.add(f or g)
            continue
        ck.check(bool(b) == truth, f"quadric:is_tangent:{name}:before", (bool(b), truth))
        # is_tangent evaluates h^T Q* h with the un-normalised dual of the image quadric against an absolute 1e-8: it is only asked while the
        # terms of that form stay below 1e6 (their rounding error below 1e-9) - moderate magnitudes, here of an intermediate result
        try:
            size = float(np.max(np.abs(np.asarray(tQ.dual.array)))) * float(np.max(np.abs(np.asarray((t * H).array)))) ** 2
        except Exception:  # noqa: BLE001
            size = 0.0
        if size < 1e6:
            ck.check(bool(a) == truth, f"quadric:is_tangent:{name}:after", (bool(a), truth))
    # complex coordinates: a transformation with Gaussian-integer entries, and the same quadric with complex coefficients
    # (S' = D^T S D with a complex diagonal D, points D^-1 x): incidence and tangency are algebraic, nothing is conjugated
    if c.get("cplx"):
        rng = [int(v) for v in c["m"]]
        Mi = np.array(tmat(c), dtype=complex)
        Mi = Mi + 1j * np.array([[(rng[(3 * i + j) % len(rng)] % 3) - 1 for j in range(n)] for i in range(n)], dtype=float)
        if abs(np.linalg.det(Mi)) > 0.5:
            tc = Transformation(Mi)
            xc = np.array(f2(x) / float(xs), dtype=complex)
            for name, Qc, Xc in (("complex-map", Q, xc),
                                 ("complex-quadric", cls(np.diag([1, 1j, 1, 2][:n]) @ np.asarray(Sa, dtype=complex) @ np.diag([1, 1j, 1, 2][:n])), np.array([1, -1j, 1, 0.5][:n]) * xc)):
                tt = tc if name == "complex-map" else t
                img, f = call(f"t*quadric:{name}", lambda: tt * Qc)
                if f:
                    ck.add(f)
                    continue
                b, f = call(f"quadric.contains:{name}", Qc.contains, Point(Xc))
                a, g = call(f"quadric.contains:{name}", lambda: img.contains(tt * Point(Xc)))
                if f or g:
                    ck.add(f or g)
                    continue
                ck.check(bool(b), f"quadric:{name}:contains:before", bool(b))
                ck.check(bool(a), f"quadric:{name}:contains:after", bool(a))
                A = np.asarray(img.array, dtype=complex)
                y = np.asarray(tt.array, dtype=complex) @ Xc
                A, y = A / np.max(np.abs(A)), y / np.max(np.abs(y))
                ck.check(abs(y @ A @ y) < 1e-7, f"quadric:{name}:image-point-on-image-quadric(algebraic)", complex(y @ A @ y))
    # the dual quadric (two covariant indices) is an object in its own right: it can be transformed, the image of the dual is
    # the dual of the image, and it contains exactly the tangent hyperplanes before and after
    if abs(np.linalg.det(Sa)) > 1e-6:
        Qd, f = call("quadric.dual", lambda: Q.dual)
        tQd, g = (None, None) if f else call("t*dual", lambda: t * Qd)
        if f or g:
            ck.add(f or g)
        else:
            dual_of_image, f = call("(t*quadric).dual", lambda: tQ.dual)
            if f:
                ck.add(f)
            else:
                ck.check(C.peq_all(tQd.array, dual_of_image.array, 2, 1e-6) and tQd.is_dual is True, "quadric:dual:image-of-dual=dual-of-image", C.short((np.asarray(tQd.array).tolist(), np.asarray(dual_of_image.array).tolist())))
            Ht = (Line if d == 2 else Plane)(f2(hx) / max(1.0, float(max(abs(a) for a in hx))))
            b, f = call("dual.contains", Qd.contains, Ht)
            a, g = call("dual.contains", lambda: tQd.contains(t * Ht))
            if f or g:
                ck.add(f or g)
            else:
                ck.check(bool(b) and bool(a), "quadric:dual:contains-tangent-hyperplane:before-and-after", (bool(b), bool(a)))
    return ck.result()


# ------------------------------------------------------------------------------------------- cross ratio
PARS = [(1, 0), (0, 1), (1, 1), (1, -1), (2, 1), (1, 2), (3, -1), (-2, 3), (1, 3), (-3, 2)]  # pairwise non-proportional


@st.composite
def cr_case(draw, tier="quick"):
    d = draw(st.sampled_from([2, 2, 3]))
    pars = [list(p) for p in draw(st.permutations(PARS))[:4]]
    return {"d": d, "A": draw(C.hpoint(d, 6)), "B": draw(C.hpoint(d, 6)), "V": draw(C.hpoint(d, 6)), "pars": pars, "m": draw(Z.params(9)), "mclass": draw(st.sampled_from(Z.MCLASSES)),
            "form": draw(st.sampled_from(["points", "from_point", "lines"] if d == 2 else ["points", "lines"])), "vinf": draw(st.sampled_from([False, False, True]))}


def run_cr(c):
    d = c["d"]
    A, B, V = [C.exact_vec(v) for v in (c["A"], c["B"], c["V"])]
    if X.rank([A, B]) < 2:
        raise Skip("dependent")
    pars = [[Fraction(a), Fraction(b)] for a, b in c["pars"]]
    for i in range(4):
        if pars[i] == [0, 0]:
            raise Skip("zero parameter")
        for j in range(i):
            if pars[i][0] * pars[j][1] == pars[i][1] * pars[j][0]:
                raise Skip("equal parameters")
    br = lambda p, q: p[0] * q[1] - p[1] * q[0]  # noqa: E731
    num = br(pars[0], pars[2]) * br(pars[1], pars[3])
    den = br(pars[0], pars[3]) * br(pars[1], pars[2])
    pts = [[s * a + t_ * b for a, b in zip(A, B)] for s, t_ in pars]
    f2 = lambda v: np.array([float(x) for x in v])  # noqa: E731
    P = [Point(f2(p)) for p in pts]
    t = Transformation(tmat(c))
    form = c["form"]
    ck = Checker()
    if form == "points":
        args0, args1 = P, [t * p for p in P]
        kw0 = kw1 = {}
    elif d == 3:
        # four concurrent coplanar lines of 3-space through V (a finite vertex or, for a pencil of parallel lines, one at infinity)
        if c.get("vinf"):
            V = V[:-1] + [Fraction(0)]
        if X.rank([A, B, V]) < 3:
            raise Skip("vertex on the line")
        ls = [Line(Z.plucker_dual([int(x) for x in V], [int(x) for x in p])) for p in pts]
        args0, args1 = ls, [t * l for l in ls]
        kw0 = kw1 = {}
        form = "lines3" + (":vertex-at-infinity" if c.get("vinf") else "")
    else:
        if X.rank([A, B, V]) < 3:
            raise Skip("viewpoint on the line")
        Vp = Point(f2(V))
        if form == "from_point":
            args0, args1 = P, [t * p for p in P]
            kw0, kw1 = {"from_point": Vp}, {"from_point": t * Vp}
        else:
            try:
                ls = [join(Vp, p) for p in P]
            except Exception:  # noqa: BLE001
                raise Skip("join failed")
            args0, args1 = ls, [t * l for l in ls]
            kw0 = kw1 = {}
    r0, f = call(f"crossratio:{form}", lambda: crossratio(*args0, **kw0))
    r1, g = call(f"crossratio:{form}", lambda: crossratio(*args1, **kw1))
    if f or g:
        return [z for z in (f, g) if z]
    exp = (complex(num), complex(den))
    ck.check(C.p1_eq(complex(r0), exp), f"crossratio:{form}:value", (complex(r0), (num, den)))
    ck.check(C.p1_eq(complex(r1), exp, 1e-6), f"crossratio:{form}:invariance", (complex(r1), (num, den)))
    return ck.result()


# ------------------------------------------------------------------------------------------- polytopes
POLY = ["segment", "polygon", "triangle", "rectangle", "simplex", "cuboid", "segmentcoll", "polygoncoll"]


@st.composite
def poly_case(draw, tier="quick"):
    d = draw(st.sampled_from([2, 3]))
    kind = draw(st.sampled_from([k for k in POLY if k in (Z.KINDS2 if d == 2 else Z.KINDS3)]))
    return {"d": d, "kind": kind, "v": draw(Z.params()), "m": draw(Z.params(9)), "mclass": draw(st.sampled_from(Z.MCLASSES)), "used": draw(st.booleans())}


def run_poly(c):
    x, _ = Z.build(c["kind"], c["d"], c["v"])
    t = Transformation(tmat(c))
    if c.get("used"):
        Z.warm(x)
    tag = f"{c['kind']}{c['d']}"
    y, f = call(f"apply:{tag}", lambda: t * x)
    if f:
        return [f]
    ck = Checker()
    for attr in ("vertices", "edges", "faces"):
        if not hasattr(x, attr):
            continue
        a, f = call(f"{attr}:{tag}", lambda: list(getattr(x, attr)))
        b, g = call(f"{attr}:{tag}", lambda: list(getattr(y, attr)))
        if f or g:
            ck.add(f or g)
            continue
        if not ck.check(len(a) == len(b), f"{attr}:{tag}:count", (len(a), len(b))):
            continue
        for i, (u, w) in enumerate(zip(a, b)):
            tu, f = call(f"apply-{attr}:{tag}", lambda: t * u)
            if f:
                ck.add(f)
                break
            if not ck.check(tu.array.shape == w.array.shape and C.peq_all(tu.array, w.array, 1, 1e-7), f"{attr}:{tag}:in-order", i):
                break
    return ck.result()


# ------------------------------------------------------------------------------------------- collections with several axes
@st.composite
def jmc_case(draw, tier="quick"):
    kind = draw(st.sampled_from(list(c01.KINDS)))
    dim, op, nb = c01.KINDS[kind]
    bases = [[draw(C.hpoint(dim, 9)) for _ in range(nb)] for _ in range(draw(st.sampled_from([2, 3, 5])))]
    return {"d": dim, "kind": kind, "bases": bases, "coef": [draw(st.integers(-3, 3)), draw(st.sampled_from([1, -1, 2]))],
            "m": draw(Z.params(9)), "mclass": draw(st.sampled_from(Z.MCLASSES)), "k": draw(st.sampled_from([1, 2, 3])), "grid": draw(st.sampled_from([[], [2], [3, 2], [2, 1], [1, 3]])),
            "short": draw(st.sampled_from([None, None, 0, 1])), "tcoll": draw(st.booleans())}


def run_jmc(c):
    """the arguments are collections with up to three collection axes (shape grid + (k,)), one argument possibly with the last
    axis only, and the map is a TransformationCollection of k maps (or one map): t * op(args) and op(t * args) agree with each
    other and, position by position, with the single map applied to the single objects"""
    kind, d = c["kind"], c["d"]
    n = d + 1
    k, grid = c["k"], tuple(c["grid"])
    if k not in (1, 2, 3) or len(grid) > 2 or any(g not in (1, 2, 3) for g in grid) or not c["bases"]:
        raise Skip("malformed")
    shape = grid + (k,)
    N = int(np.prod(shape))
    singles = []
    for pos in range(N):
        base = [C.exact_vec(v) for v in c["bases"][pos % len(c["bases"])]]
        if len(base) != c01.KINDS[kind][2]:
            raise Skip("malformed")
        args = c01.args_exact(kind, base, [Fraction(x) for x in c["coef"]])
        if c01.exact_result(kind, args, n) is None:
            raise Skip("not in general position")
        singles.append([c01.build_single(a, [1, 0, 1], False, None) for a in args])
    nargs = len(singles[0])
    COLL = {G.Point: G.PointCollection, G.Line: G.LineCollection, G.Plane: G.PlaneCollection}
    objs = []
    for j in range(nargs):
        o0 = singles[0][j]
        if c.get("short") == j and grid:
            # this argument has the last collection axis only (the same k objects for every grid position)
            for pos in range(N):
                singles[pos][j] = singles[pos % k][j]
            arr = np.stack([singles[l][j].array for l in range(k)])
        else:
            arr = np.stack([singles[pos][j].array for pos in range(N)]).reshape(shape + o0.array.shape)
        objs.append(COLL[type(o0)](arr))
    if c.get("short") is not None and grid:
        for pos in range(N):
            base_args = [singles[pos][j] for j in range(nargs)]
            r, f = call("single", lambda: (join if c01.KINDS[kind][1] == "join" else meet)(*base_args))
            if f:
                raise Skip("shared argument makes a position degenerate")
    mats = [np.array(Z.class_matrix(c["m"][l:] + c["m"][:l], n, c.get("mclass", "projective")), float) for l in range(k)]
    tcoll = c["tcoll"] and k > 1
    t = G.TransformationCollection(np.stack(mats)) if tcoll else Transformation(mats[0])
    op = join if c01.KINDS[kind][1] == "join" else meet
    tag = f"{kind}:{'t-collection' if tcoll else 'single-t'}:axes{len(shape)}" + (":short-argument" if c.get("short") is not None and grid else "")
    a, f = call(f"t*{tag}", lambda: t * op(*objs))
    b, g = call(f"{tag}(t*)", lambda: op(*[t * o for o in objs]))
    if f or g:
        return [z for z in (f, g) if z]
    ck = Checker()
    el = singles[0][0].array.ndim if False else None
    ok = ck.check(a.array.shape[: len(shape)] == shape and a.array.shape == b.array.shape, f"commute:{tag}:shape", (a.array.shape, b.array.shape, shape))
    if not ok:
        return ck.result()
    naxes = a.array.ndim - len(shape)
    ck.check(C.peq_all(a.array, b.array, naxes, 1e-7), f"commute:{tag}", C.short((a.array.tolist(), b.array.tolist())))
    A = a.array.reshape((N,) + a.array.shape[len(shape):])
    elements = list(t) if (tcoll and c["m"][0] % 2) else None  # the single maps: elements of the collection (iteration or indexing)
    for pos in range(N):
        if tcoll:
            tl = elements[pos % k] if elements is not None else t[pos % k]
            if not isinstance(tl, Transformation):
                ck.check(False, f"commute:{tag}:element-class", type(tl).__name__)
                break
        else:
            tl = t
        r, f = call("single", lambda: tl * op(*singles[pos]))
        if f:
            ck.add(f)
            break
        if not ck.check(C.peq_all(A[pos], r.array, naxes, 1e-7), f"commute:{tag}:position-by-position", (pos, C.short(A[pos].tolist()), C.short(r.array.tolist()))):
            break
    return ck.result()


LAWS = [
    Law("join_meet_commute", lambda tier: jm_case(tier), run_jm, nontrivial, lambda c: [c["kind"]] + (["operator-translation"] if c.get("plus") is not None else []), {"quick": 1500, "thorough": 30000},
        "t*join(..) = join(t*..), t*meet(..) = meet(t*..) for every arity/kind", shard=400),
    Law("join_meet_commute_collections", lambda tier: jmc_case(tier), run_jmc, nontrivial,
        lambda c: [c["kind"], f"axes{len(c['grid']) + 1}", "t-collection" if c["tcoll"] and c["k"] > 1 else "single-t"] + (["t-collection:axes3"] if c["tcoll"] and c["k"] > 1 and len(c["grid"]) == 2 else [])
        + (["short-argument:axes3"] if c.get("short") is not None and len(c["grid"]) == 2 else []), {"quick": 700, "thorough": 15000},
        "collections with one to three collection axes under one map or a collection of maps: t*op(args) = op(t*args) = single results position by position", shard=200,
        mandatory=("t-collection:axes3", "short-argument:axes3")),
    Law("incidence", lambda tier: inc_case(tier), run_inc, nontrivial, lambda c: [c["cfg"], "on" if c["on"] else "off"] + (["line-in-covariant-form"] if c.get("covform") and c["d"] == 3 and c["cfg"] not in ("point_line2", "point_plane", "point_line3") else []), {"quick": 1200, "thorough": 30000},
        "contains before = contains after = exact truth value", shard=400, mandatory=("line-in-covariant-form",)),
    Law("quadric", lambda tier: quad_case(tier), run_quad, nontrivial, lambda c: [f"d{c['d']}", c["cls"]] + (["queried-before-transformed"] if c.get("used") else []) + (["complex"] if c.get("cplx") else []), {"quick": 800, "thorough": 20000},
        "point on/off quadric, tangent hyperplane, is_tangent before and after", shard=300),
    Law("crossratio", lambda tier: cr_case(tier), run_cr, nontrivial, lambda c: [c["form"], f"d{c['d']}"] + (["pencil-of-parallel-lines"] if c["d"] == 3 and c["form"] == "lines" and c.get("vinf") else []), {"quick": 1000, "thorough": 20000},
        "cross ratio of four collinear points / lines / from a viewpoint: exact value and invariance", shard=400),
    Law("polytope_vertices", lambda tier: poly_case(tier), run_poly, nontrivial, lambda c: [f"{c['kind']}{c['d']}"] + (["queried-before-transformed"] if c.get("used") else []), {"quick": 500, "thorough": 10000},
        "transformed polytope has the images of vertices/edges/faces in order", shard=300),
]


# ------------------------------------------------------------------------------------------- equivalent ways of asking
from .. import forms as _forms  # noqa: E402

LAWS.append(
    Law("call_forms", lambda tier: _forms.call_forms_strategy("C07")(tier), _forms.run_call_forms("C07"), lambda c: True, lambda c: [c["entry"], f"d{c['d']}"], {"quick": 500, "thorough": 6000},
        "the same question asked in several ways (positional / keyword arguments, method / function / operator form, symmetric argument orders) on the objects of the shared pool: same answer", shard=250)
)
