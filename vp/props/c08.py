"""C08 Transformation constructors realise their Euclidean / projective definition."""
from __future__ import annotations

import math
from fractions import Fraction
from itertools import combinations

import numpy as np
from hypothesis import strategies as st

import geometer as G
from geometer import (
    Conic, Line, Plane, Point, PointCollection, Transformation, TransformationCollection, affine_transform, identity, reflection, rotation, scaling, translation,
)

from .. import common as C
from .. import exact as X
from .. import zoo as Z
from ..runner import Checker, Fail, Law, Skip, call
from .c01 import as_int
from .c10 import UNIT

RULE = (
    "Offsets (tuple and Point forms, |c|<=9), angles k*pi/12 in (-2pi, 2pi) incl. multiples of pi/2, axis directions with all sign "
    "patterns (not only coordinate axes), scale vectors with negative and fractional entries, mirror lines/planes through and off "
    "the origin with generic normals plus the hyperplane at infinity, affine matrix/offset pairs, identity with collection dims; "
    "pairs of (n+2)-point frames in exact general position (2D/3D, also with points at infinity); two conics given as images of "
    "the unit circle under integer projective maps with three exact rational points each. Non-trivial = axis/normal has >= 2 "
    "non-zero components and the mirror misses the origin, frames are not affine images of each other."
)
ASSUMPTIONS = ["oracle: Cartesian closed forms in float64, tol 1e-9 (1e-6 behind linalg.solve / conic intersection)",
               "the sense of rotation(a, axis) is not asserted (the statement says |a|)"]


def P(v, s=1.0):
    return Point(np.array(list(v) + [1], dtype=float) * s)


def img(t, p):
    """Cartesian image of the Cartesian point p under the transformation (through the library's multiplication)"""
    r = t * P(p)
    a = r.array
    return a[:-1] / a[-1]


@st.composite
def basic_case(draw, tier="quick"):
    what = draw(st.sampled_from(["translation", "rotation2", "rotation3", "scaling", "reflection2", "reflection3", "affine", "identity", "powers"]))
    return {"what": what, "v": [draw(C.ints(9)) for _ in range(16)], "a": draw(st.integers(-23, 23)), "b": draw(st.integers(-23, 23)),
            "form": draw(st.sampled_from(["tuple", "point"])), "s": draw(C.scale()), "through_origin": draw(st.booleans()), "idt": draw(st.booleans()),
            "turns": draw(st.sampled_from([0, 0, 0, 3, 400, 2000])), "frac": draw(st.integers(-7, 7))}


def inverse_and_dual_action(ck, t, site, v):
    """every constructed transformation: t.inverse() is the matrix inverse, and hyperplanes (which are moved by the inverse
    transpose) go where the points of them go: t * h == M^-T h"""
    n = t.array.shape[-1]
    M = np.asarray(t.array, float)
    if abs(np.linalg.det(M)) < 1e-9:
        return
    inv, f = call(site + ":inverse", t.inverse)
    if f:
        ck.add(f)
    else:
        ck.check(C.peq_all(inv.array @ M, np.eye(n), 2, 1e-9), site + ":inverse*t=identity", (inv.array @ M).tolist())
    h = np.array([float(x) for x in (list(v[10:10 + n - 1]) + [v[5] or 1])])
    if not np.any(h[:-1]):
        h[0] = 1.0
    H = (Line if n == 3 else Plane)(h)
    r, f = call(site + ":hyperplane", lambda: t * H)
    if f:
        ck.add(f)
    else:
        ck.check(C.peq_all(r.array, np.linalg.inv(M).T @ h, 1, 1e-9), site + ":t*hyperplane=M^-T.h", (np.asarray(r.array).tolist(), (np.linalg.inv(M).T @ h).tolist()))


def run_basic(c):
    what, v = c["what"], c["v"]
    ck = Checker()
    if what == "translation":
        d = 2 + (v[15] % 2)
        off = np.array(v[:d], float)
        arg = tuple(off) if c["form"] == "tuple" else (Point(as_int(np.append(off, 1.0) * C.scale_value(c["s"]), c.get("idt"))),)
        t, f = call("translation", translation, *arg)
        if f:
            return [f]
        for k in range(3):
            p = np.array(v[d + k * d : 2 * d + k * d], float)
            r, f = call("translation:apply", img, t, p)
            if f:
                return [f]
            ck.check(np.allclose(r, p + off, atol=1e-9), f"translation:{c['form']}:p+v", (r.tolist(), (p + off).tolist()))
        # direction at infinity unchanged
        dirn = np.array(list(v[:d]) + [0], float)
        if np.any(dirn):
            r, f = call("translation:apply", lambda: t * Point(dirn))
            if f is None:
                ck.check(C.peq_all(r.array, dirn), "translation:direction-fixed")
        ck.check(isinstance(t, Transformation), "translation:type")
        return ck.result()
    if what == "rotation2":
        # angles of many turns and not only multiples of 15 degrees: k*pi/12 + j/16 + 2*pi*turns (the reference uses the same float)
        a, b = c["a"] * math.pi / 12 + c.get("frac", 0) / 16 + 2 * math.pi * c.get("turns", 0), c["b"] * math.pi / 12
        t, f = call("rotation", rotation, a)
        if f:
            return [f]
        p = np.array(v[:2], float)
        exp = np.array([math.cos(a) * p[0] - math.sin(a) * p[1], math.sin(a) * p[0] + math.cos(a) * p[1]])
        r, f = call("rotation:apply", img, t, p)
        if f:
            return [f]
        ck.check(np.allclose(r, exp, atol=1e-9), "rotation2:counter-clockwise", (r.tolist(), exp.tolist()))
        u, f = call("rotation", lambda: rotation(a) * rotation(b))
        w, g = call("rotation", rotation, a + b)
        if f or g:
            return ck.result() + [z for z in (f, g) if z]
        ck.check(C.peq_all(u.array, w.array, 2, 1e-9), "rotation2:additive")
        ck.check(C.peq_all(t.inverse().array, rotation(-a).array, 2, 1e-9), "rotation2:inverse")
        about, f = call("rotation about a point", lambda: translation(v[2], v[3]) * t * translation(-v[2], -v[3]))
        if f:
            ck.add(f)
        else:
            inverse_and_dual_action(ck, about, "rotation2:about-a-point", v)
        return ck.result()
    if what == "rotation3":
        # angles of many turns and not only multiples of 15 degrees: k*pi/12 + j/16 + 2*pi*turns (the reference uses the same float)
        a, b = c["a"] * math.pi / 12 + c.get("frac", 0) / 16 + 2 * math.pi * c.get("turns", 0), c["b"] * math.pi / 12
        ax = np.array(v[:3], float)
        if not np.any(ax):
            raise Skip("zero axis")
        axis = Point(as_int(np.append(ax, 1.0) * C.scale_value(c["s"]), c.get("idt"))) if c["form"] == "tuple" else Point(as_int(np.append(ax, 0.0), c.get("idt")))
        if c["form"] == "point":
            # a point at infinity as axis: normalized_array is the raw array
            pass
        t, f = call("rotation(axis)", rotation, a, axis)
        if f:
            return [f]
        M = t.array
        R = M[:3, :3]
        ck.check(np.allclose(M[3], [0, 0, 0, 1]) and np.allclose(M[:3, 3], 0), "rotation3:affine-linear", M.tolist())
        ck.check(np.allclose(R @ R.T, np.eye(3), atol=1e-9), "rotation3:orthogonal")
        ck.check(abs(np.linalg.det(R) - 1) < 1e-9, "rotation3:det+1", float(np.linalg.det(R)))
        ck.check(np.allclose(R @ ax, ax, atol=1e-9 * max(1, np.max(np.abs(ax)))), "rotation3:fixes-axis", (R @ ax).tolist())
        ck.check(abs(np.trace(R) - (1 + 2 * math.cos(a))) < 1e-9, "rotation3:angle", (float(np.trace(R)), 1 + 2 * math.cos(a)))
        u, f = call("rotation(axis)", lambda: rotation(a, axis) * rotation(b, axis))
        w, g = call("rotation(axis)", rotation, a + b, axis)
        if f or g:
            return ck.result() + [z for z in (f, g) if z]
        ck.check(C.peq_all(u.array, w.array, 2, 1e-9), "rotation3:additive")
        ck.check(C.peq_all(t.inverse().array, rotation(-a, axis).array, 2, 1e-9), "rotation3:inverse")
        if c["form"] == "tuple":
            # a finite axis point is a projective point: any other representative (negative, complex factor) is the same axis
            for fac in (-2.0, 0.5, 1j, 1 - 2j):
                t2, f = call("rotation(axis)", rotation, a, Point(np.asarray(axis.array) * fac))
                if f:
                    ck.add(f)
                else:
                    ck.check(C.peq_all(t2.array, M, 2, 1e-9) and np.all(np.abs(np.imag(t2.array)) < 1e-9), "rotation3:representative-of-the-axis-point", (str(fac), np.asarray(t2.array).tolist()))
        return ck.result()
    if what == "scaling":
        d = 2 + (v[15] % 2)
        fac = [x / 2 if x else 1.5 for x in v[:d]]
        t, f = call("scaling", scaling, *fac)
        if f:
            return [f]
        p = np.array(v[d : 2 * d], float)
        r, f = call("scaling:apply", img, t, p)
        if f:
            return [f]
        ck.check(np.allclose(r, p * np.array(fac), atol=1e-9), "scaling:multiplies", (r.tolist(), fac))
        return ck.result()
    if what == "powers":
        # the n-th power of a constructed map is the map constructed from n times the parameter: translation(v)**n = translation(n v),
        # rotation(a)**n = rotation(n a) (also about an axis), scaling(f)**n = scaling(f**n); exponents up to +-10 (the power is
        # evaluated as one contraction, another algorithm than repeated multiplication)
        n = [2, 3, 5, 7, 8, 9, 10, -2, -8, -9, 4, 6][abs(v[14]) % 12]
        kind = ["translation", "rotation2", "scaling", "rotation3", "translation3"][abs(v[13]) % 5]
        ang = c["a"] * math.pi / 12 + c.get("frac", 0) / 16
        if kind == "translation":
            t, want = (translation, (float(v[0]), float(v[1]))), (translation, (n * float(v[0]), n * float(v[1])))
        elif kind == "translation3":
            t, want = (translation, (float(v[0]), float(v[1]), float(v[2]))), (translation, (n * float(v[0]), n * float(v[1]), n * float(v[2])))
        elif kind == "rotation2":
            t, want = (rotation, (ang,)), (rotation, (n * ang,))
        elif kind == "scaling":
            fac = [[1.5, 0.5, -1.25, 2.0][abs(x) % 4] for x in v[:2]]
            t, want = (scaling, tuple(fac)), (scaling, tuple(f ** n for f in fac))
        else:
            ax = np.array(v[:3], float)
            if not np.any(ax):
                raise Skip("zero axis")
            n = max(-9, min(9, n))
            t, want = (lambda a_: rotation(a_, axis=Point(*ax)), (ang,)), (lambda a_: rotation(a_, axis=Point(*ax)), (n * ang,))
        T, f = call(f"powers:{kind}:construct", t[0], *t[1])
        if f:
            return [f]
        W, f = call(f"powers:{kind}:construct", want[0], *want[1])
        if f:
            return [f]
        R, f = call(f"powers:{kind}:t**n", lambda: T**n)
        if f:
            return [f]
        ck.check(R.array.shape == W.array.shape and C.peq_all(np.asarray(R.array, complex), np.asarray(W.array, complex), 2, 1e-7), f"powers:{kind}:t**n=constructor(n*parameter)" + (":|n|>=8" if abs(n) >= 8 else ""), (n, np.asarray(R.array).tolist(), np.asarray(W.array).tolist()))
        return ck.result()
    if what in ("reflection2", "reflection3"):
        d = int(what[-1])
        nrm = np.array(v[:d], float)
        if not np.any(nrm):
            raise Skip("zero normal")
        a = np.zeros(d) if c["through_origin"] else np.array(v[d : 2 * d], float)
        s = C.scale_value(c["s"])
        h = (Line if d == 2 else Plane)(as_int(np.append(nrm, -np.dot(nrm, a)) * s, c.get("idt")))
        t, f = call("reflection", reflection, h)
        if f:
            return [f]
        site = f"reflection{d}"
        # fixes points of h
        if d == 2:
            onpts = [a, a + np.array([-nrm[1], nrm[0]])]
        else:
            u = np.cross(nrm, np.array([1.0, 2.0, 3.0]))
            if not np.any(u):
                u = np.cross(nrm, np.array([1.0, 0.0, 0.0]))
            onpts = [a, a + u, a + np.cross(nrm, u)]
        for p in onpts:
            r, f = call(site, img, t, p)
            if f:
                return [f]
            ck.check(np.allclose(r, p, atol=1e-8 * max(1, np.max(np.abs(p)))), site + ":fixes-mirror-pointwise", (r.tolist(), p.tolist()))
        p = np.array(v[8 : 8 + d], float)
        foot = p - np.dot(p - a, nrm) / np.dot(nrm, nrm) * nrm
        exp = 2 * foot - p
        r, f = call(site, img, t, p)
        if f:
            return [f]
        ck.check(np.allclose(r, exp, atol=1e-8 * max(1, np.max(np.abs(exp)))), site + ":cartesian-mirror-image", (r.tolist(), exp.tolist()))
        m, f = call(site + ":mirror", h.mirror, P(p))
        if f:
            ck.add(f)
        else:
            ck.check(C.peq_all(m.array, np.append(exp, 1.0), 1, 1e-6), site + ":agrees-with-mirror", (m.array.tolist(), exp.tolist()))
        # a complex point (such as the common points of two disjoint circles): the mirror image is the image under the reflection
        q = np.array([float(x) for x in (list(v[11:11 + d]) + [1, 2, 3])[:d]])
        if np.any(q):
            pc = np.append(p + 1j * q, 1.0)
            mc, f = call(site + ":mirror(complex point)", h.mirror, Point(pc))
            if f:
                ck.add(f)
            else:
                want = np.asarray(t.array, complex) @ pc
                ck.check(C.peq_all(np.asarray(mc.array, complex), want, 1, 1e-6), site + ":agrees-with-mirror:complex-point", (np.asarray(mc.array).tolist(), want.tolist()))
        rr, f = call(site, lambda: t * t)
        if f:
            ck.add(f)
        else:
            ck.check(C.peq_all(rr.array, np.eye(d + 1), 2, 1e-9), site + ":involution")
        inverse_and_dual_action(ck, t, site, v)
        fixed, f = call(site + ":mirror-image", lambda: t * h)
        if f:
            ck.add(f)
        else:
            ck.check(C.peq_all(fixed.array, h.array, 1, 1e-9), site + ":fixes-the-mirror-as-a-hyperplane", (np.asarray(fixed.array).tolist(), np.asarray(h.array).tolist()))
        # hyperplane at infinity
        hinf = (Line if d == 2 else Plane)(np.append(np.zeros(d), 1.0) * s)
        ti, f = call("reflection(infinity)", reflection, hinf)
        if f:
            ck.add(f)
        else:
            ck.check(C.peq_all(ti.array, np.eye(d + 1), 2, 1e-12), site + ":at-infinity-is-identity")
        return ck.result()
    if what == "affine":
        d = 2 + (v[15] % 2)
        M = np.array(v[: d * d], float).reshape((d, d))
        # matrix and offset of different types: integer-typed matrix with a fractional offset (and the other way round),
        # arrays or plain nested lists
        off = np.array(v[9 : 9 + d], float) + c.get("frac", 0) / 8
        if c.get("idt"):
            M = M.astype(np.int64)
        elif c.get("turns"):
            off, M = np.array(v[9 : 9 + d], dtype=np.int64), M / 4
        if c["form"] == "tuple":
            M, off = M.tolist(), off.tolist()
        t, f = call("affine_transform", affine_transform, M, off)
        if f:
            return [f]
        M, off = np.asarray(M, float), np.asarray(off, float)
        p = np.array(v[12 : 12 + d], float)
        r = t.array @ np.append(p, 1.0)
        ck.check(np.allclose(r, np.append(M @ p + off, 1.0)), "affine_transform:Mx+b", r.tolist())
        t2, f = call("affine_transform", affine_transform, None, off)
        if f:
            ck.add(f)
        else:
            ck.check(np.allclose(t2.array @ np.append(p, 1.0), np.append(p + off, 1.0)), "affine_transform:offset-only")
        t3, f = call("affine_transform", affine_transform, M)
        if f:
            ck.add(f)
        else:
            ck.check(np.allclose(t3.array @ np.append(p, 1.0), np.append(M @ p, 1.0)), "affine_transform:matrix-only")
        inverse_and_dual_action(ck, t, "affine_transform", v)
        return ck.result()
    if what == "identity":
        d = 2 + (v[15] % 2)
        dims = [None, (1,), (3,), (2, 2)][v[14] % 4]
        t, f = call("identity", identity, d, dims)
        if f:
            return [f]
        if dims is None:
            ck.check(isinstance(t, Transformation) and np.array_equal(t.array, np.eye(d + 1)), "identity:single")
        else:
            ck.check(isinstance(t, TransformationCollection) and t.array.shape == tuple(dims) + (d + 1, d + 1) and np.all(t.array == np.eye(d + 1)), "identity:collection", t.array.shape)
            ck.check(t.tensor_shape == (1, 1) and t.free_indices == len(dims), "identity:index-types", (t.tensor_shape, t.free_indices))
        return ck.result()
    raise KeyError(what)


def basic_nontrivial(c):
    v = c["v"]
    if c["what"] in ("rotation3", "reflection3"):
        return sum(1 for x in v[:3] if x) >= 2 and not c["through_origin"]
    if c["what"] == "reflection2":
        return all(v[:2]) and not c["through_origin"]
    return True


# ------------------------------------------------------------------------------------------- from_points
@st.composite
def frame_case(draw, tier="quick"):
    d = draw(st.sampled_from([2, 3]))
    return {"d": d, "src": [draw(C.hpoint(d, 6)) for _ in range(d + 2)], "dst": [draw(C.hpoint(d, 6)) for _ in range(d + 2)], "s": [draw(C.scale()) for _ in range(d + 2)]}


def general_position(pts, d):
    ex = [[Fraction(x) for x in p] for p in pts]
    return all(X.rank(list(sub)) == d + 1 for sub in combinations(ex, d + 1))


def run_frame(c):
    d = c["d"]
    if not general_position(c["src"], d) or not general_position(c["dst"], d):
        raise Skip("frame not in general position")
    sc = [C.scale_value(s) for s in c["s"]]
    src = [Point(np.array(p, float) * s) for p, s in zip(c["src"], sc)]
    dst = [Point(np.array(p, float) * s) for p, s in zip(c["dst"], reversed(sc))]
    t, f = call("from_points", Transformation.from_points, *zip(src, dst))
    if f:
        return [f]
    ck = Checker()
    ck.check(isinstance(t, Transformation), "from_points:type")
    for i, (a, b) in enumerate(zip(src, dst)):
        r, f = call("from_points:apply", lambda: t * a)
        if f:
            return [f]
        ck.check(C.peq_all(r.array, b.array, 1, 1e-7), f"from_points{d}:maps-source-to-target", (i, r.array.tolist(), b.array.tolist()))
    return ck.result()


def frame_labels(c):
    out = [f"d{c['d']}"]
    if any(p[-1] == 0 for p in c["src"] + c["dst"]):
        out.append("has-infinite")
    return out


# ------------------------------------------------------------------------------------------- from_points_and_conics
@st.composite
def conic_case(draw, tier="quick"):
    idx = draw(st.permutations(range(len(UNIT))))
    return {"n1": draw(Z.params(9)), "n2": draw(Z.params(9)), "i1": list(idx[:3]), "i2": list(draw(st.permutations(range(len(UNIT))))[:3])}


def run_conics(c):
    N1, N2 = Z.int_matrix(c["n1"], 3), Z.int_matrix(c["n2"], 3, 5)
    D = np.diag([1.0, 1.0, -1.0])

    def conic_and_points(N, idx):
        Ni = np.linalg.inv(N)
        m = Ni.T @ D @ Ni
        m = (m + m.T) / 2
        m = m / np.max(np.abs(m))
        pts = []
        for i in idx:
            x, y, z = UNIT[i]
            p = N @ np.array([x, y, z], float)
            pts.append(Point(p / np.max(np.abs(p))))
        return Conic(m), pts

    c1, p1 = conic_and_points(N1, c["i1"])
    c2, p2 = conic_and_points(N2, c["i2"])
    t, f = call("from_points_and_conics", Transformation.from_points_and_conics, p1, p2, c1, c2)
    if f:
        return [f]
    ck = Checker()
    for i, (a, b) in enumerate(zip(p1, p2)):
        r, f = call("apply", lambda: t * a)
        if f:
            return [f]
        ck.check(C.peq_all(r.array, b.array, 1, 1e-6), "from_points_and_conics:maps-points", (i, r.array.tolist(), b.array.tolist()))
    r, f = call("apply", lambda: t * c1)
    if f:
        ck.add(f)
    else:
        ck.check(C.peq_all(r.array, c2.array, 2, 1e-6), "from_points_and_conics:maps-conic", (r.array.tolist(), c2.array.tolist()))
    return ck.result()


# ------------------------------------------------------------------------------------------- families of constructed transformations
@st.composite
def family_case(draw, tier="quick"):
    return {"what": draw(st.sampled_from(["scaling", "scaling", "translation", "affine", "rotation_quarter"])), "d": draw(st.sampled_from([2, 2, 3])), "n": draw(st.sampled_from([3, 63, 64, 100])),
            "v": [draw(C.ints(6)) for _ in range(12)], "floats": draw(st.sampled_from([False, False, True])), "grid": draw(st.booleans())}


def run_family(c):
    """a family of n constructed transformations (scalings k -> factors, translations, integer affine maps, quarter turns; arguments given as
    python integers, so that the matrices are integer arrays, or as floats) collected in one TransformationCollection: each member maps
    a point, a hyperplane and (in the plane) a conic as the definition says - x -> M x, h -> M^-T h, Q -> M^-T Q M^-1 - and the inverse of
    the family is the family of the inverses"""
    what, d, n, v = c["what"], c["d"], c["n"], [int(x) for x in c["v"]]
    if d not in (2, 3) or n not in (3, 63, 64, 100) or len(v) != 12:
        raise Skip("malformed")
    num = (lambda x: float(x)) if c["floats"] else (lambda x: int(x))
    members, mats = [], []
    for i in range(n):
        a, b, e = 1 + (i + v[0]) % 7, 1 + (i // 7 + v[1]) % 5, 1 + (i // 3 + v[2]) % 4
        if (i + v[3]) % 3 == 0:
            a = -a
        if what == "scaling":
            args = [num(a), num(b)] + ([num(e)] if d == 3 else [])
            t, M = scaling(*args), np.diag([float(x) for x in args] + [1.0])
        elif what == "translation":
            args = [num(a - 4), num(b * 2 - 5)] + ([num(e)] if d == 3 else [])
            t, M = translation(*args), np.eye(d + 1)
            M[:d, -1] = args
        elif what == "affine":
            A = np.array(Z.int_matrix([x + (i % 5) * (j == 0) for j, x in enumerate(v)], d), dtype=float)
            if abs(np.linalg.det(A)) < 0.5:
                A = np.eye(d) * (2 + i % 3)
            off = [num(a - 3), num(b)] + ([num(e)] if d == 3 else [])
            t = affine_transform(A if c["floats"] else A.astype(int), offset=off)
            M = np.eye(d + 1)
            M[:d, :d], M[:d, -1] = A, off
        elif what == "rotation_quarter":
            if d == 3:
                raise Skip("plane only")
            t = rotation(i * np.pi / 2) * scaling(num(a), num(b))
            k = i % 4
            R = np.array([[1, 0], [0, 1]]) if k == 0 else np.array([[0, -1], [1, 0]]) if k == 1 else np.array([[-1, 0], [0, -1]]) if k == 2 else np.array([[0, 1], [-1, 0]])
            M = np.eye(3)
            M[:2, :2] = R @ np.diag([float(a), float(b)])
        else:
            raise Skip("malformed")
        members.append(t)
        mats.append(M)
    site = f"family:{what}{d}:n{n}" + (":float" if c["floats"] else ":int")
    T, f = call(site + ":collect", TransformationCollection, members)
    if f:
        return [f]
    ck = Checker()
    mats = np.array(mats)
    minv = np.linalg.inv(mats)
    if c["grid"] and n in (64, 100):
        gshape = (8, 8) if n == 64 else (4, 25)
        T = TransformationCollection(np.asarray(T.array).reshape(gshape + (d + 1, d + 1)))
        site += ":grid"
    else:
        gshape = (n,)
    p = np.array([float(x) for x in v[4:4 + d]] + [1.0])
    h = np.array([float(x) for x in v[7:7 + d]] + [float(v[11] or 1)])
    if not np.any(h[:d]):
        h[0] = 1.0
    objs = [("point", PointCollection(np.broadcast_to(p, gshape + (d + 1,)).copy()), np.einsum("nij,j->ni", mats, p), 1),
            ("hyperplane", (G.LineCollection if d == 2 else G.PlaneCollection)(np.broadcast_to(h, gshape + (d + 1,)).copy()), np.einsum("nji,j->ni", minv, h), 1)]
    if d == 2:
        q = np.diag([1.0, 1.0, -4.0]) + 0.0
        q[0, 2] = q[2, 0] = float(v[5] % 3)
        objs.append(("conic", G.QuadricCollection(np.broadcast_to(q, gshape + (3, 3)).copy()), np.einsum("nji,jk,nkl->nil", minv, q, minv), 2))
    for name, obj, want, nax in objs:
        r, f = call(site + f":{name}", lambda: T * obj)
        if f:
            ck.add(f)
            continue
        got = np.asarray(r.array).reshape((n,) + want.shape[1:]) if np.asarray(r.array).size == want.size else None
        if not ck.check(got is not None, site + f":{name}:shape", np.asarray(r.array).shape):
            continue
        bad = [i for i in range(n) if not C.peq_all(got[i], want[i], nax, 1e-9)]
        ck.check(not bad, site + f":{name}:image-of-every-member", (len(bad), bad[:3], got[bad[0]].tolist() if bad else None, want[bad[0]].tolist() if bad else None))
    # round 16: composition of the family with ONE transformation that commutes with none of the kinds (a shear with a translation part),
    # in both orders: member i of S * T is S o T[i], member i of T * S is T[i] o S
    Sm = np.eye(d + 1)
    Sm[0, 1], Sm[0, d], Sm[1, d] = 1.0, 2.0, -1.0
    if d == 3:
        Sm[2, 0], Sm[2, d] = -1.0, 3.0
    S1 = Transformation(Sm.copy())
    for name, fn, want in (("single*family", lambda: S1 * T, np.einsum("ij,njk->nik", Sm, mats)), ("family*single", lambda: T * S1, np.einsum("nij,jk->nik", mats, Sm))):
        r, f = call(site + ":" + name, fn)
        if f:
            ck.add(f)
            continue
        ra = np.asarray(getattr(r, "array", None))
        if not ck.check(isinstance(r, TransformationCollection) and ra.shape == gshape + (d + 1, d + 1), site + f":{name}:shape", (type(r).__name__, ra.shape)):
            continue
        got = ra.reshape(mats.shape)
        bad = [i for i in range(n) if not C.peq_all(got[i], want[i], 2, 1e-9)]
        ck.check(not bad, site + f":{name}:every-member", (len(bad), bad[:3]))
    inv, f = call(site + ":inverse", T.inverse)
    if f:
        ck.add(f)
    else:
        got = np.asarray(inv.array).reshape(mats.shape) if np.asarray(inv.array).size == mats.size else None
        if ck.check(got is not None, site + ":inverse:shape", np.asarray(inv.array).shape):
            bad = [i for i in range(n) if not C.peq_all(got[i], minv[i], 2, 1e-9)]
            ck.check(not bad, site + ":inverse-of-every-member", (len(bad), bad[:3]))
    return ck.result()


LAWS = [
    Law("constructors", lambda tier: basic_case(tier), run_basic, basic_nontrivial, lambda c: ([("many-turns" if c.get("turns", 0) >= 400 else "few-turns")] if c["what"].startswith("rotation") else []) + [c["what"], c["form"], "int-dtype" if c.get("idt") else "float-dtype"], {"quick": 2500, "thorough": 40000},
        "translation, rotation (2D, axis), scaling, reflection, affine_transform, identity vs Cartesian closed forms", shard=400),
    Law("from_points", lambda tier: frame_case(tier), run_frame, lambda c: True, frame_labels, {"quick": 1200, "thorough": 20000},
        "Transformation.from_points maps each of the n+2 source points to its target", shard=400, mandatory=("has-infinite", "d2", "d3")),
    Law("constructed_families", lambda tier: family_case(tier), run_family, lambda c: c["n"] >= 63, lambda c: [c["what"], f"d{c['d']}", f"n{c['n']}", "float" if c["floats"] else "int"] + ([f"int:n>=64:d{c['d']}"] if not c["floats"] and c["n"] >= 64 else []) + (["grid"] if c["grid"] and c["n"] >= 64 else []),
        {"quick": 300, "thorough": 5000}, "families of 3 / 63 / 64 / 100 scalings, translations, integer affine maps, quarter turns (integer or float arguments) as one TransformationCollection: images of a point, a hyperplane and a conic and the inverse, member by member", shard=60,
        mandatory=("int:n>=64:d2", "int:n>=64:d3", "grid")),
    Law("from_points_and_conics", lambda tier: conic_case(tier), run_conics, lambda c: True, lambda c: [], {"quick": 400, "thorough": 8000},
        "from_points_and_conics maps the three points and the first conic onto the second", shard=200),
]


# ------------------------------------------------------------------------------------------- equivalent ways of asking
from .. import forms as _forms  # noqa: E402

LAWS.append(
    Law("argument_forms", lambda tier: _forms.forms_case_strategy("C08")(tier), _forms.run_forms("C08"), lambda c: True, lambda c: [c["entry"], f"d{c['d']}"], {"quick": 600, "thorough": 8000},
        "the same object asked for in several ways (positional / keyword arguments, other representatives of point arguments, int / float / numpy scalars, defaults given explicitly, symmetric argument orders): all forms agree", shard=300)
)
