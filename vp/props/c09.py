"""C09 dist and angle equal the Cartesian distance and angle."""
from __future__ import annotations

import math
from fractions import Fraction

import numpy as np
from hypothesis import strategies as st

import geometer as G
from geometer import (
    Cuboid, Line, LineCollection, Plane, PlaneCollection, Point, PointCollection, Polygon, Segment, angle, dist, reflection, rotation, translation,
)

from .. import common as C
from .. import exact as X
from .. import zoo as Z
from ..runner import Checker, Fail, Law, Skip, call

RULE = (
    "Finite real objects with integer coordinates |c|<=9 (scrambled representatives) in 2D/3D: point-point, point-line, "
    "point-plane, point-segment, point-polygon (2D outside/boundary, 3D anywhere), point-cuboid (outside/on surface), "
    "plane-parallel line, plane-parallel plane, both argument orders, single and collection; exactly incident pairs incl. pairs "
    "of different kinds with equal coordinate vectors; exactly one point at infinity; angles of three points, two lines, line and "
    "direction, two planes; random isometries. Non-trivial = neither object is axis-parallel nor through the origin (measured "
    "per case by the generator's own flags); distinct by case hash."
)
ASSUMPTIONS = [
    "oracle: Euclidean closed forms in float64 (tolerance 1e-7 * max(1, value)), squared distances cross-checked exactly",
    "angles compared modulo pi; in 3-space and for planes only cos^2 is compared (orientation of the auxiliary basis is arbitrary)",
    "2D orientation convention from README/test: angle(a,b,c) = arg(b-a) - arg(c-a)",
    "interior points of a 2D polygon / of a polyhedron are outside the dist domain (region vs boundary not settled by the docs)",
]


def close(a, b, tol=1e-7):
    a, b = np.asarray(a, dtype=float), np.asarray(b, dtype=float)
    return bool(np.all(np.abs(a - b) <= tol * np.maximum(1.0, np.abs(b))))


def P(v, s=1.0):
    return Point(np.array(list(v) + [1], dtype=float) * s)


# ----------------------------------------------------------------------------------------------- point - point
@st.composite
def pp_case(draw, tier="quick"):
    d = draw(st.sampled_from([2, 3]))
    n = draw(st.sampled_from([0, 0, 1, 3]))
    m = max(1, n)
    return {"d": d, "n": n, "p": [[draw(C.ints(9)) for _ in range(d)] for _ in range(m)], "q": [[draw(C.ints(9)) for _ in range(d)] for _ in range(m)],
            "inf": draw(st.sampled_from([None, None, None, "p", "q", "both"])), "sp": draw(C.scale()), "sq": draw(C.scale()), "bcast": draw(st.booleans()),
            "same": draw(st.integers(0, 5)) == 0, "den": [draw(st.sampled_from([1, 1, 2, 4])) for _ in range(2)], "intdtype": [draw(st.booleans()) for _ in range(2)]}


def run_pp(c):
    d, n = c["d"], c["n"]
    sp, sq = C.scale_value(c["sp"]), C.scale_value(c["sq"])
    den = c.get("den", [1, 1])
    if len(den) != 2 or any(x not in (1, 2, 4) for x in den):
        raise Skip("malformed")
    # coordinates k/den (exactly representable); an argument with integer coordinates may be given as an integer-typed array with
    # last coordinate 1 (what Point(1, 2, 3) produces): mixed dtypes of the two arguments are part of the input space
    p = np.array([[x / den[0] for x in v] + [1] for v in c["p"]], dtype=float)
    q = np.array([[x / den[1] for x in v] + [1] for v in c["q"]], dtype=float)
    idt = [bool(c.get("intdtype", [False, False])[k]) and den[k] == 1 and not c["inf"] and not c["same"] for k in range(2)]
    if idt[0]:
        sp = 1
    if idt[1]:
        sq = 1
    if c["same"]:
        q = p.copy()
    if c["inf"] in ("p", "both"):
        p[:, -1] = 0
    if c["inf"] in ("q", "both"):
        q[:, -1] = 0
    if np.any(~np.any(p, axis=1)) or np.any(~np.any(q, axis=1)):
        raise Skip("zero vector")
    if c["inf"] == "both":
        raise Skip("two points at infinity: not specified")
    ai = lambda a, k: a.astype(np.int64) if idt[k] else a  # noqa: E731
    if n:
        A = PointCollection(ai(p * sp, 0))
        B = Point(ai(q[0] * sq, 1)) if c["bcast"] else PointCollection(ai(q * sq, 1))
        if c["bcast"]:
            q = np.repeat(q[:1], len(p), axis=0)
    else:
        A, B = Point(ai(p[0] * sp, 0)), Point(ai(q[0] * sq, 1))
    site = f"dist:pp{d}:{'coll' if n else 'single'}"
    r1, f = call(site, dist, A, B)
    r2, g = call(site, dist, B, A)
    if f or g:
        return [z for z in (f, g) if z]
    ck = Checker()
    if c["inf"]:
        exp = np.full(len(p), np.inf)
    else:
        exp = np.linalg.norm(p[:, :-1] - q[:, :-1], axis=1)
    if not n:
        exp = exp[0]
    ck.check(np.shape(r1) == np.shape(exp), site + ":shape", (np.shape(r1), np.shape(exp)))
    if np.shape(r1) == np.shape(exp):
        if c["inf"]:
            ck.check(np.all(np.isinf(r1)) and np.all(np.isinf(r2)), site + ":one-infinite-point", (r1, r2))
        else:
            ck.check(close(r1, exp), site + ":value", (np.ravel(r1)[:3], np.ravel(exp)[:3]))
            ck.check(close(r2, exp), site + ":symmetric", (np.ravel(r2)[:3], np.ravel(exp)[:3]))
            ck.check(np.array_equal(np.asarray(r1) == 0, np.asarray(exp) == 0) or np.all(np.abs(np.asarray(r1)[np.asarray(exp) == 0]) < 1e-9), site + ":zero-iff-equal", "")
    return ck.result()


# ----------------------------------------------------------------------------------------------- point - subspace
SUB = ["point_line2", "point_line3", "point_plane", "plane_line", "plane_plane", "samecoords2", "samecoords3"]


@st.composite
def sub_case(draw, tier="quick"):
    cfg = draw(st.sampled_from(SUB))
    return {"cfg": cfg, "v": [draw(C.ints(9)) for _ in range(12)], "on": draw(st.sampled_from([False, False, True])), "s1": draw(C.scale()), "s2": draw(C.scale()),
            "coef": [draw(st.integers(-3, 3)) for _ in range(2)], "coll": draw(st.sampled_from([0, 0, 2])), "off": draw(st.integers(-5, 5)),
            "derive": draw(st.sampled_from([None, None, "translation*", "scaling*", "k*identity"])), "move": [draw(st.integers(-4, 4)) for _ in range(3)]}


def run_sub(c):
    cfg, v, on = c["cfg"], c["v"], c["on"]
    s1, s2 = C.scale_value(c["s1"]), C.scale_value(c["s2"])
    ck = Checker()
    if cfg == "point_line2":
        a, b = np.array(v[0:2], float), np.array(v[2:4], float)
        if np.array_equal(a, b):
            raise Skip("degenerate")
        p = a + c["coef"][0] * (b - a) if on else np.array(v[4:6], float)
        nrm = np.array([-(b - a)[1], (b - a)[0]])
        exp = abs(np.dot(p - a, nrm)) / np.linalg.norm(nrm)
        S = Line(np.array([nrm[0], nrm[1], -np.dot(nrm, a)]) * s1)
        O = P(p, s2)
    elif cfg == "point_line3":
        a, b = np.array(v[0:3], float), np.array(v[3:6], float)
        if np.array_equal(a, b):
            raise Skip("degenerate")
        p = a + c["coef"][0] * (b - a) if on else np.array(v[6:9], float)
        exp = np.linalg.norm(np.cross(p - a, b - a)) / np.linalg.norm(b - a)
        S = Line(Z.plucker_dual(list(a) + [1], list(b) + [1]) * s1)
        O = P(p, s2)
    elif cfg == "point_plane":
        nrm = np.array(v[0:3], float)
        if not np.any(nrm):
            raise Skip("degenerate")
        a = np.array(v[3:6], float)
        if on:
            u = np.cross(nrm, np.array([1.0, 2.0, 3.0]))
            w = np.cross(nrm, u)
            p = a + c["coef"][0] * u + c["coef"][1] * w
        else:
            p = np.array(v[6:9], float)
        exp = abs(np.dot(p - a, nrm)) / np.linalg.norm(nrm)
        S = Plane(np.append(nrm, -np.dot(nrm, a)) * s1)
        O = P(p, s2)
    elif cfg in ("plane_line", "plane_plane"):
        nrm = np.array(v[0:3], float)
        if not np.any(nrm):
            raise Skip("degenerate")
        a = np.array(v[3:6], float)
        S = Plane(np.append(nrm, -np.dot(nrm, a)) * s1)
        k = 0 if on else c["off"]
        b = a + np.array(v[6:9], float) * 0 + k * nrm  # a point of the parallel object
        exp = abs(k) * np.linalg.norm(nrm)
        if cfg == "plane_plane":
            if k == 0:
                raise Skip("equal planes")
            O = Plane(np.append(nrm, -np.dot(nrm, b)) * s2)
        else:
            u = np.cross(nrm, np.array(v[9:12], float))
            if not np.any(u):
                raise Skip("degenerate direction")
            O = Line(Z.plucker_dual(list(b) + [1], list(b + u) + [1]) * s2)
    else:
        # objects of different kinds with the same coordinate vector
        d = 2 if cfg.endswith("2") else 3
        w = [x if x else 1 for x in v[: d + 1]]
        vec = np.array(w, float)
        O = Point(vec)
        S = (Line if d == 2 else Plane)(vec)
        p = vec[:-1] / vec[-1]
        exp = abs(np.dot(vec[:-1], p) + vec[-1]) / np.linalg.norm(vec[:-1])
    if c.get("derive") and cfg not in ("samecoords2", "samecoords3"):
        # the subspace is obtained by derivation from an already used object (moved away, used, moved back)
        S, f = call(f"dist:{cfg}:derive({c['derive']})", Z.rederive, S, c.get("move", [1, 2, 3]), c["derive"])
        if f:
            return [f]
    if c["coll"] and cfg not in ("samecoords2", "samecoords3"):
        cls = {G.Point: PointCollection, G.Line: LineCollection, G.Plane: PlaneCollection}[type(O)]
        O = cls(np.stack([O.array, O.array * 2.0]))
        exp = np.array([exp, exp])
    site = f"dist:{cfg}:{'incident' if (on and cfg not in ('samecoords2', 'samecoords3')) else 'generic'}" + (":coll" if np.ndim(exp) else "")
    r1, f = call(site, dist, S, O)
    r2, g = call(site, dist, O, S)
    for r, ff, tag in ((r1, f, ""), (r2, g, ":swapped")):
        if ff:
            ck.add(ff)
            continue
        if not ck.check(np.shape(r) == np.shape(exp), site + tag + ":shape", (np.shape(r), np.shape(exp))):
            continue
        ck.check(close(r, exp, 1e-6), site + tag + ":value", (np.ravel(r)[:2].tolist(), np.ravel(exp)[:2].tolist()))
    return ck.result()


# ----------------------------------------------------------------------------------------------- point - polytope
@st.composite
def poly_case(draw, tier="quick"):
    cfg = draw(st.sampled_from(["segment2", "segment3", "polygon2", "polygon3", "cuboid", "frustum", "quad_of_collection", "l_block"]))
    return {"cfg": cfg, "v": draw(Z.params()), "q": [draw(st.integers(-8, 8)) for _ in range(3)], "k": draw(st.integers(-4, 4)), "st": [draw(st.integers(-2, 6)), draw(st.integers(-2, 6))],
            "coll": draw(st.sampled_from([0, 0, 2])), "derive": draw(st.sampled_from([None, None, "translation*", "+point", "scaling*", "k*identity"])), "move": [draw(st.integers(-4, 4)) for _ in range(3)]}


def seg_dist(p, a, b):
    ab = b - a
    t = np.clip(np.dot(p - a, ab) / np.dot(ab, ab), 0, 1)
    return np.linalg.norm(p - (a + t * ab))


def tri_dist(q, a, b, c):
    """distance of the point q from the triangle abc of 3-space"""
    n = np.cross(b - a, c - a)
    foot = q - np.dot(q - a, n) / np.dot(n, n) * n
    inside = all(np.dot(np.cross(y - x, foot - x), n) >= 0 for x, y in ((a, b), (b, c), (c, a)))
    if inside:
        return abs(np.dot(q - a, n)) / np.linalg.norm(n)
    return min(seg_dist(q, a, b), seg_dist(q, b, c), seg_dist(q, c, a))


def run_poly(c):
    cfg, v = c["cfg"], c["v"]
    ck = Checker()
    if cfg == "l_block":
        # a non-convex solid: an L-shaped block of ten rectangles under an integer affine frame; the distance from an outside point is the
        # minimum over all faces (a face may be the nearest one although the bulk of the solid lies on the other side of its plane)
        from geometer import Polyhedron

        A2, B1, H = 1 + abs(v[9]) % 2, 1 + abs(v[10]) % 2, 1 + abs(v[11]) % 2
        A, B = A2 + 1 + abs(v[12]) % 3, B1 + 1 + abs(v[13]) % 3
        o = np.array(v[0:3], float)
        u, w0 = np.array(v[3:6], float), np.array(v[6:9], float)
        x3 = np.cross(u, w0)
        if not np.any(x3):
            raise Skip("degenerate")
        M = np.stack([u, w0, x3], axis=1)
        loc = lambda p: o + M @ np.array(p, float)  # noqa: E731
        faces = [[loc(p) for p in f[3]] for f in Z.l_block(A, A2, B1, B, H)]
        s, t = c["st"]
        lq = [s / 2 + 0.25, t / 2 + 0.25, c["k"] / 2 + 0.25]
        if c["k"] % 2 == 0:
            # inside the notch of the L, level with the block: the two inner walls are the nearest faces
            lq = [A2 + 0.25 + (abs(s) % 6) / 2, B1 + 0.25 + (abs(t) % 6) / 2, H / 2]
        if Z.in_l_block(lq, A, A2, B1, B, H):
            raise Skip("interior point of a polyhedron")
        q = loc(lq)
        S = Polyhedron(*[Polygon(*[P(x) for x in f]) for f in faces])
        exp = min(min(tri_dist(q, f[0], f[1], f[2]), tri_dist(q, f[0], f[2], f[3])) for f in faces)
        Q = P(q)
        if c["coll"]:
            Q = PointCollection(np.stack([Q.array, Q.array * 3.0]))
            exp = np.array([exp, exp])
        site = "dist:l_block" + (":coll" if c["coll"] else "")
        for tag, fn in (("", lambda: dist(S, Q)), (":swapped", lambda: dist(Q, S))):
            r, ff = call(site + tag, fn)
            if ff:
                ck.add(ff)
            elif ck.check(np.shape(r) == np.shape(exp), site + tag + ":shape", (np.shape(r), np.shape(exp))):
                ck.check(close(r, exp, 1e-6), site + tag + ":value", (np.ravel(r)[:2].tolist(), np.ravel(exp)[:2].tolist()))
        return ck.result()
    if cfg in ("frustum", "quad_of_collection"):
        # a truncated pyramid (square frustum, sheared by an integer frame): its four side faces are trapezoids - quadrilaterals that are
        # not parallelograms; the library turns every 4-vertex face it takes out of a collection into a Rectangle object
        from geometer import PolygonCollection, Polyhedron

        a2, b2, h = 2 * (1 + abs(v[9]) % 3), 1 + abs(v[10]) % 3, 1 + abs(v[11]) % 4
        if a2 == b2:
            b2 += 3
        o = np.array(v[0:3], float)
        u, w0 = np.array(v[3:6], float), np.array(v[6:9], float)
        x3 = np.cross(u, w0)
        if not np.any(x3):
            raise Skip("degenerate")
        M = np.stack([u, w0, x3], axis=1)
        loc = lambda x, y, z: o + M @ np.array([x, y, z], float)  # noqa: E731
        sg = [(1, 1), (-1, 1), (-1, -1), (1, -1)]
        bot = [loc(a2 * sx, a2 * sy, 0) for sx, sy in sg]
        top = [loc(b2 * sx, b2 * sy, h) for sx, sy in sg]
        faces = [bot, top] + [[bot[i], bot[(i + 1) % 4], top[(i + 1) % 4], top[i]] for i in range(4)]
        s, t = c["st"]
        lq = np.array([s - 2.0, t - 2.0, c["k"] / 2 + 1.0])
        lim = a2 + (b2 - a2) * lq[2] / h
        if 0 < lq[2] < h and abs(lq[0]) < lim and abs(lq[1]) < lim:
            raise Skip("interior point of a polyhedron")
        q = loc(*lq)
        if cfg == "frustum":
            S = Polyhedron(*[Polygon(*[P(x) for x in f]) for f in faces])
            exp = min(min(tri_dist(q, f[0], f[1], f[2]), tri_dist(q, f[0], f[2], f[3])) for f in faces)
        else:
            k = 2 + abs(v[12]) % 4
            S = PolygonCollection([Polygon(*[P(x) for x in f]) for f in faces])[k]
            f = faces[k]
            exp = min(tri_dist(q, f[0], f[1], f[2]), tri_dist(q, f[0], f[2], f[3]))
        Q = P(q)
        if c["coll"]:
            Q = PointCollection(np.stack([Q.array, Q.array * 3.0]))
            exp = np.array([exp, exp])
        site = f"dist:{cfg}" + (":coll" if c["coll"] else "")
        for tag, fn in (("", lambda: dist(S, Q)), (":swapped", lambda: dist(Q, S))):
            r, ff = call(site + tag, fn)
            if ff:
                ck.add(ff)
            elif ck.check(np.shape(r) == np.shape(exp), site + tag + ":shape", (np.shape(r), np.shape(exp))):
                ck.check(close(r, exp, 1e-6), site + tag + ":value", (np.ravel(r)[:2].tolist(), np.ravel(exp)[:2].tolist()))
        return ck.result()
    if cfg.startswith("segment"):
        d = int(cfg[-1])
        a, b = np.array(v[0:d], float), np.array(v[d : 2 * d], float)
        if np.array_equal(a, b):
            raise Skip("degenerate")
        q = np.array(c["q"][:d], float)
        S = Segment(P(a, 2.0), P(b))
        exp = seg_dist(q, a, b)
    elif cfg == "polygon2":
        verts = Z.polygon_vertices(v, 2)[:, :2]
        q = np.array(c["q"][:2], float) + verts[0]
        poly = [[Fraction(int(x)) for x in r] for r in verts]
        qq = [Fraction(int(x)) for x in q]
        inside = X.point_in_polygon(poly, qq)
        onb = any(X.on_segment(poly[i], poly[(i + 1) % len(poly)], qq) for i in range(len(poly)))
        if inside and not onb:
            raise Skip("interior point of a 2D polygon")
        S = Polygon(np.concatenate([verts, np.ones((len(verts), 1))], axis=1))
        exp = min(seg_dist(q, verts[i], verts[(i + 1) % len(verts)]) for i in range(len(verts)))
    elif cfg == "polygon3":
        tpl = Z.POLY_TEMPLATES[abs(v[9]) % len(Z.POLY_TEMPLATES)]
        a_, b_ = v[10] % 3 - 1, v[11] % 3 - 1
        M = np.array([[1, a_], [b_, 1 + a_ * b_]], dtype=float)
        pts2 = np.array(tpl, dtype=float) @ M.T
        o, u, w = Z.planar_frame(v)
        verts = o + pts2[:, :1] * u + pts2[:, 1:] * w
        nrm = np.cross(u, w)
        s, t = c["st"]
        foot2 = np.array([s, t], float) / 2
        foot = o + foot2[0] * u + foot2[1] * w
        q = foot + c["k"] * nrm
        poly = [[Fraction(x).limit_denominator(1000) for x in r] for r in pts2]
        inside = X.point_in_polygon(poly, [Fraction(s, 2), Fraction(t, 2)])
        if inside:
            exp = abs(c["k"]) * np.linalg.norm(nrm)
        else:
            exp = min(seg_dist(q, verts[i], verts[(i + 1) % len(verts)]) for i in range(len(verts)))
        S = Polygon(np.concatenate([verts, np.ones((len(verts), 1))], axis=1))
    else:
        o = np.array(v[0:3], float)
        u = np.array(v[3:6], float)
        w0 = np.array(v[6:9], float)
        w = np.cross(u, w0)
        if not np.any(w):
            raise Skip("degenerate")
        x = np.cross(u, w)
        S = Cuboid(P(o), P(o + u), P(o + w), P(o + x))
        # query point in box coordinates (a, b, c) in units of the edges
        s, t = c["st"]
        coords = np.array([s / 2, t / 2, c["k"] / 2])
        q = o + coords[0] * u + coords[1] * w + coords[2] * x
        lens = np.array([np.linalg.norm(u), np.linalg.norm(w), np.linalg.norm(x)])
        excess = np.maximum(np.maximum(-coords, coords - 1), 0) * lens
        if np.all(excess == 0) and np.all((coords > 0) & (coords < 1)):
            raise Skip("interior point of a polyhedron")
        exp = np.linalg.norm(excess)
    Q = P(q)
    if c.get("derive"):
        S, f = call(f"dist:{cfg}:derive({c['derive']})", Z.rederive, S, c.get("move", [1, 2, 3]), c["derive"])
        if f:
            return [f]
    if c["coll"]:
        Q = PointCollection(np.stack([Q.array, Q.array * 3.0]))
        exp = np.array([exp, exp])
    site = f"dist:{cfg}" + (":coll" if c["coll"] else "")
    r1, f = call(site, dist, S, Q)
    r2, g = call(site, dist, Q, S)
    for r, ff, tag in ((r1, f, ""), (r2, g, ":swapped")):
        if ff:
            ck.add(ff)
            continue
        if not ck.check(np.shape(r) == np.shape(exp), site + tag + ":shape", (np.shape(r), np.shape(exp))):
            continue
        ck.check(close(r, exp, 1e-6), site + tag + ":value", (np.ravel(r)[:2].tolist(), np.ravel(exp)[:2].tolist()))
    if cfg.startswith("segment"):
        L, f = call("Segment.length", lambda: S.length)
        if f:
            ck.add(f)
        else:
            ck.check(close(L, np.linalg.norm(a - b)), "Segment.length", (L, np.linalg.norm(a - b)))
    return ck.result()


# ----------------------------------------------------------------------------------------------- a plane and a collection of parallel lines
@st.composite
def pll_case(draw, tier="quick"):
    k = draw(st.integers(2, 6))
    return {"c": draw(st.integers(-9, 9)), "lines": [{"h": draw(st.integers(-6, 6)), "p": [draw(C.ints(5)), draw(C.ints(5))], "d": [draw(C.ints(4)), draw(C.ints(4))], "radial": draw(st.booleans()), "k": draw(st.sampled_from([2, 3, -1]))} for _ in range(k)],
            "axis": draw(st.integers(0, 2)), "swap": draw(st.booleans())}


def run_pll(c):
    """the distance between a plane and the lines of a collection that are all parallel to it (lines inside parallel planes, some of them through
    the axis perpendicular to the plane): position i is the distance between the two parallel planes, whatever the other lines of the collection
    look like"""
    ax = c["axis"] % 3
    oa = [k for k in range(3) if k != ax]
    rows, exp = [], []
    for ln in c["lines"]:
        p = np.zeros(3)
        p[oa[0]], p[oa[1]], p[ax] = float(ln["p"][0]), float(ln["p"][1]), float(ln["h"])
        q = p.copy()
        if ln["radial"]:
            if not np.any(p[oa]):
                raise Skip("degenerate")
            q[oa] = p[oa] * ln["k"]  # the line passes through the axis
        else:
            dvec = np.array([float(ln["d"][0]), float(ln["d"][1])])
            if not np.any(dvec):
                raise Skip("degenerate")
            q[oa] = p[oa] + dvec
        rows.append(np.asarray(Line(Point(*p), Point(*q)).array))
        exp.append(abs(float(c["c"]) - float(ln["h"])))
    nrm = np.zeros(4)
    nrm[ax], nrm[3] = 1.0, -float(c["c"])
    E = Plane(nrm)
    L = LineCollection(np.stack(rows))
    site = "dist:plane-and-collection-of-parallel-lines"
    r, f = call(site, (lambda: dist(L, E)) if c["swap"] else (lambda: dist(E, L)))
    if f:
        return [f]
    ck = Checker()
    r = np.asarray(r, float)
    if ck.check(r.shape == (len(exp),), site + ":shape", r.shape):
        ck.check(bool(np.all(np.isfinite(r))) and np.allclose(r, exp, atol=1e-7), site + ":value", (r.tolist(), exp))
    return ck.result()


# ----------------------------------------------------------------------------------------------- angles
ANG = ["points2", "lines2", "line_dir2", "points3", "lines3", "planes", "polygon_angles", "zero_angle"]
ZERO = ["points2", "lines2", "line_dir2", "points3", "lines3", "line_dir3", "planes"]  # distinct objects enclosing the angle 0


@st.composite
def ang_case(draw, tier="quick"):
    cfg = draw(st.sampled_from(ANG))
    return {"cfg": cfg, "v": draw(Z.params(9)), "s": [draw(C.scale()) for _ in range(3)], "iso": draw(st.sampled_from([None, None, "rot", "refl"])),
            "ang": draw(st.integers(-11, 11)), "coll": draw(st.sampled_from([0, 0, 2])), "inf3": draw(st.sampled_from([None, None, "b", "c", "both"]))}


def arg2(v):
    return math.atan2(v[1], v[0])


def cos2(u, w):
    return float(np.dot(u, w) ** 2 / (np.dot(u, u) * np.dot(w, w)))


def run_ang(c):
    cfg, v = c["cfg"], c["v"]
    s = [C.scale_value(x) for x in c["s"]]
    ck = Checker()
    site = f"angle:{cfg}" + (":coll" if c["coll"] else "")

    def coll(o):
        if not c["coll"]:
            return o
        cls = {G.Point: PointCollection, G.Line: LineCollection, G.Plane: PlaneCollection}[type(o)]
        return cls(np.stack([o.array, o.array * -2.0]))

    if cfg == "zero_angle":
        # distinct objects that enclose the angle zero: collinear points, parallel lines, a line and a parallel direction,
        # parallel planes (identical objects are not generated: "two lines" are two lines)
        sub = ZERO[c["ang"] % len(ZERO)]
        d3 = sub.endswith("3") or sub == "planes"
        n = 3 if d3 else 2
        a, u = np.array(v[0:n], float), np.array(v[3:3 + n], float)
        off = np.array(v[6:6 + n], float)
        if not np.any(u) or np.linalg.matrix_rank(np.stack([u, off])) < 2:
            raise Skip("degenerate")
        k1, k2 = (v[9] % 4) + 1, -((v[10] % 3) + 1)
        if sub.startswith("points"):
            args = [P(a, s[0]), P(a + k1 * u, s[1]), P(a + k2 * u, s[2])]
        elif sub.startswith("lines"):
            args = [Line(P(a), P(a + u)), Line(P(a + off), P(a + off + k1 * u))]
        elif sub.startswith("line_dir"):
            args = [Line(P(np.zeros(n)), P(u)), Point(np.append(k2 * u, 0.0) * s[1])]
        else:
            args = [Plane(np.append(u, v[11]) * s[0]), Plane(np.append(u, v[11] + 1 + (v[12] % 3)) * s[1])]
        site = f"angle:zero:{sub}"
        r, f = call(site, angle, *args)
        if f:
            return [f]
        ck.check(np.ndim(r) == 0 and C.angle_eq_mod_pi(float(np.real(r)), 0.0) and abs(np.imag(r)) < 1e-7, site + ":value", complex(r))
        return ck.result()
    if cfg == "polygon_angles":
        verts = Z.polygon_vertices(v, 2)[:, :2]
        poly = Polygon(np.concatenate([verts, np.ones((len(verts), 1))], axis=1))
        r, f = call("Polygon.angles", lambda: poly.angles)
        if f:
            return [f]
        n = len(verts)
        ck.check(len(r) == n, "Polygon.angles:count", len(r))
        for i in range(min(n, len(r))):
            a, b, cc = verts[i - 1], verts[i], verts[(i + 1) % n]
            exp = arg2(a - b) - arg2(cc - b)
            ck.check(C.angle_eq_mod_pi(r[i], exp) or C.angle_eq_mod_pi(r[i], -exp), "Polygon.angles:value", (i, float(np.real(r[i])), exp))
        return ck.result()
    if cfg in ("points2", "lines2", "line_dir2"):
        a, b, cc = np.array(v[0:2], float), np.array(v[2:4], float), np.array(v[4:6], float)
        if cfg == "line_dir2":
            a = np.zeros(2)  # a line and a direction are measured at the origin
        if X.rank([[Fraction(int(x)) for x in list(p) + [1]] for p in (a, b, cc)]) < 3:
            raise Skip("collinear")
        exp = arg2(b - a) - arg2(cc - a)
        if cfg == "points2":
            args = [P(a, s[0]), P(b, s[1]), P(cc, s[2])]
        elif cfg == "lines2":
            args = [Line(P(a), P(b)), Line(P(a), P(cc))]
            args = [Line(args[0].array * s[0]), Line(args[1].array * s[1])]
        else:
            if np.any(a):
                raise Skip("line and direction are measured at the origin")
            args = [Line(P(a), P(b)), Point(np.array([cc[0], cc[1], 0.0]) * s[1])]
        iso = c["iso"]
        targs = None
        if iso:
            th = c["ang"] * math.pi / 12
            t = translation(v[6], v[7]) * rotation(th) if iso == "rot" else reflection(Line(P(a), P(b + cc) if np.any(b + cc - a) else P(a + 1)))
            if cfg == "line_dir2":
                iso = None
            else:
                targs = [t * o for o in args]
        args = [coll(o) if i == 0 else o for i, o in enumerate(args)]
        r, f = call(site, angle, *args)
        if f:
            return [f]
        vals = np.atleast_1d(np.real(r))
        ck.check(len(vals) == (2 if c["coll"] else 1), site + ":shape", np.shape(r))
        for x in vals:
            ck.check(C.angle_eq_mod_pi(x, exp), site + ":value", (float(x), exp))
            ck.check(-math.pi / 2 - 1e-9 <= x <= math.pi / 2 + 1e-9, site + ":range", float(x))
        if cfg == "points2":
            r2, f = call(site, angle, args[0], args[2], args[1])
            if f:
                ck.add(f)
            else:
                for x in np.atleast_1d(np.real(r2)):
                    ck.check(C.angle_eq_mod_pi(x, -exp), site + ":antisymmetric", (float(x), -exp))
        if cfg in ("lines2", "line_dir2"):
            # antisymmetric in its (last) two arguments, whichever kind comes first: angle(m, l) = -angle(l, m) mod pi
            r2, f = call(site + ":swapped", angle, args[1], args[0])
            if f:
                ck.add(f)
            else:
                for x in np.atleast_1d(np.real(r2)):
                    ck.check(C.angle_eq_mod_pi(x, -exp), site + ":antisymmetric", (float(x), -exp))
        if iso and targs is not None:
            r3, f = call(site + ":isometry", angle, *targs)
            if f:
                ck.add(f)
            else:
                e3 = exp if iso == "rot" else -exp
                ck.check(C.angle_eq_mod_pi(np.real(r3), e3), site + f":invariant-{iso}", (float(np.real(r3)), e3))
        return ck.result()
    if cfg in ("points3", "lines3"):
        a, b, cc = np.array(v[0:3], float), np.array(v[3:6], float), np.array(v[6:9], float)
        if X.rank([[Fraction(int(x)) for x in list(p) + [1]] for p in (a, b, cc)]) < 3 or np.linalg.matrix_rank(np.stack([b - a, cc - a])) < 2:
            raise Skip("collinear")
        e = cos2(b - a, cc - a)
        if cfg == "points3":
            args = [P(a, s[0]), P(b, s[1]), P(cc, s[2])]
            inf3 = c.get("inf3")
            if inf3:
                # the second and/or third point is a direction (a point at infinity): the angle at a between the directions
                db, dc = (b if inf3 in ("b", "both") else b - a), (cc if inf3 in ("c", "both") else cc - a)
                if np.linalg.matrix_rank(np.stack([db, dc])) < 2:
                    raise Skip("parallel")
                e = cos2(db, dc)
                if inf3 in ("b", "both"):
                    args[1] = Point(np.append(b, 0.0) * abs(s[1]))
                if inf3 in ("c", "both"):
                    args[2] = Point(np.append(cc, 0.0) * abs(s[2]))
        else:
            args = [Line(P(a), P(b)), Line(P(a), P(cc))]
    else:
        n1, n2 = np.array(v[0:3], float), np.array(v[3:6], float)
        if np.linalg.matrix_rank(np.stack([n1, n2])) < 2:
            raise Skip("parallel planes")
        e = cos2(n1, n2)
        args = [Plane(np.append(n1, v[6]) * s[0]), Plane(np.append(n2, v[7]) * s[1])]
    if c["iso"]:
        axis = np.array(v[9:12], float)
        if np.any(axis):
            t = translation(v[12], v[13], v[14]) * rotation(c["ang"] * math.pi / 12, axis=Point(*axis))
            args = [t * o for o in args]
    args = [coll(o) if i == 0 else o for i, o in enumerate(args)]
    r, f = call(site, angle, *args)
    if f:
        return [f]
    vals = np.atleast_1d(r)
    ck.check(len(vals) == (2 if c["coll"] else 1), site + ":shape", np.shape(r))
    for x in vals:
        ck.check(abs(np.imag(x)) < 1e-7, site + ":real", complex(x))
        ck.check(abs(math.cos(float(np.real(x))) ** 2 - e) <= 1e-7, site + ":cos2", (complex(x), e))
    return ck.result()


# ----------------------------------------------------------------------------------------------- isometry invariance of dist
@st.composite
def iso_case(draw, tier="quick"):
    d = draw(st.sampled_from([2, 3]))
    kind = draw(st.sampled_from(["point", "line", "segment"] + (["plane"] if d == 3 else [])))
    return {"d": d, "kind": kind, "v": draw(Z.params(9)), "q": [draw(C.ints(9)) for _ in range(3)], "ang": draw(st.integers(-11, 11)), "refl": draw(st.booleans())}


def run_iso(c):
    d, v = c["d"], c["v"]
    if c["kind"] == "line":
        # a finite line through two different finite lattice points (the line at infinity is not a finite object)
        a, b = np.array(v[0:d], float), np.array(v[d : 2 * d], float)
        if np.array_equal(a, b):
            raise Skip("degenerate")
        o = Line(P(a), P(b))
    else:
        o, _ = Z.build(c["kind"], d, v)
    if c["kind"] == "point" and abs(o.array[-1]) < 1e-12:
        raise Skip("infinite")
    if c["kind"] == "plane" and not np.any(o.array[:-1]):
        raise Skip("plane at infinity")
    q = P(c["q"][:d])
    th = c["ang"] * math.pi / 12
    if d == 2:
        t = translation(v[20], v[21]) * rotation(th)
        if c["refl"]:
            t = reflection(Line(1.0, 2.0, float(v[22]))) * t
    else:
        axis = np.array(v[17:20], float)
        if not np.any(axis):
            raise Skip("zero axis")
        t = translation(v[20], v[21], v[22]) * rotation(th, axis=Point(*axis))
        if c["refl"]:
            t = reflection(Plane(1.0, -2.0, 2.0, float(v[23]))) * t
    site = f"dist:isometry:{c['kind']}{d}"
    r1, f = call(site, dist, o, q)
    r2, g = call(site, lambda: dist(t * o, t * q))
    if f or g:
        return [z for z in (f, g) if z]
    ck = Checker()
    ck.check(close(r2, r1, 1e-6), site, (float(r1), float(r2)))
    return ck.result()


def sub_nontrivial(c):
    return all(x != 0 for x in c["v"][:6])


LAWS = [
    Law("dist_point_point", lambda tier: pp_case(tier), run_pp, lambda c: all(any(p) for p in c["p"]), lambda c: [f"d{c['d']}", "coll" if c["n"] else "single", f"inf={c['inf']}"] + (["int-array-vs-fractional-float"] if not c["inf"] and not c["same"] and any(c.get("intdtype", [0, 0])[k] and c.get("den", [1, 1])[k] == 1 and c.get("den", [1, 1])[1 - k] > 1 for k in range(2)) else []),
        {"quick": 1200, "thorough": 30000}, "Euclidean point distance, symmetry, zero iff equal, inf for one infinite point; coordinates k/4, integer-typed vs float arrays", shard=400, mandatory=("int-array-vs-fractional-float",)),
    Law("dist_subspace", lambda tier: sub_case(tier), run_sub, sub_nontrivial, lambda c: [c["cfg"], "incident" if c["on"] else "generic"] + (["derived-from-a-used-object"] if c.get("derive") else []), {"quick": 2000, "thorough": 40000},
        "point-line/plane, plane-parallel line/plane, both orders, incident pairs, equal coordinate vectors of different kinds", shard=400),
    Law("dist_polytope", lambda tier: poly_case(tier), run_poly, lambda c: True, lambda c: [c["cfg"]] + (["derived-from-a-used-object"] if c.get("derive") else []), {"quick": 1600, "thorough": 16000},
        "point-segment, point-polygon (2D boundary/outside, 3D anywhere), point-cuboid (outside/surface); Segment.length", shard=150),
    Law("dist_plane_line_collection", lambda tier: pll_case(tier), run_pll, lambda c: len(c["lines"]) > 1, lambda c: [f"n{len(c['lines'])}"] + (["radial-and-other-lines"] if len({x["radial"] for x in c["lines"]}) > 1 else []),
        {"quick": 800, "thorough": 10000}, "dist(plane, LineCollection) for lines parallel to the plane, lines through the perpendicular axis mixed with others: the distance of the parallel planes at every position", shard=200,
        mandatory=("radial-and-other-lines",)),
    Law("angle", lambda tier: ang_case(tier), run_ang, lambda c: True, lambda c: [c["cfg"]] + ([c["iso"]] if c["iso"] else []) + ([ZERO[c["ang"] % len(ZERO)] + ":zero"] if c["cfg"] == "zero_angle" else []) + (["directions-in-3-space"] if c["cfg"] == "points3" and c.get("inf3") else []), {"quick": 2000, "thorough": 40000},
        "angle mod pi with README orientation in 2D (antisymmetric, isometry behaviour), cos^2 in 3D / planes; Polygon.angles", shard=400),
    Law("dist_isometry", lambda tier: iso_case(tier), run_iso, lambda c: True, lambda c: [f"{c['kind']}{c['d']}", "refl" if c["refl"] else "rot"], {"quick": 800, "thorough": 15000},
        "dist(t*o, t*q) = dist(o, q) for rotations, translations, reflections", shard=400),
]


def zero_angle_in_3space(case):
    """distinct collinear points, a line and a parallel direction in 3-space, or distinct parallel planes"""
    return case.get("cfg") == "zero_angle" and ZERO[case.get("ang", 0) % len(ZERO)] in ("points3", "line_dir3", "planes")


PREDICATES = {"zero_angle_in_3space": zero_angle_in_3space}


# ------------------------------------------------------------------------------------------- equivalent ways of asking
from .. import forms as _forms  # noqa: E402

LAWS.append(
    Law("call_forms", lambda tier: _forms.call_forms_strategy("C09")(tier), _forms.run_call_forms("C09"), lambda c: True, lambda c: [c["entry"], f"d{c['d']}"], {"quick": 500, "thorough": 6000},
        "the same question asked in several ways (positional / keyword arguments, method / function / operator form, symmetric argument orders) on the objects of the shared pool: same answer", shard=250)
)
