"""C10 Perpendicular/parallel/projection/mirror constructions meet their definitions."""
from __future__ import annotations

import math
from fractions import Fraction

import numpy as np
from hypothesis import strategies as st

import geometer as G
from geometer import (
    Line, LineCollection, Plane, PlaneCollection, Point, PointCollection, angle_bisectors, is_cocircular, is_collinear, is_concurrent,
    is_coplanar, is_perpendicular, join, meet,
)

from .. import common as C
from .. import exact as X
from .. import zoo as Z
from ..runner import Checker, Fail, Law, Skip, call

RULE = (
    "A line (2D, 3D) or plane through lattice points |c|<=6 - vertical, horizontal, through the origin or generic, scrambled "
    "representative - and a point that is off the subspace, exactly on it, the origin or (where supported) at infinity; collections "
    "mixing on/off points in one call and broadcasting; exactly perpendicular / parallel / cocircular / coplanar / collinear / "
    "concurrent configurations and their exact negations. Non-trivial = the point lies exactly on the subspace, or the subspace is "
    "axis-parallel / through the origin, or the call is a mixed-mask collection; distinct by case hash."
)
ASSUMPTIONS = [
    "oracle: Cartesian foot point / mirror image / dot and cross products in float64, tol 1e-7; results may be complex multiples of "
    "real lines, so directions are compared projectively over C",
    "3D lines: mirror only for points off the line (documented unhandled case)",
]


def P(v, s=1.0):
    return Point(np.array(list(v) + [1], dtype=float) * s)


def hom(v):
    return np.append(np.asarray(v, dtype=float), 1.0)


def line3_points(L):
    """two independent points spanning a 3D line given by its array (contravariant dual Pluecker matrix): null space of M^T"""
    M = np.asarray(L, dtype=complex)
    if not np.all(np.isfinite(M)):
        return np.full((2, M.shape[-1]), np.nan, dtype=complex)
    u, s, vh = np.linalg.svd(M.T)
    return vh[-2:].conj()


def line3_direction(L):
    pts = line3_points(L)
    # combination with vanishing last coordinate
    a, b = pts
    d = a * b[-1] - b * a[-1]
    return d[:-1]


def cdot(u, w):
    """bilinear (not hermitian) dot product after projective normalisation"""
    u = C.pnorm(np.asarray(u, dtype=complex))
    w = C.pnorm(np.asarray(w, dtype=complex))
    return abs(np.sum(u * w))


def ccross_zero(u, w):
    u = C.pnorm(np.asarray(u, dtype=complex))
    w = C.pnorm(np.asarray(w, dtype=complex))
    if len(u) == 2:
        return abs(u[0] * w[1] - u[1] * w[0]) < 1e-7
    return np.max(np.abs(np.cross(u, w))) < 1e-7


# --------------------------------------------------------------------------------------------- 2D lines
SHAPES2 = ["generic", "vertical", "horizontal", "origin"]


@st.composite
def l2_case(draw, tier="quick"):
    n = draw(st.sampled_from([0, 0, 3, 4]))
    m = max(1, n)
    return {"shape": draw(st.sampled_from(SHAPES2)), "v": [draw(C.ints(6)) for _ in range(4)], "pts": [[draw(C.ints(6)), draw(C.ints(6))] for _ in range(m)],
            "where": [draw(st.sampled_from(["off", "on", "origin", "off"])) for _ in range(m)], "t": [draw(st.integers(-3, 3)) for _ in range(m)],
            "n": n, "s": draw(C.scale()), "bcast_line": draw(st.booleans()), "ps": [draw(C.scale()) for _ in range(m)]}


def line2_from(c):
    v = c["v"]
    a = np.array(v[0:2], float)
    d = np.array(v[2:4], float)
    sh = c["shape"]
    if sh == "vertical":
        d = np.array([0.0, d[1] if d[1] else 1.0])
    elif sh == "horizontal":
        d = np.array([d[0] if d[0] else 1.0, 0.0])
    elif sh == "origin":
        a = np.zeros(2)
    if not np.any(d):
        raise Skip("zero direction")
    if sh == "generic" and (d[0] == 0 or d[1] == 0):
        raise Skip("not generic")
    return a, d


def run_l2(c):
    a, d = line2_from(c)
    nrm = np.array([-d[1], d[0]])
    s = C.scale_value(c["s"])
    L = Line(np.array([nrm[0], nrm[1], -np.dot(nrm, a)]) * s)
    n = c["n"]
    m = max(1, n)
    pts = []
    for i in range(m):
        w = c["where"][i]
        if w == "on":
            pts.append(a + c["t"][i] * d)
        elif w == "origin":
            pts.append(np.zeros(2))
        else:
            pts.append(np.array(c["pts"][i], float))
    pts = np.array(pts)
    on = np.abs((pts - a) @ nrm) < 1e-12
    foot = pts - np.outer(((pts - a) @ nrm) / (nrm @ nrm), nrm)
    mir = 2 * foot - pts
    # the points are given by arbitrary representatives (every point its own non-zero factor)
    psc = np.array([C.scale_value(x) for x in (c.get("ps") or [[1, 0, 1]] * m)][:m] + [1.0] * max(0, m - len(c.get("ps") or [])))[:m]
    if n:
        Q = PointCollection(np.concatenate([pts, np.ones((m, 1))], axis=1) * psc[:, None])
        if not c["bcast_line"]:
            L = LineCollection(np.stack([L.array * (1 + i % 2) for i in range(m)]))
    else:
        Q = P(pts[0], psc[0])
    tag = f"line2:{'coll' if n else 'single'}"
    ck = Checker()
    r, f = call(tag + ":perpendicular", L.perpendicular, Q)
    if f:
        ck.add(f)
    else:
        R = r.array.reshape((-1, 3))
        if ck.check(R.shape[0] == m, tag + ":perpendicular:shape", r.array.shape):
            for i in range(m):
                st_ = "on" if on[i] else "off"
                ck.check(abs(np.sum(C.pnorm(R[i]) * hom(pts[i]) / max(1, np.max(np.abs(pts[i]))))) < 1e-7, f"{tag}:perpendicular:{st_}:contains-point", (R[i].tolist(), pts[i].tolist()))
                ck.check(ccross_zero(R[i][:2], d), f"{tag}:perpendicular:{st_}:is-perpendicular", (R[i].tolist(), d.tolist()))
    r, f = call(tag + ":parallel", L.parallel, Q)
    if f:
        ck.add(f)
    else:
        R = r.array.reshape((-1, 3))
        if ck.check(R.shape[0] == m, tag + ":parallel:shape", r.array.shape):
            for i in range(m):
                ck.check(abs(np.sum(C.pnorm(R[i]) * hom(pts[i]) / max(1, np.max(np.abs(pts[i]))))) < 1e-7, tag + ":parallel:contains-point", "")
                ck.check(ccross_zero(R[i][:2], nrm), tag + ":parallel:is-parallel", (R[i].tolist(), nrm.tolist()))
    r, f = call(tag + ":project", L.project, Q)
    if f:
        ck.add(f)
    else:
        R = r.array.reshape((-1, 3))
        if ck.check(R.shape[0] == m, tag + ":project:shape", r.array.shape):
            for i in range(m):
                ck.check(C.peq_all(R[i], hom(foot[i]), 1, 1e-7), f"{tag}:project:{'on' if on[i] else 'off'}", (R[i].tolist(), foot[i].tolist()))
    r, f = call(tag + ":mirror", L.mirror, Q)
    if f:
        ck.add(f)
    else:
        R = r.array.reshape((-1, 3))
        if ck.check(R.shape[0] == m, tag + ":mirror:shape", r.array.shape):
            for i in range(m):
                ck.check(C.peq_all(R[i], hom(mir[i]), 1, 1e-7), f"{tag}:mirror:{'on' if on[i] else 'off'}", (R[i].tolist(), mir[i].tolist()))
            r2, f = call(tag + ":mirror", L.mirror, r)
            if f:
                ck.add(f)
            else:
                ck.check(C.peq_all(r2.array.reshape((-1, 3)), np.concatenate([pts, np.ones((m, 1))], axis=1), 1, 1e-7), tag + ":mirror:involution", "")
    # representative-valued helpers
    bp, f = call(tag + ":base_point", lambda: L.base_point)
    if f:
        ck.add(f)
    else:
        B = bp.array.reshape((-1, 3))
        for row in B:
            ck.check(abs(row[-1]) > 1e-9, tag + ":base_point:finite", row.tolist())
            ck.check(abs(np.sum(C.pnorm(row) * C.pnorm(np.array([nrm[0], nrm[1], -np.dot(nrm, a)])))) < 1e-9, tag + ":base_point:on-line", row.tolist())
    dr, f = call(tag + ":direction", lambda: L.direction)
    if f:
        ck.add(f)
    else:
        D = dr.array.reshape((-1, 3))
        for row in D:
            ck.check(abs(row[-1]) < 1e-12 and ccross_zero(row[:2], d), tag + ":direction", row.tolist())
    bm, f = call(tag + ":basis_matrix", lambda: L.basis_matrix)
    if f:
        ck.add(f)
    else:
        Bm = np.asarray(bm).reshape((-1, 2, 3))
        lv = np.array([nrm[0], nrm[1], -np.dot(nrm, a)])
        for mat in Bm:
            ck.check(np.allclose(mat @ mat.T, np.eye(2), atol=1e-9), tag + ":basis_matrix:orthonormal", mat.tolist())
            ck.check(np.allclose(mat @ lv / np.max(np.abs(lv)), 0, atol=1e-9), tag + ":basis_matrix:spans-line", mat.tolist())
    gp, f = call(tag + ":general_point", lambda: L.general_point)
    if f:
        ck.add(f)
    else:
        cc, f = call(tag + ":contains", L.contains, gp)
        if f:
            ck.add(f)
        else:
            ck.check(not np.any(cc), tag + ":general_point:outside", gp.array.tolist())
    return ck.result()


def l2_nontrivial(c):
    return c["shape"] != "generic" or any(w in ("on", "origin") for w in c["where"][: max(1, c["n"])]) or (c["n"] > 0 and len(set(c["where"][: c["n"]])) > 1)


def l2_labels(c):
    out = [c["shape"], "coll" if c["n"] else "single"]
    ws = c["where"][: max(1, c["n"])]
    if "on" in ws:
        out.append("point-on-line")
    if c["n"] and "on" in ws and "off" in ws:
        out.append("mixed-mask")
    return out


# --------------------------------------------------------------------------------------------- 3D lines and planes
@st.composite
def s3_case(draw, tier="quick"):
    n = draw(st.sampled_from([0, 0, 3]))
    m = max(1, n)
    return {"kind": draw(st.sampled_from(["line", "plane"])), "shape": draw(st.sampled_from(["generic", "axis", "origin"])), "v": [draw(C.ints(6)) for _ in range(9)],
            "pts": [[draw(C.ints(6)) for _ in range(3)] for _ in range(m)], "where": [draw(st.sampled_from(["off", "on", "off", "origin"])) for _ in range(m)],
            "t": [[draw(st.integers(-3, 3)), draw(st.integers(-3, 3))] for _ in range(m)], "n": n, "s": draw(C.scale()), "ps": [draw(C.scale()) for _ in range(m)]}


def run_s3(c):
    v, kind = c["v"], c["kind"]
    a = np.array(v[0:3], float)
    d = np.array(v[3:6], float)
    e = np.array(v[6:9], float)
    if c["shape"] == "axis":
        d = np.array([0.0, 0.0, d[2] if d[2] else 1.0])
        e = np.array([e[0] if e[0] else 1.0, 0.0, 0.0])
    elif c["shape"] == "origin":
        a = np.zeros(3)
    if not np.any(d):
        raise Skip("zero direction")
    s = C.scale_value(c["s"])
    n = c["n"]
    m = max(1, n)
    ck = Checker()
    if kind == "line":
        S = Line(Z.plucker_dual(list(a) + [1], list(a + d) + [1]) * s / 4)
        base = [d]
    else:
        if np.linalg.matrix_rank(np.stack([d, e])) < 2:
            raise Skip("degenerate plane")
        nrm = np.cross(d, e)
        S = Plane(np.append(nrm, -np.dot(nrm, a)) * s)
        base = [d, e]
    pts = []
    for i in range(m):
        w = c["where"][i]
        if w == "on":
            p = a + c["t"][i][0] * base[0] + (c["t"][i][1] * base[1] if len(base) > 1 else 0)
        elif w == "origin":
            p = np.zeros(3)
        else:
            p = np.array(c["pts"][i], float)
        pts.append(p)
    pts = np.array(pts)
    if kind == "line":
        tt = ((pts - a) @ d) / (d @ d)
        foot = a + np.outer(tt, d)
    else:
        foot = pts - np.outer(((pts - a) @ nrm) / (nrm @ nrm), nrm)
    on = np.linalg.norm(pts - foot, axis=1) < 1e-12
    mir = 2 * foot - pts
    psc = np.array([C.scale_value(x) for x in (c.get("ps") or [[1, 0, 1]] * m)][:m] + [1.0] * max(0, m - len(c.get("ps") or [])))[:m]
    Q = PointCollection(np.concatenate([pts, np.ones((m, 1))], axis=1) * psc[:, None]) if n else P(pts[0], psc[0])
    tag = f"{kind}3:{'coll' if n else 'single'}"
    # perpendicular
    r, f = call(tag + ":perpendicular", S.perpendicular, Q)
    if f:
        ck.add(f)
    else:
        R = r.array.reshape((-1, 4, 4))
        if ck.check(R.shape[0] == m and isinstance(r, G.point.LineTensor), tag + ":perpendicular:shape", r.array.shape):
            for i in range(m):
                st_ = "on" if on[i] else "off"
                Mi = R[i] / np.max(np.abs(R[i]))
                ck.check(np.max(np.abs(Mi.T @ (hom(pts[i]) / max(1, np.max(np.abs(pts[i])))))) < 1e-7, f"{tag}:perpendicular:{st_}:contains-point", "")
                dd = line3_direction(Mi)
                if kind == "line":
                    ck.check(cdot(dd, d) < 1e-6, f"{tag}:perpendicular:{st_}:is-perpendicular", (dd.tolist(), d.tolist()))
                    if not on[i]:
                        ck.check(np.max(np.abs(Mi.T @ (hom(foot[i]) / max(1, np.max(np.abs(foot[i])))))) < 1e-6, f"{tag}:perpendicular:off:meets-line-at-foot", "")
                else:
                    ck.check(ccross_zero(dd, nrm), f"{tag}:perpendicular:{st_}:is-perpendicular", (dd.tolist(), nrm.tolist()))
    # parallel
    r, f = call(tag + ":parallel", S.parallel, Q)
    if f:
        # a point on the subspace makes the parallel coincide with the subspace; for 3D lines join(direction, p) is still defined
        ck.add(f)
    else:
        if kind == "line":
            R = r.array.reshape((-1, 4, 4))
            for i in range(min(m, len(R))):
                Mi = R[i] / np.max(np.abs(R[i]))
                ck.check(np.max(np.abs(Mi.T @ (hom(pts[i]) / max(1, np.max(np.abs(pts[i])))))) < 1e-7, tag + ":parallel:contains-point", "")
                ck.check(ccross_zero(line3_direction(Mi), d), tag + ":parallel:is-parallel", "")
        else:
            R = r.array.reshape((-1, 4))
            for i in range(min(m, len(R))):
                ck.check(abs(np.sum(C.pnorm(R[i]) * hom(pts[i]) / max(1, np.max(np.abs(pts[i]))))) < 1e-7, tag + ":parallel:contains-point", "")
                ck.check(ccross_zero(R[i][:3], nrm), tag + ":parallel:is-parallel", "")
    # project
    r, f = call(tag + ":project", S.project, Q)
    if f:
        ck.add(f)
    else:
        R = r.array.reshape((-1, 4))
        if ck.check(R.shape[0] == m, tag + ":project:shape", r.array.shape):
            for i in range(m):
                ck.check(C.peq_all(R[i], hom(foot[i]), 1, 1e-6), f"{tag}:project:{'on' if on[i] else 'off'}", (R[i].tolist(), foot[i].tolist()))
    # mirror (3D lines: only points off the line)
    if kind == "plane" or not np.any(on):
        r, f = call(tag + ":mirror", S.mirror, Q)
        if f:
            ck.add(f)
        else:
            R = r.array.reshape((-1, 4))
            if ck.check(R.shape[0] == m, tag + ":mirror:shape", r.array.shape):
                for i in range(m):
                    ck.check(C.peq_all(R[i], hom(mir[i]), 1, 1e-6), f"{tag}:mirror:{'on' if on[i] else 'off'}", (R[i].tolist(), mir[i].tolist()))
                if kind == "plane" or not np.any(on):
                    r2, f = call(tag + ":mirror", S.mirror, r)
                    if f:
                        ck.add(f)
                    else:
                        ck.check(C.peq_all(r2.array.reshape((-1, 4)), np.concatenate([pts, np.ones((m, 1))], axis=1), 1, 1e-6), tag + ":mirror:involution", "")
    # helpers
    bm, f = call(tag + ":basis_matrix", lambda: S.basis_matrix)
    if f:
        ck.add(f)
    else:
        k = 2 if kind == "line" else 3
        mat = np.asarray(bm)
        if ck.check(mat.shape == (k, 4), tag + ":basis_matrix:shape", mat.shape):
            ck.check(np.allclose(mat @ np.conj(mat.T), np.eye(k), atol=1e-9), tag + ":basis_matrix:orthonormal", "")
            for row in mat:
                cc, f = call(tag + ":contains", S.contains, Point(row))
                if f is None:
                    ck.check(bool(cc), tag + ":basis_matrix:spans-subspace", row.tolist())
    gp, f = call(tag + ":general_point", lambda: S.general_point)
    if f:
        ck.add(f)
    else:
        cc, f = call(tag + ":contains", S.contains, gp)
        if f is None:
            ck.check(not np.any(cc), tag + ":general_point:outside", gp.array.tolist())
    if kind == "line":
        bp, f = call(tag + ":base_point", lambda: S.base_point)
        if f:
            ck.add(f)
        else:
            ck.check(abs(bp.array[-1]) > 1e-9, tag + ":base_point:finite", bp.array.tolist())
            cc, f = call(tag + ":contains", S.contains, bp)
            if f is None:
                ck.check(bool(cc), tag + ":base_point:on-line", bp.array.tolist())
        dr, f = call(tag + ":direction", lambda: S.direction)
        if f:
            ck.add(f)
        else:
            ck.check(abs(dr.array[-1]) < 1e-12 and ccross_zero(dr.array[:3], d), tag + ":direction", dr.array.tolist())
    else:
        # perpendicular plane through a line
        l = Line(P(a), P(a + d))
        r, f = call(tag + ":perpendicular(line)", S.perpendicular, l)
        if f:
            ck.add(f)
        else:
            ck.check(isinstance(r, G.Plane) and abs(np.dot(C.pnorm(r.array)[:3], nrm)) / np.linalg.norm(nrm) < 1e-7, tag + ":perpendicular(line):is-perpendicular", r.array.tolist())
            cc, f = call(tag + ":contains", r.contains, l)
            if f is None:
                ck.check(bool(cc), tag + ":perpendicular(line):contains-line", "")
    return ck.result()


def s3_labels(c):
    ws = c["where"][: max(1, c["n"])]
    out = [c["kind"], c["shape"], "coll" if c["n"] else "single"]
    if "on" in ws:
        out.append("point-on-subspace")
    if c["n"] and "on" in ws and "off" in ws:
        out.append("mixed-mask")
    return out


# --------------------------------------------------------------------------------------------- 2D lines, complex points
@st.composite
def l2c_case(draw, tier="quick"):
    n = draw(st.sampled_from([0, 0, 3]))
    m = max(1, n)
    g = st.tuples(C.ints(5), C.ints(5)).map(list)
    return {"shape": draw(st.sampled_from(SHAPES2)), "v": [draw(C.ints(6)) for _ in range(4)], "pts": [[draw(g), draw(g)] for _ in range(m)],
            "where": [draw(st.sampled_from(["off", "off", "on"])) for _ in range(m)], "t": [draw(g) for _ in range(m)], "n": n, "s": draw(C.scale())}


def run_l2c(c):
    """a real line of the plane and points with Gaussian-integer coordinates (also points a + t d of the line with a complex
    parameter t): mirror, project and perpendicular are given by the same bilinear formulas as for real points"""
    a, d = line2_from(c)
    nrm = np.array([-d[1], d[0]])
    L = Line(np.array([nrm[0], nrm[1], -np.dot(nrm, a)]) * C.scale_value(c["s"]))
    m = max(1, c["n"])
    pts = []
    for i in range(m):
        if c["where"][i] == "on":
            pts.append(a + complex(*c["t"][i]) * d)
        else:
            pts.append(np.array([complex(*c["pts"][i][0]), complex(*c["pts"][i][1])]))
    pts = np.array(pts, dtype=complex)
    if not np.any(np.abs(pts.imag) > 0):
        raise Skip("real points")
    on = np.abs((pts - a) @ nrm) < 1e-12
    foot = pts - np.outer(((pts - a) @ nrm) / (nrm @ nrm), nrm)
    mir = 2 * foot - pts
    H = np.concatenate([pts, np.ones((m, 1))], axis=1)
    Q = PointCollection(H) if c["n"] else Point(H[0])
    tag = f"line2-complex-points:{'coll' if c['n'] else 'single'}"
    ck = Checker()
    r, f = call(tag + ":mirror", L.mirror, Q)
    if f:
        ck.add(f)
    else:
        R = np.asarray(r.array).reshape((-1, 3))
        if ck.check(R.shape[0] == m, tag + ":mirror:shape", np.asarray(r.array).shape):
            for i in range(m):
                ck.check(C.peq_all(R[i], np.append(mir[i], 1.0), 1, 1e-7), f"{tag}:mirror:{'on' if on[i] else 'off'}", (R[i].tolist(), mir[i].tolist()))
            r2, f = call(tag + ":mirror", L.mirror, r)
            if f:
                ck.add(f)
            else:
                ck.check(C.peq_all(np.asarray(r2.array).reshape((-1, 3)), H, 1, 1e-7), tag + ":mirror:involution", "")
    r, f = call(tag + ":project", L.project, Q)
    if f:
        ck.add(f)
    else:
        R = np.asarray(r.array).reshape((-1, 3))
        if ck.check(R.shape[0] == m, tag + ":project:shape", np.asarray(r.array).shape):
            for i in range(m):
                ck.check(C.peq_all(R[i], np.append(foot[i], 1.0), 1, 1e-7), f"{tag}:project:{'on' if on[i] else 'off'}", (R[i].tolist(), foot[i].tolist()))
    r, f = call(tag + ":perpendicular", L.perpendicular, Q)
    if f:
        ck.add(f)
    else:
        R = np.asarray(r.array).reshape((-1, 3))
        if ck.check(R.shape[0] == m, tag + ":perpendicular:shape", np.asarray(r.array).shape):
            for i in range(m):
                ck.check(abs(np.sum(C.pnorm(R[i]) * C.pnorm(H[i]))) < 1e-7, f"{tag}:perpendicular:contains-point", (R[i].tolist(), H[i].tolist()))
                ck.check(ccross_zero(R[i][:2], d), f"{tag}:perpendicular:is-perpendicular", (R[i].tolist(), d.tolist()))
    return ck.result()


# --------------------------------------------------------------------------------------------- predicates
PRED = ["perp_lines2", "perp_lines3", "perp_planes", "parallel_lines2", "parallel_planes", "parallel_line_plane", "cocircular", "collinear2", "coplanar3",
        "concurrent2", "bisectors2", "bisectors3", "same_object", "cocircular3", "cocircular1"]


@st.composite
def pred_case(draw, tier="quick"):
    return {"cfg": draw(st.sampled_from(PRED)), "truth": draw(st.booleans()), "v": [draw(C.ints(6)) for _ in range(16)], "s": [draw(C.scale()) for _ in range(2)],
            "k": draw(st.sampled_from([1, 2, -1, 3])), "coll": draw(st.sampled_from([0, 0, 0, 2, 2, 64, 70, "8x8"])), "pyth": [draw(st.integers(0, 5)) for _ in range(4)],
            "far": draw(st.sampled_from([0, 0, 14, 17])), "farp": draw(st.sampled_from([0, 0, 1000, 3000, 6000])), "via_perp": draw(st.sampled_from([False, False, True]))}


UNIT = [(3, 4, 5), (4, 3, 5), (-3, 4, 5), (5, 12, 13), (-5, -12, 13), (0, 1, 1), (1, 0, 1), (8, -15, 17), (-4, -3, 5), (12, -5, 13)]


def run_pred(c):
    cfg, truth, v = c["cfg"], c["truth"], c["v"]
    s = [C.scale_value(x) for x in c["s"]]
    ck = Checker()
    site = f"{cfg}:{'true' if truth else 'false'}"

    def two(o):
        if not c["coll"]:
            return o
        cls = {G.Point: PointCollection, G.Line: LineCollection, G.Plane: PlaneCollection}[type(o)]
        if c["coll"] == 2:
            return cls(np.stack([o.array, o.array * 2.0]))
        # 64 and more elements (one or two collection axes): other representatives of the same object, factors 1, 2, 0.5, -1
        if c["coll"] not in (64, 70, "8x8"):
            raise Skip("malformed collection size")
        shape = (8, 8) if c["coll"] == "8x8" else (c["coll"],)
        size = int(np.prod(shape))
        fac = np.array([1.0, 2.0, 0.5, -1.0])[np.arange(size) % 4]
        a = o.array[None] * fac.reshape((size,) + (1,) * o.array.ndim)
        return cls(a.reshape(shape + o.array.shape))

    def expect(r, f, t=truth, tag=""):
        if f:
            ck.add(f)
            return
        ck.check(np.all(np.asarray(r) == t), site + tag, (np.asarray(r).tolist(), t))

    if cfg == "same_object":
        # one and the same Python object in two argument positions: the answer is that of an equal-valued second object
        # (a point counted twice is trivially collinear / coplanar / cocircular with the others, a line meets itself)
        d3 = bool(v[15] % 2)
        n = 4 if d3 else 3
        pts = [np.array([float(x) for x in v[i * 3 : i * 3 + n - 1]] + [1.0]) for i in range(4)]
        if X.rank([[Fraction(int(x)) for x in p] for p in pts[:3]]) < 3 or (d3 and X.rank([[Fraction(int(x)) for x in p] for p in pts]) < 4):
            raise Skip("dependent")
        p, q, r_, w = [Point(x * s[i % 2]) for i, x in enumerate(pts)]
        if d3:
            L = G.Line(p, q)
            calls = [("is_coplanar(p,p,q,r)", lambda: is_coplanar(p, p, q, r_), lambda: is_coplanar(p, Point(p.array.copy()), q, r_)),
                     ("is_coplanar(p,q,r,p)", lambda: is_coplanar(p, q, r_, p), lambda: is_coplanar(p, q, r_, Point(p.array.copy()))),
                     ("is_coplanar(p,p,q,r,w)", lambda: is_coplanar(p, p, q, r_, w), lambda: is_coplanar(p, Point(p.array.copy()), q, r_, w)),
                     ("line.is_coplanar(line)", lambda: L.is_coplanar(L), lambda: L.is_coplanar(G.Line(L.array.copy())))]
        else:
            l, m = G.Line(p, q), G.Line(p, r_)
            calls = [("is_collinear(p,p,q)", lambda: is_collinear(p, p, q), lambda: is_collinear(p, Point(p.array.copy()), q)),
                     ("is_collinear(p,q,p)", lambda: is_collinear(p, q, p), lambda: is_collinear(p, q, Point(p.array.copy()))),
                     ("is_collinear(p,p,q,r)", lambda: is_collinear(p, p, q, r_), lambda: is_collinear(p, Point(p.array.copy()), q, r_)),
                     ("is_concurrent(l,l,m)", lambda: is_concurrent(l, l, m), lambda: is_concurrent(l, G.Line(l.array.copy()), m)),
                     ("is_cocircular(p,p,q,r)", lambda: is_cocircular(p, p, q, r_), lambda: is_cocircular(p, Point(p.array.copy()), q, r_))]
        if not d3:
            # three points that are not collinear (three lines that are not concurrent) stay so when one of them is given twice, in whichever
            # two of the four positions (by another representative, or as the same object)
            from itertools import combinations as _comb

            tri_lines = [G.Line(p, q), G.Line(q, r_), G.Line(r_, p)]
            for i, j in _comb(range(4), 2):
                for what, objs, fn in (("is_collinear", [p, q, r_], is_collinear), ("is_concurrent", tri_lines, is_concurrent)):
                    rest = iter([objs[1], objs[2]])
                    dup = objs[0] if v[14] % 2 else type(objs[0])(np.asarray(objs[0].array) * -2.0)
                    args = [objs[0] if k == i else dup if k == j else next(rest) for k in range(4)]
                    r0, f0 = call(f"same_object:{what}:one-of-three-given-twice", fn, *args)
                    if f0:
                        ck.add(f0)
                    else:
                        ck.check(not bool(np.all(r0)), f"same_object:{what}:three-independent-objects-one-given-twice:positions{i}{j}", "")
        for name, aliased, twin in calls:
            r1, f1 = call(f"same_object:{name}", aliased)
            r2, f2 = call(f"same_object:{name}:twin", twin)
            if f2:
                continue  # the equal-valued call itself fails: subject of the other configurations
            if f1:
                ck.add(f1)
                continue
            ck.check(np.array_equal(np.asarray(r1), np.asarray(r2)), f"same_object:{name}", (np.asarray(r1).tolist(), np.asarray(r2).tolist()))
        return ck.result()
    if cfg in ("perp_lines2", "parallel_lines2", "bisectors2"):
        a = np.array(v[0:2], float)
        d = np.array(v[2:4], float)
        if not np.any(d):
            raise Skip("zero")
        perp = np.array([-d[1], d[0]])
        if cfg == "perp_lines2":
            e = perp * c["k"] if truth else perp * c["k"] + d
            l, m = Line(P(a), P(a + d)), Line(P(np.array(v[4:6], float)), P(np.array(v[4:6], float) + e))
            l, m = Line(l.array * s[0]), Line(m.array * s[1])
            r, f = call(site, is_perpendicular, two(l), m)
            expect(r, f)
        elif cfg == "parallel_lines2":
            # both lines may be far from the origin (exactly representable offsets of 2^14 or 2^17)
            # (only the clearly non-parallel pairs: two distinct parallel lines at distance 1e5 from the origin differ by less than
            # the library's absolute tolerance after normalisation, which is the documented limit of its tolerances)
            F = 2.0 ** c.get("far", 0) if (c.get("far") and not truth) else 0.0
            a = a + F * np.array([1.0, -1.0])
            b = np.array(v[4:6], float) + F * np.array([-1.0, 2.0])
            e = d * c["k"] if truth else d * c["k"] + perp
            if np.linalg.matrix_rank(np.stack([d, b - a])) < 2:
                raise Skip("same line")
            l, m = Line(P(a), P(a + d)), Line(P(b), P(b + e))
            r, f = call(site, two(Line(l.array * s[0])).is_parallel, Line(m.array * s[1]))
            expect(r, f)
        else:
            e = np.array(v[4:6], float)
            if np.linalg.matrix_rank(np.stack([d, e])) < 2:
                raise Skip("parallel")
            l, m = Line(P(a), P(a + d)), Line(P(a), P(a + e))
            m_arg = Line(m.array * s[1])
            if c.get("via_perp"):
                # the second line as the library itself constructs it: the perpendicular through a of an auxiliary line (a line with
                # purely imaginary coefficients - the same real line, given by a representative with a complex phase)
                aux = Line(P(a + e), P(a + e + np.array([-e[1], e[0]])))
                m_arg, f = call(site + ":construct", aux.perpendicular, P(a))
                if f:
                    return [f]
                site += ":second-line-from-perpendicular()"
            r, f = call(site, angle_bisectors, two(Line(l.array * s[0])), m_arg)
            if f:
                return [f]
            B1, B2 = r
            u1 = d / np.linalg.norm(d) + e / np.linalg.norm(e)
            u2 = d / np.linalg.norm(d) - e / np.linalg.norm(e)
            exp = [np.array([-u[1], u[0], -(-u[1] * a[0] + u[0] * a[1])]) for u in (u1, u2)]
            tag = ":coll" if c["coll"] else ""
            rows1, rows2 = np.asarray(B1.array).reshape(-1, 3), np.asarray(B2.array).reshape(-1, 3)
            want = 1 if not c["coll"] else (2 if c["coll"] == 2 else (64 if c["coll"] == "8x8" else c["coll"]))
            if ck.check(len(rows1) == want and len(rows2) == want, "bisectors2:shape" + tag, (np.shape(B1.array), np.shape(B2.array))):
                for x1, x2 in zip(rows1, rows2):
                    if not ck.check(C.set_peq([x1, x2], exp, 1e-6), "bisectors2:value" + tag, (x1.tolist(), x2.tolist())):
                        break
                    ck.check(abs(np.sum(C.pnorm(x1)[:2] * C.pnorm(x2)[:2])) < 1e-6 * 10, "bisectors2:mutually-perpendicular" + tag, "")
        return ck.result()
    if cfg in ("perp_lines3", "bisectors3"):
        a = np.array(v[0:3], float)
        d = np.array(v[3:6], float)
        w = np.array(v[6:9], float)
        if np.linalg.matrix_rank(np.stack([d, w])) < 2:
            raise Skip("degenerate")
        perp = np.cross(np.cross(d, w), d)  # in the plane of d, w and perpendicular to d
        if cfg == "perp_lines3":
            e = perp * c["k"] if truth else perp * c["k"] + d * np.dot(d, d)
            l, m = Line(P(a), P(a + d)), Line(P(a), P(a + e))
            r, f = call(site, is_perpendicular, two(l), m)
            expect(r, f)
        else:
            l, m = Line(P(a), P(a + d)), Line(P(a), P(a + w))
            r, f = call(site, angle_bisectors, l, m)
            if f:
                return [f]
            for b, u in zip(r, None or [None, None]):
                pass
            u1 = d / np.linalg.norm(d) + w / np.linalg.norm(w)
            u2 = d / np.linalg.norm(d) - w / np.linalg.norm(w)
            dirs = [line3_direction(b.array) for b in r]
            ck.check(C.set_peq(dirs, [u1, u2], 1e-6), "bisectors3:directions", [x.tolist() for x in dirs])
            for b in r:
                cc, f = call("contains", b.contains, P(a))
                if f is None:
                    ck.check(bool(cc), "bisectors3:through-vertex")
        return ck.result()
    if cfg in ("perp_planes", "parallel_planes", "parallel_line_plane"):
        n1 = np.array(v[0:3], float)
        w = np.array(v[3:6], float)
        if np.linalg.matrix_rank(np.stack([n1, w])) < 2:
            raise Skip("degenerate")
        perp = np.cross(n1, w)
        if cfg == "perp_planes":
            n2 = perp * c["k"] if truth else perp * c["k"] + n1
            e1, e2 = Plane(np.append(n1, v[6]) * s[0]), Plane(np.append(n2, v[7]) * s[1])
            if c.get("farp") and not truth:
                # two planes that are clearly not perpendicular (the angle is at most 88.3 degrees), both spanned by points some thousand units
                # away from the origin: the coefficients of such planes are dominated by the offset, the normals are small
                ctr = np.array([1.0, -0.5, 0.25]) * c["farp"]

                def through(n, off):
                    a, b, cc = n
                    cand = [x for x in (np.array([b, -a, 0.0]), np.array([0.0, cc, -b]), np.array([cc, 0.0, -a])) if np.any(x)]
                    p0 = ctr + np.array([off, 0.0, -off])
                    b1 = cand[0]
                    b2 = next(x for x in cand[1:] if np.any(np.cross(b1, x)))
                    return Plane(P(p0), P(p0 + b1), P(p0 + b2))

                e1, e2 = through(n1, float(v[6])), through(n2, float(v[7]))
                site += ":planes-far-from-the-origin"
            r, f = call(site, is_perpendicular, two(e1), e2)
            expect(r, f)
        elif cfg == "parallel_planes":
            n2 = n1 * c["k"] if truth else n1 * c["k"] + perp
            if v[6] * c["k"] == v[7] and truth:
                raise Skip("equal planes")
            F = 2.0 ** (c.get("far", 0) if not truth else 0)  # planes far from the origin: offsets multiplied by 2^14 or 2^17
            if c.get("far") and not truth and (v[6] == 0 or v[7] == 0):
                raise Skip("plane through the origin")
            e1, e2 = Plane(np.append(n1, v[6] * F) * s[0]), Plane(np.append(n2, v[7] * F) * s[1])
            r, f = call(site, two(e1).is_parallel, e2)
            expect(r, f)
        else:
            dd = perp if truth else perp + n1
            a = np.array(v[8:11], float)
            if abs(np.dot(n1, a) + v[6]) < 1e-12:
                raise Skip("line in plane")
            F = 2.0 ** (c.get("far", 0) if not truth else 0)
            e1 = Plane(np.append(n1, v[6] * F) * s[0])
            a = a * F
            l = Line(P(a), P(a + dd))
            r, f = call(site, e1.is_parallel, l)
            expect(r, f)
        return ck.result()
    if cfg == "cocircular":
        cx, cy, rr = v[0], v[1], abs(v[2]) + 1
        idx = sorted(set(c["pyth"]))
        if len(idx) < 4:
            raise Skip("not four different points")
        pts = [np.array([cx + rr * UNIT[i][0] / UNIT[i][2], cy + rr * UNIT[i][1] / UNIT[i][2]]) for i in idx]
        if not truth:
            pts[3] = pts[3] + np.array([0.5, 0.25])
            # exact check that the moved point is off the circle
            if abs(np.sum((pts[3] - [cx, cy]) ** 2) - rr**2) < 1e-9:
                raise Skip("still on circle")
        cargs = [two(P(p)) if i == 0 else P(p, s[i % 2]) for i, p in enumerate(pts)]
        r, f = call(site, is_cocircular, *cargs)
        expect(r, f)
        # the relation does not depend on the order in which the four points are given
        for order in ((3, 2, 1, 0), (1, 3, 0, 2), (2, 0, 3, 1)):
            r, f = call(site + ":other-order", is_cocircular, *[cargs[i] for i in order])
            expect(r, f, tag=":other-order")
        return ck.result()
    if cfg == "cocircular3":
        # a circle in a plane of 3-space: centre + r (cos u + sin v) with a rational orthonormal pair u, v and rational points of
        # the unit circle; false: the fourth point leaves the circle inside the plane, or leaves the plane
        FR = [((1, 0, 0), (0, 1, 0), 1), ((1, 2, 2), (2, 1, -2), 3), ((2, -2, 1), (1, 2, 2), 3), ((0, 3, 4), (5, 0, 0), 5), ((2, 3, 6), (3, -6, 2), 7)]
        fu, fv, fd = FR[abs(v[4]) % len(FR)]
        fu, fv = np.array(fu, float) / fd, np.array(fv, float) / fd
        ctr, rr = np.array(v[0:3], float), float(abs(v[3]) + 1)
        idx = sorted(set(c["pyth"]))
        if len(idx) < 4:
            raise Skip("not four different points")
        if not truth and v[5] % 3 == 2:
            ctr = float(v[0]) * fu + float(v[1]) * fv  # the plane of the circle passes through the origin
        pts = [ctr + rr * (UNIT[i][0] * fu + UNIT[i][1] * fv) / UNIT[i][2] for i in idx]
        how = "on"
        if not truth:
            how = "off-plane:circle-through-a-plane-through-the-origin" if v[5] % 3 == 2 else ("off-in-plane" if v[5] % 2 else "off-plane")
            if how.startswith("off-plane:"):
                # lifted straight off the plane: the central projection from the origin maps the point back onto the circle
                pts[3] = pts[3] + np.cross(fu, fv) * float(v[6] or 2)
            else:
                pts[3] = ctr + (pts[3] - ctr) * 1.25 if how == "off-in-plane" else pts[3] + np.cross(fu, fv) * 0.5
        r, f = call(site + ":" + how, is_cocircular, *[two(P(p)) if i == 0 else P(p, s[i % 2]) for i, p in enumerate(pts)])
        expect(r, f, tag=":" + how)
        return ck.result()
    if cfg == "cocircular1":
        # points of the complex projective line (z, 1): cocircular (or collinear) in the complex plane iff the cross ratio is real
        cz, rr = complex(v[0], v[1]), float(abs(v[2]) + 1)
        idx = sorted(set(c["pyth"]))
        if len(idx) < 4:
            raise Skip("not four different points")
        if v[3] % 3 == 0:
            zs, how = [cz + (i - 2) * complex(v[4], v[5]) for i in idx], "on-a-line"  # four points of a real line of the complex plane
            if v[4] == 0 and v[5] == 0:
                raise Skip("not four different points")
        else:
            zs, how = [cz + rr * complex(UNIT[i][0], UNIT[i][1]) / UNIT[i][2] for i in idx], "on-a-circle"
        if not truth:
            zs[3] = zs[3] + (zs[3] - zs[0]) * 0.25j  # leaves the circle / the line through zs[0], zs[3] and hence the common one
            how = "off"
        objs = [Point(np.array([z, 1.0]) * (s[i % 2] if i else 1.0)) for i, z in enumerate(zs)]
        r, f = call(site + ":" + how, is_cocircular, *objs)
        expect(r, f, tag=":" + how)
        return ck.result()
    if cfg in ("collinear2", "concurrent2"):
        a, b = np.array(v[0:3], float), np.array(v[3:6], float)
        if np.linalg.matrix_rank(np.stack([a, b])) < 2:
            raise Skip("dependent")
        third = 2 * a - 3 * b
        extra = c["k"] * a + b
        off = np.array(v[6:9], float)
        if abs(np.linalg.det(np.stack([a, b, off]))) < 0.5:
            raise Skip("accidentally dependent")
        els = [a, b, third, extra if truth else off]
        # determinants are compared with an absolute tolerance of 1e-8 by design: keep magnitudes small (as for coplanar3)
        s = [x if abs(x) in (0.5, 1.0, 2.0) else math.copysign(1.0, x) for x in s]
        cls = Point if cfg == "collinear2" else Line
        fn = is_collinear if cfg == "collinear2" else is_concurrent
        objs = [cls(e * (s[i % 2])) for i, e in enumerate(els)]
        r, f = call(site, fn, two(objs[0]), *objs[1:])
        expect(r, f)
        for order in ((3, 2, 1, 0), (1, 3, 0, 2), (2, 3, 0, 1)):
            oo = [two(objs[0])] + objs[1:]
            r, f = call(site + ":other-order", fn, *[oo[i] for i in order])
            expect(r, f, tag=":other-order")
        r, f = call(site + ":three", fn, *objs[:3])
        expect(r, f, True, ":three")
        if not truth:
            r, f = call(site + ":three", fn, objs[0], objs[1], objs[3])
            expect(r, f, False, ":three")
        return ck.result()
    if cfg in ("coplanar3", "collinear3"):
        # a 4x4 determinant is compared with an absolute tolerance of 1e-8 by design: keep magnitudes small
        pts = [np.array([int(x / 2) for x in v[i * 4 : i * 4 + 4]], float) for i in range(3)]
        for p in pts:
            p[-1] = 1
        s = [x if abs(x) in (0.5, 1.0, 2.0) else math.copysign(1.0, x) for x in s]
        if np.linalg.matrix_rank(np.stack(pts)) < 3:
            raise Skip("dependent")
        if cfg == "coplanar3":
            fourth = pts[0] + c["k"] * (pts[1] - pts[0]) + 2 * (pts[2] - pts[0])
            off = np.array([int(x / 2) for x in v[12:16]], float)
            off[-1] = 1
            if abs(np.linalg.det(np.stack(pts + [off]))) < 0.5:
                raise Skip("accidentally coplanar")
            els = pts + [fourth if truth else off]
            objs = [Point(e * s[i % 2]) for i, e in enumerate(els)]
            r, f = call(site, is_coplanar, two(objs[0]), *objs[1:])
            expect(r, f)
            for order in ((3, 2, 1, 0), (1, 3, 0, 2), (2, 3, 0, 1)):
                oo = [two(objs[0])] + objs[1:]
                r, f = call(site + ":other-order", is_coplanar, *[oo[i] for i in order])
                expect(r, f, tag=":other-order")
            fifth = pts[0] - (pts[1] - pts[0]) + 3 * (pts[2] - pts[0])
            r, f = call(site + ":five", is_coplanar, *objs, Point(fifth))
            expect(r, f, truth, ":five")
        else:
            raise Skip("is_collinear is an alias of is_coplanar; in 3D it decides coplanarity (documented)")
        return ck.result()
    raise KeyError(cfg)


# --------------------------------------------------------------------------------------------- predicates on mixed collections
@st.composite
def mixed_case(draw, tier="quick"):
    what = draw(st.sampled_from(["collinear2", "concurrent2", "coplanar3"]))
    k = draw(st.integers(2, 4))
    return {"what": what, "pos": [{"v": [draw(C.ints(4)) for _ in range(12)], "mode": draw(st.sampled_from(["all", "first", "later", "all", "dep_lead_true", "dep_lead_false"])), "c": draw(st.sampled_from([2, -1, 3]))} for _ in range(k)],
            "bcast_first": draw(st.booleans())}


def mixed_columns(c):
    """is_collinear / is_concurrent with four arguments and is_coplanar with five: every collection position has its own exact
    truth value (all dependent / already the first n independent / only a later argument off)"""
    what = c["what"]
    d = 2 if what.endswith("2") else 3
    n = d + 1
    nargs = n + 1
    cols = [[] for _ in range(nargs)]
    truth = []
    for ps in c["pos"]:
        v = ps["v"]
        if len(v) < 8 + n:
            raise Skip("malformed")
        for attempt in range(6):  # deterministic repair of dependent draws instead of rejecting them
            base = [np.array([int(x / 1) for x in v[i * n : i * n + n]], float) for i in range(d)]
            off = np.array([int(x) for x in v[8 : 8 + n]], float)
            for i, b in enumerate(base):
                b[i] += attempt
                b[-1] = 1 if what != "concurrent2" else b[-1]
            off[d - 1] -= attempt
            if what != "concurrent2":
                off[-1] = 1
            if X.rank([[Fraction(int(x)) for x in b] for b in base + [off]]) == n:
                break
        else:
            raise Skip("dependent draw")
        dep1 = sum((i + 1) * b for i, b in enumerate(base))  # in the span
        dep2 = sum((ps["c"] if i == 0 else 1) * b for i, b in enumerate(base))
        mode = ps["mode"]
        # dependent leading arguments: the first d objects do not span the hyperplane (a multiple of the first object, or in
        # 3D three collinear points); the remaining ones decide
        lead = [base[0], ps["c"] * base[0]] if d == 2 else [base[0], base[1], base[0] + ps["c"] * base[1]]
        if mode == "all":
            els, t = base + [dep1, dep2], True
        elif mode == "first":
            els, t = base + [off, dep2], False
        elif mode == "dep_lead_true":
            els, t = lead + [base[-1], dep1], True
        elif mode == "dep_lead_false":
            els, t = lead + [base[-1], off], False
        else:
            els, t = base + [dep1, off], False
        for j in range(nargs):
            cols[j].append(els[j])
        truth.append(t)
    return what, cols, truth


def run_mixed(c):
    what, cols, truth = mixed_columns(c)
    cls = PointCollection if what != "concurrent2" else LineCollection
    fn = {"collinear2": is_collinear, "concurrent2": is_concurrent, "coplanar3": is_coplanar}[what]
    args = [cls(np.array(col)) for col in cols]
    if c["bcast_first"] and all(np.array_equal(cols[0][0], x) for x in cols[0]):
        args[0] = (Point if what != "concurrent2" else Line)(cols[0][0])
    r, f = call(f"mixed:{what}", fn, *args)
    if f:
        return [f]
    ck = Checker()
    r = np.asarray(r)
    ck.check(r.shape == (len(truth),) and np.array_equal(r, np.array(truth)), f"mixed:{what}:per-position-truth", (r.tolist(), truth, [p["mode"] for p in c["pos"]]))
    return ck.result()



# --------------------------------------------------------------------------------------------- collections of 3D subspaces
@st.composite
def s3c_case(draw, tier="quick"):
    k = draw(st.integers(2, 4))
    return {"kind": draw(st.sampled_from(["line", "line", "plane"])), "members": [{"shape": draw(st.sampled_from(["generic", "axis-x", "axis-y", "axis-z", "origin", "origin-axis"])), "v": [draw(C.ints(6)) for _ in range(9)],
                                                                             "s": draw(C.scale())} for _ in range(k)], "grid": draw(st.booleans())}


def run_s3c(c):
    """base_point / direction / basis_matrix / general_point of a LineCollection or PlaneCollection of 3-space whose members have
    different special positions (through the origin, parallel to a coordinate axis, generic): every position meets the definition
    for its own member"""
    kind = c["kind"]
    arrs, geo = [], []
    AX = {"axis-x": (1.0, 0.0, 0.0), "axis-y": (0.0, 1.0, 0.0), "axis-z": (0.0, 0.0, 1.0)}
    for mb in c["members"]:
        v = mb["v"]
        a, d, e = np.array(v[0:3], float), np.array(v[3:6], float), np.array(v[6:9], float)
        sh = mb["shape"]
        if sh in AX:
            d = np.array(AX[sh]) * (d[0] if d[0] else 1.0)
        elif sh == "origin":
            a = np.zeros(3)
        elif sh == "origin-axis":
            a, d = np.zeros(3), np.array([0.0, 0.0, 1.0]) * (d[2] if d[2] else 2.0)
        elif sh != "generic":
            raise Skip("malformed")
        if not np.any(d):
            raise Skip("zero direction")
        sc = C.scale_value(mb["s"])
        if kind == "line":
            arrs.append(np.asarray(Z.plucker_dual(list(a) + [1], list(a + d) + [1]), float) * sc / 4)
            geo.append((a, [d]))
        else:
            if np.linalg.matrix_rank(np.stack([d, e])) < 2:
                raise Skip("degenerate plane")
            nrm = np.cross(d, e)
            arrs.append(np.append(nrm, -np.dot(nrm, a)) * sc)
            geo.append((a, [d, e]))
    k = len(arrs)
    A = np.stack(arrs)
    shape = (k,)
    if c["grid"] and k == 4:
        shape = (2, 2)
        A = A.reshape(shape + A.shape[1:])
    S = (LineCollection if kind == "line" else PlaneCollection)(A)
    singles = [(Line if kind == "line" else Plane)(x) for x in arrs]
    ck = Checker()
    tag = f"{kind}3-collection" + (":grid" if len(shape) > 1 else "")

    def rows(x, extra):
        arr = np.asarray(getattr(x, "array", x))
        if not ck.check(arr.shape[: len(shape)] == shape and arr.ndim == len(shape) + extra, tag + ":result-shape", (arr.shape, shape)):
            return None
        return arr.reshape((k,) + arr.shape[len(shape):])

    bm, f = call(tag + ":basis_matrix", lambda: S.basis_matrix)
    if f:
        ck.add(f)
    else:
        B = rows(bm, 2)
        if B is not None:
            for j in range(k):
                want = 2 if kind == "line" else 3
                ok = ck.check(B[j].shape == (want, 4) and np.allclose(B[j] @ B[j].conj().T, np.eye(want), atol=1e-9), tag + ":basis_matrix:orthonormal", (j, c["members"][j]["shape"]))
                if ok:
                    for r in B[j]:
                        cc, f = call(tag + ":contains", singles[j].contains, Point(r))
                        if f is None:
                            ck.check(bool(cc), tag + ":basis_matrix:spans-member", (j, c["members"][j]["shape"], r.tolist()))
    gp, f = call(tag + ":general_point", lambda: S.general_point)
    if f:
        ck.add(f)
    else:
        Gp = rows(gp, 1)
        if Gp is not None:
            for j in range(k):
                cc, f = call(tag + ":contains", singles[j].contains, Point(Gp[j]))
                if f is None:
                    ck.check(not bool(cc), tag + ":general_point:outside-member", (j, c["members"][j]["shape"], Gp[j].tolist()))
    if kind == "line":
        bp, f = call(tag + ":base_point", lambda: S.base_point)
        if f:
            ck.add(f)
        else:
            Bp = rows(bp, 1)
            if Bp is not None:
                for j in range(k):
                    if ck.check(abs(Bp[j][-1]) > 1e-9 * np.max(np.abs(Bp[j])), tag + ":base_point:finite", (j, c["members"][j]["shape"], Bp[j].tolist())):
                        cc, f = call(tag + ":contains", singles[j].contains, Point(Bp[j]))
                        if f is None:
                            ck.check(bool(cc), tag + ":base_point:on-member", (j, c["members"][j]["shape"], Bp[j].tolist()))
        dr, f = call(tag + ":direction", lambda: S.direction)
        if f:
            ck.add(f)
        else:
            Dr = rows(dr, 1)
            if Dr is not None:
                for j in range(k):
                    d = geo[j][1][0]
                    ck.check(abs(Dr[j][-1]) < 1e-9 * np.max(np.abs(Dr[j])) and C.peq_all(Dr[j][:3], d, 1, 1e-9), tag + ":direction", (j, c["members"][j]["shape"], Dr[j].tolist(), d.tolist()))
    return ck.result()


LAWS = [
    Law("line2d", lambda tier: l2_case(tier), run_l2, l2_nontrivial, l2_labels, {"quick": 1500, "thorough": 30000},
        "2D line: perpendicular/parallel/project/mirror + base_point/direction/basis_matrix/general_point", shard=300, mandatory=("point-on-line", "mixed-mask", "vertical", "origin")),
    Law("line2d_complex_points", lambda tier: l2c_case(tier), run_l2c, lambda c: True, lambda c: [c["shape"], "coll" if c["n"] else "single"] + sorted(set(c["where"][: max(1, c["n"])])),
        {"quick": 600, "thorough": 10000}, "real 2D line, points with Gaussian-integer coordinates: mirror (involution), project, perpendicular by the bilinear formulas", shard=300),
    Law("subspace3d", lambda tier: s3_case(tier), run_s3, lambda c: c["shape"] != "generic" or "on" in c["where"][: max(1, c["n"])], s3_labels, {"quick": 1200, "thorough": 25000},
        "3D line / plane: perpendicular/parallel/project/mirror + helpers", shard=200, mandatory=("point-on-subspace", "mixed-mask")),
    Law("subspace3d_collections", lambda tier: s3c_case(tier), run_s3c, lambda c: len({m["shape"] for m in c["members"]}) > 1,
        lambda c: [c["kind"]] + (["origin+axis-parallel"] if any(m["shape"].startswith("origin") for m in c["members"]) and any(m["shape"].startswith("axis") for m in c["members"]) else []) + (["grid"] if c["grid"] and len(c["members"]) == 4 else []),
        {"quick": 800, "thorough": 15000}, "LineCollection / PlaneCollection of 3-space mixing members through the origin, parallel to an axis and generic: base_point, direction, basis_matrix, general_point per position", shard=200,
        mandatory=("origin+axis-parallel", "grid")),
    Law("predicates_mixed_collections", lambda tier: mixed_case(tier), run_mixed, lambda c: len({p["mode"] for p in c["pos"]}) > 1,
        lambda c: [c["what"]] + sorted({p["mode"] for p in c["pos"]}), {"quick": 800, "thorough": 15000},
        "is_collinear/is_concurrent (4 arguments) and is_coplanar (5 arguments) on collections whose positions have different truth values", shard=300),
    Law("predicates", lambda tier: pred_case(tier), run_pred, lambda c: True, lambda c: [c["cfg"], "true" if c["truth"] else "false"] + (["far-from-origin"] if c.get("far") and not c["truth"] and c["cfg"].startswith("parallel") else []) + (["perp_planes:false:far-from-origin"] if c.get("farp") and not c["truth"] and c["cfg"] == "perp_planes" else []) + (["bisectors2:second-line-from-perpendicular()"] if c.get("via_perp") and c["cfg"] == "bisectors2" else []) + ([f"{c['cfg']}:collection>=64"] if c["coll"] in (64, 70, "8x8") else []), {"quick": 3500, "thorough": 50000},
        "is_perpendicular / is_parallel / is_cocircular / is_collinear / is_coplanar / is_concurrent exact truth values; angle_bisectors", shard=400,
        mandatory=("perp_lines2:collection>=64", "perp_lines3:collection>=64", "cocircular:collection>=64", "bisectors2:collection>=64", "cocircular3", "cocircular1", "perp_planes:false:far-from-origin", "bisectors2:second-line-from-perpendicular()")),
]


# ------------------------------------------------------------------------------------------- equivalent ways of asking
from .. import forms as _forms  # noqa: E402

LAWS.append(
    Law("call_forms", lambda tier: _forms.call_forms_strategy("C10")(tier), _forms.run_call_forms("C10"), lambda c: True, lambda c: [c["entry"], f"d{c['d']}"], {"quick": 500, "thorough": 6000},
        "the same question asked in several ways (positional / keyword arguments, method / function / operator form, symmetric argument orders) on the objects of the shared pool: same answer", shard=250)
)
