"""C11 Cross ratio has its closed-form value, its symmetries and projective invariance."""
from __future__ import annotations

from fractions import Fraction

import numpy as np
from hypothesis import strategies as st

import geometer as G
from geometer import Line, Plane, Point, PointCollection, Transformation, crossratio, harmonic_set, join
from geometer.exceptions import NotCollinear, NotConcurrent

from .. import common as C
from .. import exact as X
from .. import zoo as Z
from ..runner import Checker, Fail, Law, Skip, call, exc_fail

RULE = (
    "Dimension 1, 2, 3; a line through two independent integer vectors A, B (|c|<=6, finite or at infinity); four pairwise "
    "different parameters (s:t) drawn from a list that contains (1:0), (0:1), (1:1), (1:-1) (so A, B themselves, and for "
    "suitable A, B the point at infinity / the origin occur); pencil vertex V generic, on a coordinate axis, at the origin or at "
    "infinity; in 3D an axis line for coaxial planes and a vertex for concurrent coplanar lines; single and collection; a random "
    "invertible integer transformation. Non-trivial = a special parameter or a special vertex occurs; distinct by case hash."
)
ASSUMPTIONS = ["closed form [ac][bd]/([ad][bc]) of the 2x2 parameter determinants in exact Fractions, compared on P^1 (tol 1e-7)"]

PARS = [(1, 0), (0, 1), (1, 1), (1, -1), (2, 1), (1, 2), (3, -1), (-2, 3), (1, 3), (-3, 2)]
SPECIAL_V = {2: [[0, 0, 1], [3, 0, 1], [0, -2, 1], [1, 2, 0], [1, 0, 0], [0, 1, 0]], 3: [[0, 0, 0, 1], [2, 0, 0, 1], [0, 0, -3, 1], [1, 2, 0, 0], [0, 0, 1, 0]]}
ORDERS = {"abcd": (0, 1, 2, 3), "badc": (1, 0, 3, 2), "cdab": (2, 3, 0, 1), "abdc": (0, 1, 3, 2), "acbd": (0, 2, 1, 3)}


def br(p, q):
    return p[0] * q[1] - p[1] * q[0]


def cr_exact(ps):
    a, b, c, d = ps
    return br(a, c) * br(b, d), br(a, d) * br(b, c)


@st.composite
def cr_case(draw, tier="quick"):
    form = draw(st.sampled_from(["points1", "points2", "points3", "lines2", "from_point2", "planes3", "lines3"]))
    d = int(form[-1])
    pars = [list(p) for p in draw(st.permutations(PARS))[:4]]
    special = draw(st.booleans())
    V = draw(st.sampled_from(SPECIAL_V[d])) if (special and d > 1) else draw(C.hpoint(d, 6))
    return {"form": form, "d": d, "A": draw(C.hpoint(d, 6)), "B": draw(C.hpoint(d, 6)), "V": V, "W": draw(C.hpoint(d, 6)), "pars": pars,
            "m": draw(Z.params(9)), "order": draw(st.sampled_from(sorted(ORDERS))), "transform": draw(st.booleans()),
            "coll": draw(st.sampled_from([0, 0, 0, 2, 2, "8x8", "2x5x7", "70", "1x64"])),
            "ipars": [[draw(st.integers(-2, 2)), draw(st.integers(-2, 2))] for _ in range(4)] if draw(st.sampled_from([False, False, True])) else None,
            "pscale": [draw(st.integers(0, 6)) for _ in range(4)],
            "rep": draw(st.sampled_from([None, None, None, None, [0, 1], [2, 3], [0, 2], [1, 3], [0, 3], [1, 2]]))}


PLANE_FACTORS = [1.0, 1.0, 1000 / 3, 700.7, -1234.5, 0.1, 97.3]


def f2(v):
    return np.array([float(x.re) if isinstance(x, X.CQ) else float(x) for x in v])


def build_config(c):
    """-> (list of four library arguments, kwargs, exact parameter list)"""
    d, form = c["d"], c["form"]
    A, B, V, W = [C.exact_vec(v) for v in (c["A"], c["B"], c["V"], c["W"])]
    if X.rank([A, B]) < 2:
        raise Skip("A, B dependent")
    pars = [[Fraction(a), Fraction(b)] for a, b in c["pars"]]
    ip = c.get("ipars")
    if ip and form in ("points1", "points2", "points3", "from_point2"):
        # complex parameters: points of the complex projective line through A and B that are not complex multiples of real points
        if len(ip) != 4 or any(len(x) != 2 for x in ip):
            raise Skip("malformed")
        pars = [[X.CQ(a, x[0]), X.CQ(b, x[1])] for (a, b), x in zip(pars, ip)]
    rep = c.get("rep")
    if rep is not None:
        # two of the four elements coincide: the cross ratio is 1 (a = b, c = d), 0 (a = c, b = d) or infinite (a = d, b = c)
        if form not in ("points1", "points2", "points3", "lines2", "from_point2") or len(rep) != 2 or not 0 <= rep[0] < rep[1] <= 3:
            raise Skip("no coincidences for this form")
        pars = list(pars)
        pars[rep[1]] = pars[rep[0]]
    if len(pars) != 4 or any(br(pars[i], pars[j]) == 0 for i in range(4) for j in range(i) if [j, i] != rep) or any(not (a or b) for a, b in pars):
        raise Skip("parameters not pairwise different")
    pts = [[s * a + t * b for a, b in zip(A, B)] for s, t in pars]
    cplx = any(isinstance(x, X.CQ) and x.im != 0 for p in pts for x in p)
    P = [Point(C.to_c(p) if cplx else f2(p)) for p in pts]
    if form.startswith("points"):
        return P, {}, pars
    if form in ("lines2", "from_point2"):
        if X.rank([A, B, V]) < 3:
            raise Skip("vertex on the line")
        Vp = Point(f2(V))
        if form == "from_point2":
            return P, {"from_point": Vp}, pars
        ls = [Line(f2(X.cofactor_hyperplane([V, p]))) for p in pts]
        return ls, {}, pars
    if form == "planes3":
        if X.rank([A, B, V, W]) < 4:
            raise Skip("axis meets the line")
        # each plane by its own representative: equations with coefficients of some hundreds or thousands that are no integers (planes
        # given in millimetres, normals from cross products of edge vectors) are as good as the small integer ones
        ps = c.get("pscale") or [0, 0, 0, 0]
        if c.get("coll") or c.get("transform"):
            # collections mix these representatives with others of size one and a transformation multiplies the sizes once more: the
            # absolute tolerances inside crossratio are not made for a factor 1e6 between its arguments (moderate magnitudes only)
            ps = [0, 0, 0, 0]
        if len(ps) != 4 or any(not isinstance(k, int) or not 0 <= k < len(PLANE_FACTORS) for k in ps):
            raise Skip("malformed")
        es = [Plane(f2(X.cofactor_hyperplane([V, W, p])) * PLANE_FACTORS[k]) for p, k in zip(pts, ps)]
        return es, {}, pars
    if form == "lines3":
        if X.rank([A, B, V]) < 3:
            raise Skip("vertex on the line")
        ls = [Line(Z.plucker_dual([int(x) for x in V], [int(x) for x in p])) for p in pts]
        return ls, {}, pars
    raise KeyError(form)


def coll_shape(coll):
    if coll in (0, 2):
        return (2,) if coll else ()
    if coll not in ("8x8", "2x5x7", "70", "1x64"):
        raise Skip("malformed collection shape")
    return tuple(int(x) for x in coll.split("x"))


def stack(objs, shape=(2,)):
    """collection of the given shape built from a single object (other representatives of it: factors 1, -2, 0.5, 3 in turn)"""
    cls = {G.Point: G.PointCollection, G.Line: G.LineCollection, G.Plane: G.PlaneCollection}[type(objs)]
    size = int(np.prod(shape))
    fac = np.array([1.0, -2.0, 0.5, 3.0])[np.arange(size) % 4]
    base = objs.array
    if size > 2:
        # the collinearity / concurrency tests compare determinants with an absolute tolerance and large batches use a less
        # accurate closed form: keep the coordinates of the (possibly transformed) object at magnitude one (exact power of two)
        from .c01 import pow2_normalise

        base = pow2_normalise(base)
    a = base[None] * fac.reshape((size,) + (1,) * base.ndim)
    return cls(a.reshape(shape + objs.array.shape))


def run_cr(c):
    args, kw, pars = build_config(c)
    form = c["form"]
    order = ORDERS[c["order"]]
    args = [args[i] for i in order]
    pars = [pars[i] for i in order]
    if c["transform"]:
        if form == "points1":
            t = Transformation(Z.int_matrix(c["m"], 2))
        else:
            t = Transformation(Z.int_matrix(c["m"], c["d"] + 1))
        args = [t * a for a in args]
        kw = {k: t * v for k, v in kw.items()}
    shape = coll_shape(c["coll"])
    if c["coll"]:
        args = [stack(a, shape) if i % 2 == 0 else a for i, a in enumerate(args)]
    if form == "from_point2" and c["coll"] == 2 and not c["transform"] and "from_point" in kw:
        # the view points as a collection that mixes a finite point with a point at infinity (a direction off the line)
        A_, B_ = (np.array([float(x) for x in c[k]]) for k in ("A", "B"))
        for dv in ([1.0, 0.0, 0.0], [0.0, 1.0, 0.0], [1.0, 1.0, 0.0], [2.0, -1.0, 0.0]):
            if abs(np.linalg.det(np.stack([A_, B_, np.array(dv)]))) > 0.5:
                kw = {"from_point": G.PointCollection(np.stack([np.asarray(kw["from_point"].array, float), np.array(dv)]))}
                break
    num, den = cr_exact(pars)
    site = f"crossratio:{form}" + (":transformed" if c["transform"] else "") + (":coll" if c["coll"] else "") + (">=64" if isinstance(c["coll"], str) else "")
    r, f = call(site, lambda: crossratio(*args, **kw))
    if f:
        return [f]
    ck = Checker()
    vals = np.atleast_1d(np.asarray(r)).ravel()
    ck.check(np.shape(r) == shape, site + ":shape", (np.shape(r), shape))
    if len(vals) > 2:
        # the same four objects at every position
        same = np.allclose(vals, vals[0], rtol=1e-6, atol=1e-9, equal_nan=True) if np.all(np.isfinite(vals)) else all(C.p1_eq(complex(x), complex(vals[0]), 1e-6) for x in vals)
        ck.check(same, site + ":same-value-at-every-position", C.short(vals.tolist()))
        vals = vals[:1]
    for v in vals:
        ck.check(C.p1_eq(complex(v), (X.to_complex(num), X.to_complex(den)), 1e-6), site + ":value", (complex(v), (str(num), str(den)), c["order"]))
    if form == "planes3" and not c["coll"] and not c["transform"]:
        # two more pencils of planes right afterwards, about the axes through the origin with the directions (1, 1, 0) and (1, -1, 0)
        # (orthogonal axes with the same dominant coordinate): the value is that of the parameters for each pencil
        for dirn in ([1, 1, 0], [1, -1, 0], [1, 1, 1], [2, -1, -1]):
            try:
                a2, kw2, pars2 = build_config(dict(c, V=[0, 0, 0, 1], W=dirn + [1]))
            except Skip:
                continue
            a2 = [a2[i] for i in order]
            pars2 = [pars2[i] for i in order]
            n2, d2 = cr_exact(pars2)
            r2, f = call(site + ":second-pencil", lambda: crossratio(*a2, **kw2))
            if f:
                ck.add(f)
                continue
            ck.check(C.p1_eq(complex(np.asarray(r2).ravel()[0]), (X.to_complex(n2), X.to_complex(d2)), 1e-6), site + ":second-pencil:value", (complex(np.asarray(r2).ravel()[0]), (str(n2), str(d2)), dirn))
    return ck.result()


def cr_nontrivial(c):
    sp = any(tuple(p) in ((1, 0), (0, 1), (1, 1), (1, -1)) for p in c["pars"])
    return sp or c["V"] in SPECIAL_V.get(c["d"], [])


def cr_labels(c):
    out = [c["form"], c["order"]]
    if c["V"] in SPECIAL_V.get(c["d"], []) and c["form"] in ("lines2", "from_point2", "lines3", "planes3"):
        out.append("special-vertex")
    if any(tuple(p) in ((1, 0), (0, 1)) for p in c["pars"]):
        out.append("endpoint-parameter")
    if c["transform"]:
        out.append("transformed")
    if isinstance(c["coll"], str):
        out.append("collection>=64" + ("-several-axes" if "x" in c["coll"] else ""))
    if c["form"] == "from_point2" and c["coll"] == 2 and not c["transform"]:
        out.append("viewpoints-finite-and-at-infinity")
    if c.get("ipars") and c["form"] in ("points1", "points2", "points3", "from_point2") and any(x[0] or x[1] for x in c["ipars"]):
        out.append("complex-parameters")
    if c.get("rep") and c["form"] in ("points1", "points2", "points3", "lines2", "from_point2"):
        # the positions are those after the argument order has been applied
        pos = sorted(ORDERS[c["order"]].index(k) for k in c["rep"])
        out.append("coincident-arguments:" + {(0, 1): "one", (2, 3): "one", (0, 2): "zero", (1, 3): "zero", (0, 3): "infinite", (1, 2): "infinite"}[tuple(pos)])
    if c["form"] == "planes3" and not c["coll"] and not c["transform"] and sum(1 for k in (c.get("pscale") or []) if k >= 2 and k != 5) >= 3:
        out.append("planes3:large-non-integer-coefficients")
    return out


# ------------------------------------------------------------------------------------------- harmonic set
@st.composite
def hs_case(draw, tier="quick"):
    d = draw(st.sampled_from([2, 3]))
    pars = [list(p) for p in draw(st.permutations(PARS))[:3]]
    return {"d": d, "A": draw(C.hpoint(d, 6)), "B": draw(C.hpoint(d, 6)), "pars": pars, "coll": draw(st.sampled_from([0, 0, 2])),
            "scales": [draw(C.scale()) for _ in range(3)], "bigint": draw(st.sampled_from([None, None, 1000, 3000, 700]))}


def run_hs(c):
    d = c["d"]
    A, B = C.exact_vec(c["A"]), C.exact_vec(c["B"])
    if X.rank([A, B]) < 2:
        raise Skip("dependent")
    pars = [[Fraction(a), Fraction(b)] for a, b in c["pars"]]
    pa, pb, pc = pars
    # c = alpha a + beta b  ->  d = alpha a - beta b
    det = br(pa, pb)
    alpha = br(pc, pb) / det
    beta = br(pa, pc) / det
    pd = [alpha * pa[0] - beta * pb[0], alpha * pa[1] - beta * pb[1]]
    num, den = cr_exact([pa, pb, pc, pd])
    if den == 0 or num / den != -1:
        from ..runner import HarnessError

        raise HarnessError("harmonic conjugate oracle inconsistent")
    pts = [[s * a + t * b for a, b in zip(A, B)] for s, t in (pa, pb, pc, pd)]
    sc = [C.scale_value(s) for s in c["scales"]]
    P = [Point(f2(p) * s) for p, s in zip(pts[:3], sc)]
    big = c.get("bigint")
    if big:
        # integer-typed points with coordinates of a few thousand (exact in every integer step of the construction; the same
        # values as floats are outside the range of the library's absolute collinearity tolerance)
        ints = [np.array([int(x) for x in p], dtype=object) if all(Fraction(x).denominator == 1 for x in p) else None for p in pts[:3]]
        if any(v is None for v in ints) or not isinstance(big, int) or not 1 <= big <= 5000:
            raise Skip("not integral")
        P = [Point((v * big).astype(np.int64)) for v in ints]
    if c["coll"]:
        P = [PointCollection(np.stack([p.array, p.array * 3])) for p in P]
    site = f"harmonic_set:d{d}" + (":coll" if c["coll"] else "") + (":integer-coordinates-in-the-thousands" if big else "")
    r, f = call(site, lambda: harmonic_set(*P))
    if f:
        return [f]
    ck = Checker()
    exp = f2(pts[3])
    ck.check(r.array.shape == ((2, d + 1) if c["coll"] else (d + 1,)), site + ":shape", r.array.shape)
    ck.check(C.peq_all(r.array, exp, 1, 1e-7), site + ":value", (r.array.tolist(), exp.tolist()))
    return ck.result()


# ------------------------------------------------------------------------------------------- negative cases
@st.composite
def neg_case(draw, tier="quick"):
    d = draw(st.sampled_from([2, 3]))
    form = draw(st.sampled_from(["points", "lines"] if d == 2 else ["points"]))
    return {"d": d, "form": form, "v": [draw(C.hpoint(d, 6)) for _ in range(4)], "bad": draw(st.integers(2, 3)), "mixed": draw(st.sampled_from([0, 0, 1, 2])),
            "dup": draw(st.sampled_from([None, None, None, [0, 1], [0, 2], [0, 3], [1, 2], [1, 3], [2, 3]]))}


def run_neg(c):
    d = c["d"]
    v = [C.exact_vec(x) for x in c["v"]]
    if X.rank(v[:2]) < 2:
        raise Skip("dependent")
    # three (co)linear elements and one exactly off
    third = [2 * a - 3 * b for a, b in zip(v[0], v[1])]
    els = [v[0], v[1], third, v[3]] if c["bad"] == 3 else [v[0], v[1], v[3], third]
    if X.rank([v[0], v[1], v[3]]) < 3:
        raise Skip("accidentally collinear")
    dup = c.get("dup")
    if dup is not None:
        # three elements in general position, one of them given twice (by another representative) in the positions dup: still not four
        # collinear points / concurrent lines
        if len(dup) != 2 or not 0 <= dup[0] < dup[1] <= 3:
            raise Skip("malformed")
        rest = iter([v[0], v[3]])
        els = [v[1] if k == dup[0] else [-2 * x for x in v[1]] if k == dup[1] else next(rest) for k in range(4)]
    if c["form"] == "points":
        args = [Point(f2(e)) for e in els]
        want = NotCollinear
    else:
        args = [Line(f2(e)) for e in els]
        want = NotConcurrent
    mixed = c.get("mixed", 0)
    if mixed:
        # a collection in which only one position is not collinear / concurrent (the other one is a valid quadruple): the call
        # as a whole must still be refused
        fourth = [5 * a + 2 * b for a, b in zip(v[0], v[1])]
        good = [v[0], v[1], third, fourth]
        cls = {G.Point: G.PointCollection, G.Line: G.LineCollection}[type(args[0])]
        rows = [[f2(g), f2(e)] if mixed == 1 else [f2(e), f2(g)] for g, e in zip(good, els)]
        args = [cls(np.stack(r)) for r in rows]
    try:
        r = crossratio(*args)
    except want:
        return []
    except Exception as e:  # noqa: BLE001
        f = exc_fail(e, f"crossratio:negative:{c['form']}")
        f.kind = "WRONG_" + f.kind
        return [f]
    return [Fail("NO_RAISE", f"crossratio:negative:{c['form']}:d{d}" + (":mixed-collection" if mixed else ""), repr(r))]


# ------------------------------------------------------------------------------------------- clustered points of P^1
@st.composite
def cluster_case(draw, tier="quick"):
    offs = draw(st.permutations([0, 1, 2, 3, 4, 6, 9]))[:4]
    return {"N": draw(st.sampled_from([0, 10, 1000, 10**5, 10**6, -(10**6)])), "offs": [int(o) for o in offs], "w": draw(st.sampled_from([1, 1, 2])),
            "coll": draw(st.booleans())}


def run_cluster(c):
    """four different integer points N + o_i of the projective line: the determinants are exact in float64, the cross ratio
    only depends on the offsets (translation invariance) - also when the points are close together relative to |N|"""
    N, offs, w = c["N"], c["offs"], c["w"]
    if len(set(offs)) < 4:
        raise Skip("equal offsets")
    pts = [Point(np.array([float((N + o) * w), float(w)])) for o in offs]
    pars = [[Fraction(o), Fraction(1)] for o in offs]
    num, den = cr_exact(pars)
    if c["coll"]:
        pts = [G.PointCollection(np.stack([p.array, p.array])) for p in pts]
    r, f = call("crossratio:cluster1", crossratio, *pts)
    if f:
        return [f]
    ck = Checker()
    for v in np.atleast_1d(r).ravel():
        ck.check(C.p1_eq(complex(v), (complex(num), complex(den)), 1e-9), "crossratio:points1:clustered", (complex(v), str(num), str(den), N))
    return ck.result()


LAWS = [
    Law("crossratio", lambda tier: cr_case(tier), run_cr, cr_nontrivial, cr_labels, {"quick": 3000, "thorough": 60000},
        "closed-form value for every form (points 1D/2D/3D, concurrent lines 2D/3D, from_point, coaxial planes), argument orders "
        "abcd/badc/cdab/abdc/acbd (the symmetry relations), invariance under a projective map", shard=400,
        mandatory=("special-vertex", "endpoint-parameter", "transformed", "lines2", "planes3", "points1", "complex-parameters", "collection>=64-several-axes", "viewpoints-finite-and-at-infinity", "planes3:large-non-integer-coefficients", "coincident-arguments:infinite", "coincident-arguments:zero", "coincident-arguments:one")),
    Law("crossratio_clustered_1d", lambda tier: cluster_case(tier), run_cluster, lambda c: abs(c["N"]) >= 1000, lambda c: [f"N={c['N']}"], {"quick": 400, "thorough": 5000},
        "four integer points N+o_i of P^1 (|N| up to 1e6, exact determinants): value depends on the offsets only", shard=400),
    Law("harmonic_set", lambda tier: hs_case(tier), run_hs, lambda c: True, lambda c: [f"d{c['d']}", "coll" if c["coll"] else "single"] + (["big-integers"] if c.get("bigint") else []),
        {"quick": 1000, "thorough": 20000}, "harmonic_set(a,b,c) equals the exactly computed harmonic conjugate", shard=400),
    Law("negative", lambda tier: neg_case(tier), run_neg, lambda c: True, lambda c: [c["form"], f"d{c['d']}"] + ([f"{c['form']}:one-element-given-twice:positions{c['dup'][0]}{c['dup'][1]}"] if c.get("dup") else []) + (["mixed-collection"] if c.get("mixed") else []), {"quick": 1200, "thorough": 12000},
        "non-collinear points raise NotCollinear, non-concurrent lines raise NotConcurrent - also when one of three independent elements is given twice, in any two positions", shard=400,
        mandatory=("lines:one-element-given-twice:positions12", "points:one-element-given-twice:positions12")),
]


def axis_at_infinity(case):
    """coaxial planes whose common line lies in the plane at infinity (parallel planes), decided exactly"""
    if case.get("form") != "planes3":
        return False
    V, W = np.array(case["V"], dtype=float), np.array(case["W"], dtype=float)
    if case.get("transform"):
        m = Z.int_matrix(case["m"], 4)
        V, W = m @ V, m @ W
    return V[-1] == 0 and W[-1] == 0


PREDICATES = {"axis_at_infinity": axis_at_infinity}


# ------------------------------------------------------------------------------------------- equivalent ways of asking
from .. import forms as _forms  # noqa: E402

LAWS.append(
    Law("call_forms", lambda tier: _forms.call_forms_strategy("C11")(tier), _forms.run_call_forms("C11"), lambda c: True, lambda c: [c["entry"], f"d{c['d']}"], {"quick": 500, "thorough": 6000},
        "the same question asked in several ways (positional / keyword arguments, method / function / operator form, symmetric argument orders) on the objects of the shared pool: same answer", shard=250)
)
