"""C12 Queries are pure: no call changes operands, shared constants or later answers."""
from __future__ import annotations

import hashlib
import json
import os
import time
from collections import Counter

import numpy as np
from hypothesis import strategies as st

import geometer as G
from geometer import LineCollection, PlaneCollection, Point, PointCollection, PolygonCollection, QuadricCollection, SegmentCollection, TransformationCollection
from geometer.base import KroneckerDelta, LeviCivitaTensor

from .. import common as C
from .. import ops as O
from .. import zoo as Z
from ..runner import Fail, HarnessError, Law, Skip, call, case_hash, exc_fail

RULE = (
    "Hypothesis RuleBasedStateMachine per dimension (2, 3): a pool of ~45 shared objects (points, lines, planes, quadrics incl. "
    "Circle/Ellipse/Sphere and a line/plane pair, transformations, segments, polygons, triangle, rectangle, tetrahedron, cuboid and "
    "collections of points, lines, planes, quadrics, transformations, segments, polygons) built from 24 drawn integers; rules: any "
    "registry operation on pool arguments, the same with one argument replaced by an earlier result (results alias operand arrays "
    "through copy=False / shallow copy), property reads (area, centroid, vertices, edges, faces, dual, components, basis_matrix, "
    "base_point, direction, general_point, normalized_array, isinf, inverse, T, repr, copy, iteration), re-asking an earlier query. "
    "50 steps per machine. Non-trivial = a machine in which a result was re-used as operand and a re-ask happened after >= 3 "
    "intervening steps; distinct by hash of the whole history."
)
ASSUMPTIONS = [
    "after every step: deep snapshot (array bytes, dtype, shape, index sets, is_dual, pdim, cached _line/_plane recursively) of every "
    "pool object and of every stored result is unchanged; I, J, infty, infty_plane, absolute_conic and all cached Levi-Civita / "
    "Kronecker arrays are unchanged; a re-asked query returns a bit-identical value or raises the same exception type",
    "Tensor.__setitem__ (the explicit mutation API) is not a rule of the state machine (it has a law of its own: the assigned value is not aliased); exceptions of operations are irrelevant here and swallowed",
]

READS = ["area", "centroid", "vertices", "edges", "faces", "facets", "dual", "components", "is_degenerate", "basis_matrix", "base_point", "direction", "general_point",
         "normalized_array", "isinf", "isreal", "T", "length", "midpoint", "angles", "volume", "circumcenter", "center", "radius", "foci", "size", "covariant_tensor",
         "contravariant_tensor", "lie_coordinates", "tensor_shape", "free_indices", "dtype", "shape", "rank", "dim"]
CALLS = ["inverse", "copy", "__repr__", "__iter__", "__len__", "__neg__", "is_zero", "transpose"]


def extend_pool(d, pool):
    """collections built from the single objects (sharing nothing with them)"""
    n = d + 1
    pool["Pc"] = PointCollection(np.stack([pool[f"p{i}"].array for i in range(4)]))
    pool["Pc2"] = PointCollection(np.stack([pool[f"p{(i + 1) % 4}"].array for i in range(4)]))
    pool["Lc"] = LineCollection(np.stack([pool[f"l{i}"].array for i in range(4)]))
    if d == 3:
        pool["Ec"] = PlaneCollection(np.stack([pool[f"e{i}"].array for i in range(4)]))
    pool["Tc"] = TransformationCollection(np.stack([pool["t0"].array, pool["t1"].array]))
    pool["Qc"] = QuadricCollection(np.stack([pool["q0"].array, pool["circle"].array]))
    pool["Sc"] = SegmentCollection(np.stack([pool["s0"].array, pool["s1"].array]))
    g = pool["g0"].array
    g2 = g.copy()
    g2[:, :-1] = g2[:, :-1] + 2 * g2[:, -1:]
    pool["Gc"] = PolygonCollection(np.stack([g, g2]))
    return pool


COLL_OPS = [
    ("join(Pc,Pc2)", (2, 3), ("Pc", "Pc2"), lambda a, b: G.join(a, b)),
    ("Lc.contains(Pc)", (2, 3), ("Lc", "Pc"), lambda a, b: a.contains(b)),
    ("dist(Pc,Pc2)", (2, 3), ("Pc", "Pc2"), lambda a, b: G.dist(a, b)),
    ("Tc*p0", (2, 3), ("Tc", "Pc"), lambda a, b: a[0] * b),
    ("Qc.contains(p0)", (2, 3), ("Qc", "p0"), lambda a, b: a.contains(b)),
    ("Sc.contains(p0)", (2, 3), ("Sc", "p0"), lambda a, b: a.contains(b)),
    ("Sc.midpoint", (2, 3), ("Sc",), lambda a: a.midpoint),
    ("Sc.length", (2, 3), ("Sc",), lambda a: a.length),
    ("Gc.area", (2, 3), ("Gc",), lambda a: a.area),
    ("Gc.contains(gin)", (2, 3), ("Gc", "gin"), lambda a, b: a.contains(b)),
    ("Gc.edges", (2, 3), ("Gc",), lambda a: a.edges),
    ("Gc.intersect(lpoly)", (2, 3), ("Gc", "lpoly"), lambda a, b: a.intersect(b)),
    ("Lc.perpendicular(Pc)", (2, 3), ("Lc", "Pc"), lambda a, b: a.perpendicular(b)),
    ("Lc.project(Pc)", (2, 3), ("Lc", "Pc"), lambda a, b: a.project(b)),
    ("Ec.meet(Lc)", (3,), ("Ec", "Lc"), lambda a, b: a.meet(b)),
    ("Ec.mirror(Pc)", (3,), ("Ec", "Pc"), lambda a, b: a.mirror(b)),
    ("Qc.dual", (2, 3), ("Qc",), lambda a: a.dual),
    ("Tc.inverse", (2, 3), ("Tc",), lambda a: a.inverse()),
    ("Tc**2", (2, 3), ("Tc",), lambda a: a**2),
    ("Pc+Pc2", (2, 3), ("Pc", "Pc2"), lambda a, b: a + b),
    ("Pc[1]", (2, 3), ("Pc",), lambda a: a[1]),
    ("list(Lc)", (2, 3), ("Lc",), lambda a: list(a)),
    ("Pc.expand_dims", (2, 3), ("Pc",), lambda a: a.expand_dims(0)),
    ("Sc.expand_dims(0)", (2, 3), ("Sc",), lambda a: a.expand_dims(0)),
    ("Sc.expand_dims(-3)", (2, 3), ("Sc",), lambda a: a.expand_dims(-3)),
    ("Gc.expand_dims(0)", (2, 3), ("Gc",), lambda a: a.expand_dims(0)),
    ("Lc.expand_dims(0)", (2, 3), ("Lc",), lambda a: a.expand_dims(0)),
    ("Qc.expand_dims(1)", (2, 3), ("Qc",), lambda a: a.expand_dims(1)),
    ("Tc.expand_dims(0)", (2, 3), ("Tc",), lambda a: a.expand_dims(0)),
    ("Sc[0]", (2, 3), ("Sc",), lambda a: a[0]),
    ("Gc[-1]", (2, 3), ("Gc",), lambda a: a[-1]),
    ("Sc.intersect(l0)", (2,), ("Sc", "l0"), lambda a, b: a.intersect(b)),
    ("Pc.transpose", (2, 3), ("Pc",), lambda a: a.transpose()),
    ("Lc.copy", (2, 3), ("Lc",), lambda a: a.copy()),
    ("Conic.from_lines", (2,), ("l0", "l1"), lambda a, b: G.Conic.from_lines(a, b)),
    ("Quadric.from_planes", (3,), ("e0", "e2"), lambda a, b: G.Quadric.from_planes(a, b)),
    ("Conic.from_points", (2,), ("p0", "p1", "p2", "p3", "pon"), lambda *a: G.Conic.from_points(*a)),
    ("from_points", (2,), ("p0", "p1", "p2", "p3"), lambda a, b, c, e: G.Transformation.from_points((a, b), (b, c), (c, e), (e, a))),
    ("translation(p)", (2, 3), ("p1",), lambda a: G.translation(a)),
    ("reflection", (2,), ("l0",), lambda a: G.reflection(a)),
    ("reflection3", (3,), ("e0",), lambda a: G.reflection(a)),
    ("rotation(axis)", (3,), ("p1",), lambda a: G.rotation(0.7, axis=a)),
]


def all_ops(d):
    base = [(o.name, o.args, o.fn, o.cmp) for o in O.ops_for(d)]
    base += [(nm, args, fn, "auto") for nm, dims, args, fn in COLL_OPS if d in dims]
    return base


CORE_STATE = ("array", "_covariant_indices", "_contravariant_indices", "is_dual", "pdim")


def fresh(o):
    """an object with the same public state as o but without any history: only the documented state is copied, the cached
    supporting line / plane of polytopes is recomputed from the vertices"""
    if not isinstance(o, G.base.Tensor):
        return o
    n = type(o).__new__(type(o))
    for k in CORE_STATE:
        if k in o.__dict__:
            n.__dict__[k] = o.__dict__[k]
    n.array = o.array.copy()
    if isinstance(o, O.ST):
        n._line = G.join(*n.vertices)
    elif isinstance(o, O.GT):
        n._plane = G.join(*n.vertices[: n.dim]) if n.dim > 2 else None
    return n


OPS_BY_DIM = {d: all_ops(d) for d in (2, 3)}


def snap(x, depth=0):
    """deep, hashable snapshot of an object"""
    if isinstance(x, G.base.Tensor):
        a = x.array
        parts = [type(x).__name__, a.dtype.str, a.shape, a.tobytes(), tuple(sorted(x._covariant_indices)), tuple(sorted(x._contravariant_indices)),
                 getattr(x, "is_dual", None), getattr(x, "pdim", None)]
        if depth < 3:
            for attr in ("_line", "_plane"):
                if attr in x.__dict__:
                    parts.append((attr, snap(x.__dict__[attr], depth + 1)))
        return tuple(parts)
    if isinstance(x, np.ndarray):
        return ("ndarray", x.dtype.str, x.shape, x.tobytes())
    if isinstance(x, (list, tuple)):
        return tuple(snap(y, depth) for y in x)
    if x is None:
        return None
    if isinstance(x, (bool, int, float, complex, str, np.generic)):
        return repr(x)
    return repr(type(x))


def digest(x):
    return hashlib.sha1(repr(snap(x)).encode()).hexdigest()


def const_snapshot():
    from geometer.curve import absolute_conic
    from geometer.point import I, J, infty, infty_plane

    s = {"I": snap(I), "J": snap(J), "infty": snap(infty), "infty_plane": snap(infty_plane), "absolute_conic": snap(absolute_conic)}
    for k, v in LeviCivitaTensor._cache.items():
        s[f"eps{k}"] = snap(v)
    for k, v in KroneckerDelta._cache.items():
        s[f"delta{k}"] = snap(v)
    return s


class World:
    """the state the rules act on; used by the Hypothesis machine and by the plain replay"""

    def __init__(self, d, v):
        self.d = d
        self.pool = extend_pool(d, O.pool_for(d, v))
        self.names = sorted(self.pool)
        self.snaps = {n: snap(self.pool[n]) for n in self.names}
        self.consts = const_snapshot()
        self.results = []  # (object, snapshot)
        self.history = []  # (description, digest)
        self.fails = []
        self.steps = []
        self.ops = OPS_BY_DIM[d]
        self.reused = False
        self.reask_gap = 0
        self._compat = {}
        self._nstored = 0

    def _run(self, fn, args):
        try:
            r = fn(*args)
            # materialise generators / iterators
            if hasattr(r, "__next__"):
                r = list(r)
            return ("ok", r)
        except Exception as e:  # noqa: BLE001
            return ("exc", type(e).__name__)

    def _history_independent(self, name, fn, cmp, a, st_, r):
        """the answer for objects that carry a history (earlier queries may have cached something on them, results of
        earlier operations inherit attributes) must equal the answer for history-free objects with the same state"""
        try:
            b = [fresh(x) for x in a]
        except Exception:  # noqa: BLE001
            return
        st2, r2 = self._run(fn, b)
        if st_ != st2:
            if "exc" in (st_, st2):
                self.fails.append((Fail("MISMATCH", f"history-dependent-exception:{name}", f"{st_}:{r if st_ == 'exc' else ''} vs fresh {st2}:{r2 if st2 == 'exc' else ''}"), len(self.steps)))
            return
        if st_ == "exc":
            return
        c = cmp if cmp not in ("skip",) else "auto"
        if c == "auto" and isinstance(r, (list, tuple)) and r and all(isinstance(x, G.base.Tensor) for x in r):
            c = "multiset"
        ok, detail = O.same(r, r2, c, 1e-6)
        if not ok:
            self.fails.append((Fail("MISMATCH", f"history-dependent:{name}", str(detail)[:300]), len(self.steps)))

    def _store(self, r):
        objs = []

        def walk(x):
            if isinstance(x, G.base.Tensor):
                objs.append(x)
            elif isinstance(x, (list, tuple)):
                for y in x:
                    walk(y)

        walk(r)
        for o in objs[:3]:
            if len(self.results) < 16:
                self.results.append((o, snap(o)))
            else:
                # ring buffer: later results replace the oldest ones so that long histories keep feeding derived objects
                self.results[self._nstored % 16] = (o, snap(o))
            self._nstored += 1

    def step(self, s):
        """execute one step description (JSON-able list)"""
        self.steps.append(s)
        kind = s[0]
        if kind == "op":
            name, args, fn, cmp = self.ops[s[1] % len(self.ops)]
            a = [self.pool[n] for n in args]
            st_, r = self._run(fn, a)
            self.history.append((["op", s[1] % len(self.ops)], digest(r) if st_ == "ok" else "EXC:" + r))
            self._history_independent(name, fn, cmp, a, st_, r)
            if st_ == "ok":
                self._store(r)
            what = name
        elif kind == "alias":
            # pick an earlier result first, then an operation that has an argument of that type (so that every alias
            # step really operates on derived, possibly aliasing, data)
            name, args, fn, cmp = self.ops[s[1] % len(self.ops)]
            a = [self.pool[n] for n in args]
            if self.results:
                res = self.results[s[3] % len(self.results)][0]
                key = (type(res), res.array.shape)
                if key not in self._compat:
                    self._compat[key] = [(i, k) for i, (_, ar, _, _) in enumerate(self.ops) for k, n in enumerate(ar)
                                         if type(self.pool[n]) is key[0] and self.pool[n].array.shape == key[1]]
                cands = self._compat[key]
                if cands:
                    i, k = cands[(s[1] * 7 + s[2]) % len(cands)]
                    name, args, fn, cmp = self.ops[i]
                    a = [self.pool[n] for n in args]
                    a[k] = res
                    self.reused = True
            st_, r = self._run(fn, a)
            self._history_independent(name + "(alias)", fn, cmp, a, st_, r)
            if st_ == "ok":
                self._store(r)
            what = name + "(alias)"
        elif kind == "read":
            n = self.names[s[1] % len(self.names)]
            obj = self.pool[n]
            attr = (READS + CALLS)[s[2] % (len(READS) + len(CALLS))]
            if attr in READS:
                st_, r = self._run(lambda o: getattr(o, attr), [obj])
            else:
                st_, r = self._run(lambda o: getattr(o, attr)(), [obj])
            if st_ == "ok" and attr not in ("copy",):
                self._store(r)
            self.history.append((["read", s[1] % len(self.names), s[2] % (len(READS) + len(CALLS))], digest(r) if st_ == "ok" else "EXC:" + r))
            what = f"{n}.{attr}"
        elif kind == "reask":
            if not self.history:
                return
            i = s[1] % len(self.history)
            desc, dg = self.history[i]
            gap = len(self.history) - i
            if desc[0] == "op":
                name, args, fn, _cmp = self.ops[desc[1]]
                st_, r = self._run(fn, [self.pool[n] for n in args])
                what = "reask:" + name
            else:
                n = self.names[desc[1]]
                attr = (READS + CALLS)[desc[2]]
                obj = self.pool[n]
                st_, r = self._run((lambda o: getattr(o, attr)) if attr in READS else (lambda o: getattr(o, attr)()), [obj])
                what = f"reask:{n}.{attr}"
            dg2 = digest(r) if st_ == "ok" else "EXC:" + r
            if gap >= 3:
                self.reask_gap = max(self.reask_gap, gap)
            if dg2 != dg:
                self.fails.append((Fail("MISMATCH", f"reask-differs:{what.split(':', 1)[1]}", f"first {dg[:12]} later {dg2[:12]}"), len(self.steps)))
        else:
            raise HarnessError(f"unknown step {s}")
        self.check(what)

    def check(self, what):
        for n in self.names:
            s = snap(self.pool[n])
            if s != self.snaps[n]:
                old = self.snaps[n]
                field = "array" if s[3] != old[3] else ("cached-subspace" if s[8:] != old[8:] else "attributes")
                self.fails.append((Fail("MISMATCH", f"operand-mutated:{type(self.pool[n]).__name__}.{field}:by:{what}", n), len(self.steps)))
                self.snaps[n] = s  # refresh so that the machine keeps exploring behind the finding
        for i, (o, s0) in enumerate(self.results):
            s = snap(o)
            if s != s0:
                self.fails.append((Fail("MISMATCH", f"earlier-result-mutated:{type(o).__name__}:by:{what}", ""), len(self.steps)))
                self.results[i] = (o, s)
        c = const_snapshot()
        for k, v in self.consts.items():
            if c.get(k) != v:
                self.fails.append((Fail("MISMATCH", f"constant-changed:{k}:by:{what}", ""), len(self.steps)))
        self.consts.update(c)


def steps_strategy():
    return st.one_of(
        st.tuples(st.just("op"), st.integers(0, 400)),
        st.tuples(st.just("op"), st.integers(0, 400)),
        st.tuples(st.just("alias"), st.integers(0, 400), st.integers(0, 4), st.integers(0, 11)),
        st.tuples(st.just("read"), st.integers(0, 100), st.integers(0, 60)),
        st.tuples(st.just("reask"), st.integers(0, 200)),
    ).map(list)


def drive(tier, seed, n_examples):
    from hypothesis import HealthCheck, Phase, settings
    from hypothesis import seed as hseed
    from hypothesis.stateful import RuleBasedStateMachine, initialize, rule, run_state_machine_as_test

    res = {"evaluations": 0, "skipped": 0, "nt": set(), "nt_extra": 0, "labels": Counter(), "samples": [], "fails": [], "extra": {"machines": 0, "rule_firings": Counter()}}

    class Machine(RuleBasedStateMachine):
        def __init__(self):
            super().__init__()
            self.world = None
            self.init = None

        @initialize(d=st.sampled_from([2, 3]), v=Z.params())
        def setup(self, d, v):
            self.init = {"d": d, "v": v}
            try:
                self.world = World(d, v)
            except Skip:
                self.world = None
                res["skipped"] += 1

        @rule(s=steps_strategy())
        def step(self, s):
            if self.world is None:
                return
            nf = len(self.world.fails)
            self.world.step(s)
            res["evaluations"] += 1
            res["extra"]["rule_firings"][s[0]] += 1
            for f, at in self.world.fails[nf:]:
                case = {"d": self.init["d"], "v": self.init["v"], "steps": [list(x) for x in self.world.steps[:at]]}
                if len(res["fails"]) < 2000:
                    res["fails"].append((f.sig("purity_machine"), case, f.detail))

        def teardown(self):
            w = self.world
            if w is None:
                return
            res["extra"]["machines"] += 1
            res["labels"][f"d{w.d}"] += 1
            if w.reused:
                res["labels"]["result-reused"] += 1
            if w.reask_gap >= 3:
                res["labels"]["reask-after-gap"] += 1
            case = {"d": self.init["d"], "v": self.init["v"], "steps": [list(x) for x in w.steps]}
            if w.reused and w.reask_gap >= 3:
                res["nt"].add(case_hash(case))
            if len(res["samples"]) < 3:
                res["samples"].append({"d": case["d"], "v": case["v"], "steps": case["steps"][:12], "n_steps": len(case["steps"])})

    run_state_machine_as_test(
        hseed(seed)(Machine),
        settings=settings(max_examples=n_examples, stateful_step_count=50, deadline=None, database=None, phases=[Phase.generate],
                          suppress_health_check=list(HealthCheck)),
    )
    res["labels"] = dict(res["labels"])
    res["extra"]["rule_firings"] = dict(res["extra"]["rule_firings"])
    return res


def replay_case(case):
    try:
        w = World(case["d"], case["v"])
    except Skip:
        return []
    for s in case["steps"]:
        w.step(list(s))
    return [f for f, _ in w.fails]


# ------------------------------------------------------------------------------------------- query -> derive -> query
FIXED_V = [[1, 6, 3, 0, 2, -6, -3, 5, -1, 1, -5, 4, 3, 4, 5, -3, -2, -1, 4, 2, -6, 1, 5, -4],
           [2, -1, 0, 3, -4, 1, 5, 2, 3, -2, 1, 6, -1, 2, 4, 1, 3, -2, 2, 1, 3, -2, 1, 4]]


def qdq_cases(tier, seed):
    for d in (2, 3):
        for vi in (range(len(FIXED_V)) if tier == "thorough" else [d - 2]):  # quick: float pool in 2D, integer-typed pool in 3D
            try:
                pool = extend_pool(d, O.pool_for(d, FIXED_V[vi]))
            except Skip:
                continue
            for name in sorted(pool):
                yield {"d": d, "vi": vi, "x": name, "tier": tier}


def run_qdq(c):
    """for the pool object X: every operation A that takes X (it may cache something on X), then every operation D that
    derives an object of X's type from X (it may inherit what A cached), then every operation B that takes such an object:
    B(derived) must equal B(history-free copy of derived)"""
    from ..runner import Batch

    d, x = c["d"], c["x"]
    ops = OPS_BY_DIM[d]
    v = FIXED_V[c["vi"]]
    base = extend_pool(d, O.pool_for(d, v))
    X = base[x]
    if not isinstance(X, G.base.Tensor):
        return Batch(0, 0, [], [])
    users = [i for i, (_, ar, _, _) in enumerate(ops) if x in ar]
    consumers = [(i, k) for i, (_, ar, _, _) in enumerate(ops) for k, n in enumerate(ar) if type(base[n]) is type(X) and base[n].array.shape == X.array.shape]
    if c.get("tier", "quick") == "quick" and len(consumers) > 24:
        consumers = consumers[:: len(consumers) // 24 + 1] + [cn for cn in consumers if ops[cn[0]][0] in ("q.dual", "q.is_tangent(not)", "polygon.area", "seg.midpoint")]
    fails = []
    n_eval = 0

    def run(fn, a):
        try:
            r = fn(*a)
            return ("ok", list(r) if hasattr(r, "__next__") else r)
        except Exception as e:  # noqa: BLE001
            return ("exc", type(e).__name__)

    # operations that derive an object of X's type from X (found once on a scratch pool)
    scratch = extend_pool(d, O.pool_for(d, v))
    derivers = []
    for idv in users:
        st_, der = run(ops[idv][2], [scratch[n] for n in ops[idv][1]])
        if st_ == "ok" and any(isinstance(y, G.base.Tensor) and type(y) is type(X) and y.array.shape == X.array.shape for y in (der if isinstance(der, (list, tuple)) else [der])):
            derivers.append(idv)
    # generic derivations that exist for every object kind (the registry has them only for some pool names)
    generic = [("t0*X", lambda pool: pool["t0"] * pool[x]), ("X+p1", lambda pool: pool[x] + pool["p1"]), ("X.copy()", lambda pool: pool[x].copy())]
    if isinstance(X, G.base.TensorCollection):
        generic.append(("X[::1]", lambda pool: pool[x][::1]))
    derivers = [(ops[i][0], (lambda pool, i=i: ops[i][2](*[pool[n] for n in ops[i][1]]))) for i in derivers] + generic
    for ia in users:
        for nD, fD in derivers:
            pool = extend_pool(d, O.pool_for(d, v))
            nA, aA, fA, _ = ops[ia]
            run(fA, [pool[n] for n in aA])
            st_, der = run(fD, [pool])
            if st_ != "ok":
                continue
            ders = [y for y in (der if isinstance(der, (list, tuple)) else [der]) if isinstance(y, G.base.Tensor) and type(y) is type(X) and y.array.shape == X.array.shape]
            for y in ders[:1]:
                for ib, k in consumers:
                    nB, aB, fB, cmpB = ops[ib]
                    a = [pool[n] for n in aB]
                    a[k] = y
                    b = list(a)
                    try:
                        b[k] = fresh(y)
                    except Exception:  # noqa: BLE001
                        continue
                    s1, r1 = run(fB, a)
                    s2, r2 = run(fB, b)
                    n_eval += 1
                    if s1 != s2:
                        if len(fails) < 5:
                            fails.append((Fail("MISMATCH", f"history-dependent-exception:{nA}->{nD}->{nB}", f"{s1}/{s2}"), c))
                        continue
                    if s1 == "exc":
                        continue
                    cm = cmpB if cmpB != "skip" else "auto"
                    if cm == "auto" and isinstance(r1, (list, tuple)) and r1 and all(isinstance(z, G.base.Tensor) for z in r1):
                        cm = "multiset"
                    ok, detail = O.same(r1, r2, cm, 1e-6)
                    if not ok and len(fails) < 5:
                        fails.append((Fail("MISMATCH", f"history-dependent:{nA}->{nD}->{nB}", str(detail)[:200]), c))
    # second pass: parameterless property reads as the query before and after the derivation
    def read(o, attr):
        r = getattr(o, attr)
        r = r() if attr in CALLS else r
        return list(r) if hasattr(r, "__next__") else r

    attrs = [a for a in READS + CALLS if a not in ("copy", "__iter__") and hasattr(type(X), a)]
    n_reads = 0
    for attrA in attrs:
        for nD, fD in derivers:
            pool = extend_pool(d, O.pool_for(d, v))
            run(read, [pool[x], attrA])
            st_, der = run(fD, [pool])
            if st_ != "ok":
                continue
            ders = [y for y in (der if isinstance(der, (list, tuple)) else [der]) if isinstance(y, G.base.Tensor) and type(y) is type(X) and y.array.shape == X.array.shape]
            for y in ders[:1]:
                try:
                    z = fresh(y)
                except Exception:  # noqa: BLE001
                    continue
                for attrB in attrs:
                    s1, r1 = run(read, [y, attrB])
                    s2, r2 = run(read, [z, attrB])
                    n_reads += 1
                    if s1 != s2:
                        if len(fails) < 8:
                            fails.append((Fail("MISMATCH", f"history-dependent-exception:{attrA}->{nD}->{attrB}", f"{s1}/{s2}"), c))
                        continue
                    if s1 == "exc":
                        continue
                    cm = "multiset" if isinstance(r1, (list, tuple)) and r1 and all(isinstance(w, G.base.Tensor) for w in r1) else "auto"
                    if digest(r1) == digest(r2):
                        continue
                    try:
                        ok, detail = O.same(r1, r2, cm, 1e-6)
                    except TypeError:  # not a numeric value (str, tuple of ints, ...): plain equality
                        ok, detail = (repr(r1) == repr(r2)), (repr(r1)[:80], repr(r2)[:80])
                    if not ok and len(fails) < 8:
                        fails.append((Fail("MISMATCH", f"history-dependent:{attrA}->{nD}->{attrB}", str(detail)[:200]), c))
    return Batch(n_eval + n_reads, n_eval + n_reads, fails, [c] if n_eval + n_reads else [], {f"d{d}": n_eval, f"d{d}:property-reads": n_reads})


LAWS = [
    Law("purity_machine", None, None, drive=drive, budget={"quick": 640, "thorough": 12000}, shard=40,
        rule="rule-based state machine over a shared pool: snapshots of all operands, results and module constants after every step; re-asked queries are bit-identical",
        mandatory=("result-reused", "reask-after-gap", "d2", "d3")),
]
LAWS.append(
    Law("query_derive_query", None, run_qdq, enumerate=qdq_cases, enum_shards=16,
        exhaustive=lambda tier: {"name": "all (A, D, B) operation triples on every pool object of fixed pools (two per dimension in the thorough tier, one and a sample of at most ~28 consumers B per object in the quick tier): A queries X, D derives an object of X's type, B consumes it", "size": 0, "exhaustive": tier == "thorough"},
        rule="B(object derived after a query) == B(history-free copy): cached attributes must not leak stale data into derived objects")
)


def replay_qdq(case):
    b = run_qdq(case)
    return [f for f, _ in b.fails]


REPLAY = {"purity_machine": replay_case, "query_derive_query": replay_qdq}


# ------------------------------------------------------------------------------------------- process-wide constant tables
@st.composite
def table_case(draw, tier="quick"):
    q = st.one_of(st.tuples(st.just("delta"), st.integers(1, 3), st.integers(1, 3)), st.tuples(st.just("eps"), st.integers(1, 4), st.booleans())).map(list)
    return {"queries": draw(st.lists(q, min_size=3, max_size=8))}


def run_tables(c):
    """Answers that are served from process-wide tables (Levi-Civita and generalized Kronecker tensors, used by every join/meet)
    must not depend on which tables were asked for before: a sequence of constructor queries starting from empty tables, every
    answer compared entry by entry with the definition; earlier answers stay intact; the first query re-asked at the end."""
    from itertools import product

    from .. import exact as X
    from ..runner import Checker

    for cls in (LeviCivitaTensor, KroneckerDelta):
        cache = getattr(cls, "_cache", None)
        if isinstance(cache, dict):
            cache.clear()  # every case starts from the same process state (replayable)
    ck = Checker()
    answers = []
    qs = [tuple(q) for q in c["queries"]]
    for i, q in enumerate(qs + qs[:1]):
        if q[0] == "delta":
            _, n, p = q
            if not (1 <= n <= 3 and 1 <= p <= 3):
                raise Skip("malformed")
            t = KroneckerDelta(n, p)
            shape = (n,) * (2 * p)
            entry = lambda idx: X.kron_delta_entry(idx[:p], idx[p:])  # noqa: E731
            want_ts = (p, p)
        else:
            _, n, cov = q
            if not 1 <= n <= 4:
                raise Skip("malformed")
            t = LeviCivitaTensor(n, bool(cov))
            shape = (n,) * n
            entry = lambda idx: X.perm_sign(idx)  # noqa: E731
            want_ts = (n, 0) if cov else (0, n)
        site = f"tables:{q[0]}:after-{len(answers)}-queries"
        arr = np.asarray(t.array)
        if not ck.check(arr.shape == shape, site + ":shape", (list(q), arr.shape, shape, [list(x) for x in qs[:i]])):
            continue
        bad = [idx for idx in product(*[range(k) for k in shape]) if int(arr[idx]) != entry(idx)]
        ck.check(not bad, site + ":entries", (list(q), bad[:2], [list(x) for x in qs[:i]]))
        ck.check(t.tensor_shape == want_ts, site + ":tensor_shape", (list(q), t.tensor_shape))
        answers.append((q, t, arr.copy()))
    for q, t, before in answers:
        ck.check(np.array_equal(np.asarray(t.array), before), f"tables:{q[0]}:earlier-answer-changed", list(q))
    return ck.result()


LAWS.append(
    Law("constant_tables", lambda tier: table_case(tier), run_tables, lambda c: len({tuple(q) for q in c["queries"]}) > 1,
        lambda c: (["delta-with-swapped-sizes"] if any(q[0] == "delta" and q[1] != q[2] and ["delta", q[2], q[1]] in [list(x) for x in c["queries"]] for q in c["queries"]) else [])
        + (["delta-p>n"] if any(q[0] == "delta" and q[2] > q[1] for q in c["queries"]) else []),
        {"quick": 600, "thorough": 8000}, "sequences of LeviCivitaTensor / KroneckerDelta queries from empty process-wide tables: every answer equals its definition", shard=150,
        mandatory=("delta-with-swapped-sizes", "delta-p>n"))
)


# ------------------------------------------------------------------------------------------- the numeric kernels and large collections
@st.composite
def kernel_case(draw, tier="quick"):
    return {"n": draw(st.sampled_from([2, 2, 3, 4, 5])), "batch": draw(st.sampled_from([[], [3], [64], [70], [8, 8], [2, 32], [63]])), "seed": draw(st.integers(0, 10**6)),
            "dtype": draw(st.sampled_from(["float", "int", "complex"])), "layout": draw(st.sampled_from(["C", "F", "view"]))}


def run_kernels(c):
    """the operand arrays of det / inv / adjugate / null_space / orth / is_multiple / hat_matrix and of the collection methods
    that rest on them (inverse, dual, power, action on hyperplanes - also on the projective line, whose 2x2 matrices have their
    own closed forms, and for 64 and more elements) are bit-for-bit unchanged afterwards and a repeated query returns the same"""
    from geometer import utils as U
    from geometer import QuadricCollection, TransformationCollection, PointCollection

    from ..runner import Checker

    n, batch = c["n"], tuple(c["batch"])
    if n not in (2, 3, 4, 5) or len(batch) > 2 or any(not isinstance(b, int) or not 1 <= b <= 70 for b in batch) or c["dtype"] not in ("float", "int", "complex"):
        raise Skip("malformed")
    size = int(np.prod(batch)) if batch else 1
    # deterministic well-conditioned matrices: integer entries, dominant diagonal
    idx = np.arange(size * n * n).reshape((size, n, n))
    A = ((idx * 7 + c["seed"] % 97 + (idx // 3) * 5) % 7 - 3).astype(float)
    A += np.eye(n) * (2 * n + 3) * np.where(np.arange(size) % 2, 1, -1)[:, None, None]
    if c["dtype"] == "complex":
        A = A + 1j * ((idx * 3 + c["seed"] % 13) % 5 - 2)
    elif c["dtype"] == "int":
        A = A.astype(np.int64)
    A = A.reshape(batch + (n, n))
    if c["layout"] == "F":
        A = np.asfortranarray(A)
    elif c["layout"] == "view":
        big = np.zeros(batch + (n + 1, n + 2), A.dtype)
        big[..., :n, :n] = A
        A = big[..., :n, :n]
    ck = Checker()

    def pure(site, f, *arrays, compare=True):
        before = [a.copy() for a in arrays]
        r1, e = call(site, f, *arrays)
        if e:
            ck.add(e)
            return
        ok = ck.check(all(np.array_equal(a, b) and a.dtype == b.dtype for a, b in zip(arrays, before)), site + ":operand-changed", (n, list(batch), c["dtype"], c["layout"]))
        r2, e = call(site + ":again", f, *arrays)
        if e:
            ck.add(e)
        elif ok and compare:
            ck.check(np.allclose(np.asarray(r1), np.asarray(r2), rtol=0, atol=0, equal_nan=True), site + ":second-answer-differs", (n, list(batch), c["dtype"]))

    tag = f"n{n}:" + ("single" if not batch else (">=64" if size >= 64 else "<64"))
    pure(f"kernel:det:{tag}", U.det, A)
    pure(f"kernel:inv:{tag}", U.inv, A)
    pure(f"kernel:adjugate:{tag}", U.adjugate, A)
    pure(f"kernel:null_space:{tag}", lambda a: U.null_space(a[..., :-1, :], 1), A, compare=False)
    pure(f"kernel:orth:{tag}", lambda a: U.orth(a[..., :, :-1], n - 1), A, compare=False)
    pure(f"kernel:is_multiple:{tag}", lambda a, b: U.is_multiple(a, b, axis=(-2, -1)), A, A * 2)
    if n <= 4 and batch:
        # the same matrices as projective objects (dimension n - 1; dimension 1 for the 2x2 matrices)
        def obj_pure(site, build, query):
            o = build()
            before = o.array.copy()
            r1, e = call(site, query, o)
            if e:
                ck.add(e)
                return
            ck.check(np.array_equal(o.array, before), site + ":operand-changed", (n, list(batch), c["dtype"]))
            r2, e = call(site + ":again", query, o)
            if e:
                ck.add(e)
            else:
                a1, a2 = (np.asarray(getattr(r, "array", r)) for r in (r1, r2))
                ck.check(a1.shape == a2.shape and np.allclose(a1, a2, rtol=0, atol=0, equal_nan=True), site + ":second-answer-differs", (n, list(batch), c["dtype"]))

        Af = np.ascontiguousarray(A)
        obj_pure(f"collection:inverse:{tag}", lambda: TransformationCollection(Af), lambda t: t.inverse())
        obj_pure(f"collection:power-1:{tag}", lambda: TransformationCollection(Af), lambda t: t**-1)
        S = Af + np.swapaxes(Af, -1, -2)
        obj_pure(f"collection:dual:{tag}", lambda: QuadricCollection(S), lambda q: q.dual)
        pts = np.ones(batch + (n,))
        pts[..., 0] = 2
        obj_pure(f"collection:apply-to-points:{tag}", lambda: TransformationCollection(Af), lambda t: t * PointCollection(pts))
        if n >= 3:
            H = (G.LineCollection if n == 3 else G.PlaneCollection)(pts)
            obj_pure(f"collection:apply-to-hyperplanes:{tag}", lambda: TransformationCollection(Af), lambda t: t * H)
    return ck.result()


LAWS.append(
    Law("kernel_arguments", lambda tier: kernel_case(tier), run_kernels, lambda c: bool(c["batch"]),
        lambda c: [f"n{c['n']}", c["dtype"], c["layout"]] + (["n2:>=64"] if c["n"] == 2 and c["batch"] and int(np.prod(c["batch"])) >= 64 else []) + (["several-axes"] if len(c["batch"]) > 1 else []),
        {"quick": 400, "thorough": 6000}, "operand arrays of the linear-algebra kernels and of the collection methods built on them stay bit-for-bit unchanged; repeated query, same answer "
        "(sizes 2..5, batches of 1..70 on one or two axes, float / integer / complex, C / Fortran order / views)", shard=100, mandatory=("n2:>=64", "several-axes", "complex"))
)


# ------------------------------------------------------------------------------------------- constructors copy their arguments
COPY_KINDS = ["Tensor", "Point", "Line2", "Line3", "Plane", "Quadric", "Conic", "Transformation", "PointCollection", "LineCollection", "QuadricCollection",
              "TransformationCollection", "Segment", "Polygon", "Circle->Conic", "absolute_conic->Conic", "infty->Line", "I->Point"]


@st.composite
def copy_case(draw, tier="quick"):
    return {"kind": draw(st.sampled_from(COPY_KINDS)), "v": draw(Z.params(9)), "source": draw(st.sampled_from(["ndarray", "tensor"])), "flag": draw(st.sampled_from([None, None, "normalize_matrix", "is_dual", "dtype-float", "copy-true"])),
            "norm": draw(st.sampled_from(["as-is", "unit-pseudo-determinant", "diag-1-1--1"]))}


def run_copy(c):
    """constructors called without copy=False (the documented default of the underlying numpy constructor is to copy): the new
    object does not share memory with the array / tensor it was built from, so writing into it leaves the source - another
    object, a user array or a module constant - bit for bit unchanged. Sources include matrices that already have the
    normalisation the constructor would apply."""
    from geometer.base import Tensor as T

    from ..runner import Checker

    kind, v = c["kind"], [float(x) for x in c["v"]]
    if kind not in COPY_KINDS or len(v) < 16:
        raise Skip("malformed")
    sym = lambda n: (lambda m: m + m.T + np.diag([3.0] * (n - 1) + [-5.0]))(np.array(v[: n * n]).reshape(n, n))  # noqa: E731
    if c["norm"] == "diag-1-1--1":
        sym = lambda n: np.diag([1.0] * (n - 1) + [-1.0])  # noqa: E731
    kw = {}
    const = None
    if kind == "Tensor":
        cls, arr = T, np.array(v[:6]).reshape(2, 3)
    elif kind == "Point":
        cls, arr = G.Point, np.array(v[:3] if v[15] % 2 else v[:4])
    elif kind == "Line2":
        cls, arr = G.Line, np.array(v[:3])
    elif kind == "Line3":
        cls, arr = G.Line, np.asarray(Z.plucker_dual(v[:3] + [1.0], v[3:6] + [1.0]), float)
    elif kind == "Plane":
        cls, arr = G.Plane, np.array(v[:4])
    elif kind in ("Quadric", "Conic"):
        n = 3 if kind == "Conic" or v[15] % 2 else 4
        cls, arr = (G.Conic if kind == "Conic" else G.Quadric), sym(n)
    elif kind == "Transformation":
        cls, arr = G.Transformation, np.array(v[:9]).reshape(3, 3) + 7 * np.eye(3)
    elif kind == "PointCollection":
        cls, arr = PointCollection, np.array(v[:12]).reshape(4, 3)
    elif kind == "LineCollection":
        cls, arr = LineCollection, np.array(v[:12]).reshape(4, 3)
    elif kind == "QuadricCollection":
        cls, arr = QuadricCollection, np.stack([sym(3), sym(3) * 2, np.diag([1.0, 2.0, -1.0])])
    elif kind == "TransformationCollection":
        cls, arr = TransformationCollection, np.stack([np.eye(3), np.array(v[:9]).reshape(3, 3) + 7 * np.eye(3)])
    elif kind == "Segment":
        cls, arr = G.Segment, np.array([v[:2] + [1.0], v[2:4] + [1.0]])
    elif kind == "Polygon":
        cls, arr = G.Polygon, np.array([[0.0, 0.0, 1.0], [4.0, 0.0, 1.0], [4.0, 3.0, 1.0], [v[0], 5.0 + abs(v[1]), 1.0]])
    elif kind == "Circle->Conic":
        cls, const = G.Conic, G.Circle(G.Point(v[0], v[1]), 1.0 + abs(v[2]))
    elif kind == "absolute_conic->Conic":
        cls, const = G.Conic, G.curve.absolute_conic
    elif kind == "infty->Line":
        cls, const = G.Line, G.point.infty
    else:
        cls, const = G.Point, G.point.I
    if not np.all(np.isfinite(arr if const is None else const.array)):
        raise Skip("not finite")
    quadric_like = kind in ("Quadric", "Conic", "QuadricCollection", "Circle->Conic", "absolute_conic->Conic")
    if const is None and quadric_like and c["norm"] == "unit-pseudo-determinant":
        # the normalisation that normalize_matrix=True applies, already applied to the source
        w = np.abs(np.linalg.eigvalsh(arr))
        arr = arr / (np.prod(np.where(w > 1e-8, w, 1), axis=-1) ** (1 / arr.shape[-1]))[..., None, None] if arr.ndim == 3 else arr / np.prod(np.where(w > 1e-8, w, 1)) ** (1 / arr.shape[-1])
    flag = c["flag"]
    if flag in ("normalize_matrix", "is_dual"):
        if not quadric_like:
            flag = None
        else:
            kw[flag] = True
    elif flag == "dtype-float":
        kw["dtype"] = np.float64 if (const is None or not np.iscomplexobj(const.array)) else np.complex128
    elif flag == "copy-true":
        kw["copy"] = True
    if const is not None:
        source_obj, source_arr = const, const.array
    elif c["source"] == "tensor":
        base_cls = {"Conic": G.Conic, "Quadric": G.Quadric}.get(kind, cls)
        source_obj = base_cls(arr.copy())
        source_arr = source_obj.array
    else:
        source_obj = source_arr = arr.copy()
    before = source_arr.copy()
    site = f"constructor:{kind}:{'constant' if const is not None and kind != 'Circle->Conic' else c['source']}" + (f":{flag}" if flag else "")
    new, f = call(site, lambda: cls(source_obj, **kw))
    if f:
        raise Skip("constructor rejects this combination")
    ck = Checker()
    ck.check(not np.shares_memory(new.array, source_arr), site + ":shares-memory-with-source", c["norm"])
    if new.array.flags.writeable:
        from ..runner import reset_recent

        new.array[...] = new.array * 0 + 9  # what item assignment on the new object does
        reset_recent()  # the harness itself changed a result here: nothing to hold against later calls
    ck.check(np.array_equal(source_arr, before), site + ":source-changed-by-writing-to-the-new-object", (c["norm"], C.short(source_arr.tolist())))
    if not np.array_equal(source_arr, before):
        source_arr[...] = before  # restore module constants for the following cases
    return ck.result()


LAWS.append(
    Law("constructors_copy_their_arguments", lambda tier: copy_case(tier), run_copy, lambda c: True,
        lambda c: [c["kind"], c["source"]] + ([c["flag"]] if c["flag"] else []) + (["already-normalised:normalize_matrix"] if c["flag"] == "normalize_matrix" and (c["norm"] != "as-is" or c["kind"] in ("Circle->Conic", "absolute_conic->Conic")) and c["kind"] in ("Quadric", "Conic", "QuadricCollection", "Circle->Conic", "absolute_conic->Conic") else []),
        {"quick": 1200, "thorough": 15000}, "constructors without copy=False do not alias the array / tensor / module constant they are built from: writing into the new object leaves the source unchanged", shard=300,
        mandatory=("already-normalised:normalize_matrix", "absolute_conic->Conic"))
)


# ------------------------------------------------------------------------------------------- item assignment copies the value
@st.composite
def assign_case(draw, tier="quick"):
    return {"kind": draw(st.sampled_from(["PointCollection", "Tensor", "LineCollection", "Point", "QuadricCollection"])), "key": draw(st.sampled_from(["...", ":", "(...,)", "0", "mask", "[...] of a row"])),
            "value": draw(st.sampled_from(["same class", "ndarray", "other dtype"])), "v": [draw(C.ints(6)) for _ in range(18)]}


def run_assign(c):
    """t[key] = b (the explicit mutation API) changes t and nothing else: b is an operand - it keeps its value when t is written to again, and t keeps its
    value when b is written to afterwards (no aliasing), for every spelling of "the whole tensor" (`...`, `:`, `(...,)`) and for parts of it"""
    from ..runner import Checker

    v = [float(x) for x in c["v"]]
    kind, key, val = c["kind"], c["key"], c["value"]
    shapes = {"PointCollection": (3, 3), "Tensor": (2, 3), "LineCollection": (3, 3), "Point": (3,), "QuadricCollection": (2, 3, 3)}
    shp = shapes[kind]
    n = int(np.prod(shp))
    a0 = np.array((v * 3)[:n]).reshape(shp) + 1.0
    b0 = np.array((v[::-1] * 3)[:n]).reshape(shp) - 2.0
    if kind == "QuadricCollection":
        a0, b0 = a0 + np.swapaxes(a0, -1, -2), b0 + np.swapaxes(b0, -1, -2)
    mk = {"PointCollection": G.PointCollection, "Tensor": G.base.Tensor, "LineCollection": G.LineCollection, "Point": G.Point, "QuadricCollection": G.QuadricCollection}[kind]
    t = mk(a0.copy())
    if key in ("0", "mask", "[...] of a row") and len(shp) < 2:
        raise Skip("no rows")
    if key == "0":
        k, b_arr = 0, b0[0]
    elif key == "mask":
        k, b_arr = np.array([True] + [False] * (shp[0] - 1)), b0[:1]
    else:
        k, b_arr = {"...": Ellipsis, ":": slice(None), "(...,)": (Ellipsis,), "[...] of a row": Ellipsis}[key], b0
    if val == "ndarray":
        b = b_arr.copy()
    elif val == "other dtype":
        b = G.base.Tensor(b_arr.astype(np.float32).copy()) if kind == "Tensor" else b_arr.astype(np.float32).copy()
    else:
        b = (mk if b_arr.shape == shp else G.base.Tensor)(b_arr.copy())
    b_view = b.array if isinstance(b, G.base.Tensor) else b
    b_before = b_view.copy()
    site = f"setitem:{kind}[{key}]={val}"
    target = t
    if key == "[...] of a row":
        try:
            target = t[0]  # not through call(): this row is written to on purpose, it is not a result under observation
        except Exception:  # noqa: BLE001
            raise Skip("no row object") from None
        b = b_arr[0].copy()
        b_view, b_before = b, b.copy()

    def assign():
        target[k] = b

    _, f = call(site, assign)
    if f:
        return [f]
    ck = Checker()
    want = a0.copy()
    if key == "[...] of a row":
        want[0] = b_before
    else:
        want[k] = b_before
    ck.check(np.allclose(t.array, want), site + ":array-semantics", C.short((np.asarray(t.array).tolist(), want.tolist())))
    ck.check(not np.shares_memory(t.array, b_view), site + ":target-shares-memory-with-the-assigned-value")
    # write to the target again: the assigned value is an operand of the first assignment and keeps its value
    def again():
        t[0] = t.array[0] * 0 + 7

    _, f = call(site + ":second-assignment", again)
    if f:
        ck.add(f)
    ck.check(np.array_equal(b_view, b_before), site + ":value-changed-by-a-later-assignment-to-the-target", C.short((b_view.tolist(), b_before.tolist())))
    # and the other way round
    snap = np.array(t.array, copy=True)
    b_view[...] = -5
    ck.check(np.array_equal(t.array, snap), site + ":target-changed-by-writing-to-the-value-afterwards", C.short(np.asarray(t.array).tolist()))
    from ..runner import reset_recent

    reset_recent()  # the harness changed objects on purpose: nothing to hold against later calls
    return ck.result()


LAWS.append(
    Law("item_assignment_copies_the_value", lambda tier: assign_case(tier), run_assign, lambda c: True, lambda c: [c["kind"], "key=" + c["key"], c["value"]], {"quick": 800, "thorough": 10000},
        "t[key] = b for key = ..., :, (...,), a row, a mask: array semantics, and no aliasing between t and b afterwards (a later assignment to t leaves b alone and vice versa)", shard=200,
        mandatory=("key=...", "key=:", "key=(...,)"))
)


# ------------------------------------------------------------------------------------------- a diagram and its copies
@st.composite
def dcopy_case(draw, tier="quick"):
    return {"v": [draw(C.ints(5)) for _ in range(30)], "steps": [draw(st.sampled_from(["orig+matrix", "copy+vector", "copy+matrix", "orig+vector", "copy+edge", "orig+edge"])) for _ in range(draw(st.integers(2, 5)))],
            "how": draw(st.sampled_from(["copy()", "copy.copy"]))}


def run_dcopy(c):
    """TensorDiagram.copy() / copy.copy(diagram): afterwards the diagram and the copy are two diagrams - whatever nodes and edges are added to one of
    them, in whatever order, the other one denotes what a diagram built afresh by its own steps denotes"""
    import copy as _copy

    from geometer.base import Tensor, TensorDiagram
    from geometer.exceptions import TensorComputationError

    from ..runner import Checker

    v = [int(x) for x in c["v"]]
    A = Tensor(np.array(v[0:9]).reshape(3, 3), covariant=[0])
    x = Tensor(np.array(v[9:12]), covariant=False)
    new = {"matrix": lambda k: Tensor(np.array(v[12 + k:21 + k]).reshape(3, 3), covariant=[0]), "vector": lambda k: Tensor(np.array(v[21 + k:24 + k]), covariant=bool(k % 2))}

    def start():
        return TensorDiagram((A, x))

    def apply(diagram, ops_):
        nodes = [A, x]
        for k, (kind, obj) in enumerate(ops_):
            if kind == "edge":
                try:
                    diagram.add_edge(obj[0], obj[1])
                except TensorComputationError:
                    pass
            else:
                diagram.add_node(obj)
        return diagram

    d = start()
    d2 = d.copy() if c["how"] == "copy()" else _copy.copy(d)
    hist = {"orig": [], "copy": []}
    for k, step in enumerate(c["steps"]):
        who, what = step.split("+")
        if what == "edge":
            y = new["vector"](2 * k)  # covariant vector joined to the matrix
            op = ("edge", (y, A))
        else:
            op = (what, new[what](k))
        hist[who].append(op)
        try:
            apply(d if who == "orig" else d2, [op])
        except Exception as e:  # noqa: BLE001
            return [exc_fail(e, "diagram-copy:" + step)]
    ck = Checker()
    for who, dia in (("orig", d), ("copy", d2)):
        got, f = call(f"diagram-copy:{who}:calculate", dia.calculate)
        want, g = call(f"diagram-copy:{who}:afresh", lambda: apply(start(), hist[who]).calculate())
        if g:
            continue
        if f:
            ck.add(f)
            continue
        ck.check(got.array.shape == want.array.shape and np.array_equal(got.array, want.array) and got.tensor_shape == want.tensor_shape, f"diagram-copy:{who}:differs-from-a-diagram-built-afresh",
                 (c["steps"], got.array.shape, want.array.shape))
    return ck.result()


LAWS.append(
    Law("diagram_and_copy_are_independent", lambda tier: dcopy_case(tier), run_dcopy, lambda c: len({s.split("+")[0] for s in c["steps"]}) == 2, lambda c: [c["how"]] + (["both-extended"] if len({s.split("+")[0] for s in c["steps"]}) == 2 else []),
        {"quick": 600, "thorough": 8000}, "TensorDiagram.copy() / copy.copy: nodes and edges added to the diagram and to its copy in any order; each still denotes what a diagram built afresh by its own steps denotes", shard=200,
        mandatory=("both-extended",))
)


# ------------------------------------------------------------------------------------------- the same query in a fresh process
def fresh_drive(tier, seed, n_examples):
    """A long history of registry queries in this process (every operation several times, other parameter vectors in between);
    then a sample of the queries is asked once more here and once as the very first query of a new interpreter
    (python -m vp.fresh_eval): same answer. This is the 'asked first or after any sequence of other queries' clause with
    the first-asked answer taken literally; it sees state that leaks between calls through module-level caches, scratch
    buffers and iterators, which a re-asked query inside one process cannot see once the state has settled."""
    import base64
    import pickle
    import random as _random  # only to derive a deterministic schedule from the seed (no library input depends on it)
    import subprocess
    import sys as _sys

    from ..fresh_eval import plain

    rnd = _random.Random(seed)
    res = {"evaluations": 0, "skipped": 0, "nt": set(), "nt_extra": 0, "labels": Counter(), "samples": [], "fails": [], "extra": {"history_calls": 0, "fresh_processes": 0}}
    n_fresh = max(2, n_examples)
    history = []
    vecs = [[rnd.randint(-6, 6) for _ in range(24)] for _ in range(6)]
    for d in (2, 3):
        ops = O.ops_for(d)
        for rep in range(3):
            for o in ops:
                history.append((d, o.name, vecs[(rep * 2 + (d - 2)) % len(vecs)]))
    rnd.shuffle(history)
    # the queries that are compared: this shard's slice of all (dimension, operation) pairs, so that the shards of one run cover
    # the whole registry
    from ..runner import _CUR

    pairs = sorted({(d, name) for d, name, _ in history})
    k = int(_CUR.get("shard") or 0)
    mine = [pairs[(k * n_fresh + i) % len(pairs)] for i in range(min(n_fresh, len(pairs)))]
    last_v = {}
    for d, name, v in history:
        last_v[(d, name)] = v
    here = os.path.dirname(os.path.dirname(os.path.dirname(os.path.abspath(__file__))))
    pools = {}

    def evaluate(d, name, v):
        key = (d, tuple(v))
        if key not in pools:
            try:
                pools[key] = O.pool_for(d, v)
            except Skip:
                pools[key] = None
        pool = pools[key]
        if pool is None:
            return ("skip", None)
        op = OPMAP2[(name, d)]
        try:
            return ("ok", plain(op.fn(*[pool[a] for a in op.args])))
        except Skip:
            return ("skip", None)
        except Exception as e:  # noqa: BLE001
            return ("exc", type(e).__name__)

    for d, name, v in history:
        evaluate(d, name, v)
        res["extra"]["history_calls"] += 1
    sample = [(d, name, last_v[(d, name)]) for d, name in mine]

    def same_plain(a, b):
        if a[0] != b[0]:
            return False
        if a[0] == "tensor":
            return a[1] == b[1] and same_plain(("ndarray", a[2]), ("ndarray", b[2]))
        if a[0] == "ndarray":
            x, y = a[1], b[1]
            if x.shape != y.shape:
                return False
            if x.dtype.kind in "fc" or y.dtype.kind in "fc":
                return bool(np.allclose(x, y, rtol=1e-9, atol=1e-12, equal_nan=True))
            return bool(np.array_equal(x, y))
        if a[0] == "list":
            return len(a[1]) == len(b[1]) and all(same_plain(x, y) for x, y in zip(a[1], b[1]))
        if a[0] == "scalar" and isinstance(a[1], (float, complex)) and isinstance(b[1], (float, complex)):
            return bool(np.isclose(a[1], b[1], rtol=1e-9, atol=1e-12, equal_nan=True))
        return a[1] == b[1]

    for d, name, v in sample:
        late = evaluate(d, name, v)
        env = dict(os.environ, PYTHONHASHSEED="0", OMP_NUM_THREADS="1", OPENBLAS_NUM_THREADS="1", MKL_NUM_THREADS="1", PYTHONDONTWRITEBYTECODE="1")
        pr = subprocess.run([_sys.executable, "-m", "vp.fresh_eval", str(d), name, json.dumps(v)], cwd=here, env=env, capture_output=True, text=True, timeout=300)
        line = next((ln for ln in pr.stdout.splitlines() if ln.startswith("RESULT:")), None)
        if line is None:
            raise HarnessError(f"fresh interpreter gave no result: {pr.stderr[-300:]}")
        first = pickle.loads(base64.b64decode(line[len("RESULT:"):]))
        res["extra"]["fresh_processes"] += 1
        case = {"d": d, "op": name, "v": v, "history": len(history)}
        if late[0] == "skip" or first[0] == "skip":
            res["skipped"] += 1
            continue
        res["evaluations"] += 1
        res["nt"].add(case_hash(case))
        res["labels"][f"d{d}"] += 1
        if len(res["samples"]) < 4:
            res["samples"].append(case)
        ok = late[0] == first[0] and (late[1] == first[1] if late[0] == "exc" else same_plain(late[1], first[1]))
        if not ok:
            res["fails"].append((Fail("MISMATCH", f"fresh-process:{name}/d{d}", "").sig("fresh_process_agreement"), case, f"after {len(history)} calls: {str(late)[:150]} / asked first: {str(first)[:150]}"))
    res["labels"] = dict(res["labels"])
    return res


OPMAP2 = {(o.name, d): o for o in O.OPS for d in o.dims}


def replay_fresh(case):
    r = fresh_drive("quick", 1, 2)  # the history is part of the failure: re-run the whole schedule
    return [Fail("MISMATCH", sig.split("|", 2)[2], det) for sig, c, det in r["fails"]]


LAWS.append(
    Law("fresh_process_agreement", None, None, drive=fresh_drive, budget={"quick": 352, "thorough": 704}, shard=22,
        rule="after ~1000 registry queries in one process, sampled queries give the same answer as when they are the first query of a new interpreter")
)

REPLAY["fresh_process_agreement"] = replay_fresh
