"""C13 Quadric constructors produce the quadric of their defining data."""
from __future__ import annotations

import math
from fractions import Fraction
from itertools import combinations

import numpy as np
from hypothesis import strategies as st

import geometer as G
from geometer import Circle, Cone, Conic, Cylinder, Ellipse, Line, Point, PointCollection, Sphere, crossratio

from .. import common as C
from .. import exact as X
from ..runner import Checker, Fail, Law, Skip, call

RULE = (
    "Five lattice points |c|<=6 with no three collinear; four points + a line missing them; two foci + boundary point (ellipse "
    "and hyperbola configurations); centre / radius / radii; spheres in dimension 2 and 3; cone vertex, base centre and radius and "
    "cylinder centre/direction/radius with axis directions in all octants (generic, not only coordinate axes or the space "
    "diagonal). Non-trivial = centre != origin and the axis direction has three non-zero components of mixed sign (cones/"
    "cylinders), or the five points are not symmetric about an axis; distinct by case hash."
)
ASSUMPTIONS = [
    "locus points are float64 parametrisations (cos/sin), membership asserted through the library's contains (abs tol 1e-8 on "
    "matrices the constructors normalise themselves); off-locus points are moved radially by 15-20 %",
]


def P(v, s=1.0):
    return Point(np.array(list(v) + [1], dtype=float) * s)


def no_three_collinear(pts):
    ex = [[Fraction(x) for x in p] + [Fraction(1)] for p in pts]
    return all(X.det(list(t)) != 0 for t in combinations(ex, 3))


@st.composite
def conic_case(draw, tier="quick"):
    what = draw(st.sampled_from(["from_points", "from_crossratio", "from_tangent", "from_foci", "from_points_complex"]))
    return {"what": what, "pts": [[draw(C.ints(6)), draw(C.ints(6))] for _ in range(5)], "line": draw(C.ivec(3, 6)), "s": [draw(C.scale()) for _ in range(5)],
            "diag": draw(st.sampled_from([0, 0, 1, 2, 3])),
            # defining points given as arrays of a narrow integer type, coordinates multiplied up to the range of the type
            "idt": draw(st.sampled_from([None, None, None, "int8", "uint8", "int16", "int32", "int64"])), "imul": draw(st.sampled_from([1, 3, 10, 20, 100, 150])),
            "trap": draw(st.sampled_from([None, None, None, [1, 2], [2, -1], [-1, -3], [-2, 1], [3, 3], [-1, -1]])), "tv": [draw(st.integers(-2, 2)), draw(st.integers(-2, 2))],
            "axis": draw(st.sampled_from([None, None, [1, 0, 0], [1, 0, 0], [0, 1, 0], [0, 0, 1], [1, 1, 0], [1, 0, 1], [0, 1, 1], [1, -1, 0], [-2, 0, 0]]))}


def run_conic(c):
    what, pts = c["what"], c["pts"]
    ck = Checker()
    sc = [C.scale_value(s) for s in c["s"]]
    if what in ("from_points", "from_crossratio"):
        if not no_three_collinear(pts):
            raise Skip("three collinear points")
        Ps = [P(p, s) for p, s in zip(pts, sc)]
        ipts = None
        if c.get("idt") is not None:
            lim = {"int8": 10, "uint8": 20, "int16": 100, "int32": 150, "int64": 150}.get(c["idt"])
            if lim is None or not isinstance(c.get("imul"), int) or c["imul"] < 1:
                raise Skip("malformed")
            m = min(c["imul"], lim)
            sh = 6 if c["idt"] == "uint8" else 0
            ipts = [Point(np.array([(p[0] + sh) * m, (p[1] + sh) * m, 1], dtype=c["idt"])) for p in pts]
            Ps = ipts
        con, f = call("from_points", Conic.from_points, *Ps)
        if f:
            return [f]
        ck.check(isinstance(con, Conic), "from_points:type")
        for i, q in enumerate(Ps):
            r, f = call("contains", con.contains, q)
            if f:
                ck.add(f)
            else:
                ck.check(bool(r), "from_points:contains-defining-point", (i, pts))
        dg, f = call("is_degenerate", lambda: con.is_degenerate)
        if f is None:
            ck.check(not bool(dg), "from_points:non-degenerate", pts)
        if what == "from_crossratio":
            a, b, cc, d, e = ipts if ipts is not None else [P(p) for p in pts]
            cr, f = call("crossratio", crossratio, a, b, cc, d, e)
            if f:
                return ck.result() + [f]
            con2, f = call("from_crossratio", Conic.from_crossratio, cr, a, b, cc, d)
            if f:
                return ck.result() + [f]
            ck.check(C.peq_all(con2.array, con.array, 2, 1e-6), "from_crossratio:agrees-with-from_points", (con2.array.tolist(), con.array.tolist()))
        return ck.result()
    if what == "from_points_complex":
        # five points with Gaussian-integer coordinates (imaginary parts from the fields 'line' and 's'), in every argument
        # position; and the circle as the conic through three real points and the circular points I, J
        im = [[c["line"][i % 3] + i - 2, (c["line"][(i + 1) % 3] * (i + 1)) % 5 - 2] for i in range(5)]
        Z = [np.array([complex(p[0], q[0]), complex(p[1], q[1]), 1.0]) for p, q in zip(pts, im)]
        if any(abs(np.linalg.det(np.stack([Z[i], Z[j], Z[k]]))) < 1e-9 for i, j, k in combinations(range(5), 3)):
            raise Skip("three collinear points")
        rot = c.get("diag", 0) % 5
        order = list(range(rot, 5)) + list(range(rot))
        con, f = call("from_points(complex)", Conic.from_points, *[Point(Z[i]) for i in order])
        if f:
            return [f]
        A = np.asarray(con.array, dtype=complex)
        if ck.check(np.max(np.abs(A)) > 1e-9 and np.all(np.isfinite(A)), "from_points:complex:non-zero-matrix", A.tolist()):
            A = A / np.max(np.abs(A))
            for i in range(5):
                z = Z[i] / np.max(np.abs(Z[i]))
                ck.check(abs(z @ A @ z) < 1e-7, "from_points:complex:contains-defining-point", (i, order, complex(z @ A @ z)))
        three = [np.array([float(p[0]), float(p[1]), 1.0]) for p in pts[:3]]
        if abs(np.linalg.det(np.stack(three))) > 0.5:
            for tag, args in (("p,q,r,I,J", [Point(x) for x in three] + [G.I, G.J]), ("I,J,p,q,r", [G.I, G.J] + [Point(x) for x in three])):
                cir, f = call("from_points(circle)", Conic.from_points, *args)
                if f:
                    ck.add(f)
                    continue
                B = np.asarray(cir.array, dtype=complex)
                if not ck.check(np.max(np.abs(B)) > 1e-9, f"from_points:circle({tag}):non-zero-matrix", B.tolist()):
                    continue
                B = B / B[0, 0] if abs(B[0, 0]) > 1e-12 else B
                ck.check(abs(B[0, 0] - B[1, 1]) < 1e-7 and abs(B[0, 1]) < 1e-7, f"from_points:circle({tag}):is-a-circle", B.tolist())
                for x in three:
                    ck.check(abs(x @ B @ x) < 1e-6 * max(1.0, np.max(np.abs(B))) * max(1.0, np.max(np.abs(x)) ** 2), f"from_points:circle({tag}):contains-point", complex(x @ B @ x))
        return ck.result()
    if what == "from_tangent":
        four = pts[:4]
        if c.get("trap") is not None and c.get("diag"):
            # a trapezoid: the two connecting lines that meet in the chosen diagonal point are parallel (the diagonal point is at
            # infinity) and so is the tangent; the second point of each pair lies in either direction from the first
            tv, (k1, k2) = c.get("tv", [1, 0]), c["trap"]
            if len(tv) != 2 or not any(tv) or k1 == 0 or k2 == 0 or any(not isinstance(x, int) or abs(x) > 3 for x in list(tv) + [k1, k2]):
                raise Skip("malformed trapezoid")
            i, j, k, m = {1: (0, 2, 1, 3), 2: (0, 1, 2, 3), 3: (0, 3, 1, 2)}[c["diag"]]
            four = [list(p) for p in four]
            four[j] = [four[i][0] + k1 * tv[0], four[i][1] + k1 * tv[1]]
            four[m] = [four[k][0] + k2 * tv[0], four[k][1] + k2 * tv[1]]
            pts = four + [pts[4]]
            c = dict(c, pts=pts)
        if c.get("axis") is not None and not c.get("diag"):
            # tangent lines with zero coordinates: the coordinate axes, the line at infinity (parabolas), lines through the origin
            if len(c["axis"]) != 3 or not any(c["axis"]) or any(not isinstance(x, int) or abs(x) > 2 for x in c["axis"]):
                raise Skip("malformed")
            c = dict(c, line=list(c["axis"]))
        l = [Fraction(x) for x in c["line"]]
        if not no_three_collinear(four):
            raise Skip("three collinear points")
        if c.get("diag"):
            # tangent through a diagonal point of the quadrangle (and the fifth point): one solution degenerates
            hq = [[Fraction(x) for x in p] + [Fraction(1)] for p in four]
            crs = lambda u, w: [u[1] * w[2] - u[2] * w[1], u[2] * w[0] - u[0] * w[2], u[0] * w[1] - u[1] * w[0]]  # noqa: E731
            i, j, k, m = {1: (0, 2, 1, 3), 2: (0, 1, 2, 3), 3: (0, 3, 1, 2)}[c["diag"]]
            dp = crs(crs(hq[i], hq[j]), crs(hq[k], hq[m]))
            l = crs(dp, [Fraction(x) for x in pts[4]] + [Fraction(1)])
            if not any(l):
                raise Skip("degenerate tangent")
            den = 1
            for x in l:
                den = den * x.denominator // math.gcd(den, x.denominator)
            l = [x * den for x in l]
            g = 0
            for x in l:
                g = math.gcd(g, int(x))
            l = [Fraction(int(x) // g) for x in l]
            if max(abs(x) for x in l) > 200:
                raise Skip("magnitude")
            c = dict(c, line=[int(x) for x in l])
        if any(l[0] * p[0] + l[1] * p[1] + l[2] == 0 for p in four):
            raise Skip("point on the tangent")
        # general position for the construction: the three pairs of opposite sides of the quadrangle meet the tangent in
        # six different points (if two of them coincide the contact point is forced and the construction degenerates)
        hp = [[Fraction(x) for x in p] + [Fraction(1)] for p in four]
        cross = lambda u, w: [u[1] * w[2] - u[2] * w[1], u[2] * w[0] - u[0] * w[2], u[0] * w[1] - u[1] * w[0]]  # noqa: E731
        sides = [cross(hp[i], hp[j]) for i, j in ((0, 2), (1, 3), (0, 1), (2, 3), (0, 3), (1, 2))]
        hits = [cross(sd, l) for sd in sides]
        # the tangent may pass through one diagonal point of the quadrangle (two opposite sides meet it in the same point):
        # then one of the two solutions is the line pair through that point and the other one is a proper conic, which is the
        # one to return; through two diagonal points no proper solution is left
        diagonal = sum(X.rank([hits[i], hits[j]]) < 2 for i, j in ((0, 1), (2, 3), (4, 5)))
        if diagonal > 1 or any(X.rank([hits[i], hits[j]]) < 2 for i in range(6) for j in range(i) if (j, i) not in ((0, 1), (2, 3), (4, 5))):
            raise Skip("no proper conic: the tangent passes through two diagonal points")
        Ps = [P(p) for p in four]
        lv = np.array(c["line"], float)
        L = Line(lv * sc[0])
        con, f = call("from_tangent", Conic.from_tangent, L, *Ps)
        if f:
            return [f]
        A = con.array / np.max(np.abs(con.array))
        if diagonal:
            ck.check(abs(np.linalg.det(A)) > 1e-13, "from_tangent:tangent-through-diagonal-point:proper-conic", float(abs(np.linalg.det(A))))
        for i, p in enumerate(four):
            x = np.array(p + [1], dtype=complex)
            ck.check(abs(x @ A @ x) < 1e-7 * max(1, np.max(np.abs(x)) ** 2), "from_tangent:contains-point", (i, complex(x @ A @ x)))
        # tangency: l^T adj(A) l = 0
        # tangency is only asserted for well conditioned results (relative determinant >= 1e-3), see DESIGN.md 7
        adj = np.linalg.det(A) * np.linalg.inv(A) if abs(np.linalg.det(A)) > 1e-3 else None
        if adj is not None:
            ln = lv / np.max(np.abs(lv))
            val = ln @ adj @ ln
            ck.check(abs(val) < 1e-6 * max(1e-3, np.max(np.abs(adj))), "from_tangent:tangent-to-line", complex(val))
        return ck.result()
    if what == "from_foci":
        f1, f2, b = [np.array(p, float) for p in pts[:3]]
        if np.array_equal(f1, f2):
            raise Skip("equal foci")
        d1, d2 = np.linalg.norm(b - f1), np.linalg.norm(b - f2)
        if d1 == 0 or d2 == 0:
            raise Skip("bound is a focus")
        ff = np.linalg.norm(f1 - f2)
        if abs(d1 + d2 - ff) < 1e-9 or abs(abs(d1 - d2) - ff) < 1e-9:
            raise Skip("bound on the focal axis segment: degenerate conic")
        con, f = call("from_foci", Conic.from_foci, P(f1), P(f2), P(b))
        if f:
            return [f]
        r, f = call("contains", con.contains, P(b))
        if f:
            ck.add(f)
        else:
            ck.check(bool(r), "from_foci:contains-boundary-point")
        fo, f = call("foci", lambda: con.foci)
        if f:
            ck.add(f)
        else:
            ck.check(len(fo) == 2 and C.set_peq([x.array for x in fo], [np.append(f1, 1), np.append(f2, 1)], 1e-5), "from_foci:foci-read-back", [x.array.tolist() for x in fo])
        # every point of the conic has constant sum / difference of focal distances: check via 8 points from intersections with lines through f1
        return ck.result()
    raise KeyError(what)


# ------------------------------------------------------------------------------------------- circles, ellipses, spheres
@st.composite
def round_case(draw, tier="quick"):
    what = draw(st.sampled_from(["circle", "ellipse", "sphere2", "sphere3"]))
    return {"what": what, "c": [draw(C.ints(9)) for _ in range(3)], "r": draw(st.sampled_from([1, 2, 3, 5, 7, 0.5, 1.5, 0.125, 0.1, 0.0625])), "r2": draw(st.sampled_from([1, 2, 4, 6, 0.5, 2.5, 0.25, 0.1])),
            "phi": [draw(st.integers(0, 23)) for _ in range(4)], "s": draw(C.scale()),
            "moved": draw(st.one_of(st.none(), st.tuples(st.sampled_from([2.0, 0.5, 1.0]), st.integers(-4, 4), st.integers(-4, 4), st.integers(-4, 4)).map(list)))}


def run_round(c):
    what, r = c["what"], c["r"]
    ck = Checker()
    s = C.scale_value(c["s"])
    if what in ("circle", "ellipse"):
        ctr = np.array(c["c"][:2], float)
        h, v = (r, r) if what == "circle" else (r, c["r2"])
        obj, f = call(what, (lambda: Circle(P(ctr, s), r)) if what == "circle" else (lambda: Ellipse(P(ctr, s), h, v)))
        if f:
            return [f]
        if c.get("moved"):
            # the round object is obtained from the constructed one by a similarity of the library (scaling by k, then a
            # translation): it is the circle / ellipse with centre k*c + m and radii k*r, and must read back as such
            k, m = float(c["moved"][0]), np.array(c["moved"][1:3], float)
            obj, f = call(what + ":moved", lambda: G.translation(*m) * (G.scaling(k, k) * obj))
            if f:
                return [f]
            ctr, r, h, v = k * ctr + m, k * r, k * h, k * v
        for k in c["phi"]:
            ph = k * math.pi / 12
            p = ctr + np.array([h * math.cos(ph), v * math.sin(ph)])
            rr, f = call("contains", obj.contains, P(p))
            if f:
                ck.add(f)
            else:
                ck.check(bool(rr), f"{what}:contains-locus", (p.tolist(),))
            q = ctr + 1.2 * np.array([h * math.cos(ph), v * math.sin(ph)])
            rr, f = call("contains", obj.contains, P(q))
            if f is None:
                ck.check(not bool(rr), f"{what}:rejects-off-locus", (q.tolist(),))
        rr, f = call("contains", obj.contains, P(ctr))
        if f is None:
            ck.check(not bool(rr), f"{what}:rejects-centre")
        if what == "circle":
            ce, f = call("center", lambda: obj.center)
            if f:
                ck.add(f)
            else:
                ck.check(C.peq_all(ce.array, np.append(ctr, 1.0), 1, 1e-6), "circle:center", ce.array.tolist())
            ra, f = call("radius", lambda: obj.radius)
            if f:
                ck.add(f)
            else:
                ck.check(abs(ra - r) < 1e-9, "circle:radius", (float(ra), r))
            ar, f = call("area", lambda: obj.area)
            if f:
                ck.add(f)
            else:
                ck.check(abs(ar - math.pi * r * r) < 1e-8 * r * r, "circle:area", (float(ar), math.pi * r * r))
        else:
            fo, f = call("foci", lambda: obj.foci)
            if f:
                ck.add(f)
            else:
                if h == v:
                    exp = [np.append(ctr, 1.0)]
                else:
                    e = math.sqrt(abs(h * h - v * v))
                    ax = np.array([1.0, 0.0]) if h > v else np.array([0.0, 1.0])
                    exp = [np.append(ctr + e * ax, 1.0), np.append(ctr - e * ax, 1.0)]
                ck.check(C.set_peq([x.array for x in fo], exp, 1e-5), "ellipse:foci", ([x.array.tolist() for x in fo], [x.tolist() for x in exp]))
        return ck.result()
    d = int(what[-1])
    ctr = np.array(c["c"][:d], float)
    obj, f = call(what, lambda: Sphere(P(ctr, s), r))
    if f:
        return [f]
    if c.get("moved"):
        k, m = float(c["moved"][0]), np.array(c["moved"][1:1 + d], float)
        obj, f = call(what + ":moved", lambda: G.translation(*m) * (G.scaling(*([k] * d)) * obj))
        if f:
            return [f]
        ctr, r = k * ctr + m, k * r
    for i, k in enumerate(c["phi"]):
        ph = k * math.pi / 12
        th = (c["phi"][(i + 1) % 4] + 1) * math.pi / 25
        u = np.array([math.cos(ph), math.sin(ph)]) if d == 2 else np.array([math.sin(th) * math.cos(ph), math.sin(th) * math.sin(ph), math.cos(th)])
        rr, f = call("contains", obj.contains, P(ctr + r * u))
        if f:
            ck.add(f)
        else:
            ck.check(bool(rr), f"{what}:contains-locus")
        rr, f = call("contains", obj.contains, P(ctr + 0.8 * r * u))
        if f is None:
            ck.check(not bool(rr), f"{what}:rejects-off-locus")
    ce, f = call("center", lambda: obj.center)
    if f:
        ck.add(f)
    else:
        ck.check(C.peq_all(ce.array, np.append(ctr, 1.0), 1, 1e-9), f"{what}:center", ce.array.tolist())
    ra, f = call("radius", lambda: obj.radius)
    if f:
        ck.add(f)
    else:
        ck.check(abs(ra - r) < 1e-9, f"{what}:radius", (float(ra), r))
    vol, f = call("volume", lambda: obj.volume)
    if f:
        ck.add(f)
    else:
        exp = math.pi * r * r if d == 2 else 4 / 3 * math.pi * r**3
        ck.check(abs(vol - exp) < 1e-8 * exp, f"{what}:volume", (float(vol), exp))
    ar, f = call("area", lambda: obj.area)
    if f:
        ck.add(f)
    else:
        exp = 2 * math.pi * r if d == 2 else 4 * math.pi * r * r
        ck.check(abs(ar - exp) < 1e-8 * exp, f"{what}:area", (float(ar), exp))
    return ck.result()


# ------------------------------------------------------------------------------------------- cones and cylinders
@st.composite
def cone_case(draw, tier="quick"):
    what = draw(st.sampled_from(["cone", "cylinder"]))
    axis = [draw(st.integers(-4, 4)) for _ in range(3)]
    return {"what": what, "v": [draw(C.ints(6)) for _ in range(3)], "axis": axis, "r": draw(st.sampled_from([1, 2, 3, 0.5, 1.5, 0.125, 0.1])), "phi": [draw(st.integers(0, 23)) for _ in range(3)],
            "t": [draw(st.sampled_from([1, 0.5, 2, -1, -0.5, 1.5])) for _ in range(3)], "dform": draw(st.sampled_from(["point", "point", "point at infinity", "keywords"]))}


def run_cone(c):
    what, r = c["what"], c["r"]
    v = np.array(c["v"], float)
    ax = np.array(c["axis"], float)
    if not np.any(ax):
        raise Skip("zero axis")
    ck = Checker()
    if what == "cone":
        obj, f = call("Cone", lambda: Cone(P(v), P(v + ax), r))
    else:
        dform = c.get("dform", "point")
        if dform == "point at infinity":
            # the axis direction as a point at infinity (what Line.direction returns), by any representative
            obj, f = call("Cylinder(direction at infinity)", lambda: Cylinder(P(v), Point(np.append(ax, 0.0) * (-2.0 if c["phi"][0] % 2 else 1.0)), r))
        elif dform == "keywords":
            obj, f = call("Cylinder(keywords)", lambda: Cylinder(center=P(v), direction=P(ax), radius=r))
        else:
            obj, f = call("Cylinder", lambda: Cylinder(P(v), P(ax), r))
    if f:
        return [f]
    a = ax / np.linalg.norm(ax)
    helper = np.array([1.0, 0.0, 0.0]) if abs(a[0]) < 0.9 else np.array([0.0, 1.0, 0.0])
    u = np.cross(a, helper)
    u /= np.linalg.norm(u)
    w = np.cross(a, u)
    cls = "axis-parallel" if sum(1 for x in c["axis"] if x) == 1 else ("generic" if all(c["axis"]) else "planar")
    for k, t in zip(c["phi"], c["t"]):
        ph = k * math.pi / 12
        radial = math.cos(ph) * u + math.sin(ph) * w
        if what == "cone":
            p = v + t * ax + r * t * radial
            q = v + t * ax + 1.2 * r * t * radial
        else:
            p = v + t * ax + r * radial
            q = v + t * ax + 1.2 * r * radial
        rr, f = call("contains", obj.contains, P(p))
        if f:
            ck.add(f)
        else:
            ck.check(bool(rr), f"{what}:contains-locus:{cls}", (c["axis"], t, k))
        rr, f = call("contains", obj.contains, P(q))
        if f is None:
            ck.check(not bool(rr), f"{what}:rejects-off-locus:{cls}", (c["axis"], t, k))
    if what == "cone":
        rr, f = call("contains", obj.contains, P(v))
        if f is None:
            ck.check(bool(rr), "cone:contains-vertex")
    return ck.result()


def cone_nontrivial(c):
    return any(c["v"]) and all(c["axis"]) and len({x > 0 for x in c["axis"]}) == 2


def cone_labels(c):
    n = sum(1 for x in c["axis"] if x)
    out = [c["what"], {1: "axis-parallel", 2: "planar-axis", 3: "generic-axis", 0: "zero"}[n]]
    if n == 3:
        out.append("octant:" + "".join("+" if x > 0 else "-" for x in c["axis"]))
    if c["what"] == "cylinder" and c.get("dform", "point") != "point":
        out.append("cylinder:direction-as-" + c["dform"].replace(" ", "-"))
    return out


LAWS = [
    Law("conic_constructors", lambda tier: conic_case(tier), run_conic, lambda c: True,
        lambda c: [c["what"]] + ([f"{c['what']}:points-of-type-{c['idt']}"] if c.get("idt") and c["what"] in ("from_points", "from_crossratio") else []) + (["tangent:" + ",".join(str(x) for x in c["axis"])] if c["what"] == "from_tangent" and c.get("axis") is not None and not c.get("diag") else [])
        + (["trapezoid-with-parallel-tangent"] if c["what"] == "from_tangent" and c.get("trap") is not None and c.get("diag") else []), {"quick": 2500, "thorough": 30000},
        "from_points / from_crossratio / from_tangent / from_foci", shard=300, mandatory=("tangent:1,0,0", "tangent:0,1,0", "trapezoid-with-parallel-tangent")),
    Law("round", lambda tier: round_case(tier), run_round, lambda c: any(c["c"]), lambda c: [c["what"]] + (["moved-by-a-similarity"] if c.get("moved") else []), {"quick": 1000, "thorough": 20000},
        "Circle / Ellipse / Sphere: locus membership, center, radius, foci, area, volume; also after a similarity (scaling, translation) of the library", shard=300, mandatory=("moved-by-a-similarity",)),
    Law("cone_cylinder", lambda tier: cone_case(tier), run_cone, cone_nontrivial, cone_labels, {"quick": 1200, "thorough": 25000},
        "Cone / Cylinder contain exactly the parametrised Cartesian locus, axis directions in all octants (for cylinders also given as a point at infinity and by keywords)", shard=300, mandatory=("generic-axis", "cylinder:direction-as-point-at-infinity")),
]


# ------------------------------------------------------------------------------------------- equivalent ways of asking
from .. import forms as _forms  # noqa: E402

LAWS.append(
    Law("argument_forms", lambda tier: _forms.forms_case_strategy("C13")(tier), _forms.run_forms("C13"), lambda c: True, lambda c: [c["entry"], f"d{c['d']}"], {"quick": 600, "thorough": 8000},
        "the same object asked for in several ways (positional / keyword arguments, other representatives of point arguments, int / float / numpy scalars, defaults given explicitly, symmetric argument orders): all forms agree", shard=300)
)
