"""C14 Quadric-line intersection, tangents, polars and duals are mutually consistent."""
from __future__ import annotations

import cmath
import math
from fractions import Fraction
from functools import reduce

import numpy as np
from hypothesis import strategies as st

import geometer as G
from geometer import (
    Circle, Cone, Conic, Cylinder, Ellipse, Line, LineCollection, Plane, Point, PointCollection, Quadric, QuadricCollection, Sphere,
)

from .. import common as C
from .. import exact as X
from .. import zoo as Z
from ..runner import Checker, Fail, Law, Skip, call
from .c01 import pow2_normalise
from .c10 import UNIT

RULE = (
    "Quadrics S = N^T D N (N invertible integer matrix with entries in [-3,3], D diagonal +-1 of every signature, so the exact "
    "rational points x = adj(N) y are known) in 2D and 3D, Circle/Ellipse/Sphere/Cone/Cylinder instances and plane/line pairs; lines "
    "through two exact points of the quadric (secant), exactly tangent (second point in the tangent hyperplane S x), generic "
    "(real or complex intersections decided by the exact discriminant), through the origin, at infinity; single and collections. "
    "Non-trivial = the quadric matrix has no zero entry, or the line is exactly tangent or meets the quadric in complex points."
)
ASSUMPTIONS = [
    "expected intersection = roots of the exact restriction a s^2 + b s t + c t^2 (Fractions), evaluated in complex float64; "
    "comparison as multisets under projective equality over C, tol 1e-6 (double roots: contact point once or twice)",
    "numerically near-tangent lines are not generated (double roots are ill-conditioned to sqrt(eps))",
]

SIGS = {2: [[1, 1, -1], [1, 1, 1], [1, -1, -1]], 3: [[1, 1, 1, -1], [1, 1, -1, -1], [1, 1, 1, 1]]}
PTS = {
    (1, 1, -1): [(3, 4, 5), (5, 12, 13), (4, -3, 5), (0, 1, 1), (1, 0, -1), (-8, 15, 17)],
    (1, -1, -1): [(5, 3, 4), (13, 5, 12), (5, 4, -3), (1, 0, 1), (1, 1, 0), (17, -8, 15)],
    (1, 1, 1, -1): [(1, 2, 2, 3), (2, 3, 6, 7), (1, 4, 8, 9), (0, 0, 1, 1), (4, 4, -7, 9), (2, -6, 9, 11)],
    (1, 1, -1, -1): [(1, 0, 1, 0), (3, 4, 5, 0), (1, 2, 2, 1), (2, 3, 3, 2), (5, 0, 4, 3), (1, -2, 2, -1)],
}


def fr(v):
    return [Fraction(int(x)) for x in v]


def primitive(v):
    g = reduce(math.gcd, [abs(int(x)) for x in v])
    return [int(x) // g if g else int(x) for x in v]


def quadric_matrix(nparams, sig, n):
    N = Z.int_matrix(nparams, n, 3)
    Nf = [[Fraction(int(x)) for x in r] for r in N]
    S = [[sum(Nf[k][i] * sig[k] * Nf[k][j] for k in range(n)) for j in range(n)] for i in range(n)]
    adjN = [[(-1) ** (i + j) * X.det([[Nf[r][cc] for cc in range(n) if cc != i] for r in range(n) if r != j]) for j in range(n)] for i in range(n)]
    return S, adjN


def qform(S, u, w):
    n = len(S)
    return sum(u[i] * S[i][j] * w[j] for i in range(n) for j in range(n))


def expected_points(S, A, B):
    """intersection of the quadric with the line through A, B: list of complex coordinate vectors, or None if the line lies in Q"""
    a, b, c = qform(S, A, A), 2 * qform(S, A, B), qform(S, B, B)
    Av = np.array([complex(float(x)) for x in A])
    Bv = np.array([complex(float(x)) for x in B])
    if a == 0 and b == 0 and c == 0:
        return None, None
    disc = b * b - 4 * a * c
    if a != 0:
        sq = cmath.sqrt(complex(float(disc)))
        pts = [(-float(b) + sq) * Av + 2 * float(a) * Bv, (-float(b) - sq) * Av + 2 * float(a) * Bv]
    else:
        pts = [Av, float(c) * Av - float(b) * Bv]
    if disc == 0:
        pts = pts[:1]
    return pts, disc


def np_f(v):
    return np.array([float(x) for x in v])


def line_obj(A, B, n):
    A, B = primitive(A), primitive(B)
    if n == 3:
        return Line(pow2_normalise(np.cross(np_f(A), np_f(B))))
    return Line(Z.plucker_dual(A, B) / 4)


@st.composite
def isect_case(draw, tier="quick"):
    d = draw(st.sampled_from([2, 3]))
    ltype = draw(st.sampled_from(["secant", "tangent", "generic", "origin", "infinity"]))
    sig = draw(st.sampled_from([s for s in SIGS[d] if tuple(s) in PTS] if ltype in ("secant", "tangent") else SIGS[d]))
    return {"d": d, "sig": sig, "n": draw(Z.params(9)), "ltype": ltype, "i": draw(st.integers(0, 5)), "j": draw(st.integers(0, 5)),
            "A": draw(C.hpoint(d, 6)), "B": draw(C.hpoint(d, 6)), "s": draw(C.scale()), "coll": draw(st.sampled_from([None, None, "lines", "quadrics"])),
            "cls": draw(st.sampled_from(["Quadric", "Conic"])), "other": draw(st.sampled_from(["same", "axis", "axis-first", "generic", "generic-first"]))}


def build_line_points(c, S, adjN):
    d, n = c["d"], c["d"] + 1
    sig = tuple(c["sig"])
    lt = c["ltype"]
    if lt in ("secant", "tangent"):
        if sig not in PTS:
            raise Skip("no real points")
        y1 = fr(PTS[sig][c["i"]])
        X1 = fr(primitive([sum(adjN[i][j] * y1[j] for j in range(n)) for i in range(n)]))
        if lt == "secant":
            if c["i"] == c["j"]:
                raise Skip("same point")
            y2 = fr(PTS[sig][c["j"]])
            X2 = fr(primitive([sum(adjN[i][j] * y2[j] for j in range(n)) for i in range(n)]))
            if X.rank([X1, X2]) < 2:
                raise Skip("same point")
            return X1, X2
        h = [sum(S[i][j] * X1[j] for j in range(n)) for i in range(n)]
        Zv, Wv = fr(c["A"]), fr(c["B"])
        Y = [X.dot(h, Wv) * z - X.dot(h, Zv) * w for z, w in zip(Zv, Wv)]
        if X.rank([X1, Y]) < 2:
            raise Skip("degenerate tangent")
        return X1, fr(primitive(Y))
    A, B = fr(c["A"]), fr(c["B"])
    if lt == "origin":
        A = [Fraction(0)] * d + [Fraction(1)]
    if lt == "infinity":
        A[-1] = Fraction(0)
        B[-1] = Fraction(0)
    if X.rank([A, B]) < 2:
        raise Skip("dependent")
    return A, B


def run_isect(c):
    d = c["d"]
    n = d + 1
    S, adjN = quadric_matrix(c["n"], c["sig"], n)
    A, B = build_line_points(c, S, adjN)
    if max(abs(x) for x in A + B) > 400:
        raise Skip("magnitude")
    exp, disc = expected_points(S, A, B)
    if exp is None:
        raise Skip("line lies in the quadric")
    Sa = pow2_normalise(np.array([[float(v) for v in r] for r in S])) * C.scale_value(c["s"])
    if abs(np.linalg.det(Sa)) < 1e-5:
        # the library decides degeneracy by |det| < 1e-8 (absolute, by design): stay three orders of magnitude away
        raise Skip("determinant too close to the library's absolute degeneracy tolerance")
    cls = Conic if (c["cls"] == "Conic" and d == 2) else Quadric
    L = line_obj(A, B, n)
    site = f"intersect:d{d}:{c['ltype']}:{'double' if disc == 0 else ('real' if disc > 0 else 'complex')}"
    ck = Checker()
    coll = c["coll"]
    positions = [(A, B, exp, disc)]
    if coll == "lines":
        # a second, different line in the collection: parallel to a coordinate axis (such lines have vanishing rows in their
        # Pluecker matrix) or generic; in either order
        other = c.get("other", "same")
        A2, B2 = A, B
        if other in ("axis", "axis-first"):
            A2 = fr(c["A"]) if c["A"][-1] != 0 else [Fraction(0)] * d + [Fraction(1)]
            k = c["j"] % d
            B2 = [x + (A2[-1] if i == k else 0) for i, x in enumerate(A2)]
        elif other in ("generic", "generic-first"):
            A2, B2 = fr(c["B"]), [x + y for x, y in zip(fr(c["A"]), fr(c["B"]))]
            if X.rank([A2, B2]) < 2:
                A2, B2 = A, B
        exp2, disc2 = expected_points(S, A2, B2)
        if exp2 is None or max(abs(x) for x in A2 + B2) > 400:
            A2, B2, exp2, disc2 = A, B, exp, disc
        Lo = line_obj(A2, B2, n) if (A2, B2) != (A, B) else Line(L.array * -3.0)
        if other.endswith("-first"):
            L2 = LineCollection(np.stack([Lo.array, L.array]))
            positions = [(A2, B2, exp2, disc2), (A, B, exp, disc)]
        else:
            L2 = LineCollection(np.stack([L.array, Lo.array]))
            positions = [(A, B, exp, disc), (A2, B2, exp2, disc2)]
        Q = cls(Sa)
        r, f = call(site + ":linecoll", Q.intersect, L2)
    elif coll == "quadrics":
        Q = QuadricCollection(np.stack([Sa, Sa * 2.0]))
        positions = positions * 2
        r, f = call(site + ":quadriccoll", Q.intersect, L)
    else:
        Q = cls(Sa)
        r, f = call(site, Q.intersect, L)
    if f:
        return [f]
    if not ck.check(isinstance(r, list) and 1 <= len(r) <= 2, site + ":result-count", len(r) if isinstance(r, list) else type(r)):
        return ck.result()
    for k, (Ak, Bk, expk, disck) in enumerate(positions):
        got = []
        for p in r:
            a = np.asarray(p.array)
            got.append(a[k] if coll else a)
        Sn = np.array([[float(v) for v in row] for row in S])
        Sn = Sn / np.max(np.abs(Sn))
        valid = [bool(np.all(np.isfinite(g)) and np.max(np.abs(g)) > 1e-12) for g in got]
        if not ck.check(all(valid), site + ":returned-point-is-zero-or-not-finite", [g.tolist() for g in got]):
            continue
        for g in got:
            gn = C.pnorm(g)
            ck.check(abs(gn @ Sn @ gn) < 1e-6, site + ":point-on-quadric", (g.tolist(),))
            # on the line: rank of [A, B, g] is 2
            M = np.stack([C.pnorm(np_f(Ak)), C.pnorm(np_f(Bk)), gn])
            sv = np.linalg.svd(M, compute_uv=False)
            ck.check(sv[-1] < 1e-6 if n == 3 else sv[2] < 1e-6, site + ":point-on-line", (g.tolist(), k))
        if disck == 0:
            ok = all(C.peq_all(g, expk[0], 1, 1e-5) for g in got)
            ck.check(ok, site + ":tangent-returns-contact-point", ([g.tolist() for g in got], expk[0].tolist()))
        else:
            ck.check(len(got) == 2 and C.multiset_peq(got, expk, 1e-6), site + ":common-points", ([g.tolist() for g in got], [e.tolist() for e in expk], k))
    return ck.result()


def isect_nontrivial(c):
    return c["ltype"] == "tangent" or tuple(c["sig"]) not in PTS or c["ltype"] in ("generic", "origin", "infinity")


# ------------------------------------------------------------------------------------------- tangent / polar / dual
@st.composite
def tpd_case(draw, tier="quick"):
    what = draw(st.sampled_from(["tangent_at", "tangent_from_outside", "polar", "dual_generic", "dual_class", "is_tangent_class", "tangency_after_move", "complex_tangent_class", "tangent_at_infinity"]))
    d = 2 if what in ("tangent_from_outside", "polar") else draw(st.sampled_from([2, 3]))
    return {"d": d, "what": what, "sig": draw(st.sampled_from(SIGS[d][:1] + SIGS[d][2:] if d == 2 else SIGS[d][:2])), "n": draw(Z.params(9)), "i": draw(st.integers(0, 5)),
            "p": draw(C.hpoint(d, 5)), "q": draw(C.hpoint(d, 5)), "cls": draw(st.sampled_from(["Circle", "Sphere2", "Sphere3"] if what in ("is_tangent_class", "tangency_after_move", "complex_tangent_class") else ["Quadric", "Conic", "Circle", "Ellipse", "Sphere2", "Sphere3", "QuadricCollection"])),
            "c": [draw(C.ints(6)) for _ in range(3)], "r": draw(st.sampled_from([1, 2, 3, 5, 0.5, 0.125, 0.1, 0.0625])), "u": draw(st.integers(0, len(UNIT) - 1)), "truth": draw(st.booleans()), "s": draw(C.scale()), "centre": draw(st.sampled_from([False, False, True]))}


def run_tpd(c):
    d, what = c["d"], c["what"]
    n = d + 1
    ck = Checker()
    if what == "tangent_at_infinity":
        # points at infinity of a quadric that is not centred at the origin: the tangent there is the asymptotic line / plane through
        # the centre (hyperbola, one-sheeted hyperboloid, cone), the line at infinity for the point at infinity of a parabola
        ctr = np.array(c["c"], float)
        rr = float(c["r"]) if c["r"] >= 0.5 else 1.0
        scl = C.scale_value(c["s"])
        kind = ["hyperbola", "parabola", "hyperboloid", "cone"][c["i"] % 4] if d == 3 else ["hyperbola", "parabola"][c["i"] % 2]
        if kind == "hyperbola":
            cx, cy = ctr[:2]
            A = np.array([[1.0, 0, -cx], [0, -1.0, cy], [-cx, cy, cx * cx - cy * cy - rr * rr]])
            dirs = [(1, 1), (1, -1), (-2, 2)]
            dv = np.array(dirs[c["u"] % 3], float)
            at = np.append(dv, 0.0)
            want = np.array([dv[0], -dv[1], -(dv[0] * cx - dv[1] * cy)])
            Q = Conic(A * scl)
        elif kind == "parabola":
            cx, cy = ctr[:2]
            A = np.array([[1.0, 0, -cx], [0, 0, -0.5], [-cx, -0.5, cx * cx + cy]])  # (x - cx)^2 = y - cy
            at = np.array([0.0, 1.0 if c["u"] % 2 else -2.0, 0.0])
            want = np.array([0.0, 0.0, 1.0])
            Q = Conic(A * scl)
        else:
            cx, cy, cz = ctr
            k0 = 0.0 if kind == "cone" else rr * rr
            A = np.array([[1.0, 0, 0, -cx], [0, 1.0, 0, -cy], [0, 0, -1.0, cz], [-cx, -cy, cz, cx * cx + cy * cy - cz * cz - k0]])
            dirs = [(3, 4, 5), (5, 12, 13), (0, 1, 1), (1, 0, -1), (4, -3, 5), (-3, -4, 5)]
            dv = np.array(dirs[c["u"] % 6], float)
            at = np.append(dv, 0.0) * (2.0 if c["truth"] else -1.0)
            want = np.array([dv[0], dv[1], -dv[2], -(dv[0] * cx + dv[1] * cy - dv[2] * cz)])
            Q = Quadric(A * scl)
        on, f = call(f"contains:{kind}:point-at-infinity", Q.contains, Point(at))
        if f:
            return [f]
        if not ck.check(bool(on), f"contains:{kind}:point-at-infinity-of-the-quadric", at.tolist()):
            return ck.result()
        T, f = call(f"tangent:{kind}:at-a-point-at-infinity", Q.tangent, Point(at))
        if f:
            return [f]
        ck.check(np.asarray(T.array).shape == want.shape and C.peq_all(np.asarray(T.array), want, 1, 1e-9), f"tangent:{kind}:at-a-point-at-infinity:value", (np.asarray(T.array).tolist(), want.tolist()))
        if kind != "cone":
            rt, f = call(f"is_tangent:{kind}:asymptotic", Q.is_tangent, T)
            if f:
                ck.add(f)
            else:
                ck.check(bool(rt), f"is_tangent:{kind}:tangent-at-a-point-at-infinity")
        return ck.result()
    if what in ("tangent_at", "tangent_from_outside", "polar", "dual_generic"):
        sig = c["sig"]
        S, adjN = quadric_matrix(c["n"], sig, n)
        Sn = np.array([[float(v) for v in r] for r in S])
        Sa = pow2_normalise(Sn) * C.scale_value(c["s"])
        if what == "tangent_at":
            if tuple(sig) not in PTS:
                raise Skip("no real points")
            y = fr(PTS[tuple(sig)][c["i"]])
            x = primitive([sum(adjN[i][j] * y[j] for j in range(n)) for i in range(n)])
            xv = np_f(x) / float(max(abs(v) for v in x))
            for cls in ([Quadric, Conic] if d == 2 else [Quadric]):
                Q = cls(Sa)
                t, f = call("tangent", Q.tangent, Point(xv))
                if f:
                    ck.add(f)
                    continue
                if isinstance(t, tuple):
                    ck.check(False, f"tangent_at:{cls.__name__}:point-on-quadric-not-recognised")
                    continue
                ck.check(C.peq_all(t.array, Sn @ xv, 1, 1e-9), f"tangent_at:{cls.__name__}:value", t.array.tolist())
                r, f = call("contains", t.contains, Point(xv))
                if f is None:
                    ck.check(bool(r), f"tangent_at:{cls.__name__}:contains-point")
                r, f = call("is_tangent", Q.is_tangent, t)
                if f:
                    ck.add(f)
                else:
                    ck.check(bool(r), f"tangent_at:{cls.__name__}:is_tangent")
            return ck.result()
        if what == "tangent_from_outside":
            if d != 2:
                raise Skip("Conic only")
            p = fr(c["p"])
            val = qform(S, p, p)
            if val == 0:
                raise Skip("point on the conic")
            Q = Conic(Sa)
            pv = np_f(p)
            r, f = call("tangent(outside)", Q.tangent, Point(pv))
            if f:
                return [f]
            if not ck.check(isinstance(r, tuple) and len(r) == 2, "tangent_from_outside:two-tangents", type(r).__name__):
                return ck.result()
            adjS = np.linalg.det(Sn) * np.linalg.inv(Sn)
            adjS = adjS / np.max(np.abs(adjS))
            for t in r:
                tn = C.pnorm(t.array)
                ck.check(abs(tn @ C.pnorm(pv)) < 1e-6, "tangent_from_outside:through-point", t.array.tolist())
                ck.check(abs(tn @ adjS @ tn) < 1e-6, "tangent_from_outside:is-tangent", complex(tn @ adjS @ tn))
            return ck.result()
        if what == "polar":
            if d != 2:
                raise Skip("Conic only")
            Q = Conic(Sa)
            p, q = fr(c["p"]), fr(c["q"])
            if c.get("centre"):
                # the pole of the line at infinity (the centre of the conic): its polar has no normal part
                p = fr(primitive([(-1) ** (i + 2) * X.det([[S[r][cc_] for cc_ in range(3) if cc_ != i] for r in range(3) if r != 2]) for i in range(3)]))
                if not any(p):
                    raise Skip("no centre")
            pp, f = call("polar", Q.polar, Point(np_f(p)))
            if f:
                return [f]
            ck.check(isinstance(pp, G.Line) and C.peq_all(pp.array, Sn @ np_f(p), 1, 1e-9), "polar:value", pp.array.tolist())
            pq, f = call("polar", Q.polar, Point(np_f(q)))
            if f:
                return [f]
            truth = qform(S, p, q) == 0
            r1, f1 = call("contains", pp.contains, Point(np_f(q)))
            r2, f2 = call("contains", pq.contains, Point(np_f(p)))
            if f1 or f2:
                return ck.result() + [z for z in (f1, f2) if z]
            ck.check(bool(r1) == truth and bool(r2) == truth, "polar:reciprocity", (bool(r1), bool(r2), truth))
            # pole of the polar through the dual conic
            du, f = call("dual", lambda: Q.dual)
            if f:
                ck.add(f)
            else:
                pole = du.array @ pp.array
                ck.check(C.peq_all(pole, np_f(p), 1, 1e-7), "polar:pole-of-polar", pole.tolist())
            return ck.result()
        # dual of generic quadrics
        for cls in ([Quadric, Conic] if d == 2 else [Quadric]):
            Q = cls(Sa)
            du, f = call("dual", lambda: Q.dual)
            if f:
                ck.add(f)
                continue
            ck.check(type(du) is cls and du.is_dual is True, f"dual:{cls.__name__}:is_dual-toggles", (type(du).__name__, du.is_dual))
            ck.check(C.peq_all(du.array, np.linalg.inv(Sn), 2, 1e-7), f"dual:{cls.__name__}:inverse-matrix")
            ck.check(du.tensor_shape == (2, 0), f"dual:{cls.__name__}:index-types", du.tensor_shape)
            dd, f = call("dual.dual", lambda: du.dual)
            if f:
                ck.add(f)
            else:
                ck.check(C.peq_all(dd.array, Sa, 2, 1e-7) and dd.is_dual is False and dd.tensor_shape == (0, 2), f"dual:{cls.__name__}:involution")
            # is_tangent <=> h^T adj(S) h == 0 exactly
            h = fr(c["p"])
            adjS = [[(-1) ** (i + j) * X.det([[S[r][cc] for cc in range(n) if cc != i] for r in range(n) if r != j]) for j in range(n)] for i in range(n)]
            truth = qform(adjS, h, h) == 0
            H = (Line if d == 2 else Plane)(np_f(h) / float(max(1, max(abs(v) for v in h))))
            r, f = call("is_tangent", Q.is_tangent, H)
            if f:
                ck.add(f)
            else:
                ck.check(bool(r) == truth, f"is_tangent:{cls.__name__}:generic-hyperplane", (bool(r), truth))
        return ck.result()
    # class instances
    name = c["cls"]
    ctr = np.array(c["c"], float)
    r = c["r"]
    if name == "Circle":
        Q, dim = Circle(Point(*ctr[:2]), r), 2
    elif name == "Ellipse":
        Q, dim = Ellipse(Point(*ctr[:2]), r, r + 1), 2
    elif name == "Sphere2":
        Q, dim = Sphere(Point(*ctr[:2]), r), 2
    elif name == "Sphere3":
        Q, dim = Sphere(Point(*ctr), r), 3
    elif name == "Conic":
        Q, dim = Conic(np.diag([1.0, 2.0, -3.0])), 2
    elif name == "QuadricCollection":
        Q, dim = QuadricCollection(np.stack([np.diag([1.0, 2.0, -3.0]), np.diag([1.0, 1.0, -1.0])])), 2
    elif name in ("Cone", "Cylinder"):
        raise Skip("singular matrix: no dual exists")
    else:
        Q, dim = Quadric(np.diag([1.0, 2.0, 3.0, -1.0])), 3
    if what == "dual_class":
        du, f = call(f"dual:{name}", lambda: Q.dual)
        if f:
            return [f]
        ck.check(isinstance(du, G.curve.QuadricTensor) and du.is_dual is True, f"dual:{name}:is_dual-toggles")
        ck.check(C.peq_all(du.array, np.linalg.inv(Q.array), 2, 1e-7), f"dual:{name}:inverse-matrix")
        dd, f = call(f"dual.dual:{name}", lambda: du.dual)
        if f:
            ck.add(f)
        else:
            ck.check(C.peq_all(dd.array, Q.array, 2, 1e-7) and dd.is_dual is False, f"dual:{name}:involution")
        if name == "QuadricCollection":
            # elements, slices and iteration of the dual collection are dual quadrics: dual[i] is the dual of element i
            parts = [("dual[i]", lambda i: du[i]), ("list(dual)[i]", lambda i: list(du)[i]), ("dual[i:][0]", lambda i: du[i:][0])]
            for i in range(Q.array.shape[0]):
                for tag, get in parts:
                    e, f = call(f"dual:{name}:{tag}", get, i)
                    if f:
                        ck.add(f)
                        continue
                    ok = getattr(e, "is_dual", None) is True and C.peq_all(e.array, np.linalg.inv(Q.array[i]), 2, 1e-7)
                    if not ck.check(ok, f"dual:{name}:{tag}:is-the-dual-of-element-i", (i, getattr(e, "is_dual", None))):
                        continue
                    ee, f = call(f"dual:{name}:{tag}.dual", lambda: e.dual)
                    if f:
                        ck.add(f)
                    else:
                        ck.check(ee.is_dual is False and C.peq_all(ee.array, Q.array[i], 2, 1e-7), f"dual:{name}:{tag}:involution", i)
                    # the dual of element i contains exactly the tangent hyperplanes: the polar of a point of the quadric
                    x = np.array([np.sqrt(3.0), 0.0, 1.0]) if i == 0 else np.array([1.0, 0.0, 1.0])
                    h = Q.array[i] @ x
                    tg, f = call(f"dual:{name}:{tag}.contains", e.contains, Line(h))
                    if f:
                        ck.add(f)
                    else:
                        ck.check(bool(tg), f"dual:{name}:{tag}:contains-tangent-line", i)
        return ck.result()
    if what == "tangency_after_move":
        # a tangency query, then the quadric is moved, then the query is asked for the moved quadric (multi-step history)
        u = UNIT[c["u"]]
        if dim == 2:
            nrm = np.array([u[0] / u[2], u[1] / u[2]])
        else:
            w = UNIT[(c["u"] + 3) % len(UNIT)]
            nrm = np.array([u[0] / u[2] * w[0] / w[2], u[1] / u[2] * w[0] / w[2], w[1] / w[2]])
        cc = ctr[:dim]
        mk = lambda center, dist: (Line if dim == 2 else Plane)(np.append(nrm, -(nrm @ center) - dist))  # noqa: E731
        H = mk(cc, r)
        first, f = call(f"is_tangent:{name}", Q.is_tangent, H)
        if f:
            return [f]
        ck.check(bool(first), f"after-move:{name}:before", bool(first))
        shift = np.array(c["p"][:dim], float)
        if abs(nrm @ shift) < 1e-9 or abs(nrm @ shift - 2 * r) < 1e-9:
            raise Skip("shift along the tangent, or onto the mirror position where the old tangent touches again")
        moved, f = call(f"move:{name}", lambda: Q + Point(*shift))
        if f:
            return [f]
        r1, f1 = call(f"is_tangent:{name}:moved", moved.is_tangent, mk(cc + shift, r))
        r2, f2 = call(f"is_tangent:{name}:moved", moved.is_tangent, H)
        if f1 or f2:
            return ck.result() + [z for z in (f1, f2) if z]
        ck.check(bool(r1), f"after-move:{name}:moved-tangent-touches-moved-quadric", bool(r1))
        ck.check(not bool(r2), f"after-move:{name}:old-tangent-does-not-touch-moved-quadric", bool(r2))
        dd, f = call(f"dual.dual:{name}:moved", lambda: moved.dual.dual)
        if f:
            ck.add(f)
        else:
            ck.check(C.peq_all(dd.array, moved.array, 2, 1e-7), f"after-move:{name}:dual-involution")
        return ck.result()
    if what == "complex_tangent_class":
        # complex points of a circle / sphere: centre + r (a, i b, ...) with a^2 - b^2 = 1 (a = 5/3, b = 4/3 and a = 13/5, b = 12/5);
        # the tangent there is a complex hyperplane, contains the point and is tangent; the join of two such points is not
        if name not in ("Circle", "Sphere2", "Sphere3"):
            raise Skip("round classes only")
        cc = ctr[:dim]
        ab = [(5 / 3, 4 / 3), (13 / 5, 12 / 5), (5 / 4, -3 / 4)]
        (a1, b1), (a2, b2) = ab[c["u"] % 3], ab[(c["u"] + 1) % 3]
        e1 = np.zeros(dim, complex)
        e2 = np.zeros(dim, complex)
        e1[0], e1[1] = a1, 1j * b1
        e2[0], e2[dim - 1] = a2, 1j * b2
        p1 = np.append(cc + r * e1, 1.0) * C.scale_value(c["s"])
        p2 = np.append(cc + r * e2, 1.0)
        on, f = call(f"contains:{name}:complex-point", Q.contains, Point(p1))
        if f:
            return [f]
        if not ck.check(bool(on), f"contains:{name}:complex-point-of-the-locus", p1.tolist()):
            return ck.result()
        T, f = call(f"tangent:{name}:at-complex-point", Q.tangent, Point(p1))
        if f:
            return [f]
        ck.check(bool(T.contains(Point(p1))), f"tangent:{name}:at-complex-point:contains-the-point")
        rr, f = call(f"is_tangent:{name}:complex-hyperplane", Q.is_tangent, T)
        if f:
            ck.add(f)
        else:
            ck.check(bool(rr), f"is_tangent:{name}:tangent-at-a-complex-point", np.asarray(T.array).tolist())
        if dim == 2:
            sec, f = call("join", G.join, Point(p1), Point(p2))
            if f is None:
                rr, f = call(f"is_tangent:{name}:complex-secant", Q.is_tangent, sec)
                if f:
                    ck.add(f)
                else:
                    ck.check(not bool(rr), f"is_tangent:{name}:complex-secant-is-not-tangent", np.asarray(sec.array).tolist())
        return ck.result()
    if what == "is_tangent_class":
        if name not in ("Circle", "Sphere2", "Sphere3"):
            raise Skip("round classes only")
        u = UNIT[c["u"]]
        if dim == 2:
            nrm = np.array([u[0] / u[2], u[1] / u[2]])
        else:
            w = UNIT[(c["u"] + 3) % len(UNIT)]
            nrm = np.array([u[0] / u[2] * w[0] / w[2], u[1] / u[2] * w[0] / w[2], w[1] / w[2]])
        dist = r if c["truth"] else r * 1.25
        cc = ctr[:dim]
        h = np.append(nrm, -(nrm @ cc) - dist)
        H = (Line if dim == 2 else Plane)(h * C.scale_value(c["s"]) / 8)
        rr, f = call(f"is_tangent:{name}", Q.is_tangent, H)
        if f:
            return [f]
        ck.check(bool(rr) == c["truth"], f"is_tangent:{name}:{'touching' if c['truth'] else 'not-touching'}", (bool(rr), h.tolist()))
        return ck.result()
    raise Skip("combination not defined")


# ------------------------------------------------------------------------------------------- degenerate quadrics and class instances vs lines
@st.composite
def deg_case(draw, tier="quick"):
    what = draw(st.sampled_from(["line_pair", "plane_pair", "cone", "cylinder", "circle", "sphere", "degenerate_collection", "mixed_conic_collection"]))
    return {"what": what, "v": [draw(C.ints(5)) for _ in range(12)], "A": draw(C.hpoint(3, 5)), "B": draw(C.hpoint(3, 5)), "r": draw(st.sampled_from([1, 2, 3, 0.5, 0.25, 0.1, 0.0625])),
            "k": draw(st.integers(0, len(UNIT) - 1)), "k2": draw(st.integers(0, len(UNIT) - 1)), "t": draw(st.sampled_from([1, 2, -1, 3])),
            "far": draw(st.sampled_from([1, 1, 4, 8]))}


def run_deg(c):
    what, v = c["what"], c["v"]
    ck = Checker()
    if what in ("line_pair", "plane_pair"):
        n = 3 if what == "line_pair" else 4
        e, f_ = fr(v[:n]), fr(v[n : 2 * n])
        if X.rank([e, f_]) < 2:
            raise Skip("equal components")
        A, B = fr(c["A"][:n - 1] + [c["A"][-1]]), fr(c["B"][:n - 1] + [c["B"][-1]])
        if X.rank([A, B]) < 2:
            raise Skip("dependent")
        # expected: intersection points of the line AB with e and with f
        pts = []
        for h in (e, f_):
            ha, hb = X.dot(h, A), X.dot(h, B)
            if ha == 0 and hb == 0:
                raise Skip("line in a component")
            pts.append(np_f([hb * a - ha * b for a, b in zip(A, B)]))
        Q, f = call(what, (Conic.from_lines if n == 3 else Quadric.from_planes), (Line if n == 3 else Plane)(np_f(e)), (Line if n == 3 else Plane)(np_f(f_)))
        if f:
            return [f]
        L = line_obj(A, B, n)
        r, f = call(f"intersect:{what}", Q.intersect, L)
        if f:
            return [f]
        got = [p.array for p in r]
        same = C.peq_all(pts[0], pts[1])
        if same:
            ck.check(all(C.peq_all(g, pts[0], 1, 1e-6) for g in got), f"intersect:{what}:through-the-common-point", [g.tolist() for g in got])
        else:
            ck.check(len(got) == 2 and C.multiset_peq(got, pts, 1e-6), f"intersect:{what}:component-points", ([g.tolist() for g in got], [p.tolist() for p in pts]))
        return ck.result()
    if what == "mixed_conic_collection":
        # conics of the plane in one collection, some of them pairs of lines and some not (circle, ellipse, hyperbola): the
        # points at position k are the common points of conic k and the line
        e, f_ = np.array(v[:3], float), np.array(v[3:6], float)
        if np.linalg.matrix_rank(np.stack([e, f_])) < 2:
            raise Skip("equal components")
        ctr = np.array(v[6:8], float)
        rr = float(c["r"]) if c["r"] >= 0.25 else 1.0
        members = [("line_pair", lambda: Conic.from_lines(Line(e), Line(f_))), ("circle", lambda: Circle(Point(*ctr), rr)),
                   ("ellipse", lambda: Ellipse(Point(*ctr), rr, rr + 1)), ("hyperbola", lambda: Conic(np.diag([1.0, -2.0, float(v[8] or 1)])))]
        order = [[0, 1], [1, 0], [1, 2, 0], [0, 3, 1], [2, 0, 0, 3]][abs(v[9]) % 5]
        A, B = np.array(c["A"][:2] + [c["A"][-1]], float), np.array(c["B"][:2] + [c["B"][-1]], float)
        if np.linalg.matrix_rank(np.stack([A, B])) < 2:
            raise Skip("line undefined")
        lv = np.cross(A, B)
        if abs(lv @ e) < 1e-9 * 0 and False:
            pass
        if np.linalg.matrix_rank(np.stack([lv, e])) < 2 or np.linalg.matrix_rank(np.stack([lv, f_])) < 2:
            raise Skip("line is a component")
        L = Line(lv)
        built, singles = [], []
        for name, fn in members:
            q, f = call(name, fn)
            if f:
                raise Skip("constructor fails")
            r1, f = call("intersect:single", q.intersect, L)
            if f:
                raise Skip("single intersection fails (checked by the other configurations)")
            built.append(q)
            singles.append([np.asarray(x.array) for x in r1])
        Qc = QuadricCollection(np.stack([built[i].array for i in order]))
        res, f = call("intersect:mixed-conic-collection", Qc.intersect, L)
        if f:
            return [f]
        for pos, i in enumerate(order):
            got = [np.asarray(x.array)[pos] for x in res]
            M = built[i].array
            for g in got:
                if np.max(np.abs(g)) < 1e-9:
                    continue
                gn = g / np.max(np.abs(g))
                ck.check(abs(gn @ lv) < 1e-6 * max(1.0, np.max(np.abs(lv))), "intersect:mixed-conic-collection:point-on-the-line", (pos, members[i][0], gn.tolist()))
                ck.check(abs(gn @ M @ gn) < 1e-5 * max(1.0, np.max(np.abs(M))), "intersect:mixed-conic-collection:point-on-conic", (pos, members[i][0], complex(gn @ M @ gn)))
            want = singles[i]
            if len(want) == 1:
                want = want * 2
            if len(want) == len(got) == 2 and all(np.max(np.abs(w)) > 1e-9 for w in want):
                # a tangent line: contact point up to the square root of the rounding error
                tol = 1e-3 if C.peq_all(want[0], want[1], 1, 1e-3) else 1e-5
                ck.check(C.multiset_peq(got, want, tol), "intersect:mixed-conic-collection:same-as-single", (pos, members[i][0], [g.tolist() for g in got], [w.tolist() for w in want]))
        return ck.result()
    if what == "degenerate_collection":
        # a collection whose elements are all degenerate but of different kinds (plane pairs, a cone, a cylinder) and one line:
        # position k holds the common points of quadric k and the line (the reducible and the irreducible elements take different
        # routes inside the library)
        e, f_ = np.array(v[:4], float), np.array(v[4:8], float)
        if np.linalg.matrix_rank(np.stack([e, f_])) < 2:
            raise Skip("equal components")
        ctr = np.array(v[8:11], float)
        ax = np.array([1.0, 2.0, 2.0]) if v[11] % 2 else np.array([0.0, 0.0, 1.0])
        rr = float(c["r"]) if c["r"] >= 0.5 else 1.0
        order = [[0, 1, 2], [1, 0, 2], [2, 1, 0], [1, 2, 0, 0]][abs(v[11]) % 4]
        A, B = np.array(c["A"], float), np.array(c["B"], float)
        if A[-1] == 0 or B[-1] == 0 or np.linalg.matrix_rank(np.stack([A, B])) < 2:
            raise Skip("line at infinity or undefined")
        built = []
        for name, fn in (("plane_pair", lambda: Quadric.from_planes(Plane(e), Plane(f_))), ("cone", lambda: Cone(Point(*ctr), Point(*(ctr + ax)), rr)), ("cylinder", lambda: Cylinder(Point(*ctr), Point(*ax), rr))):
            q, f = call(name, fn)
            if f:
                raise Skip("constructor fails (subject of C13 / C15)")
            built.append(q)
        L = Line(Point(A), Point(B))
        singles = []
        for q in built:
            r1, f = call("intersect:single", q.intersect, L)
            if f:
                raise Skip("single intersection fails (checked by the other configurations)")
            singles.append([np.asarray(x.array) for x in r1])
        Qc = QuadricCollection(np.stack([built[i].array for i in order]))
        res, f = call("intersect:degenerate-collection", Qc.intersect, L)
        if f:
            return [f]
        dirn = A[:3] / A[3] - B[:3] / B[3]
        for pos, i in enumerate(order):
            got = [np.asarray(x.array)[pos] for x in res]
            want = singles[i]
            M = built[i].array
            for g in got:
                if np.max(np.abs(g)) < 1e-9:
                    continue  # no point (zero vector) at this position
                gn = g / np.max(np.abs(g))
                on_line = np.linalg.matrix_rank(np.stack([A / np.max(np.abs(A)), B / np.max(np.abs(B)), gn]), tol=1e-6) < 3
                ck.check(on_line, "intersect:degenerate-collection:point-on-the-line", (pos, gn.tolist()))
                ck.check(abs(gn @ M @ gn) < 1e-5 * max(1.0, np.max(np.abs(M))), "intersect:degenerate-collection:point-on-quadric", (pos, ["plane_pair", "cone", "cylinder"][i], complex(gn @ M @ gn)))
            if len(want) == len(got) == 2 and all(np.max(np.abs(w)) > 1e-9 for w in want):
                ck.check(C.multiset_peq(got, want, 1e-4), "intersect:degenerate-collection:same-as-single", (pos, ["plane_pair", "cone", "cylinder"][i], [g.tolist() for g in got], [w.tolist() for w in want]))
        return ck.result()
    ctr = np.array(v[:3], float)
    r = c["r"]
    if what in ("circle", "sphere"):
        d = 2 if what == "circle" else 3
        # centres up to 40 units from the origin: the entries of the matrix then span three orders of magnitude (1 ... |c|^2)
        ctr = ctr * float(c.get("far", 1))
        Q = Circle(Point(*ctr[:2]), r) if d == 2 else Sphere(Point(*ctr), r)
        u1, u2 = UNIT[c["k"]], UNIT[c["k2"]]
        if c["k"] == c["k2"]:
            raise Skip("same point")
        if d == 2:
            p1 = ctr[:2] + r * np.array([u1[0], u1[1]]) / u1[2]
            p2 = ctr[:2] + r * np.array([u2[0], u2[1]]) / u2[2]
        else:
            p1 = ctr + r * np.array([u1[0], u1[1], 0]) / u1[2]
            p2 = ctr + r * np.array([0, u2[0], u2[1]]) / u2[2]
        if np.allclose(p1, p2):
            raise Skip("same point")
        L = Line(Point(*p1), Point(*p2))
        res, f = call(f"intersect:{what}:secant", Q.intersect, L)
        if f:
            return [f]
        ck.check(len(res) == 2 and C.multiset_peq([x.array for x in res], [np.append(p1, 1), np.append(p2, 1)], 1e-6), f"intersect:{what}:secant-through-known-points", [x.array.tolist() for x in res])
        # tangent line at p1
        if d == 2:
            tdir = np.array([-(p1 - ctr[:2])[1], (p1 - ctr[:2])[0]])
        else:
            tdir = np.cross(p1 - ctr, np.array([0.3, -0.2, 1.0]))
        Lt = Line(Point(*p1), Point(*(p1 + tdir)))
        res, f = call(f"intersect:{what}:tangent", Q.intersect, Lt)
        if f:
            ck.add(f)
        else:
            # numerically tangent (float data): contact point up to sqrt(eps) splitting
            ck.check(1 <= len(res) <= 2 and all(C.peq_all(x.array, np.append(p1, 1), 1, 1e-4) for x in res), f"intersect:{what}:tangent-contact-point", [x.array.tolist() for x in res])
        return ck.result()
    ax = np.array(v[3:6], float)
    if not np.any(ax):
        raise Skip("zero axis")
    if what == "cone":
        Q = Cone(Point(*ctr), Point(*(ctr + ax)), r)
    else:
        Q = Cylinder(Point(*ctr), Point(*ax), r)
    a = ax / np.linalg.norm(ax)
    helper = np.array([1.0, 0.0, 0.0]) if abs(a[0]) < 0.9 else np.array([0.0, 1.0, 0.0])
    u = np.cross(a, helper)
    u /= np.linalg.norm(u)
    w = np.cross(a, u)
    u1, u2 = UNIT[c["k"]], UNIT[c["k2"]]
    if c["k"] == c["k2"]:
        raise Skip("same point")
    t1, t2 = 1.0, float(c["t"])
    rad1 = (u1[0] * u + u1[1] * w) / u1[2]
    rad2 = (u2[0] * u + u2[1] * w) / u2[2]
    if what == "cone":
        p1 = ctr + t1 * ax + r * t1 * rad1
        p2 = ctr + t2 * ax + r * t2 * rad2
    else:
        p1 = ctr + t1 * ax + r * rad1
        p2 = ctr + t2 * ax + r * rad2
    if np.allclose(p1, p2):
        raise Skip("same point")
    if np.linalg.matrix_rank(np.stack([rad1, rad2]), tol=1e-9) < 2 and what == "cylinder":
        raise Skip("generator")
    if what == "cone" and np.allclose(np.cross(p1 - ctr, p2 - ctr), 0, atol=1e-9):
        raise Skip("generator")
    L = Line(Point(*p1), Point(*p2))
    res, f = call(f"intersect:{what}:secant", Q.intersect, L)
    if f:
        return [f]
    ck.check(len(res) == 2 and C.multiset_peq([x.array for x in res], [np.append(p1, 1), np.append(p2, 1)], 1e-6), f"intersect:{what}:secant-through-known-points", ([x.array.tolist() for x in res], p1.tolist(), p2.tolist()))
    return ck.result()


# ------------------------------------------------------------------------------------------- complex arguments of contains / is_tangent
COMPLEX_FACTORS = [[1, 1], [0, 1], [1, -1], [2, 1], [-1, 2]]


@st.composite
def cplx_case(draw, tier="quick"):
    d = draw(st.sampled_from([2, 2, 3]))
    return {"d": d, "sig": draw(st.sampled_from(SIGS[d][:1] + SIGS[d][2:] if d == 2 else SIGS[d][:2])), "n": draw(Z.params(9)), "i": draw(st.integers(0, 5)), "p": draw(C.hpoint(d, 5)),
            "f": draw(st.integers(0, len(COMPLEX_FACTORS) - 1)), "what": draw(st.sampled_from(["off_point_times_factor", "on_point_times_factor", "circular_points", "hyperplane_times_factor"])),
            "abc": [draw(st.integers(-4, 4)) for _ in range(5)]}


def run_cplx(c):
    """contains / is_tangent for complex arguments: x^T S x is a complex number and must vanish, not only its real part.  A real point off the
    quadric given by the representative (1 + i) x has a purely imaginary quadratic form; the circular points I, J lie on circles only - for a conic
    with equal x^2 and y^2 coefficients and an xy term their quadratic form is -+2i times that term"""
    d, what = c["d"], c["what"]
    n = d + 1
    fr_, fi_ = COMPLEX_FACTORS[c["f"] % len(COMPLEX_FACTORS)]
    fac = complex(fr_, fi_)
    ck = Checker()
    if what == "circular_points":
        a, b, cc, dd, e = [float(x) for x in c["abc"]]
        if b == 0 or a == 0:
            raise Skip("a circle or degenerate")
        A = np.array([[a, b, cc], [b, a, dd], [cc, dd, e]])
        if abs(np.linalg.det(A)) < 0.5:
            raise Skip("degenerate")
        Q = Conic(A)
        for name, pt in (("I", np.array([-1j, 1, 0])), ("J", np.array([1j, 1, 0]))):
            for k in (1.0, fac):
                r, f = call(f"contains:circular-point-{name}:conic-with-xy-term", Q.contains, Point(pt * k))
                if f:
                    ck.add(f)
                else:
                    ck.check(not bool(r), f"contains:circular-point-{name}-is-not-on-a-conic-with-an-xy-term", (A.tolist(), complex(k)))
        return ck.result()
    S, adjN = quadric_matrix(c["n"], c["sig"], n)
    Sn = pow2_normalise(np.array([[float(v) for v in r] for r in S]))
    Q = (Conic if d == 2 else Quadric)(Sn)
    if what == "hyperplane_times_factor":
        h = fr(c["p"])
        Sinv_form = qform([[float(x) for x in r] for r in np.linalg.inv(np.array([[float(v) for v in r] for r in S]))], [float(x) for x in h], [float(x) for x in h])
        if abs(Sinv_form) < 1e-6:
            raise Skip("tangent hyperplane")
        hv = np_f(h)
        H = (Line if d == 2 else Plane)(hv * fac)
        r, f = call("is_tangent:non-tangent-hyperplane-times-complex-factor", Q.is_tangent, H)
        if f:
            return [f]
        ck.check(not bool(r), "is_tangent:non-tangent-hyperplane-times-complex-factor", (hv.tolist(), fac))
        return ck.result()
    if what == "on_point_times_factor":
        if tuple(c["sig"]) not in PTS:
            raise Skip("no real points")
        y = fr(PTS[tuple(c["sig"])][c["i"] % 6])
        x = primitive([sum(adjN[i][j] * y[j] for j in range(n)) for i in range(n)])
        xv = np_f(x) / float(max(abs(v) for v in x))
        want = True
    else:
        x = fr(c["p"])
        if qform(S, x, x) == 0:
            raise Skip("point on the quadric")
        xv = np_f(x)
        want = False
    r, f = call(f"contains:{what}", Q.contains, Point(xv * fac))
    if f:
        return [f]
    ck.check(bool(r) == want, f"contains:{what}:expected-{want}", (xv.tolist(), fac))
    return ck.result()


# ------------------------------------------------------------------------------------------- small circles / spheres away from the origin
UNIT3 = [(3, 4, 0, 5), (0, 3, 4, 5), (4, 0, 3, 5), (1, 2, 2, 3), (2, 3, 6, 7), (-2, 6, 3, 7), (1, 0, 0, 1), (0, 0, 1, 1), (2, -1, 2, 3), (0, -1, 0, 1), (-6, 2, 3, 7)]
UNIT2 = [(3, 4, 5), (4, -3, 5), (1, 0, 1), (0, 1, 1), (5, 12, 13), (-12, 5, 13), (8, 15, 17), (-4, -3, 5), (7, 24, 25)]


@st.composite
def small_case(draw, tier="quick"):
    d = draw(st.sampled_from([2, 2, 3]))
    return {"d": d, "c": [draw(st.integers(-300, 300)) for _ in range(d)], "r": draw(st.sampled_from([0.0625, 0.125, 0.25, 0.5, 1.0])), "u": draw(st.integers(0, 20)), "t": draw(st.sampled_from([0, 0.25, 0.5, -0.5, -0.75])),
            "coll": draw(st.sampled_from([0, 0, 3])), "seg": draw(st.booleans())}


def run_small(c):
    """a circle / sphere of radius 1/16 ... 1 whose centre has coordinates up to 100, cut by a line at the distance t r from the centre (rational
    unit direction): the chord is a few 1e-4 of the distance from the origin, and still the line is a secant - two distinct points at
    the distance r from the centre, r sqrt(1 - t^2) to either side of the foot of the perpendicular"""
    from geometer import Circle, Sphere

    d, r, t = c["d"], float(c["r"]), float(c["t"])
    if d not in (2, 3) or len(c["c"]) != d or r not in (0.0625, 0.125, 0.25, 0.5, 1.0) or t not in (0, 0.25, 0.5, -0.5, -0.75) or any(abs(x) > 300 for x in c["c"]):
        raise Skip("malformed")
    # centre coordinates up to 100 (60 for the smallest radius): beyond that the unchanged library itself starts to take such secants for
    # tangents now and then (first seen for Circle(Point(-202, -268), 1/16) and the diameter with direction (3, 4)/5; rate 1e-4 ... 1e-3 for
    # coordinates up to 300) - its tolerances are absolute, the explored domain stays a factor 2 away from there
    lim = 60 if r == 0.0625 else 100
    ctr = np.array([int(x * lim / 300) for x in c["c"]], float)
    if d == 2:
        u = UNIT2[c["u"] % len(UNIT2)]
        dv = np.array(u[:2], float) / u[2]
        w = np.array([-dv[1], dv[0]])
        Q = Circle(Point(*ctr), r)
    else:
        u = UNIT3[c["u"] % len(UNIT3)]
        dv = np.array(u[:3], float) / u[3]
        w = np.cross(dv, [1.0, 0, 0]) if abs(dv[0]) < 0.9 else np.cross(dv, [0, 1.0, 0])
        w /= np.linalg.norm(w)
        Q = Sphere(Point(*ctr), r)
    foot = ctr + w * t * r
    half = r * math.sqrt(1 - t * t)
    want = [foot + dv * half, foot - dv * half]
    n = c["coll"]
    if n:
        shifts = [0.0, 2.0, -3.0][:n]
        L = (G.LineCollection if d == 2 else G.LineCollection)([Line(Point(*(foot + dv * s)), Point(*(foot + dv * (s + 1)))) for s in shifts])
    else:
        L = Line(Point(*foot), Point(*(foot + dv)))
    site = f"small:{'circle' if d == 2 else 'sphere'}:r={r}" + (":line-collection" if n else "")
    pts, f = call(site, Q.intersect, L)
    if f:
        return [f]
    ck = Checker()
    if not ck.check(len(pts) == 2, site + ":two-points", len(pts)):
        return ck.result()
    for k in range(max(1, n)):
        got = []
        for pnt in pts:
            a = np.asarray(pnt.array)
            a = a[k] if n else a
            if abs(a[-1]) > 1e-12 * np.max(np.abs(a)):
                got.append(np.real(a[:-1] / a[-1]))
        ok = len(got) == 2 and all(min(np.linalg.norm(g - e) for g in got) < 1e-3 * r for e in want)
        if not ck.check(ok, site + ":secant-points", ([g.tolist() for g in got], [e.tolist() for e in want])):
            break
    return ck.result()


LAWS = [
    Law("intersect_line", lambda tier: isect_case(tier), run_isect, isect_nontrivial, lambda c: [f"d{c['d']}", c["ltype"], "sig" + "".join("+" if x > 0 else "-" for x in c["sig"])] + ([c["coll"]] if c["coll"] else []) + (["collection-with-axis-parallel-line"] if c["coll"] == "lines" and c.get("other", "").startswith("axis") else []),
        {"quick": 2500, "thorough": 50000}, "quadric.intersect(line) = roots of the exact restriction; every point on both; secant/tangent/complex/origin/infinity", shard=300,
        mandatory=("tangent", "secant", "lines", "quadrics", "collection-with-axis-parallel-line")),
    Law("complex_arguments", lambda tier: cplx_case(tier), run_cplx, lambda c: True, lambda c: [c["what"], f"d{c['d']}"], {"quick": 1500, "thorough": 20000},
        "contains / is_tangent with complex arguments: real points off / on the quadric and non-tangent hyperplanes given by representatives with a complex factor (1+i, i, 1-i, 2+i), the circular points against conics with an xy term", shard=300,
        mandatory=("off_point_times_factor", "circular_points", "hyperplane_times_factor")),
    Law("small_round_quadrics_off_centre", lambda tier: small_case(tier), run_small, lambda c: max(abs(x) for x in c["c"]) >= 90, lambda c: [f"d{c['d']}", f"r={c['r']}", "coll" if c["coll"] else "single"] + (["chord<3e-3-of-the-distance"] if 2 * c["r"] < 3e-3 * math.hypot(*c["c"]) * (60 if c["r"] == 0.0625 else 100) / 300 else []),
        {"quick": 1500, "thorough": 25000}, "circles / spheres of radius 1/16 ... 1 with centre coordinates up to 100, cut by a line at distance t r from the centre: two distinct points, r sqrt(1 - t^2) to either side of the foot", shard=300,
        mandatory=("chord<3e-3-of-the-distance",)),
    Law("tangent_polar_dual", lambda tier: tpd_case(tier), run_tpd, lambda c: True, lambda c: [c["what"]] + ([c["cls"]] if c["what"] in ("dual_class", "is_tangent_class") else []) + (["polar-of-the-centre"] if c["what"] == "polar" and c.get("centre") else []),
        {"quick": 2500, "thorough": 40000}, "tangent(at), tangents from outside, pole/polar reciprocity, dual involution for every class, is_tangent", shard=300),
    Law("special_quadrics", lambda tier: deg_case(tier), run_deg, lambda c: True, lambda c: [c["what"]] + (["centre-far-from-origin"] if c["what"] in ("circle", "sphere") and c.get("far", 1) > 1 else []), {"quick": 1200, "thorough": 20000},
        "line pairs / plane pairs / cones / cylinders / circles / spheres intersected with secants through known points and tangents", shard=200),
]


# ------------------------------------------------------------------------------------------- equivalent ways of asking
from .. import forms as _forms  # noqa: E402

LAWS.append(
    Law("call_forms", lambda tier: _forms.call_forms_strategy("C14")(tier), _forms.run_call_forms("C14"), lambda c: True, lambda c: [c["entry"], f"d{c['d']}"], {"quick": 500, "thorough": 6000},
        "the same question asked in several ways (positional / keyword arguments, method / function / operator form, symmetric argument orders) on the objects of the shared pool: same answer", shard=250)
)
