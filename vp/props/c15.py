"""C15 Degenerate quadrics split into their components; conics meet in 4 common points."""
from __future__ import annotations

import cmath
import math
from fractions import Fraction
from itertools import product

import numpy as np
from hypothesis import strategies as st

import geometer as G
from geometer import Circle, Cone, Conic, Line, LineCollection, Plane, PlaneCollection, Point, Quadric, QuadricCollection
from geometer.exceptions import NotReducible

from .. import common as C
from .. import exact as X
from .. import zoo as Z
from ..runner import Batch, Checker, Fail, Law, Skip, call, exc_fail, mismatch
from .c01 import pow2_normalise
from .c14 import PTS, fr, np_f, primitive, qform, quadric_matrix

RULE = (
    "(a) every ordered pair of non-zero, non-proportional vectors of {-1,0,1}^3 as a pair of lines (exhaustive) and a stride "
    "sample of {-2..2}^4 plane pairs; Hypothesis-generated pairs with |c|<=9, all sign patterns, zeros, parallel members, one "
    "member at infinity, scrambled representatives, collections; (b) non-degenerate quadrics of every signature and rank-3 cones; "
    "(c) conic pairs A, B = -rA + (l m^T + m l^T) where l, m are secants through exact rational points of A or tangents (so the "
    "common points are known exactly, with double / 4-fold contact), circle pairs (common points I, J). "
    "Non-trivial = the pair has a negative product of corresponding coordinates, or the pencil has a repeated root."
)
ASSUMPTIONS = [
    "components compared as multisets under projective equality over C (order is documented as unspecified), tol 1e-6",
    "conic intersection: each returned point must satisfy both conics to 1e-5 relative to the normalised matrices; every exactly "
    "known common point must be among the returned ones (tol 1e-4: repeated roots are ill-conditioned)",
]


# ------------------------------------------------------------------------------------------- (a) components
def check_components(ck, Q, pair, site, naxes_coll=False, degenerate_flag=True):
    dg, f = call(site + ":is_degenerate", lambda: Q.is_degenerate) if degenerate_flag else (None, None)
    if not degenerate_flag:
        pass  # matrices of magnitude 1e6: the determinant test of is_degenerate is an absolute 1e-8 (outside its range)
    elif f:
        ck.add(f)
    else:
        ck.check(np.all(dg), site + ":is_degenerate", np.asarray(dg).tolist())
    comp, f = call(site + ":components", lambda: Q.components)
    if f:
        ck.add(f)
        return
    if not ck.check(len(comp) == 2, site + ":two-components", len(comp)):
        return
    got = [np.asarray(x.array) for x in comp]
    if naxes_coll:
        for k in range(len(pair[0])):
            ck.check(C.multiset_peq([g[k] for g in got], [p[k] for p in pair], 1e-6), site + ":pair", ([g[k].tolist() for g in got], [p[k].tolist() for p in pair]))
    else:
        ck.check(C.multiset_peq(got, pair, 1e-6), site + ":pair", ([g.tolist() for g in got], [p.tolist() for p in pair]))
    want = G.point.LineTensor if len(pair[0].shape) == 1 and pair[0].shape[-1] == 3 or (naxes_coll and pair[0].shape[-1] == 3) else G.point.PlaneTensor
    ck.check(all(isinstance(x, want) for x in comp), site + ":component-class", [type(x).__name__ for x in comp])


def lattice_pairs(tier, seed):
    vs = [v for v in product([-1, 0, 1], repeat=3) if any(v)]
    for a in vs:
        for b in vs:
            if X.rank([fr(a), fr(b)]) == 2:
                yield {"g": list(a), "h": list(b)}


def plane_lattice_pairs(tier, seed):
    vs = [v for v in product([-2, -1, 0, 1, 2], repeat=4) if any(v)]
    n = len(vs)
    stride = 389 if tier == "quick" else 41
    for t in range(seed % stride, n * n, stride):
        a, b = vs[t // n], vs[t % n]
        if X.rank([fr(a), fr(b)]) == 2:
            yield {"g": list(a), "h": list(b)}


def run_pair(c):
    g, h = np.array(c["g"], float), np.array(c["h"], float)
    if c.get("im"):
        # complex lines / planes (Gaussian-integer coordinates): the matrix of the pair is complex symmetric, not Hermitian
        ig, ih = c["im"]
        if len(ig) != len(g) or len(ih) != len(h):
            raise Skip("malformed")
        g, h = g + 1j * np.array(ig, float), h + 1j * np.array(ih, float)
        if np.linalg.matrix_rank(np.stack([g, h])) < 2 or not np.any(g) or not np.any(h):
            raise Skip("proportional")
    elif X.rank([fr(c["g"]), fr(c["h"])]) < 2:
        raise Skip("proportional")
    sg = C.scale_value(c["sg"]) if "sg" in c else 1.0
    sh = C.scale_value(c["sh"]) if "sh" in c else 1.0
    ck = Checker()
    n = len(g)
    if n == 3:
        Q, f = call("from_lines", Conic.from_lines, Line(g * sg), Line(h * sh))
        site = "lines"
    else:
        Q, f = call("from_planes", Quadric.from_planes, Plane(g * sg), Plane(h * sh))
        site = "planes"
    if f:
        return [f]
    check_components(ck, Q, [g, h], site)
    return ck.result()


def pair_nontrivial(c):
    return any(a * b < 0 for a, b in zip(c["g"], c["h"]))


@st.composite
def gen_pair(draw, tier="quick"):
    n = draw(st.sampled_from([3, 4]))
    kind = draw(st.sampled_from(["generic", "generic", "parallel", "infinity", "zeros"]))
    g = draw(C.ivec(n, 9))
    h = draw(C.ivec(n, 9))
    if kind == "parallel":
        h = g[:-1] + [h[-1]]
    elif kind == "infinity":
        h = [0] * (n - 1) + [1]
    elif kind == "zeros":
        k = draw(st.integers(0, n - 1))
        g = [0 if i == k else x for i, x in enumerate(g)]
        h = [0 if i == (k + 1) % n else x for i, x in enumerate(h)]
    im = [[draw(C.ints(4)) for _ in range(n)], [draw(C.ints(4)) for _ in range(n)]] if draw(st.integers(0, 3)) == 0 else None
    return {"g": g, "h": h, "sg": draw(C.scale()), "sh": draw(C.scale()), "kind": kind, "coll": draw(st.sampled_from([0, 0, 2, 3, 64, 70, 5])) if im is None else 0, "im": im}


def run_gen_pair(c):
    if not any(c["g"]) or not any(c["h"]) or X.rank([fr(c["g"]), fr(c["h"])]) < 2:
        raise Skip("proportional or zero")
    if not c["coll"]:
        return run_pair(c)
    n = len(c["g"])
    k = c["coll"]
    gs = [np.array(c["g"], float) * (1 + i % 3) for i in range(k)]
    hs = [np.roll(np.array(c["h"], float), 0) * (1 if i % 2 == 0 else -2) for i in range(k)]
    # vary the second member per position by adding multiples of g (keeps the pair non-proportional); collections of 64 and 70
    # pairs cross the batch size at which the linear-algebra kernels switch their algorithm
    hs = [h + (i % 5) * g for i, (g, h) in enumerate(zip(gs, hs))]
    ck = Checker()
    if k == 5:
        # five raw matrices g h^T + h g^T whose magnitudes differ by factors up to 1e6 (every non-zero multiple is a representative
        # of the same pair): the components at every position are those of the single quadric
        mags = [1.0, 1e6, 1e3, 1e-2, 4e5]
        try:
            Q = QuadricCollection(np.stack([(np.outer(g, h) + np.outer(h, g)) * m for g, h, m in zip(gs, hs, mags)]))
        except Exception as e:  # noqa: BLE001
            return [exc_fail(e, "collection-of-pairs")]
        check_components(ck, Q, [np.array(gs), np.array(hs)], ("lines" if n == 3 else "planes") + ":coll:magnitudes-1e-2..1e6", naxes_coll=True, degenerate_flag=False)
        return ck.result()
    try:
        if k >= 64:
            # for 64 or more matrices the determinant is evaluated by the explicit cofactor formula, whose rounding error reaches
            # the absolute tolerance 1e-8 for the entries of several hundred that from_lines' normalisation produces for nearly
            # proportional lines: large collections are built from the matrices g h^T + h g^T scaled to modulus < 1
            Q = QuadricCollection(np.stack([pow2_normalise(np.outer(g, h) + np.outer(h, g)) for g, h in zip(gs, hs)]))
        elif n == 3:
            Q = QuadricCollection([Conic.from_lines(Line(g), Line(h)) for g, h in zip(gs, hs)])
        else:
            Q = QuadricCollection([Quadric.from_planes(Plane(g), Plane(h)) for g, h in zip(gs, hs)])
    except Exception as e:  # noqa: BLE001
        return [exc_fail(e, "collection-of-pairs")]
    check_components(ck, Q, [np.array(gs), np.array(hs)], ("lines" if n == 3 else "planes") + ":coll", naxes_coll=True)
    return ck.result()


# ------------------------------------------------------------------------------------------- (b) non-degenerate / irreducible
@st.composite
def nondeg_case(draw, tier="quick"):
    d = draw(st.sampled_from([2, 3]))
    what = draw(st.sampled_from(["nondegenerate", "nondegenerate", "cone3"] if d == 3 else ["nondegenerate"]))
    sig = draw(st.sampled_from({2: [[1, 1, -1], [1, 1, 1], [1, -1, -1]], 3: [[1, 1, 1, -1], [1, 1, -1, -1], [1, 1, 1, 1]]}[d]))
    if what == "cone3":
        sig = draw(st.sampled_from([[1, 1, -1, 0], [1, 1, 1, 0], [1, -1, 0, -1]]))
    return {"d": d, "what": what, "sig": sig, "n": draw(Z.params(9)), "s": draw(C.scale())}


def run_nondeg(c):
    d = c["d"]
    n = d + 1
    S, _ = quadric_matrix(c["n"], c["sig"], n)
    Sa = pow2_normalise(np.array([[float(v) for v in r] for r in S])) * C.scale_value(c["s"])
    if c["what"] != "cone3" and abs(np.linalg.det(Sa)) < 1e-6:
        raise Skip("determinant within two orders of magnitude of the library's absolute tolerance 1e-8")
    Q = Quadric(Sa)
    ck = Checker()
    dg, f = call("is_degenerate", lambda: Q.is_degenerate)
    if f:
        return [f]
    if c["what"] == "cone3":
        ck.check(bool(dg), "cone3:is_degenerate", bool(dg))
        try:
            comp = Q.components
            ck.add(Fail("NO_RAISE", "cone3:components-of-irreducible-quadric", [x.array.tolist() for x in comp]))
        except NotReducible:
            pass
        except Exception as e:  # noqa: BLE001
            ck.add(exc_fail(e, "cone3:components"))
    else:
        ck.check(not bool(dg), f"nondegenerate{d}:is_degenerate", (bool(dg), c["sig"]))
        if d == 3:
            try:
                comp = Q.components
                ck.add(Fail("NO_RAISE", "nondegenerate3:components", [x.array.tolist() for x in comp]))
            except NotReducible:
                pass
            except Exception as e:  # noqa: BLE001
                ck.add(exc_fail(e, "nondegenerate3:components"))
    if d == 3:
        # the same irreducible quadric next to a plane pair in one collection (either order): still not reducible
        g, h = np.array(c["n"][:4], float), np.array(c["n"][4:8], float)
        if np.linalg.matrix_rank(np.stack([g, h])) == 2:
            pair = pow2_normalise(np.outer(g, h) + np.outer(h, g))
            for order, mats in (("pair-first", [pair, Sa]), ("pair-last", [Sa, pair])):
                try:
                    comp = G.QuadricCollection(np.stack(mats)).components
                    ck.add(Fail("NO_RAISE", f"mixed-collection:{c['what']}:{order}:components", [np.asarray(x.array).tolist() for x in comp]))
                except NotReducible:
                    pass
                except Exception as e:  # noqa: BLE001
                    ck.add(exc_fail(e, f"mixed-collection:{order}:components"))
    return ck.result()


# ------------------------------------------------------------------------------------------- (c) conic x conic
@st.composite
def cc_case(draw, tier="quick"):
    what = draw(st.sampled_from(["secant_secant", "secant_secant", "tangent_secant", "tangent_tangent", "fourfold", "fourfold_exact", "circles", "with_degenerate"]))
    idx = list(draw(st.permutations(range(6)))[:4])
    return {"what": what, "n": draw(Z.params(9)), "idx": idx, "r": [draw(st.integers(-3, 3)), draw(st.sampled_from([1, 2, 3]))], "s": [draw(C.scale()), draw(C.scale())],
            "c": [draw(C.ints(5)) for _ in range(6)], "swap": draw(st.booleans()), "n3": draw(st.one_of(st.none(), Z.params(9))), "third": draw(st.integers(0, 2))}


def on_conic(M, p):
    Mn = M / np.max(np.abs(M))
    pn = C.pnorm(p)
    return abs(pn @ Mn @ pn)


def run_cc(c):
    what = c["what"]
    ck = Checker()
    if what == "circles":
        x1, y1, x2, y2 = c["c"][:4]
        r1, r2 = abs(c["c"][4]) + 1, abs(c["c"][5]) + 2
        if (x1, y1) == (x2, y2):
            raise Skip("concentric")
        A, B = Circle(Point(x1, y1), r1), Circle(Point(x2, y2), r2)
        known = [np.array([-1j, 1, 0]), np.array([1j, 1, 0])]
        # radical axis: 2(x2-x1) x + 2(y2-y1) y = r1^2 - r2^2 + x2^2 + y2^2 - x1^2 - y1^2
        a, b = 2.0 * (x2 - x1), 2.0 * (y2 - y1)
        cc_ = r1**2 - r2**2 + x2**2 + y2**2 - x1**2 - y1**2
        n2 = a * a + b * b
        p0 = np.array([x1, y1], float) + (cc_ - a * x1 - b * y1) / n2 * np.array([a, b])  # foot of the first centre on the radical axis
        dvec = np.array([-b, a]) / math.sqrt(n2)
        h2 = r1**2 - np.sum((p0 - [x1, y1]) ** 2)
        if abs(h2) < 1e-6:
            raise Skip("numerically tangent circles")
        hh = cmath.sqrt(h2)
        known += [np.append(p0 + hh * dvec, 1), np.append(p0 - hh * dvec, 1)]
        MA, MB = A.array, B.array
        repeated = False
    elif what == "fourfold_exact":
        # small integers only, no rescaling: every determinant of the pencil is computed exactly, so the cubic resolvent
        # has an exact triple root (the branch of roots() that needs f == g == h == 0 exactly)
        perm = [[0, 1, 2], [1, 0, 2], [2, 1, 0]][c["idx"][0] % 3]
        sgn = [1, 1, -1]
        S = [[Fraction(sgn[i] if perm[i] == j else 0) for j in range(3)] for i in range(3)]
        S = [[S[i][j] if i == j else Fraction(0) for j in range(3)] for i in range(3)]
        y = [(3, 4, 5), (4, 3, 5), (0, 1, 1), (1, 0, 1), (-3, 4, 5), (5, 12, 13)][c["idx"][1] % 6]
        x0 = [Fraction(t) for t in y]
        l = [S[i][i] * x0[i] for i in range(3)]
        r = Fraction(c["r"][1] if c["r"][0] >= 0 else -c["r"][1])
        Bm = [[-r * S[i][j] + l[i] * l[j] for j in range(3)] for i in range(3)]
        if X.det(Bm) == 0:
            raise Skip("degenerate")
        MA = np.array([[float(t) for t in row] for row in S])
        MB = np.array([[float(t) for t in row] for row in Bm])
        A, B = Conic(MA), Conic(MB)
        known = [np_f(x0)]
        repeated = True
        what = "fourfold"
    else:
        sig = [1, 1, -1]
        S, adjN = quadric_matrix(c["n"], sig, 3)
        ys = [fr(PTS[(1, 1, -1)][i]) for i in c["idx"]]
        xs = [fr(primitive([sum(adjN[i][j] * y[j] for j in range(3)) for i in range(3)])) for y in ys]
        if X.rank(xs[:2]) < 2 or X.rank(xs[2:]) < 2 or any(X.rank([xs[i], xs[j]]) < 2 for i in range(4) for j in range(i)):
            raise Skip("coincident points")

        def secant(p, q):
            return [p[1] * q[2] - p[2] * q[1], p[2] * q[0] - p[0] * q[2], p[0] * q[1] - p[1] * q[0]]

        def tangent(p):
            return [sum(S[i][j] * p[j] for j in range(3)) for i in range(3)]

        if what in ("secant_secant", "with_degenerate"):
            l, m = secant(xs[0], xs[1]), secant(xs[2], xs[3])
            known_ex = xs[:4]
        elif what == "tangent_secant":
            l, m = tangent(xs[0]), secant(xs[2], xs[3])
            known_ex = [xs[0], xs[2], xs[3]]
        elif what == "tangent_tangent":
            l, m = tangent(xs[0]), tangent(xs[1])
            known_ex = [xs[0], xs[1]]
        else:
            l = m = tangent(xs[0])
            known_ex = [xs[0]]
        l, m = fr(primitive(l)), fr(primitive(m))
        r = Fraction(c["r"][0], c["r"][1]) if what != "with_degenerate" else Fraction(0)
        if what != "with_degenerate" and r == 0:
            r = Fraction(1)
        # balance the two parts of B so that it is a well-conditioned conic (the library decides degeneracy with an absolute
        # tolerance on the determinant, a conic dominated by the line pair is numerically degenerate for it)
        K = max(1, int(max(abs(x) for x in l) * max(abs(x) for x in m) / max(abs(x) for row in S for x in row)))
        r = r * K
        Bm = [[-r * S[i][j] + l[i] * m[j] + m[i] * l[j] for j in range(3)] for i in range(3)]
        MA = pow2_normalise(np.array([[float(v) for v in row] for row in S])) * C.scale_value(c["s"][0])
        MB = pow2_normalise(np.array([[float(v) for v in row] for row in Bm])) * C.scale_value(c["s"][1])
        if X.det(Bm) == 0 and what != "with_degenerate" and r != 0:
            raise Skip("second conic accidentally degenerate")
        for M in (MA, MB) if what != "with_degenerate" else (MA,):
            Mn = M / np.max(np.abs(M))
            if abs(np.linalg.det(Mn)) < 1e-3:
                raise Skip("ill-conditioned conic (relative determinant below 1e-3)")
        A, B = Conic(MA), Conic(MB)
        known = [np_f(p) for p in known_ex]
        repeated = what in ("tangent_secant", "tangent_tangent", "fourfold")
    if what == "with_degenerate" and c.get("third") in (1, 2):
        # entries that are not exactly representable: the determinant of the line pair is a rounding residue, not 0.0
        MB = MB * ([1.0, 1.0 / 3.0, 0.3][c["third"]])
        B = Conic(MB)
    if c["swap"]:
        A, B, MA, MB = B, A, MB, MA
    site = f"conic-conic:{c['what']}"
    r, f = call(site, A.intersect, B)
    if f:
        return [f]
    if not ck.check(isinstance(r, list) and len(r) <= 4, site + ":at-most-four", len(r) if isinstance(r, list) else type(r)):
        return ck.result()
    got = [np.asarray(p.array) for p in r]
    tol_on = TOL_ON[repeated]
    for g in got:
        ck.check(on_conic(MA, g) < tol_on and on_conic(MB, g) < tol_on, site + ":point-on-both", (g.tolist(), on_conic(MA, g), on_conic(MB, g)))
    tol = TOL_KNOWN.get(what, TOL_KNOWN[False])
    for k in known:
        ck.check(any(C.peq_all(g, k, 1, tol) for g in got), site + ":common-point-missing", (k.tolist(), [g.tolist() for g in got]))
    if c.get("n3") is not None and what != "with_degenerate":
        # the same two conic objects are used again, each with a third, unrelated conic: the answers must be the common points
        # of the conics as they were constructed
        S3, _ = quadric_matrix(c["n3"], [1, 1, -1], 3)
        M3 = pow2_normalise(np.array([[float(v) for v in row] for row in S3]))
        # the third conic must not belong to the pencil of the first two (otherwise there are infinitely many or the same common points)
        indep = np.linalg.matrix_rank(np.stack([(M / np.max(np.abs(M))).ravel() for M in (MA, MB, M3)]), tol=1e-6) == 3
        if indep and abs(np.linalg.det(M3 / np.max(np.abs(M3)))) >= 1e-3:
            C3 = Conic(M3)
            for name, obj, M, first in (("second-operand", B, MB, False), ("first-operand", A, MA, True)):
                r3, f = call(site + ":reuse-" + name, (obj.intersect if first else C3.intersect), (C3 if first else obj))
                if f:
                    ck.add(f)
                    continue
                for p in r3:
                    g = np.asarray(p.array)
                    if not ck.check(on_conic(M, g) < 1e-4 and on_conic(M3, g) < 1e-4, site + ":reuse-" + name + ":point-on-both-as-constructed", (g.tolist(), on_conic(M, g), on_conic(M3, g))):
                        break
    if STATS is not None:
        kn = C.pnorm(np.array(known))
        gn = [C.pnorm(g) for g in got]
        dk = max(min(float(np.max(np.abs(C.pnorm(g * (k[np.argmax(np.abs(k))] and 1)) / C.pnorm(g)[np.argmax(np.abs(k))] * 1 - k / k[np.argmax(np.abs(k))]))) if abs(g[np.argmax(np.abs(k))]) > 0 else 9.0 for g in got) for k in known) if got else 9.0
        STATS.append((what, max([max(on_conic(MA, g), on_conic(MB, g)) for g in got] or [0]), dk))
    return ck.result()


# a contact of multiplicity k splits like eps^(1/k): measured worst cases over 3 x 1500 generated cases are 2e-6 (one double
# point), 5e-3 (two double points), 1.3e-1 (4-fold point, tolerance 0.3); a wrong branch moves a normalised coordinate by O(1)
TOL_ON = {False: 1e-6, True: 1e-5}
TOL_KNOWN = {False: 1e-5, "tangent_secant": 1e-3, "tangent_tangent": 3e-2, "fourfold": 0.3}
STATS = None


# ------------------------------------------------------------------------------------------- barely overlapping circles
OVERLAPS = [1e-9, 2e-9, 5e-9, 1e-8, 1e-7, 1e-6]
UNIT2 = [(3, 4, 5), (4, -3, 5), (1, 0, 1), (0, 1, 1), (5, 12, 13), (-12, 5, 13), (8, 15, 17), (-4, -3, 5)]


@st.composite
def overlap_case(draw, tier="quick"):
    return {"r1": draw(st.sampled_from([1, 2, 0.5, 3])), "r2": draw(st.sampled_from([1, 2, 0.5, 1.5])), "eps": draw(st.integers(0, len(OVERLAPS) - 1)), "c": [draw(C.ints(3)), draw(C.ints(3))], "u": draw(st.integers(0, len(UNIT2) - 1)),
            "kind": draw(st.sampled_from(["outer", "inner"])), "swap": draw(st.booleans())}


def run_overlap(c):
    """two circles that overlap by 1e-9 ... 1e-6 only (nearly touching from outside or from inside): they have two real common points,
    about sqrt(overlap) apart - far more than any tolerance of the library -, and both are among the returned points (at most four)"""
    r1, r2 = float(c["r1"]), float(c["r2"])
    if r1 not in (1, 2, 0.5, 3) or r2 not in (1, 2, 0.5, 1.5) or not 0 <= c["eps"] < len(OVERLAPS) or not 0 <= c["u"] < len(UNIT2):
        raise Skip("malformed")
    eps = OVERLAPS[c["eps"]]
    d = (r1 + r2 - eps) if c["kind"] == "outer" else abs(r1 - r2) + eps
    if d <= 0.1:
        raise Skip("concentric")
    u = UNIT2[c["u"]]
    dv = np.array(u[:2], float) / u[2]
    w = np.array([-dv[1], dv[0]])
    c1 = np.array(c["c"], float)
    c2 = c1 + dv * d
    a = (d * d + r1 * r1 - r2 * r2) / (2 * d)
    h2 = r1 * r1 - a * a
    if h2 <= 0:
        raise Skip("no real common point")
    h = math.sqrt(h2)
    want = [c1 + dv * a + w * h, c1 + dv * a - w * h]
    A, B = Circle(Point(*c1), r1), Circle(Point(*c2), r2)
    if c["swap"]:
        A, B = B, A
    site = f"barely-overlapping-circles:{c['kind']}:overlap={eps:g}"
    pts, f = call(site, A.intersect, B)
    if f:
        return [f]
    ck = Checker()
    ck.check(len(pts) <= 4, site + ":at-most-four-points", len(pts))
    got = [np.asarray(p.array)[:2] / np.asarray(p.array)[2] for p in pts if abs(np.asarray(p.array)[2]) > 1e-9 * np.max(np.abs(np.asarray(p.array)))]
    ck.check(all(any(np.linalg.norm(g - e) < 1e-6 for g in got) for e in want), site + ":both-real-common-points-returned", ([np.asarray(g).tolist() for g in got], [e.tolist() for e in want]))
    return ck.result()


LAWS = [
    Law("line_pairs_lattice", None, run_pair, pair_nontrivial, lambda c: [], enumerate=lattice_pairs, enum_shards=4,
        exhaustive=lambda tier: {"name": "all ordered pairs of non-zero non-proportional vectors of {-1,0,1}^3 as line pairs", "size": 26 * 26 - 26 - 26, "exhaustive": True},
        rule="Conic.from_lines(g,h): degenerate, components = {g,h}"),
    Law("plane_pairs_lattice", None, run_pair, pair_nontrivial, lambda c: [], enumerate=plane_lattice_pairs, enum_shards=8,
        exhaustive=lambda tier: {"name": "pairs of vectors of {-2..2}^4 as plane pairs, stride sample", "size": 624 * 624 // (389 if tier == "quick" else 41), "exhaustive": False},
        rule="Quadric.from_planes(e,f): degenerate, components = {e,f}"),
    Law("generated_pairs", lambda tier: gen_pair(tier), run_gen_pair, pair_nontrivial, lambda c: [f"n{len(c['g'])}", c["kind"], "coll" if c["coll"] else "single"] + (["collection>=64"] if c["coll"] >= 64 else []) + (["collection-of-very-different-magnitudes"] if c["coll"] == 5 else []) + (["complex-pair"] if c.get("im") else []),
        {"quick": 2000, "thorough": 40000}, "generated line/plane pairs, all sign patterns, parallel / at infinity / zeros, collections", shard=300),
    Law("not_reducible", lambda tier: nondeg_case(tier), run_nondeg, lambda c: True, lambda c: [c["what"], f"d{c['d']}"], {"quick": 800, "thorough": 15000},
        "non-degenerate quadrics are not degenerate; rank >= 3 quadrics of 3-space raise NotReducible", shard=300),
    Law("conic_conic", lambda tier: cc_case(tier), run_cc, lambda c: c["what"] in ("tangent_secant", "tangent_tangent", "fourfold", "fourfold_exact"), lambda c: [c["what"]] + (["degenerate-receiver"] if c["what"] == "with_degenerate" and c["swap"] else []) + (["operands-reused-with-a-third-conic"] if c.get("n3") is not None and c["what"] != "with_degenerate" else []),
        {"quick": 1500, "thorough": 30000}, "conic.intersect(conic): <= 4 points on both conics, all exactly known common points present (incl. repeated roots)", shard=200,
        mandatory=("fourfold", "fourfold_exact", "tangent_secant", "circles", "degenerate-receiver")),
    Law("barely_overlapping_circles", lambda tier: overlap_case(tier), run_overlap, lambda c: c["eps"] <= 3, lambda c: [c["kind"], f"overlap={OVERLAPS[c['eps']]:g}"], {"quick": 1500, "thorough": 25000},
        "two circles overlapping by 1e-9 ... 1e-6 (nearly touching from outside / inside): at most four points, both real common points among them", shard=300,
        mandatory=("overlap=1e-09", "overlap=2e-09", "inner", "outer")),
]


# ------------------------------------------------------------------------------------------- the first calls of a process
def first_calls_drive(tier, seed, n_examples):
    """Short programs of three conic queries are run as the very first library calls of a new interpreter
    (python -m vp.fresh_seq): a pair of lines given as an integer-typed, float, complex or from_lines matrix, asked for its
    components or cut with a line. Every answer is checked against the exact pair / the exact common points, so that whatever
    the first call leaves behind in the process (caches, work arrays fixed to its dtype or shape) cannot change later answers."""
    import base64
    import json as _json
    import os as _os
    import pickle
    import random as _random  # derives the deterministic list of programs from the seed
    import subprocess
    import sys as _sys
    from collections import Counter

    from ..runner import HarnessError, case_hash

    rnd = _random.Random(seed)
    res = {"evaluations": 0, "skipped": 0, "nt": set(), "nt_extra": 0, "labels": Counter(), "samples": [], "fails": [], "extra": {"fresh_processes": 0}}
    here = _os.path.dirname(_os.path.dirname(_os.path.dirname(_os.path.abspath(__file__))))
    hows = ["int-matrix", "float-matrix", "from_lines", "complex-matrix"]

    def vec():
        while True:
            v = [rnd.randint(-4, 4) for _ in range(3)]
            if any(v):
                return v

    for i in range(max(1, n_examples)):
        prog = []
        for j in range(3):
            g, h = vec(), vec()
            while np.linalg.matrix_rank(np.array([g, h])) < 2:
                h = vec()
            ln = vec()
            while np.linalg.matrix_rank(np.array([g, ln])) < 2 or np.linalg.matrix_rank(np.array([h, ln])) < 2:
                ln = vec()
            how = hows[(i + j * (1 + i // 4)) % 4] if j else hows[i % 4]
            prog.append({"g": g, "h": h, "how": how, "query": "components" if (i + j) % 3 else "intersect", "line": ln})
        env = dict(_os.environ, PYTHONHASHSEED="0", OMP_NUM_THREADS="1", OPENBLAS_NUM_THREADS="1", MKL_NUM_THREADS="1", PYTHONDONTWRITEBYTECODE="1")
        pr = subprocess.run([_sys.executable, "-m", "vp.fresh_seq", _json.dumps(prog)], cwd=here, env=env, capture_output=True, text=True, timeout=300)
        line = next((ln_ for ln_ in pr.stdout.splitlines() if ln_.startswith("RESULT:")), None)
        if line is None:
            raise HarnessError(f"fresh interpreter gave no result: {pr.stderr[-300:]}")
        answers = pickle.loads(base64.b64decode(line[len("RESULT:"):]))
        res["extra"]["fresh_processes"] += 1
        case = {"program": prog}
        res["evaluations"] += 1
        res["labels"]["first:" + prog[0]["how"]] += 1
        if prog[0]["how"] != prog[1]["how"]:
            res["nt"].add(case_hash(case))
        if len(res["samples"]) < 3:
            res["samples"].append(case)
        for j, (stp, ans) in enumerate(zip(prog, answers)):
            site = f"fresh-process:step{j}:{stp['how']}:{stp['query']}:after:{prog[0]['how']}"
            if ans[0] != "ok":
                res["fails"].append((Fail("EXC:" + ans[1].split(":")[0], site, "").sig("first_calls_of_a_process"), case, ans[1]))
                break
            g, h, ln = (np.array(stp[k], float) for k in ("g", "h", "line"))
            want = [g, h] if stp["query"] == "components" else [np.cross(g, ln), np.cross(h, ln)]
            got = [np.asarray(a) for a in ans[1]]
            if len(got) == 1 and C.peq_all(want[0], want[1]):
                got = got * 2
            if not (len(got) == 2 and C.multiset_peq(got, want, 1e-6)):
                res["fails"].append((Fail("MISMATCH", site, "").sig("first_calls_of_a_process"), case, str(([a.tolist() for a in got], [w.tolist() for w in want]))[:300]))
                break
    res["labels"] = dict(res["labels"])
    return res


def replay_first_calls(case):
    import json as _json

    r = first_calls_drive("quick", 1, 0) if False else None
    # re-run exactly this program
    import base64
    import os as _os
    import pickle
    import subprocess
    import sys as _sys

    here = _os.path.dirname(_os.path.dirname(_os.path.dirname(_os.path.abspath(__file__))))
    prog = case["program"]
    pr = subprocess.run([_sys.executable, "-m", "vp.fresh_seq", _json.dumps(prog)], cwd=here, env=dict(_os.environ, PYTHONHASHSEED="0"), capture_output=True, text=True, timeout=300)
    line = next((x for x in pr.stdout.splitlines() if x.startswith("RESULT:")), None)
    answers = pickle.loads(base64.b64decode(line[len("RESULT:"):]))
    fails = []
    for j, (stp, ans) in enumerate(zip(prog, answers)):
        site = f"fresh-process:step{j}:{stp['how']}:{stp['query']}:after:{prog[0]['how']}"
        if ans[0] != "ok":
            fails.append(Fail("EXC:" + ans[1].split(":")[0], site, ans[1]))
            break
        g, h, ln = (np.array(stp[k], float) for k in ("g", "h", "line"))
        want = [g, h] if stp["query"] == "components" else [np.cross(g, ln), np.cross(h, ln)]
        got = [np.asarray(a) for a in ans[1]]
        if len(got) == 1 and C.peq_all(want[0], want[1]):
            got = got * 2
        if not (len(got) == 2 and C.multiset_peq(got, want, 1e-6)):
            fails.append(Fail("MISMATCH", site, str(([a.tolist() for a in got], [w.tolist() for w in want]))[:300]))
            break
    return fails


LAWS.append(
    Law("first_calls_of_a_process", None, None, drive=first_calls_drive, budget={"quick": 64, "thorough": 640}, shard=8,
        rule="programs of three conic queries (integer / float / complex / from_lines matrices; components, intersect) as the first calls of a new interpreter: every answer equals the exact pair / common points",
        mandatory=("first:int-matrix", "first:float-matrix"))
)
REPLAY = dict(globals().get("REPLAY", {}), first_calls_of_a_process=replay_first_calls)
