"""C16 Segment, polygon and triangle membership is the closed Cartesian point set."""
from __future__ import annotations

from fractions import Fraction

import numpy as np
from hypothesis import strategies as st

import geometer as G
from geometer import Point, PointCollection, Polygon, PolygonCollection, Rectangle, Segment, SegmentCollection, Triangle

from .. import common as C
from .. import exact as X
from .. import zoo as Z
from ..runner import Batch, Checker, Fail, HarnessError, Law, Skip, call, exc_fail, mismatch

RULE = (
    "Segments with lattice endpoints |c|<=5 in 2D/3D incl. an endpoint at infinity (rays); simple polygons with 3-7 lattice "
    "vertices, star-shaped around a lattice point with radii 1-3 along 16 lattice directions (convex and non-convex, exact "
    "simplicity test), as Polygon / Triangle / Rectangle / PolygonCollection, in the plane or embedded in 3-space by an injective "
    "integer affine map; every cyclic rotation and the reversal of the vertex list. Query points: every lattice point of the "
    "bounding box enlarged by 1 and half-lattice points (so vertices, edge points, points on edge extensions, points level with a "
    "vertex occur), off-plane points and points at infinity; through the single-point API and through PointCollection. "
    "Non-trivial = query point on the boundary, on an edge extension or level with a vertex; distinct by (polygon, point) hash."
)
ASSUMPTIONS = [
    "oracle: exact closed point-in-polygon (boundary test + half-open crossing number in Fractions); exact parametric test for segments",
    "a ray Segment(a, d) with d at infinity is read with the representative direction as given: a + t d, t >= 0, plus d itself",
]

DIRS = [(1, 0), (2, 1), (1, 1), (1, 2), (0, 1), (-1, 2), (-1, 1), (-2, 1), (-1, 0), (-2, -1), (-1, -1), (-1, -2), (0, -1), (1, -2), (1, -1), (2, -1)]


# ------------------------------------------------------------------------------------------- segments
@st.composite
def seg_case(draw, tier="quick"):
    d = draw(st.sampled_from([2, 3]))
    a = [draw(C.ints(5)) for _ in range(d)]
    b = [draw(C.ints(5)) for _ in range(d)]
    return {"d": d, "a": a, "b": b, "inf": draw(st.sampled_from([None, None, None, "b", "a"])), "sa": draw(C.scale()), "sb": draw(C.scale()),
            "off": [draw(C.ints(3)) for _ in range(d)], "coll": draw(st.booleans()),
            "derive": draw(st.sampled_from(Z.DERIVATIONS)), "move": [draw(st.integers(-4, 4)) for _ in range(3)], "facet": draw(st.sampled_from([None, None, "facets", "edges"])),
            # Cartesian coordinates k * mul / den: for den = 3, 7, 10 they are floats with full mantissas, with mul = 10 of size 10 and more
            "den": draw(st.sampled_from([1, 1, 3, 7, 10])), "mul": draw(st.sampled_from([1, 1, 10]))}


def run_seg(c):
    d = c["d"]
    den, mul = c.get("den", 1), c.get("mul", 1)
    if den not in (1, 3, 7, 10) or mul not in (1, 10):
        raise Skip("malformed")
    if den == 1 or c["inf"]:
        mul = 1  # rays keep inexact coordinates below 2: their end point at infinity is not normalised by the library
    a, b = np.array(c["a"], float) * mul / den, np.array(c["b"], float) * mul / den
    if c["inf"] is None and np.array_equal(a, b):
        raise Skip("degenerate")
    if c["inf"] and not np.any(b if c["inf"] == "b" else a):
        raise Skip("zero direction")
    sa, sb = C.scale_value(c["sa"]), C.scale_value(c["sb"])
    if den != 1:
        # inexact coordinates (of size up to 17): no further factor (up to 40) on the representatives - the interval test of the library works
        # with products of four coordinates and an absolute tolerance, exact for integers but not for these (moderate magnitudes only)
        sa, sb = (1.0 if sa > 0 else -1.0), (1.0 if sb > 0 else -1.0)
    if c["inf"]:
        # rays: keep the representative of the direction positive (its sign selects the half line)
        sa, sb = abs(sa), abs(sb)
    ha = np.append(a, 0.0 if c["inf"] == "a" else 1.0)
    hb = np.append(b, 0.0 if c["inf"] == "b" else 1.0)
    how = c.get("derive")
    S, f = call(f"segment{d}:construct" + (f":{how}" if how else ""), Z.derive_moved, lambda rows: Segment(Point(rows[0]), Point(rows[1])),
                np.array([ha * sa, hb * sb]), how, c.get("move", [1, 2, 3]), lambda rows0: Point(rows0[0]), None, bool(c["inf"]))
    if f:
        return Batch(1, 0, [(f, c)], [])
    facet = c.get("facet") if (c["inf"] is None and not how) else None
    if facet:
        # the segment is taken from a polygon (its first edge); before it is used, another polygon with the same number of
        # vertices is built and queried - the edge of the first polygon is still the segment from a to b
        off = np.array(c["off"], float)
        if np.linalg.matrix_rank(np.stack([b - a, off])) < 2 or facet not in ("facets", "edges"):
            raise Skip("no triangle on this segment")
        tri = Polygon(Point(ha * sa), Point(hb * sb), Point(np.append(a + off, 1.0)))
        S, f = call(f"segment{d}:polygon.{facet}[0]", (lambda: tri.facets[0]) if facet == "facets" else (lambda: tri.edges[0]))
        if f:
            return Batch(1, 0, [(f, c)], [])
        shift = np.array([7.0, -5.0, 3.0][:d])
        other = Polygon(Point(np.append(b + shift, 1.0)), Point(np.append(a + off + shift, 1.0)), Point(np.append(a + 2 * shift, 1.0)))
        for q in (call(f"segment{d}:other-polygon.contains", other.contains, Point(np.append(a + shift, 1.0))), call(f"segment{d}:other-polygon.edges", lambda: other.edges)):
            if q[1]:
                return Batch(1, 0, [(q[1], c)], [])
    # query points
    qs, truth, cls = [], [], []
    if c["inf"] is None:
        for t in [Fraction(k, 4) for k in range(-6, 11)]:
            p = a + float(t) * (b - a)
            qs.append(np.append(p, 1.0))
            truth.append(0 <= t <= 1)
            cls.append("endpoint" if t in (0, 1) else ("inside" if 0 < t < 1 else "extension"))
        off = np.array(c["off"], float) * mul / den
        if np.linalg.matrix_rank(np.stack([b - a, off])) == 2:
            for t in (0.25, 0.5, 1.0):
                qs.append(np.append(a + t * (b - a) + off, 1.0))
                truth.append(False)
                cls.append("off-line")
        qs.append(np.append(b - a, 0.0))
        truth.append(False)
        cls.append("infinite-point-of-line")
    else:
        base, dirn = (a, b) if c["inf"] == "b" else (b, a)
        for t in [k / 2 for k in range(-6, 9)]:
            qs.append(np.append(base + t * dirn, 1.0))
            truth.append(t >= 0)
            cls.append("ray-origin" if t == 0 else ("ray-inside" if t > 0 else "ray-extension"))
        qs.append(np.append(dirn, 0.0))
        truth.append(True)
        cls.append("ray-infinite-endpoint")
        # the same point at infinity given by other representatives (projectively the end point of the ray)
        for k_ in (-1.0, -2.5, 3.0):
            qs.append(np.append(dirn * k_, 0.0))
            truth.append(True)
            cls.append("ray-infinite-endpoint-other-representative")
    qs = np.array(qs)
    truth = np.array(truth)
    fails = []
    site0 = f"segment{d}:{'ray' if c['inf'] else 'finite'}" + (":non-dyadic-coordinates" if den != 1 else "") + (f":derived({how})" if how else "") + (f":polygon.{facet}[0]-after-another-polygon" if facet else "")
    if c["coll"]:
        r, f = call(site0 + ":collection", S.contains, PointCollection(qs))
        if f:
            return Batch(len(qs), len(qs), [(f, c)], [])
        r = np.asarray(r)
        if r.shape != truth.shape:
            return Batch(len(qs), len(qs), [(mismatch(site0 + ":collection:shape", r.shape), c)], [])
        for i in np.flatnonzero(r != truth)[:4]:
            fails.append((mismatch(f"{site0}:collection:{cls[i]}", (qs[i].tolist(), bool(truth[i]))), c))
    else:
        for i in range(len(qs)):
            r, f = call(site0 + ":single", S.contains, Point(qs[i]))
            if f:
                fails.append((f, c))
                break
            if bool(r) != bool(truth[i]) and len(fails) < 4:
                fails.append((mismatch(f"{site0}:single:{cls[i]}", (qs[i].tolist(), bool(truth[i]))), c))
    nt = sum(1 for x in cls if x in ("endpoint", "extension", "ray-origin", "ray-extension", "ray-infinite-endpoint", "ray-infinite-endpoint-other-representative", "infinite-point-of-line"))
    labels = {}
    for x in set(cls):
        labels[x] = cls.count(x)
    if how:
        labels["derived-from-a-queried-object"] = 1
    if facet:
        labels["edge-of-a-polygon"] = 1
    if den != 1:
        labels["non-dyadic-coordinates" + (":size>=10" if mul == 10 else "")] = 1
    return Batch(len(qs), nt, fails, [], labels)


# ------------------------------------------------------------------------------------------- polygons
@st.composite
def poly_case(draw, tier="quick"):
    n = draw(st.integers(3, 7))
    idx = sorted(draw(st.permutations(range(16)))[:n])
    radii = [draw(st.integers(1, 3)) for _ in range(n)]
    kind = draw(st.sampled_from(["polygon", "polygon", "triangle", "rectangle", "collection", "collection"]))
    return {"kind": kind, "idx": idx, "radii": radii, "off": [draw(C.ints(4)), draw(C.ints(4))], "embed": draw(st.sampled_from([None, None, "3d"])),
            "frame": [draw(C.ints(3)) for _ in range(9)], "rot": draw(st.integers(0, 6)), "rev": draw(st.booleans()), "api": draw(st.sampled_from(["single", "collection"])),
            "scales": [draw(C.scale()) for _ in range(7)], "scaled": draw(st.sampled_from([False, False, True])),
            "derive": draw(st.sampled_from(Z.DERIVATIONS)), "move": [draw(st.integers(-4, 4)) for _ in range(3)],
            # coordinates k/den: for den = 10, 3, 7 the floats are not dyadic fractions with short mantissas, so the arithmetic inside the library is inexact
            "den": draw(st.sampled_from([1, 1, 1, 10, 3, 7])), "axisplane": draw(st.sampled_from([None, 0, 1, 2]))}


def polygon2(c):
    kind = c["kind"]
    if kind == "triangle":
        idx, radii = c["idx"][:3], c["radii"][:3]
    elif kind == "rectangle":
        # lattice rectangle: a x b with sides along a lattice direction and its normal
        u = DIRS[c["idx"][0]]
        w = (-u[1], u[0])
        a, b = c["radii"][0], c["radii"][1]
        pts = [(0, 0), (a * u[0], a * u[1]), (a * u[0] + b * w[0], a * u[1] + b * w[1]), (b * w[0], b * w[1])]
        return [[Fraction(x + c["off"][0]), Fraction(y + c["off"][1])] for x, y in pts]
    else:
        idx, radii = c["idx"], c["radii"]
    if len(idx) < 3:
        raise Skip("too few vertices")
    pts = [[Fraction(DIRS[i][0] * r + c["off"][0]), Fraction(DIRS[i][1] * r + c["off"][1])] for i, r in zip(idx, radii)]
    if not X.is_simple_polygon(pts):
        raise Skip("not a simple polygon")
    return pts


def embed(c, pts2):
    """integer affine map R^2 -> R^3 (injective) or identity"""
    if c["embed"] is None:
        return None
    o = np.array(c["frame"][0:3], float)
    u = np.array(c["frame"][3:6], float)
    w = np.array(c["frame"][6:9], float)
    if c.get("axisplane") is not None:
        # a plane parallel to two coordinate axes: the projection inside the library keeps the two in-plane coordinates as they are
        k = c["axisplane"]
        o, u, w = np.roll([0.0, 0.0, o[2] / c.get("den", 1)], k), np.roll([1.0, 0.0, 0.0], k), np.roll([0.0, 1.0, 0.0], k)
    if np.linalg.matrix_rank(np.stack([u, w])) < 2:
        raise Skip("degenerate frame")
    return o, u, w


def run_poly(c):
    base = polygon2(c)
    n = len(base)
    rot = c["rot"] % n
    verts = base[rot:] + base[:rot]
    if c["rev"]:
        verts = list(reversed(verts))
    emb = embed(c, base)
    xs = [p[0] for p in base]
    ys = [p[1] for p in base]
    # query grid: all lattice and half-lattice points of the bounding box enlarged by 1
    gx = [Fraction(k, 2) for k in range(int(2 * min(xs)) - 2, int(2 * max(xs)) + 3)]
    gy = [Fraction(k, 2) for k in range(int(2 * min(ys)) - 2, int(2 * max(ys)) + 3)]
    qs = [(x, y) for x in gx for y in gy]
    truth = np.array([X.point_in_polygon(base, q) for q in qs])
    vset = {tuple(p) for p in base}
    vy = {p[1] for p in base}

    def classify(q, t):
        if tuple(q) in vset:
            return "vertex"
        onb = any(X.on_segment(base[i], base[(i + 1) % n], q) for i in range(n))
        if onb:
            return "edge"
        if any(X.orient(base[i], base[(i + 1) % n], q) == 0 for i in range(n)):
            return "edge-extension"
        if q[1] in vy:
            return "level-with-vertex"
        return "interior" if t else "exterior"

    cls = [classify(q, t) for q, t in zip(qs, truth)]
    den = c.get("den", 1)
    if den != 1:
        # the floats k/den are not the rationals k/den: a query meant to lie on an edge lies within one rounding error of it, and the
        # exact answer for the floats is a matter of that rounding error.  Every other query is at least 1/(12 den) away from the
        # boundary, the lattice answer is the answer for the floats, and a query level with a vertex has exactly the vertex' ordinate
        keep = [i for i, x in enumerate(cls) if x != "edge"]
        qs = [qs[i] for i in keep]
        truth = truth[keep]
        cls = [cls[i] for i in keep]

    def h3(p2):
        x, y = float(p2[0]) / den, float(p2[1]) / den
        if emb is None:
            return np.array([x, y, 1.0])
        o, u, w = emb
        return np.append(o + x * u + y * w, 1.0)

    sc = [C.scale_value(s) for s in c["scales"]]
    V = np.array([h3(p) * (sc[i % 7] if c.get("scaled") else 1) for i, p in enumerate(verts)])
    Q = np.array([h3(q) for q in qs])
    kind = c["kind"]
    dim = 2 if emb is None else 3
    site0 = f"{kind}{dim}" + (":scaled-vertices" if c.get("scaled") else "") + (":non-dyadic-coordinates" if den != 1 else "")
    how = c.get("derive")
    if how:
        site0 += f":derived({how})"
    mv = c.get("move", [1, 2, 3])
    wp = lambda rows0: Point(rows0[..., 0, :] if rows0.ndim == 2 else rows0[0, 0, :])  # noqa: E731
    builders = {"triangle": lambda rows: Triangle(*[Point(v) for v in rows]), "rectangle": lambda rows: Rectangle(*[Point(v) for v in rows]),
                "polygon": lambda rows: Polygon(*[Point(v) for v in rows])}
    try:
        if kind == "collection":
            poly = None  # built below: one copy of the polygon per query point (collections work element by element)
        else:
            poly = Z.derive_moved(builders[kind], V, how, mv, wp)
    except Exception as e:  # noqa: BLE001
        return Batch(1, 0, [(exc_fail(e, site0 + ":construct"), c)], [])
    fails = []
    extra_q, extra_t, extra_c = [], [], []
    if emb is not None:
        o, u, w = emb
        nrm = np.cross(u, w)
        for q in qs[:: max(1, len(qs) // 6)]:
            extra_q.append(np.append(h3(q)[:3] + nrm, 1.0))
            extra_t.append(False)
            extra_c.append("off-plane")
        # points at infinity (never in a finite polygon): directions inside the plane and along the coordinate axes, either sign
        for dv in (u, -2.0 * w, u + w, np.array([1.0, 0.0, 0.0]), np.array([0.0, -3.0, 0.0]), np.array([0.0, 0.0, 1.0])):
            extra_q.append(np.append(dv, 0.0))
            extra_t.append(False)
            extra_c.append("at-infinity")
    else:
        for dv in ([1.0, 2.0], [1.0, 0.0], [-3.0, 0.0], [0.0, 1.0], [0.0, -2.0], [1.0, 1.0]):
            extra_q.append(np.array(dv + [0.0]))
            extra_t.append(False)
            extra_c.append("at-infinity")
    Qall = np.concatenate([Q, np.array(extra_q)]) if extra_q else Q
    tall = np.concatenate([truth, np.array(extra_t, dtype=bool)])
    call_cls = cls + extra_c
    if c["api"] == "collection" or kind == "collection":
        if kind == "collection":
            try:
                poly = Z.derive_moved(lambda rows: PolygonCollection(np.stack([rows] * len(Qall))), V, how, mv, wp)
            except Exception as e:  # noqa: BLE001
                return Batch(1, 0, [(exc_fail(e, site0 + ":construct"), c)], [])
            r, f = call(site0 + ":contains(collection)", poly.contains, PointCollection(Qall))
            if f:
                return Batch(len(Qall), 0, [(f, c)], [])
            rr = np.asarray(r)
            if rr.shape != (len(Qall),):
                return Batch(len(Qall), 0, [(mismatch(site0 + ":result-shape", rr.shape), c)], [])
            # a single point against a collection of two polygons
            r1, f = call(site0 + ":contains(point)", PolygonCollection(np.stack([V, V])).contains, Point(Qall[0]))
            if f:
                fails.append((f, c))
            elif np.asarray(r1).shape != (2,) or not np.all(np.asarray(r1) == tall[0]):
                fails.append((mismatch(site0 + ":single-point-vs-collection", np.asarray(r1).tolist()), c))
            if emb is not None and den == 1 and c.get("axisplane") is None:
                # ... and against two polygons in different planes: the second one is the image under the cyclic coordinate
                # permutation (x, y, z) -> (y, z, x); a point P lies in it iff the pre-image of P lies in the first polygon
                perm = [1, 2, 0, 3]
                V2 = V[:, perm]
                o, u, w = emb
                fo, fu, fw = [[Fraction(int(x)) for x in vec] for vec in (o, u, w)]

                def in_first(P3):
                    rhs = [P3[i] - fo[i] for i in range(3)]
                    for i, j in ((0, 1), (0, 2), (1, 2)):
                        det = fu[i] * fw[j] - fu[j] * fw[i]
                        if det != 0:
                            x = (rhs[i] * fw[j] - rhs[j] * fw[i]) / det
                            y = (fu[i] * rhs[j] - fu[j] * rhs[i]) / det
                            k = 3 - i - j
                            if fu[k] * x + fw[k] * y != rhs[k]:
                                return False
                            return bool(X.point_in_polygon(base, [x, y]))
                    return False

                both = PolygonCollection(np.stack([V, V2]))
                for qi in range(0, len(qs), max(1, len(qs) // 12)):
                    P3 = [fo[i] + qs[qi][0] * fu[i] + qs[qi][1] * fw[i] for i in range(3)]
                    pre = [P3[2], P3[0], P3[1]]  # pre-image of P under the permutation
                    want = [bool(truth[qi]), in_first(pre)]
                    r2, f = call(site0 + ":two-planes:contains(point)", both.contains, Point(np.array([float(x) for x in P3] + [1.0])))
                    if f:
                        fails.append((f, c))
                        break
                    if np.asarray(r2).shape != (2,) or np.asarray(r2).tolist() != want:
                        fails.append((mismatch(site0 + ":single-point-vs-polygons-in-two-planes", (np.asarray(r2).tolist(), want)), c))
                        break
        else:
            r, f = call(site0 + ":contains(collection)", poly.contains, PointCollection(Qall))
            if f:
                return Batch(len(Qall), 0, [(f, c)], [])
            rr = np.asarray(r)
            if rr.shape != tall.shape:
                return Batch(len(Qall), 0, [(mismatch(site0 + ":result-shape", rr.shape), c)], [])
        bad = np.flatnonzero(rr != tall)
        seen = set()
        for i in bad:
            key = (call_cls[i], bool(tall[i]))
            if key in seen:
                continue
            seen.add(key)
            fails.append((mismatch(f"{site0}:collection-api:{call_cls[i]}:expected-{bool(tall[i])}", {"q": Qall[i].tolist(), "n_wrong": int(len(bad))}), c))
    else:
        seen = set()
        for i in range(len(Qall)):
            r, f = call(site0 + ":contains(point)", poly.contains, Point(Qall[i]))
            if f:
                key = ("exc", f.site)
                if key not in seen:
                    seen.add(key)
                    fails.append((f, c))
                continue
            if bool(r) != bool(tall[i]):
                key = (call_cls[i], bool(tall[i]))
                if key in seen:
                    continue
                seen.add(key)
                fails.append((mismatch(f"{site0}:single-api:{call_cls[i]}:expected-{bool(tall[i])}", {"q": Qall[i].tolist()}), c))
    labels = {}
    for x in set(call_cls):
        labels[x] = call_cls.count(x)
    labels[kind] = 1
    labels["convex" if all(X.orient(base[i], base[(i + 1) % n], base[(i + 2) % n]) > 0 for i in range(n)) or all(X.orient(base[i], base[(i + 1) % n], base[(i + 2) % n]) < 0 for i in range(n)) else "non-convex"] = 1
    if c["rev"]:
        labels["reversed"] = 1
    if how:
        labels["derived-from-a-queried-object"] = 1
    if kind == "collection" and emb is not None and den == 1 and c.get("axisplane") is None:
        labels["single-point-vs-polygons-in-two-planes"] = 1
    if den != 1 and "level-with-vertex" in call_cls:
        labels["non-dyadic:level-with-vertex" + (":3d" if emb is not None else "")] = call_cls.count("level-with-vertex")
    nt = sum(1 for x in call_cls if x in ("vertex", "edge", "edge-extension", "level-with-vertex"))
    return Batch(len(Qall), nt, fails, [], labels)


# ------------------------------------------------------------------------------------------- every segment against every point
@st.composite
def table_case(draw, tier="quick"):
    d = draw(st.sampled_from([2, 3, 3]))
    k = draw(st.integers(1, 4))
    return {"d": d, "segs": [[[draw(C.ints(5)) for _ in range(d)], [draw(C.ints(5)) for _ in range(d)]] for _ in range(k)], "ts": [draw(st.sampled_from([0, 1, 2, 3, -1, 4])) for _ in range(3)],
            "axis": draw(st.sampled_from([-3, -3, 1]))}


def run_table(c):
    """k segments against m points in one call: segments.expand_dims(-3) (the form the library itself uses for its rays; or the equivalent
    non-negative axis 1) puts the segments along a new axis, contains(points) is then the k x m table of the single answers"""
    from geometer import SegmentCollection

    d, segs = c["d"], c["segs"]
    if d not in (2, 3) or c["axis"] not in (-3, 1) or any(len(x) != 2 or len(x[0]) != d or len(x[1]) != d for x in segs):
        raise Skip("malformed")
    S = [([Fraction(int(x)) for x in a], [Fraction(int(x)) for x in b]) for a, b in segs]
    if any(a == b for a, b in S):
        raise Skip("degenerate segment")
    pts = []
    for (a, b), t in zip(S, [Fraction(x, 2) for x in c["ts"]] * 2):
        pts.append([x + t * (y - x) for x, y in zip(a, b)])
    pts.append([S[0][0][i] + (1 if i == 0 else 2) for i in range(d)])

    def on(a, b, p):
        e = [y - x for x, y in zip(a, b)]
        w = [y - x for x, y in zip(a, p)]
        if any(e[i] * w[j] != e[j] * w[i] for i in range(d) for j in range(i)):
            return False
        dot = sum(x * y for x, y in zip(e, w))
        return 0 <= dot <= sum(x * x for x in e)

    truth = np.array([[on(a, b, p) for p in pts] for a, b in S])
    coll = SegmentCollection(np.array([[[float(x) for x in a] + [1.0], [float(x) for x in b] + [1.0]] for a, b in S]))
    P = PointCollection(np.array([[float(x) for x in p] + [1.0] for p in pts]))
    site = f"table{d}:expand_dims({c['axis']})"
    r, f = call(site, lambda: coll.expand_dims(c["axis"]).contains(P))
    if f:
        return Batch(truth.size, truth.size, [(f, c)], [])
    r = np.asarray(r)
    if r.shape != truth.shape:
        return Batch(truth.size, truth.size, [(mismatch(site + ":shape", (r.shape, truth.shape)), c)], [])
    fails = []
    if not np.array_equal(r, truth):
        i, j = [int(x[0]) for x in np.nonzero(r != truth)]
        fails.append((mismatch(site + ":entry", (i, j, bool(truth[i, j]))), c))
    return Batch(truth.size, truth.size, fails, [], {f"d{d}": 1, f"axis={c['axis']}": 1, "several-segments": int(len(S) > 1)})


def drive_factory(strategy_fn, run_fn, name):
    """Hypothesis driver for laws whose run() returns a Batch (many query points per generated polygon)"""

    def drive(tier, seed, n_examples):
        from collections import Counter

        from hypothesis import HealthCheck, Phase, given, settings
        from hypothesis import seed as hseed

        from ..runner import case_hash

        res = {"evaluations": 0, "skipped": 0, "nt": set(), "nt_extra": 0, "labels": Counter(), "samples": [], "fails": [], "extra": {"polygons_or_segments": 0}}

        @hseed(seed)
        @settings(max_examples=n_examples, database=None, deadline=None, phases=[Phase.generate],
                  suppress_health_check=[HealthCheck.too_slow, HealthCheck.data_too_large, HealthCheck.large_base_example])
        @given(strategy_fn(tier))
        def body(case):
            try:
                b = run_fn(case)
            except Skip:
                res["skipped"] += 1
                return
            except HarnessError:
                raise
            except Exception as e:  # noqa: BLE001
                f = exc_fail(e)
                res["fails"].append((f.sig(name), case, f.detail))
                return
            res["evaluations"] += b.evaluations
            res["extra"]["polygons_or_segments"] += 1
            h = case_hash(case)
            if b.nontrivial > 0 and h not in res["nt"]:
                # distinct (object, query) pairs: one for the object hash plus the remaining non-trivial queries
                res["nt"].add(h)
                res["nt_extra"] += b.nontrivial - 1
            res["labels"].update(b.labels)
            if len(res["samples"]) < 4:
                res["samples"].append(case)
            for f, cse in b.fails:
                if len(res["fails"]) < 3000:
                    res["fails"].append((f.sig(name), cse, f.detail))

        body()
        res["labels"] = dict(res["labels"])
        return res

    return drive


def replay_batch(run_fn):
    def rp(case):
        try:
            b = run_fn(case)
        except Skip:
            return []
        return [f for f, _ in b.fails]

    return rp


LAWS = [
    Law("segment_contains", None, None, drive=drive_factory(seg_case, run_seg, "segment_contains"), budget={"quick": 600, "thorough": 12000}, shard=200,
        rule="Segment.contains on the whole parameter grid t = k/4 in [-1.5, 2.5], off-line points, rays; coordinates also k/3, k/7, k/10 and ten times that", mandatory=("non-dyadic-coordinates:size>=10",)),
    Law("polygon_contains", None, None, drive=drive_factory(poly_case, run_poly, "polygon_contains"), budget={"quick": 500, "thorough": 10000}, shard=40,
        rule="Polygon/Triangle/Rectangle/PolygonCollection.contains on the full (half-)lattice grid of the enlarged bounding box; 2D and embedded in 3D; rotations/reversal of the vertex cycle",
        mandatory=("vertex", "edge", "edge-extension", "level-with-vertex", "non-convex", "triangle", "reversed", "single-point-vs-polygons-in-two-planes", "non-dyadic:level-with-vertex", "non-dyadic:level-with-vertex:3d")),
]
LAWS.append(Law("segments_against_points_table", None, None, drive=drive_factory(table_case, run_table, "segments_against_points_table"), budget={"quick": 600, "thorough": 10000}, shard=200,
                rule="SegmentCollection.expand_dims(-3 or 1).contains(PointCollection): the k x m table of the single answers, in the plane and in 3-space", mandatory=("d3", "axis=-3")))
REPLAY = {"segment_contains": replay_batch(run_seg), "polygon_contains": replay_batch(run_poly), "segments_against_points_table": replay_batch(run_table)}


# ------------------------------------------------------------------------------------------- equivalent ways of asking
from .. import forms as _forms  # noqa: E402

LAWS.append(
    Law("call_forms", lambda tier: _forms.call_forms_strategy("C16")(tier), _forms.run_call_forms("C16"), lambda c: True, lambda c: [c["entry"], f"d{c['d']}"], {"quick": 500, "thorough": 6000},
        "the same question asked in several ways (positional / keyword arguments, method / function / operator form, symmetric argument orders) on the objects of the shared pool: same answer", shard=250)
)
