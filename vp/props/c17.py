"""C17 Polytope measures equal closed forms; polytope equality ignores vertex order."""
from __future__ import annotations

import math
from fractions import Fraction

import numpy as np
from hypothesis import strategies as st

import geometer as G
from geometer import (
    Cuboid, Point, PointCollection, Polygon, PolygonCollection, Polyhedron, Rectangle, RegularPolygon, Segment, SegmentCollection, Simplex, Triangle,
    rotation, translation,
)

from .. import common as C
from .. import exact as X
from .. import zoo as Z
from ..runner import Checker, Fail, Law, Skip, call
from .c16 import DIRS

RULE = (
    "Simple lattice polygons (star-shaped, 3-7 vertices, convex and non-convex) at any offset, embedded in 3-space by injective "
    "integer affine maps (area factor |u x w| known exactly) and moved by float isometries; segments; triangles and tetrahedra "
    "with integer vertices; cuboids from three mutually orthogonal integer edge vectors at any position; regular polygons with "
    "centre != origin, n = 3..9, in 2D and about a generic 3D axis; polygon collections; vertex-cycle rotations and reversal; "
    "perturbed copies for inequality. Non-trivial = object not centred at the origin and (3D) supporting plane not through the "
    "origin and not axis-parallel; distinct by case hash."
)
ASSUMPTIONS = ["oracle: exact shoelace area / area centroid in Fractions transferred by the affine embedding; determinant volume; Euclidean closed forms, tol 1e-7 relative"]


def close(a, b, tol=1e-7):
    return bool(np.all(np.abs(np.asarray(a, dtype=float) - np.asarray(b, dtype=float)) <= tol * np.maximum(1.0, np.abs(np.asarray(b, dtype=float)))))


def IP(arr, flag):
    """Point from a homogeneous array; integer-typed if requested and the entries are integral (Point(1, 2, 3) is integer-typed)"""
    arr = np.asarray(arr)
    if flag and np.all(arr == np.round(arr)):
        arr = arr.astype(np.int64)
    return Point(arr)


def P(v):
    return Point(np.append(np.asarray(v, dtype=float), 1.0))


@st.composite
def poly_case(draw, tier="quick"):
    n = draw(st.integers(3, 7))
    idx = sorted(draw(st.permutations(range(16)))[:n])
    return {"idx": idx, "radii": [draw(st.integers(1, 3)) for _ in range(n)], "off": [draw(C.ints(6)), draw(C.ints(6))], "embed": draw(st.sampled_from([None, "3d", "3d"])),
            "frame": [draw(C.ints(3)) for _ in range(9)], "rot": draw(st.integers(0, 6)), "rev": draw(st.booleans()), "coll": draw(st.sampled_from([False, False, True])),
            "scales": [draw(C.scale()) for _ in range(7)], "iso": [draw(st.integers(-11, 11)), draw(C.ints(5)), draw(C.ints(5)), draw(C.ints(5))], "use_iso": draw(st.booleans()), "used": draw(st.booleans()),
            "derive": draw(st.sampled_from(Z.DERIVATIONS)), "move": [draw(st.integers(-4, 4)) for _ in range(3)]}


def base_polygon(c):
    pts = [[Fraction(DIRS[i][0] * r + c["off"][0]), Fraction(DIRS[i][1] * r + c["off"][1])] for i, r in zip(c["idx"], c["radii"])]
    if not X.is_simple_polygon(pts):
        raise Skip("not simple")
    return pts


def run_poly(c):
    base = base_polygon(c)
    n = len(base)
    area2 = abs(X.shoelace2(base)) / 2
    cen2 = X.polygon_centroid(base)
    rot = c["rot"] % n
    verts = base[rot:] + base[:rot]
    if c["rev"]:
        verts = list(reversed(verts))
    if c["embed"]:
        o = np.array(c["frame"][0:3], float)
        u = np.array(c["frame"][3:6], float)
        w = np.array(c["frame"][6:9], float)
        if np.linalg.matrix_rank(np.stack([u, w])) < 2:
            raise Skip("degenerate frame")
        f3 = lambda p: o + float(p[0]) * u + float(p[1]) * w  # noqa: E731
        factor = np.linalg.norm(np.cross(u, w))
    else:
        f3 = lambda p: np.array([float(p[0]), float(p[1])])  # noqa: E731
        factor = 1.0
    V = np.array([f3(p) for p in verts])
    exp_area = float(area2) * factor
    exp_cen = f3(cen2)
    d = V.shape[1]
    t = None
    if c["use_iso"]:
        ang = c["iso"][0] * math.pi / 12
        if d == 2:
            t = translation(c["iso"][1], c["iso"][2]) * rotation(ang)
        else:
            ax = np.array(c["frame"][3:6], float) + np.array([1.0, 0.0, 2.0])
            if not np.any(ax):
                raise Skip("zero rotation axis")
            t = translation(*c["iso"][1:4]) * rotation(ang, axis=P(ax))
    sc = [C.scale_value(s) for s in c["scales"]]
    H = np.concatenate([V, np.ones((n, 1))], axis=1) * np.array([sc[i % 7] for i in range(n)])[:, None]
    ck = Checker()
    tag = f"polygon{d}" + (":isometry" if t is not None else "")
    how = c.get("derive")
    build = (lambda rows: PolygonCollection(np.stack([rows, np.roll(rows.copy(), 1, axis=0)]))) if c["coll"] else (lambda rows: Polygon(rows))
    poly, f = call(tag + ":construct" + (f":derived({how})" if how else ""), Z.derive_moved, build, H, how, c.get("move", [1, 2, 3]))
    if f:
        return [f]
    if t is not None:
        if c.get("used"):
            Z.warm(poly)  # the polygon has been measured before it is moved
        poly, f = call("apply", lambda: t * poly)
        if f:
            return [f]
        Mlin = t.array[:-1, :-1]
        exp_cen = Mlin @ exp_cen + t.array[:-1, -1]
    a, f = call(tag + ":area", lambda: poly.area)
    if f:
        ck.add(f)
    else:
        ck.check(np.shape(a) == ((2,) if c["coll"] else ()) and close(a, exp_area), tag + ":area" + (":coll" if c["coll"] else ""), (np.asarray(a).tolist(), exp_area))
    if not c["coll"]:
        ce, f = call(tag + ":centroid", lambda: poly.centroid)
        if f:
            ck.add(f)
        else:
            ck.check(C.peq_all(ce.array, np.append(exp_cen, 1.0), 1, 1e-7), tag + ":centroid", (ce.array.tolist(), exp_cen.tolist()))
        vs, f = call(tag + ":vertices", lambda: poly.vertices)
        if f is None:
            ck.check(len(vs) == n, tag + ":vertices-count", len(vs))
        es, f = call(tag + ":edges", lambda: list(poly.edges))
        if f is None:
            ck.check(len(es) == n, tag + ":edges-count", len(es))
    return ck.result()


def poly_nontrivial(c):
    return any(c["off"]) and (c["embed"] is None or any(c["frame"][0:3]))


# ------------------------------------------------------------------------------------------- equality
@st.composite
def eq_case(draw, tier="quick"):
    c = draw(poly_case(tier))
    c["variant"] = draw(st.sampled_from(["rotated", "reversed", "rotated+reversed", "moved-vertex", "swapped-neighbours", "rescaled"]))
    c["k"] = draw(st.integers(1, 6))
    return c


def run_eq(c):
    base = base_polygon(c)
    n = len(base)
    if c["embed"]:
        o = np.array(c["frame"][0:3], float)
        u = np.array(c["frame"][3:6], float)
        w = np.array(c["frame"][6:9], float)
        if np.linalg.matrix_rank(np.stack([u, w])) < 2:
            raise Skip("degenerate frame")
        f3 = lambda p: o + float(p[0]) * u + float(p[1]) * w  # noqa: E731
    else:
        f3 = lambda p: np.array([float(p[0]), float(p[1])])  # noqa: E731
    V = np.array([f3(p) for p in base])
    H = np.concatenate([V, np.ones((n, 1))], axis=1)
    var = c["variant"]
    k = c["k"] % n
    W = H.copy()
    truth = True
    if "rotated" in var:
        W = np.roll(W, k, axis=0)
    if "reversed" in var:
        W = W[::-1].copy()
    if var == "rescaled":
        sc = np.array([C.scale_value(c["scales"][i % 7]) for i in range(n)])
        W = W * sc[:, None]
    if var == "moved-vertex":
        W[k, 0] += 1.0
        truth = False
    if var == "swapped-neighbours":
        if n < 4:
            raise Skip("a triangle has a single cycle")
        W[[k, (k + 1) % n]] = W[[(k + 1) % n, k]]
        truth = False
    ck = Checker()
    try:
        A, B = Polygon(H), Polygon(W)
    except Exception as e:  # noqa: BLE001
        if var in ("moved-vertex", "swapped-neighbours"):
            raise Skip("perturbed polygon not constructible (not coplanar)")
        raise
    r1, f1 = call("==", lambda: A == B)
    r2, f2 = call("==", lambda: B == A)
    if f1 or f2:
        return [z for z in (f1, f2) if z]
    ck.check(bool(r1) == truth, f"polygon-eq:{var}", (bool(r1), truth))
    ck.check(bool(r2) == truth, f"polygon-eq:{var}:symmetric", (bool(r2), truth))
    r3, f = call("==", lambda: A == A)
    if f is None:
        ck.check(bool(r3), "polygon-eq:reflexive")
    return ck.result()


# ------------------------------------------------------------------------------------------- simplices, segments, cuboids, regular polygons
@st.composite
def solid_case(draw, tier="quick"):
    what = draw(st.sampled_from(["segment", "triangle2", "triangle3", "tetrahedron", "cuboid", "regular2", "regular3", "polyhedron_eq", "concave_prism"]))
    return {"what": what, "v": [draw(C.ints(6)) for _ in range(12)], "n": draw(st.integers(3, 9)), "r": draw(st.sampled_from([1, 2, 3, 0.5, 2.5])), "perm": draw(st.permutations(range(6))),
            "lens": [draw(st.integers(1, 4)) for _ in range(3)], "coll": draw(st.booleans()), "s": [draw(C.scale()) for _ in range(4)],
            "derive": draw(st.sampled_from([None, None, "translation*", "+point", "scaling*", "k*identity"])), "move": [draw(st.integers(-4, 4)) for _ in range(3)],
            "intd": draw(st.booleans()), "w": [draw(st.sampled_from([1, 1, 2, 4, -2])) for _ in range(4)]}


def orth_frame(v):
    u = np.array(v[0:3], float)
    w0 = np.array(v[3:6], float)
    w = np.cross(u, w0)
    if not np.any(u) or not np.any(w):
        raise Skip("degenerate")
    x = np.cross(u, w)
    return u, w, x


def run_solid(c):
    what, v = c["what"], c["v"]
    ck = Checker()
    how = c.get("derive")

    def der(obj):
        """optionally the same solid obtained by derivation from an already used one (zoo.rederive)"""
        if not how:
            return obj
        r, f = call(f"{what}:derive({how})", Z.rederive, obj, c.get("move", [1, 2, 3]), how)
        if f:
            raise _Derive(f)
        return r

    try:
        return _run_solid(c, what, v, ck, der)
    except _Derive as e:
        return [e.args[0]]


class _Derive(Exception):
    pass


def _run_solid(c, what, v, ck, der):
    sc = [C.scale_value(s) for s in c["s"]]
    if what == "segment":
        d = 2 + (v[11] % 2)
        a, b = np.array(v[0:d], float), np.array(v[d : 2 * d], float)
        if np.array_equal(a, b):
            raise Skip("degenerate")
        if c["coll"]:
            s = SegmentCollection(PointCollection(np.stack([np.append(a, 1) * sc[0], np.append(b, 1)])), PointCollection(np.stack([np.append(b, 1) * sc[1], np.append(a + 2 * (b - a), 1)])))
            exp_len = np.array([np.linalg.norm(a - b), np.linalg.norm(a - b)])
            exp_mid = np.stack([np.append((a + b) / 2, 1), np.append(b + (b - a) / 2, 1)])
        else:
            s = Segment(IP(np.append(a, 1) * sc[0], c.get("intd")), IP(np.append(b, 1) * sc[1], c.get("intd")))
            exp_len = np.linalg.norm(a - b)
            exp_mid = np.append((a + b) / 2, 1)
        s = der(s)
        L, f = call("Segment.length", lambda: s.length)
        if f:
            ck.add(f)
        else:
            ck.check(np.shape(L) == np.shape(exp_len) and close(L, exp_len), f"segment{d}:length", (np.asarray(L).tolist(),))
        m, f = call("Segment.midpoint", lambda: s.midpoint)
        if f:
            ck.add(f)
        else:
            ck.check(m.array.shape == exp_mid.shape and C.peq_all(m.array, exp_mid, 1, 1e-7), f"segment{d}:midpoint" + (":coll" if c["coll"] else ""), (m.array.tolist(), exp_mid.tolist()))
        r, f = call("Simplex(2 points)", lambda: Simplex(P(a), P(b)))
        if f is None:
            ck.check(isinstance(r, Segment), "Simplex:two-points-is-segment")
        return ck.result()
    if what in ("triangle2", "triangle3"):
        d = int(what[-1])
        # rational vertices p / w given by the integral representative (p, w): the affine coordinates are not integers
        ws = c.get("w", [1, 1, 1, 1])
        if len(ws) != 4 or any(x not in (1, 2, 4, -2) for x in ws):
            raise Skip("malformed")
        pts = [np.array(v[i * d : i * d + d], float) / ws[i] for i in range(3)]
        e1, e2 = pts[1] - pts[0], pts[2] - pts[0]
        area = abs(e1[0] * e2[1] - e1[1] * e2[0]) / 2 if d == 2 else np.linalg.norm(np.cross(e1, e2)) / 2
        if area == 0:
            raise Skip("degenerate")
        t = der(Triangle(*[IP(np.append(p, 1) * w_ * (s if abs(s) >= 1 else 1), c.get("intd")) for p, s, w_ in zip(pts, sc, ws)]))
        a, f = call("Triangle.area", lambda: t.area)
        if f:
            ck.add(f)
        else:
            ck.check(close(a, area), f"{what}:area", (float(a), area))
        vol, f = call("Triangle.volume", lambda: t.volume)
        if f:
            ck.add(f)
        else:
            ck.check(close(vol, area), f"{what}:volume", (float(np.real(vol)), area))
        cc, f = call("Triangle.circumcenter", lambda: t.circumcenter)
        if f:
            ck.add(f)
        else:
            x = cc.array[:-1] / cc.array[-1]
            ds = [np.linalg.norm(x - p) for p in pts]
            ck.check(max(ds) - min(ds) < 1e-6 * max(1, max(ds)), f"{what}:circumcenter:equidistant", ds)
            if d == 3:
                ck.check(abs(np.dot(x - pts[0], np.cross(e1, e2))) < 1e-6 * max(1, np.linalg.norm(np.cross(e1, e2))), f"{what}:circumcenter:in-plane")
        ce, f = call("Triangle.centroid", lambda: t.centroid)
        if f:
            ck.add(f)
        else:
            ck.check(C.peq_all(ce.array, np.append(sum(pts) / 3, 1), 1, 1e-7), f"{what}:centroid", ce.array.tolist())
        return ck.result()
    if what == "tetrahedron":
        ws = c.get("w", [1, 1, 1, 1])
        if len(ws) != 4 or any(x not in (1, 2, 4, -2) for x in ws):
            raise Skip("malformed")
        pts = [np.array(v[i * 3 : i * 3 + 3], float) / ws[i] for i in range(4)]
        vol = abs(np.linalg.det(np.stack([p - pts[0] for p in pts[1:]]))) / 6
        if vol == 0:
            raise Skip("degenerate")
        s = der(Simplex(*[IP(np.append(p, 1) * w_ * (k if abs(k) >= 1 else 1), c.get("intd")) for p, k, w_ in zip(pts, sc, ws)]))
        r, f = call("Simplex.volume", lambda: s.volume)
        if f:
            ck.add(f)
        else:
            ck.check(close(r, vol), "tetrahedron:volume", (float(r), vol))
        vs, f = call("Simplex.vertices", lambda: s.vertices)
        if f is None:
            ck.check(len(vs) == 4, "tetrahedron:vertices", len(vs))
        fs, f = call("Simplex.facets", lambda: s.facets)
        if f is None:
            ck.check(len(fs) == 4 and all(isinstance(x, Triangle) for x in fs), "tetrahedron:facets", [type(x).__name__ for x in fs])
        return ck.result()
    if what in ("cuboid", "polyhedron_eq"):
        u, w, x = orth_frame(v)
        o = np.array(v[6:9], float)
        la, lb, lc = c["lens"]
        eu, ew, ex = u / np.linalg.norm(u) * la, w / np.linalg.norm(w) * lb, x / np.linalg.norm(x) * lc
        cub, f = call("Cuboid", lambda: Cuboid(P(o), P(o + eu), P(o + ew), P(o + ex)))
        if f:
            return [f]
        cub = der(cub)
        if what == "cuboid":
            a, f = call("Cuboid.area", lambda: cub.area)
            if f:
                ck.add(f)
            else:
                ck.check(close(a, 2 * (la * lb + lb * lc + lc * la), 1e-6), "cuboid:area", (float(a), 2 * (la * lb + lb * lc + lc * la)))
            fa, f = call("faces.area", lambda: cub.faces.area)
            if f:
                ck.add(f)
            else:
                ck.check(sorted(np.round(fa, 6).tolist()) == sorted([la * lb, la * lb, lb * lc, lb * lc, lc * la, lc * la]), "cuboid:face-areas", np.asarray(fa).tolist())
            for attr, cnt in (("vertices", 8), ("edges", 12), ("faces", 6)):
                r, f = call(attr, lambda: list(getattr(cub, attr)))
                if f:
                    ck.add(f)
                else:
                    ck.check(len(r) == cnt, f"cuboid:{attr}-count", len(r))
            return ck.result()
        # polyhedron equality: same faces in any order, cyclic rotation / reversal inside a face
        arr = cub.array
        perm = list(c["perm"])
        arr2 = arr[perm].copy()
        arr2[0] = np.roll(arr2[0], v[9] % 4, axis=0)
        arr2[1] = arr2[1][::-1]
        B = Polyhedron(arr2)
        r, f = call("Polyhedron.__eq__", lambda: cub == B)
        if f:
            ck.add(f)
        else:
            ck.check(bool(r), "polyhedron-eq:permuted-faces", perm)
        other, f = call("Cuboid", lambda: Cuboid(P(o), P(o + eu), P(o + ew), P(o + 2 * ex)))
        if f is None:
            r, f = call("Polyhedron.__eq__", lambda: cub == other)
            if f:
                ck.add(f)
            else:
                ck.check(not bool(r), "polyhedron-eq:different-cuboid")
        return ck.result()
    if what == "concave_prism":
        # a prism over a concave quadrilateral (arrowhead / dart), every face listed from an arbitrary start vertex and in either
        # direction: area = 2 * base + perimeter * height (the faces are concave quadrilaterals and rectangles)
        u, w, x = orth_frame(v)
        eu, ew, ex = u / np.linalg.norm(u), w / np.linalg.norm(w), x / np.linalg.norm(x)
        o = np.array(v[6:9], float)
        k, hgt = float(c["lens"][0]), float(c["lens"][1])
        darts = [[(0, 2), (2, -2), (0, -1), (-2, -2)], [(0, 0), (4, 0), (1, 1), (0, 4)], [(0, 0), (3, 1), (6, 0), (3, 5)]]
        base2 = [(k * a, k * b) for a, b in darts[abs(v[9]) % 3]]
        emb = lambda p, z: o + p[0] * eu + p[1] * ew + z * ex  # noqa: E731
        bot = [emb(p, 0.0) for p in base2]
        top = [emb(p, hgt) for p in base2]
        faces = [bot[::-1], top] + [[bot[i], bot[(i + 1) % 4], top[(i + 1) % 4], top[i]] for i in range(4)]
        rolled = []
        for j, fc in enumerate(faces):
            fc = fc[(c["perm"][j] % 4):] + fc[: (c["perm"][j] % 4)]
            if c["w"][j % 4] < 0:
                fc = fc[::-1]
            rolled.append(np.array([np.append(q, 1.0) * (sc[(j + i) % 4] if c["coll"] else 1.0) for i, q in enumerate(fc)]))
        ph, f = call("Polyhedron(concave prism)", lambda: Polyhedron(np.stack(rolled)))
        if f:
            return [f]
        ph = der(ph)
        area2 = abs(sum(base2[i][0] * base2[(i + 1) % 4][1] - base2[(i + 1) % 4][0] * base2[i][1] for i in range(4))) / 2
        per = sum(math.hypot(base2[(i + 1) % 4][0] - base2[i][0], base2[(i + 1) % 4][1] - base2[i][1]) for i in range(4))
        want = 2 * area2 + per * hgt
        a, f = call("Polyhedron.area", lambda: ph.area)
        if f:
            ck.add(f)
        else:
            ck.check(close(a, want, 1e-6), "concave-prism:area", (float(a), want, [int(x) % 4 for x in c["perm"]]))
        fa, f = call("faces.area", lambda: ph.faces.area)
        if f:
            ck.add(f)
        else:
            ck.check(close(float(np.sum(fa)), want, 1e-6), "concave-prism:sum-of-face-areas", (np.asarray(fa).tolist(), want))
        return ck.result()
    if what in ("regular2", "regular3"):
        n, r = c["n"], c["r"]
        if what == "regular2":
            ctr = np.array(v[0:2], float)
            rp, f = call("RegularPolygon", lambda: RegularPolygon(P(ctr), r, n))
        else:
            ctr = np.array(v[0:3], float)
            ax = np.array(v[3:6], float)
            if not np.any(ax):
                raise Skip("zero axis")
            rp, f = call("RegularPolygon", lambda: RegularPolygon(P(ctr), r, n, axis=P(ax)))
        if f:
            return [f]
        rp = der(rp)
        V = rp.array[:, :-1] / rp.array[:, -1:]
        ck.check(V.shape[0] == n and np.allclose(np.linalg.norm(V - ctr, axis=1), r, atol=1e-9), f"{what}:vertices-on-circle", np.linalg.norm(V - ctr, axis=1).tolist())
        side = 2 * r * math.sin(math.pi / n)
        ck.check(np.allclose(np.linalg.norm(V - np.roll(V, 1, axis=0), axis=1), side, atol=1e-9), f"{what}:equal-sides")
        if what == "regular3":
            ck.check(np.allclose((V - ctr) @ ax, 0, atol=1e-9 * max(1, np.linalg.norm(ax))), f"{what}:in-plane-perpendicular-to-axis")
        ce, f = call("center", lambda: rp.center)
        if f:
            ck.add(f)
        else:
            ck.check(C.peq_all(ce.array, np.append(ctr, 1), 1, 1e-9), f"{what}:center", (ce.array.tolist(), ctr.tolist()))
        ra, f = call("radius", lambda: rp.radius)
        if f:
            ck.add(f)
        else:
            ck.check(close(ra, r), f"{what}:radius", (float(ra), r))
        ir, f = call("inradius", lambda: rp.inradius)
        if f:
            ck.add(f)
        else:
            ck.check(close(ir, r * math.cos(math.pi / n)), f"{what}:inradius", (float(ir), r * math.cos(math.pi / n)))
        a, f = call("area", lambda: rp.area)
        if f:
            ck.add(f)
        else:
            ck.check(close(a, n * r * r * math.sin(2 * math.pi / n) / 2, 1e-6), f"{what}:area", float(a))
        return ck.result()
    raise KeyError(what)


LAWS = [
    Law("polygon_measures", lambda tier: poly_case(tier), run_poly, poly_nontrivial,
        lambda c: ["embedded3d" if c["embed"] else "planar", "coll" if c["coll"] else "single"] + (["reversed"] if c["rev"] else []) + (["isometry"] if c["use_iso"] else []) + (["measured-before-moved"] if c["use_iso"] and c.get("used") else []) + (["derived-from-a-used-object"] if c.get("derive") else []),
        {"quick": 1500, "thorough": 30000}, "Polygon.area / centroid vs exact shoelace, through embeddings, isometries, vertex-cycle rotations/reversal, rescaled vertices", shard=200),
    Law("polygon_equality", lambda tier: eq_case(tier), run_eq, lambda c: True, lambda c: [c["variant"], "embedded3d" if c["embed"] else "planar"], {"quick": 1200, "thorough": 20000},
        "== true exactly for the same vertex cycle up to rotation / reversal / rescaling, false for perturbed cycles", shard=300),
    Law("solids", lambda tier: solid_case(tier), run_solid, lambda c: any(c["v"][6:9]), lambda c: [c["what"]] + (["derived-from-a-used-object"] if c.get("derive") else []) + (["integer-typed-requested"] if c.get("intd") else []), {"quick": 1600, "thorough": 25000},
        "Segment.length/midpoint, Triangle area/volume/circumcenter/centroid, tetrahedron volume, Cuboid area and counts, RegularPolygon, polyhedron ==", shard=150),
]


# ------------------------------------------------------------------------------------------- equivalent ways of asking
from .. import forms as _forms  # noqa: E402

LAWS.append(
    Law("argument_forms", lambda tier: _forms.forms_case_strategy("C17")(tier), _forms.run_forms("C17"), lambda c: True, lambda c: [c["entry"], f"d{c['d']}"], {"quick": 600, "thorough": 8000},
        "the same object asked for in several ways (positional / keyword arguments, other representatives of point arguments, int / float / numpy scalars, defaults given explicitly, symmetric argument orders): all forms agree", shard=40, mandatory=("Quadrilateral", "TransformedRegularPolygon"))
)
