"""C18 Polytope intersections return exactly the common points."""
from __future__ import annotations

from fractions import Fraction

import numpy as np
from hypothesis import strategies as st

import geometer as G
from geometer import Cuboid, Line, Plane, Point, PointCollection, Polygon, Rectangle, Segment, SegmentCollection, Triangle

from .. import common as C
from .. import exact as X
from .. import zoo as Z
from ..runner import Checker, Fail, Law, Skip, call
from .c16 import DIRS

RULE = (
    "Lattice segments vs segments / lines (2D, and embedded in 3D incl. skew pairs), segments vs planes (3D); simple lattice "
    "polygons (convex and non-convex) vs lines / segments in 2D incl. through vertices, along edges, touching; planar polygons in "
    "3D vs lines / segments that pierce inside, hit an edge or vertex, miss, are parallel or lie in the supporting plane; cuboids "
    "(orthogonal integer frames, any orientation) vs lines / segments through the interior, through vertices / edges, parallel to "
    "faces, inside a face plane, missing; collections. Non-trivial = contact through a vertex/edge, parallel or coplanar operands, "
    "or an empty result; distinct by case hash."
)
ASSUMPTIONS = [
    "oracle: exact Fraction intersection (segment-segment, line-polygon boundary, plane piercing point + exact membership, slab "
    "method in box coordinates); returned points compared by coordinates as a multiset, tol 1e-7",
    "collinear / coplanar overlaps (infinitely many common points) only require that every returned point lies on both operands and "
    "that no exception is raised",
]


def F(v):
    return [Fraction(int(x)) for x in v]


DEN = [1.0]  # all Cartesian coordinates of a case are divided by this (set per case): for 10, 3, 7 the floats have full mantissas


def P(v):
    return Point(hom(v))


def hom(v):
    return np.append(np.array([float(x) for x in v]) / DEN[0], 1.0)


ES = [1.0, 1.0]  # factors of the homogeneous representatives of the two end points of the segments built by SEG (set per case)
ES_VALUES = (1.0, -1.0, 2.0, -0.5)


def set_endpoint_scales(c):
    es = c.get("es", [0, 0])
    if len(es) != 2 or any(not isinstance(k, int) or not 0 <= k < len(ES_VALUES) for k in es):
        raise Skip("malformed")
    ES[0], ES[1] = ES_VALUES[es[0]], ES_VALUES[es[1]]
    if c.get("den", 1) not in (1, 3, 7, 10):
        raise Skip("malformed")
    DEN[0] = float(c.get("den", 1))


def SEG(p, q):
    """segment pq with scrambled (also negative) representatives of its end points"""
    return Segment(Point(hom(p) * ES[0]), Point(hom(q) * ES[1]))


def line_seg_2d(p, d, a, b):
    """line p + t d (t in R) vs closed segment ab, exact: ('none',) | ('point', q) | ('overlap',)"""
    e = [b[0] - a[0], b[1] - a[1]]
    den = d[0] * e[1] - d[1] * e[0]
    w = [a[0] - p[0], a[1] - p[1]]
    if den == 0:
        if d[0] * w[1] - d[1] * w[0] == 0:
            return ("overlap",)
        return ("none",)
    # p + t d = a + u e  =>  u = (w x d) / (d x e)  with w = a - p (2D cross products)
    u = (w[0] * d[1] - w[1] * d[0]) / den
    if 0 <= u <= 1:
        return ("point", [a[0] + u * e[0], a[1] + u * e[1]])
    return ("none",)


def dedupe(pts):
    out = []
    for p in pts:
        if not any(all(x == y for x, y in zip(p, q)) for q in out):
            out.append(p)
    return out


def compare(ck, got, exp, site, tol=1e-7):
    garr = [np.asarray(g.array) for g in got]
    earr = [hom(e) for e in exp]
    ck.check(len(garr) == len(earr) and C.multiset_peq(garr, earr, tol), site, ([g.tolist() for g in garr], [[float(x) for x in e] for e in exp]))


# ------------------------------------------------------------------------------------------- segments
@st.composite
def seg_case(draw, tier="quick"):
    what = draw(st.sampled_from(["seg_seg2", "seg_line2", "seg_seg3", "seg_plane3", "seg_seg2_coll", "ray_line2"]))
    return {"what": what, "v": [draw(C.ints(5)) for _ in range(12)], "mode": draw(st.sampled_from(["generic", "generic", "touch_endpoint", "collinear", "parallel", "T"])),
            "frame": [draw(C.ints(3)) for _ in range(9)], "t": draw(st.integers(-2, 4)), "skew": draw(st.booleans()),
            "derive": draw(st.sampled_from(Z.DERIVATIONS)), "move": [draw(st.integers(-4, 4)) for _ in range(3)],
            "es": [draw(st.sampled_from([0, 0, 1, 2, 3])), draw(st.sampled_from([0, 0, 1, 2, 3]))], "den": draw(st.sampled_from([1, 1, 10, 3, 7]))}


def seg_pair(c):
    v = c["v"]
    a, b = F(v[0:2]), F(v[2:4])
    cc, d = F(v[4:6]), F(v[6:8])
    mode = c["mode"]
    if a == b:
        raise Skip("degenerate")
    e = [b[0] - a[0], b[1] - a[1]]
    if mode == "touch_endpoint":
        cc = b
    elif mode == "collinear":
        t = Fraction(c["t"], 2)
        cc = [a[0] + t * e[0], a[1] + t * e[1]]
        d = [cc[0] + e[0], cc[1] + e[1]]
    elif mode == "parallel":
        d = [cc[0] + e[0], cc[1] + e[1]]
    elif mode == "T":
        cc = [a[0] + e[0] / 2, a[1] + e[1] / 2]
    if cc == d:
        raise Skip("degenerate")
    return a, b, cc, d


def run_seg(c):
    set_endpoint_scales(c)
    what = c["what"]
    ck = Checker()
    a, b, cc, d = seg_pair(c)
    mode = c["mode"]
    if what in ("seg_seg2", "seg_seg2_coll"):
        res = X.seg_seg_intersection(a, b, cc, d)
        s1, s2 = SEG(a, b), SEG(cc, d)
        if what == "seg_seg2" and c.get("derive"):
            # the first operand is obtained by moving a segment that has already been used
            s1, f = call(f"{what}:derive", Z.derive_moved, lambda rows: Segment(Point(rows[0]), Point(rows[1])), np.stack([hom(a), hom(b)]), c["derive"], c.get("move", [1, 2, 3]),
                         lambda rows0: Point(rows0[0]), lambda s0: s0.intersect(SEG(cc, d)))
            if f:
                return [f]
        if what == "seg_seg2_coll":
            # second position: the same pair shifted (so same answer shifted), third: far apart (no intersection)
            sh = [Fraction(7), Fraction(-3)]
            far = [Fraction(40), Fraction(40)]
            # fourth position: two diagonals of a square that cross properly (whatever the mode of the other positions is)
            A1 = PointCollection(np.stack([hom(a), hom([a[0] + sh[0], a[1] + sh[1]]), hom(a), hom([100, 100])]))
            B1 = PointCollection(np.stack([hom(b), hom([b[0] + sh[0], b[1] + sh[1]]), hom(b), hom([102, 102])]))
            C1 = PointCollection(np.stack([hom(cc), hom([cc[0] + sh[0], cc[1] + sh[1]]), hom([cc[0] + far[0], cc[1] + far[1]]), hom([100, 102])]))
            D1 = PointCollection(np.stack([hom(d), hom([d[0] + sh[0], d[1] + sh[1]]), hom([d[0] + far[0], d[1] + far[1]]), hom([102, 100])]))
            s1, s2 = SegmentCollection(A1, B1), SegmentCollection(C1, D1)
            if X.seg_seg_intersection(a, b, [cc[0] + far[0], cc[1] + far[1]], [d[0] + far[0], d[1] + far[1]])[0] != "none":
                raise Skip("far copy still meets")
        r, f = call(f"{what}:{mode}", s1.intersect, s2)
        if f:
            return [f]
        r = list(r)
        if res[0] == "overlap":
            if what == "seg_seg2_coll":
                ck.check(any(C.peq_all(np.asarray(p.array), hom([101, 101]), 1, 1e-7) for p in r), f"{what}:{mode}:crossing-pair-next-to-overlapping-pairs", [np.asarray(p.array).tolist() for p in r])
            return ck.result()
        exp = [res[1]] if res[0] == "point" else []
        if what == "seg_seg2_coll":
            exp = exp + [[e[0] + 7, e[1] - 3] for e in exp] + [[Fraction(101), Fraction(101)]]
        compare(ck, r, exp, f"{what}:{mode}:{'hit' if exp else 'miss'}")
        r2, f = call(f"{what}:{mode}:swapped", s2.intersect, s1)
        if f:
            ck.add(f)
        else:
            compare(ck, list(r2), exp, f"{what}:{mode}:swapped")
        return ck.result()
    if what == "ray_line2":
        # a ray (segment with an end point at infinity) from a in the direction b - a, and the line through cc and d
        e = [b[0] - a[0], b[1] - a[1]]
        dd = [d[0] - cc[0], d[1] - cc[1]]
        den = e[0] * dd[1] - e[1] * dd[0]
        off = (cc[0] - a[0]) * dd[1] - (cc[1] - a[1]) * dd[0]
        ray = Segment(Point(hom(a) * ES[0]), Point(np.array([float(e[0]), float(e[1]), 0.0]) * abs(ES[1])))
        L = Line(P(cc), P(d))
        r, f = call(f"ray_line2:{mode}", ray.intersect, L)
        if f:
            return [f]
        if den == 0:
            if off == 0:
                return []  # the line contains the ray: infinitely many common points
            # parallel: the only common point is the end point at infinity of the ray
            r = list(r)
            ck.check(len(r) == 1 and C.peq_all(np.asarray(r[0].array), np.array([float(e[0]), float(e[1]), 0.0]), 1, 1e-9), f"ray_line2:{mode}:parallel-line-meets-the-ray-at-infinity", [np.asarray(x.array).tolist() for x in r])
            return ck.result()
        t = off / den
        exp = [[a[0] + t * e[0], a[1] + t * e[1]]] if t >= 0 else []
        compare(ck, list(r), exp, f"ray_line2:{mode}:{'hit' if exp else 'miss'}")
        return ck.result()
    if what == "seg_line2":
        dd = [d[0] - cc[0], d[1] - cc[1]]
        res = line_seg_2d(cc, dd, a, b)
        s1 = SEG(a, b)
        L = Line(P(cc), P(d))
        r, f = call(f"seg_line2:{mode}", s1.intersect, L)
        if f:
            return [f]
        if res[0] == "overlap":
            return []
        exp = [res[1]] if res[0] == "point" else []
        compare(ck, list(r), exp, f"seg_line2:{mode}:{'hit' if exp else 'miss'}")
        return ck.result()
    o = np.array(c["frame"][0:3], float)
    u = np.array(c["frame"][3:6], float)
    w = np.array(c["frame"][6:9], float)
    if np.linalg.matrix_rank(np.stack([u, w])) < 2:
        raise Skip("degenerate frame")
    e3 = lambda p: o + float(p[0]) * u + float(p[1]) * w  # noqa: E731
    if what == "seg_seg3" and mode in ("T", "touch_endpoint") and c["skew"]:
        # collections of 3D segments mixing a skew pair with pairs that really meet
        nrm = np.cross(u, w)
        res = X.seg_seg_intersection(a, b, cc, d)
        if res[0] == "overlap":
            raise Skip("overlap")
        sh = np.array([3.0, -2.0, 5.0])
        # fourth position: two segments of one line that share exactly one end point (b' = c')
        t0, t1, t2 = e3(a) - 7 * nrm, e3(b) - 7 * nrm, e3(b) - 7 * nrm + 2 * (e3(b) - e3(a))
        A1 = PointCollection(np.stack([hom(e3(a)), hom(e3(a)), hom(e3(a) + sh), hom(t0)]))
        B1 = PointCollection(np.stack([hom(e3(b)), hom(e3(b)), hom(e3(b) + sh), hom(t1)]))
        C1 = PointCollection(np.stack([hom(e3(cc)), hom(e3(cc) + nrm), hom(e3(cc) + sh), hom(t1)]))
        D1 = PointCollection(np.stack([hom(e3(d)), hom(e3(d) + 2 * nrm), hom(e3(d) + sh), hom(t2)]))
        M = np.stack([np.append(e3(a), 1), np.append(e3(b), 1), np.append(e3(cc) + nrm, 1), np.append(e3(d) + 2 * nrm, 1)])
        if abs(np.linalg.det(M)) < 0.5:
            raise Skip("middle pair not skew")
        r, f = call("seg_seg3:mixed-collection", SegmentCollection(A1, B1).intersect, SegmentCollection(C1, D1))
        if f:
            return [f]
        exp = ([e3(res[1]), e3(res[1]) + sh] if res[0] == "point" else []) + [t1]
        compare(ck, list(r), exp, f"seg_seg3:mixed-collection:{'hit' if len(exp) > 1 else 'miss'}", 1e-6)
        return ck.result()
    if what == "seg_seg3":
        nrm = np.cross(u, w)
        s1 = SEG(e3(a), e3(b))
        if c["skew"]:
            s2 = SEG(e3(cc) + nrm, e3(d) + 2 * nrm)
            # exact: are the lifted segments still coplanar with s1?  lines are skew unless the lifted configuration degenerates
            M = np.stack([np.append(e3(a), 1), np.append(e3(b), 1), np.append(e3(cc) + nrm, 1), np.append(e3(d) + 2 * nrm, 1)])
            if abs(np.linalg.det(M)) < 0.5:
                raise Skip("not skew")
            r, f = call("seg_seg3:skew", s1.intersect, s2)
            if f:
                return [f]
            compare(ck, list(r), [], "seg_seg3:skew:miss")
            return ck.result()
        s2 = SEG(e3(cc), e3(d))
        res = X.seg_seg_intersection(a, b, cc, d)
        r, f = call(f"seg_seg3:{mode}", s1.intersect, s2)
        if f:
            return [f]
        if res[0] == "overlap":
            return []
        exp = [e3(res[1])] if res[0] == "point" else []
        compare(ck, list(r), exp, f"seg_seg3:{mode}:{'hit' if exp else 'miss'}")
        return ck.result()
    if what == "seg_plane3":
        # the plane is the image of the 2D line through cc, d spanned with the normal direction: meets the embedded segment where the 2D line does
        nrm = np.cross(u, w)
        p1, p2, p3 = e3(cc), e3(d), e3(cc) + nrm
        E = Plane(P(p1), P(p2), P(p3))
        s1 = SEG(e3(a), e3(b))
        dd = [d[0] - cc[0], d[1] - cc[1]]
        res = line_seg_2d(cc, dd, a, b)
        r, f = call(f"seg_plane3:{mode}", s1.intersect, E)
        if f:
            return [f]
        if res[0] == "overlap":
            return []
        exp = [e3(res[1])] if res[0] == "point" else []
        compare(ck, list(r), exp, f"seg_plane3:{mode}:{'hit' if exp else 'miss'}")
        return ck.result()
    raise KeyError(what)


# ------------------------------------------------------------------------------------------- polygons
@st.composite
def poly_case(draw, tier="quick"):
    n = draw(st.integers(3, 6))
    idx = sorted(draw(st.permutations(range(16)))[:n])
    return {"idx": idx, "radii": [draw(st.integers(1, 3)) for _ in range(n)], "off": [draw(C.ints(4)), draw(C.ints(4))], "dim": draw(st.sampled_from([2, 2, 3])),
            "frame": [draw(C.ints(3)) for _ in range(9)], "other": draw(st.sampled_from(["line", "segment"])), "mode": draw(st.sampled_from(["generic", "vertex", "two_vertices", "along_edge", "miss", "inplane", "parallel", "level", "level"])),
            "q": [draw(st.integers(-8, 16)) for _ in range(4)], "k": draw(st.integers(0, 5)), "h": draw(st.sampled_from([1, 2, -1, 3])),
            # polygons of 3-space: all coordinates divided by den (for 10, 3, 7 the floats have full mantissas and the arithmetic of the library is
            # inexact), and planes parallel to two coordinate axes (the projection inside the library then keeps the in-plane coordinates)
            "den": draw(st.sampled_from([1, 1, 10, 3, 7])), "axisplane": draw(st.sampled_from([None, None, 0, 1, 2])),
            "derive": draw(st.sampled_from(Z.DERIVATIONS)), "move": [draw(st.integers(-4, 4)) for _ in range(3)],
            "es": [draw(st.sampled_from([0, 0, 1, 2, 3])), draw(st.sampled_from([0, 0, 1, 2, 3]))],
            "vf": [draw(st.sampled_from([1.0, 1.0, -1.0, 2.0, -0.5])) for _ in range(6)]}


def run_poly(c):
    set_endpoint_scales(c)
    pts = [[Fraction(DIRS[i][0] * r + c["off"][0]), Fraction(DIRS[i][1] * r + c["off"][1])] for i, r in zip(c["idx"], c["radii"])]
    if not X.is_simple_polygon(pts):
        raise Skip("not simple")
    n = len(pts)
    mode = c["mode"]
    k = c["k"] % n
    # the second operand in polygon coordinates: points A, B (half-lattice)
    A = [Fraction(c["q"][0], 2), Fraction(c["q"][1], 2)]
    B = [Fraction(c["q"][2], 2), Fraction(c["q"][3], 2)]
    if mode == "vertex":
        A = pts[k]
    elif mode == "two_vertices":
        A, B = pts[k], pts[(k + 2) % n]
    elif mode == "along_edge":
        A, B = pts[k], pts[(k + 1) % n]
    elif mode == "level":
        # level with a vertex: the horizontal ray of the crossing-number test runs through that vertex
        A = [A[0], pts[k][1]]
    if A == B:
        raise Skip("degenerate")
    ck = Checker()
    if c["dim"] == 2:
        if mode in ("inplane", "parallel"):
            raise Skip("3D only")
        vf = [float(x) for x in (c.get("vf") or [1.0] * 6)] + [1.0] * 6  # every vertex by its own (also negative) representative
        if any(x == 0 or abs(x) > 4 for x in vf):
            raise Skip("malformed")
        poly, f = call("polygon2:construct", Z.derive_moved, lambda rows: Polygon(rows), np.array([hom(p) * vf[i] for i, p in enumerate(pts)]), c.get("derive"), c.get("move", [1, 2, 3]),
                       lambda rows0: Point(rows0[0]), lambda p0: p0.intersect(Line(P(A), P(B))))
        if f:
            return [f]
        dd = [B[0] - A[0], B[1] - A[1]]
        overlap = False
        exp = []
        for i in range(n):
            a, b = pts[i], pts[(i + 1) % n]
            res = line_seg_2d(A, dd, a, b) if c["other"] == "line" else X.seg_seg_intersection(A, B, a, b)
            if res[0] == "overlap":
                overlap = True
            elif res[0] == "point":
                exp.append(res[1])
        exp = dedupe(exp)
        other = Line(P(A), P(B)) if c["other"] == "line" else SEG(A, B)
        site = f"polygon2:{c['other']}:{mode}"
        r, f = call(site, poly.intersect, other)
        if f:
            return [f]
        r = list(r)
        if overlap:
            for p in r:
                q = np.asarray(p.array)
                if not ck.check(bool(np.all(np.isfinite(q))) and abs(q[-1]) > 1e-9 * max(1e-300, float(np.max(np.abs(q)))), site + ":overlap:returned-point-finite", np.asarray(q).tolist()):
                    continue
                q = [Fraction(float(np.real(x))).limit_denominator(1000) for x in q[:-1] / q[-1] * DEN[0]]
                onb = any(X.on_segment(pts[i], pts[(i + 1) % n], q) for i in range(n))
                ck.check(onb, site + ":overlap:returned-point-on-boundary", [float(x) for x in q])
            return ck.result()
        compare(ck, r, exp, site + (":hit" if exp else ":miss"))
        if c["other"] == "segment":
            r2, f = call(site + ":swapped", other.intersect, poly)
            if f:
                ck.add(f)
            else:
                compare(ck, list(r2), exp, site + ":swapped")
        return ck.result()
    # ---- polygon in 3-space
    o = np.array(c["frame"][0:3], float)
    u = np.array(c["frame"][3:6], float)
    w = np.array(c["frame"][6:9], float)
    if np.linalg.matrix_rank(np.stack([u, w])) < 2:
        raise Skip("degenerate frame")
    den = c.get("den", 1)
    if den not in (1, 3, 7, 10):
        raise Skip("malformed")
    if c.get("axisplane") is not None:
        ax = int(c["axisplane"]) % 3
        o, u, w = np.roll([0.0, 0.0, o[2]], ax), np.roll([1.0, 0.0, 0.0], ax), np.roll([0.0, 1.0, 0.0], ax)
    nrm = np.cross(u, w)
    e3 = lambda p: o + float(p[0]) * u + float(p[1]) * w  # noqa: E731  (P, hom and SEG divide by den)
    vf = [float(x) for x in (c.get("vf") or [1.0] * 6)] + [1.0] * 6
    if any(x == 0 or abs(x) > 4 for x in vf):
        raise Skip("malformed")
    poly, f = call("polygon3:construct", Z.derive_moved, lambda rows: Polygon(rows), np.array([hom(e3(p)) * vf[i] for i, p in enumerate(pts)]), c.get("derive"), c.get("move", [1, 2, 3]),
                   lambda rows0: Point(rows0[0]), lambda p0: p0.intersect(Line(P(e3(A) + nrm), P(e3(A) - nrm))))
    if f:
        return [f]
    h = c["h"]
    site = f"polygon3:{c['other']}:{mode}" + (":non-dyadic-coordinates" if den != 1 else "")
    if mode == "inplane":
        X1, X2 = e3(A), e3(B)
        exp = None
    elif mode == "parallel":
        X1, X2 = e3(A) + nrm, e3(B) + nrm
        exp = []
    else:
        # pierce the plane at A (polygon coordinates), direction = normal + in-plane offset
        X1 = e3(A) + h * nrm + (e3(B) - e3(A))
        X2 = e3(A) - h * nrm - (e3(B) - e3(A))
        inside = X.point_in_polygon(pts, A)
        exp = [e3(A)] if inside else []
    other = Line(P(X1), P(X2)) if c["other"] == "line" else SEG(X1, X2)
    r, f = call(site, poly.intersect, other)
    if f:
        return [f]
    r = list(r)
    if exp is None:
        for p in r:
            cc, f = call("contains", poly.contains, p)
            if f is None:
                ck.check(bool(np.all(cc)), site + ":returned-point-in-polygon")
        return ck.result()
    compare(ck, r, exp, site + (":hit" if exp else ":miss"), 1e-6)
    if c["other"] == "segment":
        r2, f = call(site + ":swapped", other.intersect, poly)
        if f:
            ck.add(f)
        else:
            compare(ck, list(r2), exp, site + ":swapped" + (":hit" if exp else ":miss"), 1e-6)
    return ck.result()


def poly_labels(c):
    if c.get("derive"):
        return _poly_labels(c) + ["derived-from-a-queried-object"]
    return _poly_labels(c)


def _poly_labels(c):
    return [f"dim{c['dim']}", c["other"], c["mode"]] + (["dim3:level-with-vertex:non-dyadic-coordinates" + (":axis-parallel-plane" if c.get("axisplane") is not None else "")] if c["dim"] == 3 and c["mode"] == "level" and c.get("den", 1) != 1 else []) + (["vertex-representatives-of-mixed-sign"] if len({x > 0 for x in (c.get("vf") or [1.0])[: len(c["idx"])]}) > 1 else [])


# ------------------------------------------------------------------------------------------- cuboids
@st.composite
def cub_case(draw, tier="quick"):
    return {"v": [draw(C.ints(4)) for _ in range(9)], "p": [draw(st.integers(-2, 4)) for _ in range(3)], "q": [draw(st.integers(-2, 4)) for _ in range(3)],
            "mode": draw(st.sampled_from(["generic", "generic", "through_vertices", "through_edge_midpoints", "parallel_to_face", "in_face_plane", "miss"])),
            "other": draw(st.sampled_from(["line", "segment"])), "coll": draw(st.sampled_from([False, False, True])),
            "derive": draw(st.sampled_from(Z.DERIVATIONS)), "move": [draw(st.integers(-4, 4)) for _ in range(3)],
            "es": [draw(st.sampled_from([0, 0, 1, 2, 3])), draw(st.sampled_from([0, 0, 1, 2, 3]))],
            "axis": draw(st.sampled_from([None, None, [1, 1], [2, -1], [-1, 3], [1, 0], [3, 2], [-2, -2]]))}


def run_cub(c):
    set_endpoint_scales(c)
    v = c["v"]
    u = np.array(v[0:3], float)
    w0 = np.array(v[3:6], float)
    w = np.cross(u, w0)
    if not np.any(u) or not np.any(w):
        raise Skip("degenerate")
    x = np.cross(u, w)
    o = np.array(v[6:9], float)
    if c.get("axis") is not None:
        # an axis-parallel cube with edge 2 at a lattice point: face vertices, hit points (half-integers in box units) and
        # the directions of the lines are all on a coarse lattice, where coincidences (a ray through a vertex) are common
        u, w, x = np.array([2.0, 0.0, 0.0]), np.array([0.0, 2.0, 0.0]), np.array([0.0, 0.0, 2.0])
    cub, f = call("Cuboid", Z.derive_moved, lambda rows: Cuboid(*[Point(r) for r in rows]), np.array([np.append(q, 1.0) for q in (o, o + u, o + w, o + x)]),
                  c.get("derive"), c.get("move", [1, 2, 3]), None, lambda c0: c0.intersect(Line(P(o), P(o + u + w + x))))
    if f:
        return [f]
    mode = c["mode"]
    # operands in box coordinates (units of the edges), half-integers
    p = [Fraction(t, 2) for t in c["p"]]
    q = [Fraction(t, 2) for t in c["q"]]
    if mode == "through_vertices":
        p, q = [Fraction(0)] * 3, [Fraction(1)] * 3
    elif mode == "through_edge_midpoints":
        p, q = [Fraction(1, 2), Fraction(0), Fraction(0)], [Fraction(1, 2), Fraction(1), Fraction(1)]
    elif mode == "parallel_to_face":
        q = [q[0], q[1], p[2]]
    elif mode == "in_face_plane":
        p = [p[0], p[1], Fraction(0)]
        q = [q[0], q[1], Fraction(0)]
    elif mode == "miss":
        p = [Fraction(3), p[1], p[2]]
        q = [Fraction(4), q[1], q[2]]
    if p == q:
        raise Skip("degenerate")
    d = [b - a for a, b in zip(p, q)]
    # slab method in box coordinates
    tmin, tmax = None, None
    coplanar_face = False
    lo, hi = Fraction(-10**9), Fraction(10**9)
    if c["other"] == "segment":
        lo, hi = Fraction(0), Fraction(1)
    empty = False
    for i in range(3):
        if d[i] == 0:
            if p[i] < 0 or p[i] > 1:
                empty = True
            if p[i] in (0, 1):
                coplanar_face = True
        else:
            t1, t2 = (0 - p[i]) / d[i], (1 - p[i]) / d[i]
            t1, t2 = min(t1, t2), max(t1, t2)
            tmin = t1 if tmin is None else max(tmin, t1)
            tmax = t2 if tmax is None else min(tmax, t2)
    world = lambda b: o + float(b[0]) * u + float(b[1]) * w + float(b[2]) * x  # noqa: E731
    X1, X2 = world(p), world(q)
    other = Line(P(X1), P(X2)) if c["other"] == "line" else SEG(X1, X2)
    site = f"cuboid:{c['other']}:{mode}" + (":lattice-cube" if c.get("axis") is not None else "")
    if c.get("axis") is not None:
        # first another query on the same solid: a line parallel to two faces that passes above the cube (no common point)
        ax = c["axis"]
        if len(ax) != 2 or not any(ax) or any(not isinstance(t, int) or abs(t) > 3 for t in ax):
            raise Skip("malformed")
        Y1 = world([Fraction(1, 2), Fraction(1, 2), Fraction(3)])
        r0, f = call("cuboid:line-above-the-cube", cub.intersect, Line(P(Y1), P(Y1 + np.array([float(ax[0]), float(ax[1]), 0.0]))))
        if f:
            return [f]
        if len(list(r0)) != 0:
            return [Fail("MISMATCH", "cuboid:line-above-the-cube:0-points", str([np.asarray(t.array).tolist() for t in r0])[:300])]
    r, f = call(site, cub.intersect, other)
    if f:
        return [f]
    r = list(r)
    ck = Checker()
    if coplanar_face and not empty:
        # the operand lies in a face plane: infinitely many common points possible -> soundness only:
        # every returned point lies in the box AND on the other operand (within the segment for segments)
        for pt in r:
            a = np.asarray(pt.array)
            if not ck.check(np.all(np.isfinite(a)) and abs(a[-1]) > 1e-12, site + ":returned-point-finite", a.tolist()):
                continue
            xyz = np.real(a[:-1] / a[-1])
            bc = np.array([np.dot(xyz - o, e) / np.dot(e, e) for e in (u, w, x)])
            ck.check(all(-1e-7 <= t <= 1 + 1e-7 for t in bc), site + ":returned-point-in-box", bc.tolist())
            pf = np.array([float(t) for t in p])
            df = np.array([float(t) for t in d])
            t = np.dot(bc - pf, df) / np.dot(df, df)
            ck.check(np.linalg.norm(pf + t * df - bc) < 1e-7, site + ":returned-point-on-line", bc.tolist())
            if c["other"] == "segment":
                ck.check(-1e-7 <= t <= 1 + 1e-7, site + ":returned-point-on-segment", (bc.tolist(), float(t)))
        return ck.result()
    exp = []
    if not empty and tmin is not None and tmin <= tmax:
        for t in ([tmin, tmax] if tmin != tmax else [tmin]):
            if lo <= t <= hi:
                exp.append(world([a + t * b for a, b in zip(p, d)]))
    compare(ck, r, exp, site + (f":{len(exp)}-points"), 1e-6)
    if c["other"] == "segment":
        # the same question asked of the segment: segment.intersect(cuboid)
        r2, f = call(site + ":swapped", other.intersect, cub)
        if f:
            ck.add(f)
        else:
            compare(ck, list(r2), exp, site + f":swapped:{len(exp)}-points", 1e-6)
    return ck.result()



# ------------------------------------------------------------------------------------------- 3D polygon against collections
@st.composite
def polycoll_case(draw, tier="quick"):
    n = draw(st.integers(3, 6))
    idx = sorted(draw(st.permutations(range(16)))[:n])
    m = draw(st.integers(1, 5))
    members = [{"mode": draw(st.sampled_from(["pierce", "pierce", "parallel", "short", "inplane"])), "q": [draw(st.integers(-8, 16)) for _ in range(4)], "h": draw(st.sampled_from([1, 2, -1, 3]))} for _ in range(m)]
    return {"idx": idx, "radii": [draw(st.integers(1, 3)) for _ in range(n)], "off": [draw(C.ints(4)), draw(C.ints(4))], "frame": [draw(C.ints(3)) for _ in range(9)],
            "other": draw(st.sampled_from(["lines", "segments"])), "members": members, "es": [draw(st.sampled_from([0, 0, 1, 2, 3])), draw(st.sampled_from([0, 0, 1, 2, 3]))]}


def run_polycoll(c):
    """one polygon of 3-space against a LineCollection / SegmentCollection whose members pierce its plane inside or outside the
    polygon, are parallel to the plane, or (segments) end before they reach it: the returned points are exactly the piercing
    points of the members that hit the polygon"""
    set_endpoint_scales(c)
    pts = [[Fraction(DIRS[i][0] * r + c["off"][0]), Fraction(DIRS[i][1] * r + c["off"][1])] for i, r in zip(c["idx"], c["radii"])]
    if not X.is_simple_polygon(pts):
        raise Skip("not simple")
    o, u, w = (np.array(c["frame"][i : i + 3], float) for i in (0, 3, 6))
    if np.linalg.matrix_rank(np.stack([u, w])) < 2:
        raise Skip("degenerate frame")
    nrm = np.cross(u, w)
    e3 = lambda p: o + float(p[0]) * u + float(p[1]) * w  # noqa: E731
    poly = Polygon(np.array([np.append(e3(p), 1.0) for p in pts]))
    ends, exp = [], []
    for mb in c["members"]:
        A = [Fraction(mb["q"][0], 2), Fraction(mb["q"][1], 2)]
        B = [Fraction(mb["q"][2], 2), Fraction(mb["q"][3], 2)]
        if A == B or mb["mode"] not in ("pierce", "parallel", "short", "inplane"):
            raise Skip("degenerate member")
        if any(X.on_segment(pts[i], pts[(i + 1) % len(pts)], A) for i in range(len(pts))) and mb["mode"] != "parallel":
            pass  # boundary points belong to the polygon (closed region)
        h = mb["h"]
        if mb["mode"] == "parallel":
            X1, X2 = e3(A) + nrm, e3(B) + nrm
        elif mb["mode"] == "inplane":
            X1, X2 = e3(A), e3(B)  # infinitely many (or no) common points: whatever is returned for it must lie in the polygon
        elif mb["mode"] == "short" and c["other"] == "segments":
            X1, X2 = e3(A) + h * nrm + (e3(B) - e3(A)), e3(A) + 3 * h * nrm + 2 * (e3(B) - e3(A))
        else:
            X1, X2 = e3(A) + h * nrm + (e3(B) - e3(A)), e3(A) - h * nrm - (e3(B) - e3(A))
            if X.point_in_polygon(pts, A):
                exp.append(e3(A))
        ends.append((X1, X2))
    kinds = sorted({mb["mode"] for mb in c["members"]})
    site = f"polygon3:{c['other']}-collection:" + "+".join(kinds)
    if c["other"] == "lines":
        other = G.LineCollection(np.stack([Line(P(a), P(b)).array for a, b in ends]))
    else:
        other = G.SegmentCollection(np.stack([np.stack([hom(a) * ES[0], hom(b) * ES[1]]) for a, b in ends]))
    r, f = call(site, poly.intersect, other)
    if f:
        return [f]
    ck = Checker()
    # the same point may be hit by two members: compare as multisets without merging
    garr = [np.asarray(g.array) for g in list(r)]
    earr = [hom(e) for e in exp]
    if "inplane" in kinds:
        # members inside the plane may add points of the polygon; the piercing points of the other members are all there
        rest = list(garr)
        for e in earr:
            j = next((j for j, g in enumerate(rest) if C.peq_all(g, e, 1, 1e-6)), None)
            if not ck.check(j is not None, site + ":piercing-point-missing", ([g.tolist() for g in garr], e.tolist())):
                return ck.result()
            rest.pop(j)
        for g in rest:
            cc, f = call("contains", poly.contains, Point(g))
            if f is None:
                ck.check(bool(np.all(cc)), site + ":extra-point-not-in-polygon", g.tolist())
        return ck.result()
    ck.check(len(garr) == len(earr) and C.multiset_peq(garr, earr, 1e-6), site + (":hit" if exp else ":miss"), ([g.tolist() for g in garr], [e.tolist() for e in earr]))
    return ck.result()


# ------------------------------------------------------------------------------------------- a non-convex polyhedron
@st.composite
def lblock_case(draw, tier="quick"):
    return {"dims": [draw(st.integers(1, 2)), draw(st.integers(1, 2)), draw(st.integers(1, 2)), draw(st.integers(1, 3)), draw(st.integers(1, 3))], "frame": [draw(C.ints(3)) for _ in range(9)],
            "p": [draw(st.integers(-2, 12)) for _ in range(3)], "q": [draw(st.integers(-2, 12)) for _ in range(3)], "other": draw(st.sampled_from(["line", "line", "segment"])), "swap": draw(st.booleans())}


def lblock_labels(c):
    try:
        A2, B1, H, da, db = [int(x) for x in c["dims"]]
        P0 = [Fraction(x, 4) for x in c["p"]]
        dv = [Fraction(b, 4) - a for a, b in zip(P0, c["q"])]
        hits = []
        for axis, val, (r1, r2), _ in Z.l_block(A2 + da, A2, B1, B1 + db, H):
            if dv[axis] == 0:
                if P0[axis] == val:
                    return [c["other"]]
                continue
            t = (val - P0[axis]) / dv[axis]
            if c["other"] == "segment" and not 0 <= t <= 1:
                continue
            pt = [a + t * b for a, b in zip(P0, dv)]
            oa = [k for k in range(3) if k != axis]
            if r1[0] <= pt[oa[0]] <= r1[1] and r2[0] <= pt[oa[1]] <= r2[1]:
                hits.append(pt)
        n = len(dedupe(hits))
        return [c["other"], f"{n}-common-points"] + ([">=3-common-points"] if n >= 3 else [])
    except Exception:  # noqa: BLE001
        return [c["other"]]


def run_lblock(c):
    """an L-shaped block (ten rectangles, non-convex) under an integer affine frame, cut by the line / segment through two quarter-lattice
    points: a line may enter and leave such a solid twice - all common points with the faces are returned, each once"""
    from geometer.shapes import Polyhedron

    set_endpoint_scales({})
    A2, B1, H, da, db = [int(x) for x in c["dims"]]
    A, B = A2 + da, B1 + db
    o = np.array(c["frame"][0:3], float)
    u, w0 = np.array(c["frame"][3:6], float), np.array(c["frame"][6:9], float)
    x3 = np.cross(u, w0)
    if not np.any(x3):
        raise Skip("degenerate frame")
    M = np.stack([u, w0, x3], axis=1)
    loc = lambda p: o + M @ np.array([float(x) for x in p])  # noqa: E731
    P0 = [Fraction(x, 4) for x in c["p"]]
    P1 = [Fraction(x, 4) for x in c["q"]]
    dv = [b - a for a, b in zip(P0, P1)]
    if not any(dv):
        raise Skip("degenerate")
    faces = Z.l_block(A, A2, B1, B, H)
    hits = []
    for axis, val, (r1, r2), _ in faces:
        if dv[axis] == 0:
            if P0[axis] == val:
                raise Skip("line inside a face plane")
            continue
        t = (val - P0[axis]) / dv[axis]
        if c["other"] == "segment" and not 0 <= t <= 1:
            continue
        pt = [a + t * b for a, b in zip(P0, dv)]
        oa = [k for k in range(3) if k != axis]
        if r1[0] <= pt[oa[0]] <= r1[1] and r2[0] <= pt[oa[1]] <= r2[1]:
            hits.append(pt)
    exp = dedupe(hits)
    poly = Polyhedron(*[Polygon(*[P(loc(p)) for p in f[3]]) for f in faces])
    other = Line(P(loc(P0)), P(loc(P1))) if c["other"] == "line" else SEG(loc(P0), loc(P1))
    site = f"l-block:{c['other']}:{len(exp)}-common-points"
    ck = Checker()
    if c["swap"] and c["other"] == "segment":
        r, f = call(site + ":swapped", other.intersect, poly)
    else:
        r, f = call(site, poly.intersect, other)
    if f:
        return [f]
    compare(ck, list(r), [loc(e) for e in exp], site, 1e-6)
    return ck.result()


LAWS = [
    Law("segments", lambda tier: seg_case(tier), run_seg, lambda c: c["mode"] != "generic" or c["skew"], lambda c: [c["what"], c["mode"]], {"quick": 2500, "thorough": 40000},
        "segment.intersect(segment|line|plane) in 2D/3D incl. endpoint contact, collinear, parallel, skew, collections", shard=300),
    Law("polygons", lambda tier: poly_case(tier), run_poly, lambda c: c["mode"] != "generic", poly_labels, {"quick": 2000, "thorough": 40000},
        "polygon.intersect(line|segment): boundary points in 2D, piercing point in 3D, vertices/edges/in-plane/parallel/miss", shard=200),
    Law("polygon3d_vs_collections", lambda tier: polycoll_case(tier), run_polycoll, lambda c: len(c["members"]) > 1,
        lambda c: [c["other"], f"members{len(c['members'])}"] + (["mixed-parallel-and-piercing"] if {"parallel", "pierce"} <= {m["mode"] for m in c["members"]} else []) + (["all-parallel"] if {m["mode"] for m in c["members"]} == {"parallel"} else []) + (["member-in-the-plane"] if any(m["mode"] == "inplane" for m in c["members"]) and len(c["members"]) > 1 else []),
        {"quick": 800, "thorough": 15000}, "one 3D polygon against line / segment collections mixing piercing, missing, parallel and too short members: exactly the piercing points inside the polygon", shard=200,
        mandatory=("mixed-parallel-and-piercing", "member-in-the-plane")),
    Law("cuboids", lambda tier: cub_case(tier), run_cub, lambda c: c["mode"] != "generic", lambda c: [c["other"], c["mode"]] + (["derived-from-a-queried-object"] if c.get("derive") else []) + (["lattice-cube-after-a-parallel-line"] if c.get("axis") is not None else []), {"quick": 900, "thorough": 12000},
        "cuboid.intersect(line|segment) vs slab method: two face points, vertex/edge contact once, parallel, in a face plane, miss", shard=60),
    Law("nonconvex_polyhedron", lambda tier: lblock_case(tier), run_lblock, lambda c: True, lblock_labels, {"quick": 1500, "thorough": 20000},
        "L-shaped block of ten rectangles (non-convex) cut by lines / segments through quarter-lattice points: all common points with the faces, each once (up to four)", shard=100, mandatory=(">=3-common-points",)),
]


def collinear_single_point(case):
    """two collinear segments whose only common point is a shared end point"""
    if not str(case.get("what", "")).startswith("seg_seg"):
        return False
    try:
        a, b, cc, d = seg_pair(case)
    except Skip:
        return False
    if X.orient(a, b, cc) != 0 or X.orient(a, b, d) != 0:
        return False
    return X.seg_seg_intersection(a, b, cc, d)[0] == "point"


PREDICATES = {"collinear_single_point": collinear_single_point}
