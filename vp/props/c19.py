"""C19 Tensor arithmetic and index bookkeeping follow the array semantics."""
from __future__ import annotations

import numpy as np
from hypothesis import strategies as st

import geometer as G
from geometer import Circle, Line, Plane, Point, PointCollection, Polygon, Quadric, Segment
from geometer.base import Tensor, TensorCollection

from .. import common as C
from ..runner import Checker, Fail, HarnessError, Law, Skip, call, exc_fail

RULE = (
    "(a) operand pairings {Tensor of random rank/index-type pattern, Point, PointCollection, Line, Plane, Quadric, Circle, "
    "Segment, Polygon} x {same-shape tensor, point, ndarray, python int/float/complex, numpy scalar, 0-d array} x {+,-,reflected "
    "-,*scalar,/scalar,unary -} and the numpy ufunc spellings; (b) index expressions from a grammar over ints, slices, None, "
    "Ellipsis, integer arrays (1-D/2-D), boolean masks (1-D/N-D), boolean scalars in any order on tensors of rank 1-4 with random "
    "free/co/contravariant pattern; (c) transpose, tensor_product, expand_dims, copy. Non-trivial = index contains an array or None, "
    "or the operand pair is heterogeneous; distinct by case hash."
)
ASSUMPTIONS = [
    "oracle for values: numpy on the underlying arrays; for index types: structural model of numpy's basic/advanced indexing "
    "rules (advanced block placed at the first advanced position if all advanced indices are adjacent, else in front), self-checked "
    "against ndarray.ndim and the shape of every surviving axis",
    "an index that numpy itself rejects is discarded before geometer is called",
]


# --------------------------------------------------------------------------------------------- tensors
@st.composite
def tensor_spec(draw, max_rank=4, sizes=(2, 3)):
    rank = draw(st.integers(1, max_rank))
    shape = [draw(st.sampled_from(sizes)) for _ in range(rank)]
    nfree = draw(st.integers(0, rank - 1)) if draw(st.booleans()) else 0
    cov = [i for i in range(rank - nfree) if draw(st.booleans())]
    total = C.prod(shape)
    base = draw(st.integers(-5, 5))
    return {"shape": shape, "nfree": nfree, "cov": cov, "base": base}


def build_tensor(spec):
    n = C.prod(spec["shape"])
    arr = (np.arange(n) * 7 % 11 + spec["base"]).reshape(spec["shape"])
    t = Tensor(arr, covariant=spec["cov"], tensor_rank=len(spec["shape"]) - spec["nfree"])
    return t, arr


def types_of(t):
    return sorted(t._covariant_indices), sorted(t._contravariant_indices)


# --------------------------------------------------------------------------------------------- (a) arithmetic on Tensor
OPS = ["add", "radd", "sub", "rsub", "mul", "rmul", "div", "neg"]


@st.composite
def arith_case(draw, tier="quick"):
    spec = draw(tensor_spec(3))
    op = draw(st.sampled_from(OPS))
    other = draw(st.sampled_from(["tensor", "ndarray", "ndarray_bcast", "ndarray_lead", "ndarray_lead", "int", "float", "complex", "npscalar", "zerod", "uint8", "uint16", "bool", "point"]))
    if op in ("mul", "rmul", "div"):
        other = draw(st.sampled_from(["int", "float", "complex", "npscalar", "zerod"]))
    val = draw(st.integers(-4, 4).filter(bool))
    return {"spec": spec, "op": op, "other": other, "val": val, "ufunc": draw(st.booleans())}


def make_other(kind, val, arr):
    if kind == "tensor":
        return Tensor(arr[::-1].copy() * val), arr[::-1] * val
    if kind == "ndarray":
        return arr[::-1].copy() * val, arr[::-1] * val
    if kind == "ndarray_bcast":
        v = (np.arange(arr.shape[-1]) + val).copy()
        return v, v
    if kind == "ndarray_lead":
        # an array with additional leading axes: broadcasting adds axes in front of the tensor's own axes
        lead = (2, 1) if val % 2 else (3,)
        v = (np.arange(C.prod(lead) * arr.size).reshape(lead + arr.shape) % 5 + val).copy()
        return v, v
    if kind in ("uint8", "uint16"):
        # an unsigned array (values 1 ... 7): the result is the array result of the float / int tensor and this operand
        v = ((np.arange(arr.size).reshape(arr.shape) * 3 + abs(val)) % 7 + 1).astype(kind)
        return v, v
    if kind == "bool":
        v = (np.arange(arr.size).reshape(arr.shape) + val) % 2 == 0
        return v, v
    if kind == "point":
        # a Point object whose coordinate vector has the length of the last axis (last coordinate 1 or another representative):
        # for a plain tensor it is just another tensor operand, elementwise on the coordinate arrays
        if arr.shape[-1] not in (3, 4):
            raise Skip("no point of this size")
        v = np.append(np.arange(arr.shape[-1] - 1, dtype=float) + val, 1.0) * (2.0 if val % 2 else 1.0)
        return G.Point(v), v
    if kind == "int":
        return int(val), val
    if kind == "float":
        return val / 2, val / 2
    if kind == "complex":
        return complex(val, 1), complex(val, 1)
    if kind == "npscalar":
        return np.float64(val) / 4, val / 4
    if kind == "zerod":
        return np.array(val), val
    raise KeyError(kind)


def apply_op(op, t, x, ufunc):
    if ufunc:
        return {
            "add": lambda: np.add(t, x), "radd": lambda: np.add(x, t), "sub": lambda: np.subtract(t, x),
            "rsub": lambda: np.subtract(x, t), "mul": lambda: np.multiply(t, x), "rmul": lambda: np.multiply(x, t),
            "div": lambda: np.true_divide(t, x), "neg": lambda: np.negative(t),
        }[op]()
    return {
        "add": lambda: t + x, "radd": lambda: x + t, "sub": lambda: t - x, "rsub": lambda: x - t, "mul": lambda: t * x,
        "rmul": lambda: x * t, "div": lambda: t / x, "neg": lambda: -t,
    }[op]()


def call_op(site, op, t, x, ufunc):
    """apply_op on valid operands; a TypeError of the operator protocol itself (every operand returned NotImplemented) has
    no frame inside the library but is the library declining valid operands, not a harness problem"""
    try:
        return apply_op(op, t, x, ufunc), None
    except TypeError as e:
        msg = str(e)
        if "NotImplemented" in msg or "unsupported operand" in msg:
            return None, Fail("EXC:TypeError", site + "@operator-dispatch", msg[:300])
        return None, exc_fail(e, site)
    except Exception as e:  # noqa: BLE001
        return None, exc_fail(e, site)


def np_op(op, a, x):
    return {"add": lambda: a + x, "radd": lambda: x + a, "sub": lambda: a - x, "rsub": lambda: x - a, "mul": lambda: a * x,
            "rmul": lambda: x * a, "div": lambda: a / x, "neg": lambda: -a}[op]()


def run_arith(case):
    t, arr = build_tensor(case["spec"])
    x, xa = make_other(case["other"], case["val"], arr)
    op = case["op"]
    if case["other"] in ("tensor", "point") and op in ("radd", "rsub"):
        raise Skip("both operands tensors: the left operand determines the index types, same as add/sub")
    if case["other"] == "point" and case["ufunc"]:
        # np.add(t, point): numpy hands the call to the operand of the more derived class first, so the Point decides the index
        # types (reflected call) - which operand is "t" is not defined by the statement for two tensor operands of different class
        raise Skip("ufunc form with two tensor operands of different classes")
    site = f"tensor:{op}:{case['other']}" + (":ufunc" if case["ufunc"] else "")
    res, f = call_op(site, op, t, x, case["ufunc"])
    if f:
        return [f]
    ck = Checker()
    exp = np_op(op, arr, xa)
    if not isinstance(res, Tensor):
        return [Fail("MISMATCH", site + ":class", type(res).__name__)]
    ok = ck.check(res.array.shape == exp.shape, site + ":shape", (res.array.shape, exp.shape))
    if ok:
        ck.check(np.array_equal(res.array, exp), site + ":values", C.short((res.array.tolist(), exp.tolist())))
    free = "free" if case["spec"]["nfree"] else "bound"
    # the index types of t; axes that broadcasting adds in front are collection axes, t's own axes follow them
    off = res.array.ndim - arr.ndim
    want = ([i + off for i in types_of(t)[0]], [i + off for i in types_of(t)[1]])
    ck.check(types_of(res) == want, f"tensor:{op}:index-types:{free}" + (":leading-axes-added" if off else ""), (types_of(res), want))
    ck.check(np.array_equal(t.array, arr), site + ":operand-mutated")
    return ck.result()


# --------------------------------------------------------------------------------------------- (a) points: affine model
@st.composite
def point_case(draw, tier="quick"):
    d = draw(st.sampled_from([2, 3]))
    coll = draw(st.sampled_from([0, 0, 2, 3]))
    n = max(1, coll)
    a = [draw(C.hpoint(d)) for _ in range(n)]
    b = [draw(C.hpoint(d)) for _ in range(n)]
    op = draw(st.sampled_from(["add", "sub", "mul", "rmul", "div", "neg"]))
    sa, sb = draw(C.scale()), draw(C.scale())
    return {"d": d, "coll": coll, "a": a, "b": b, "op": op, "sa": sa, "sb": sb, "c": draw(st.sampled_from([2, -3, 0.5, -1])),
            "ufunc": draw(st.booleans()), "bcast": draw(st.booleans()),
            # operands at infinity: the vanishing last coordinate replaced by rounding noise (as computed points at infinity have it)
            "tz": [draw(st.integers(0, len(TINY) - 1)), draw(st.integers(0, len(TINY) - 1))]}


TINY = [0.0, 0.0, 0.0, 5e-13, -1e-13, 1.7e-16, -3e-14]


def cart(v):
    """homogeneous int vector -> (cartesian float array, is_finite)"""
    v = np.array(v, dtype=float)
    if v[-1] != 0:
        return v[:-1] / v[-1], True
    return v[:-1], False


def run_point(case):
    d, coll = case["d"], case["coll"]
    sa, sb = C.scale_value(case["sa"]), C.scale_value(case["sb"])
    A = np.array(case["a"], dtype=float) * sa
    B = np.array(case["b"], dtype=float) * sb
    tz = case.get("tz", [0, 0])
    if len(tz) != 2 or any(not isinstance(k, int) or not 0 <= k < len(TINY) for k in tz):
        raise Skip("malformed")
    # the library calls a point "at infinity" when its last coordinate vanishes up to 1e-8 (isinf)
    A[A[:, -1] == 0, -1] = TINY[tz[0]]
    B[B[:, -1] == 0, -1] = TINY[tz[1]]
    if coll:
        p = PointCollection(A)
        q = Point(B[0]) if case["bcast"] else PointCollection(B)
    else:
        p, q = Point(A[0]), Point(B[0])
    op = case["op"]
    site = f"point:{op}:{'coll' if coll else 'single'}" + (":ufunc" if case["ufunc"] else "")
    x = q if op in ("add", "sub") else case["c"]
    res, f = call_op(site, op, p, x, case["ufunc"])
    if f:
        return [f]
    ck = Checker()
    if not isinstance(res, G.point.PointTensor):
        return [Fail("MISMATCH", site + ":class", type(res).__name__)]
    want_cls = PointCollection if coll else Point
    ck.check(isinstance(res, want_cls), site + ":class", type(res).__name__)
    n = max(1, coll)
    if not ck.check(res.array.shape == ((n, d + 1) if coll else (d + 1,)), site + ":shape", res.array.shape):
        return ck.result()
    R = res.array.reshape((-1, d + 1))
    for i in range(n):
        ca, fa = cart(case["a"][i])
        bi = 0 if (case["bcast"] or not coll) else i
        cb, fb = cart(case["b"][bi])
        if op == "add":
            # directions are only defined up to scale: a direction operand contributes its representative's direction
            if fa and fb:
                exp, fin = ca + cb, True
            elif fa or fb:
                # finite + direction: result is finite, displaced along the direction by an unspecified (representative
                # dependent) amount -> must lie on the line through the finite point with that direction
                base, dirn = (ca, cb) if fa else (cb, ca)
                rc, rf = cart_arr(R[i])
                ck.check(rf, site + ":finite+direction:finite", R[i].tolist())
                if rf:
                    ck.check(np.linalg.matrix_rank(np.stack([rc - base, dirn]), tol=1e-9) <= 1, site + ":finite+direction:on-line", (R[i].tolist(), base.tolist(), dirn.tolist()))
                continue
            else:
                rc, rf = cart_arr(R[i])
                ck.check(not rf, site + ":direction+direction:at-infinity", R[i].tolist())
                continue
        elif op == "sub":
            if fa and fb:
                exp, fin = ca - cb, True
            elif fa or fb:
                base, dirn = (ca, cb) if fa else (-cb, ca)
                rc, rf = cart_arr(R[i])
                ck.check(rf, site + ":finite-direction:finite", R[i].tolist())
                if rf:
                    ck.check(np.linalg.matrix_rank(np.stack([rc - base, dirn]), tol=1e-9) <= 1, site + ":finite-direction:on-line", "")
                continue
            else:
                rc, rf = cart_arr(R[i])
                ck.check(not rf, site + ":direction-direction:at-infinity", R[i].tolist())
                continue
        elif op in ("mul", "rmul"):
            exp, fin = ca * case["c"], fa
        elif op == "div":
            exp, fin = ca / case["c"], fa
        else:
            exp, fin = -ca, fa
        rc, rf = cart_arr(R[i])
        ck.check(rf == fin, site + ":finiteness", (R[i].tolist(), fin))
        if rf == fin:
            if fin:
                ck.check(np.allclose(rc, exp, atol=1e-9), site + ":cartesian", (rc.tolist(), exp.tolist()))
            else:
                ck.check(C.peq_all(rc, exp) if np.any(exp) else True, site + ":direction", (rc.tolist(), exp.tolist()))
    ck.check(np.array_equal(p.array, A if coll else A[0]), site + ":operand-mutated")
    return ck.result()


def cart_arr(v):
    v = np.asarray(v)
    if abs(v[-1]) > 1e-10:
        return np.real_if_close(v[:-1] / v[-1]), True
    return np.real_if_close(v[:-1]), False


# --------------------------------------------------------------------------------------------- (a) objects +- point / array
@st.composite
def obj_case(draw, tier="quick"):
    kind = draw(st.sampled_from(["point", "pointcoll", "line2", "line3", "plane", "quadric", "circle", "segment", "polygon", "dualquadric", "dualcircle"]))
    op = draw(st.sampled_from(["add", "sub", "rsub", "radd", "neg", "mul", "div"]))
    other = draw(st.sampled_from(["point", "ndarray", "int", "float"]))
    if op in ("mul", "div"):
        other = draw(st.sampled_from(["int", "float"]))
    return {"kind": kind, "op": op, "other": other, "v": [draw(st.integers(-5, 5)) for _ in range(12)], "off": [draw(st.integers(-4, 4)) for _ in range(3)],
            "val": draw(st.integers(-3, 3).filter(bool)), "ufunc": draw(st.booleans())}


def build_obj(kind, v):
    """-> (object, dimension, list of exact points on the object (homogeneous) for locus checks)"""
    if kind == "point":
        return Point(v[0], v[1]), 2, None
    if kind == "pointcoll":
        return PointCollection([[v[0], v[1], 1], [v[2], v[3], 1], [v[4], v[5], 0]]), 2, None
    if kind == "line2":
        p, q = np.array([v[0], v[1], 1]), np.array([v[2], v[3], 1])
        if np.array_equal(p, q):
            raise Skip("degenerate")
        return Line(Point(p), Point(q)), 2, [p, q]
    if kind == "line3":
        p, q = np.array([v[0], v[1], v[2], 1]), np.array([v[3], v[4], v[5], 1])
        if np.array_equal(p, q):
            raise Skip("degenerate")
        return Line(Point(p), Point(q)), 3, [p, q]
    if kind == "plane":
        pts = [np.array([v[0], v[1], v[2], 1]), np.array([v[3], v[4], v[5], 1]), np.array([v[6], v[7], v[8], 1])]
        if np.linalg.matrix_rank(np.stack(pts)) < 3:
            raise Skip("degenerate")
        return Plane(*[Point(p) for p in pts]), 3, pts
    if kind == "quadric":
        m = np.array([[v[0], v[1], v[2]], [v[1], v[3], v[4]], [v[2], v[4], v[5]]])
        return Quadric(m), 2, None
    if kind == "dualquadric":
        m = np.array([[v[0], v[1], v[2]], [v[1], v[3], v[4]], [v[2], v[4], v[5]]])
        return Quadric(m, is_dual=True), 2, None
    if kind == "dualcircle":
        return Circle(Point(v[0], v[1]), abs(v[2]) + 1).dual, 2, None
    if kind == "circle":
        r = abs(v[2]) + 1
        c = np.array([v[0], v[1]])
        return Circle(Point(v[0], v[1]), r), 2, [np.array([v[0] + r, v[1], 1]), np.array([v[0], v[1] - r, 1]), np.array([v[0] - 0.6 * r, v[1] + 0.8 * r, 1])]
    if kind == "segment":
        p, q = np.array([v[0], v[1], 1]), np.array([v[2], v[3], 1])
        if np.array_equal(p, q):
            raise Skip("degenerate")
        return Segment(Point(p), Point(q)), 2, None
    if kind == "polygon":
        return Polygon(Point(v[0], v[1]), Point(v[0] + 3, v[1]), Point(v[0] + 3, v[1] + 2), Point(v[0], v[1] + 2)), 2, None
    raise KeyError(kind)


def run_obj(case):
    kind, op, other = case["kind"], case["op"], case["other"]
    o, d, pts = build_obj(kind, case["v"])
    arr = o.array.copy()
    site = f"obj:{kind}:{op}:{other}" + (":ufunc" if case["ufunc"] else "")
    ck = Checker()
    if other == "point":
        if op not in ("add", "sub"):
            raise Skip("not defined")
        if kind in ("point", "pointcoll"):
            raise Skip("covered by point law")
        off = np.array(case["off"][:d], dtype=float)
        # the point is given by any representative (factor val)
        x = Point(np.append(off, 1.0) * case["val"])
        res, f = call_op(site, op, o, x, case["ufunc"])
        if f:
            return [f]
        sgn = 1 if op == "add" else -1
        ck.check(type(res) is type(o) or (kind == "circle" and isinstance(res, Quadric)), site + ":class", type(res).__name__)
        if pts is not None:
            for p in pts:
                moved = np.append(p[:-1] / p[-1] + sgn * off, 1.0)
                c, f = call(site + ":contains", res.contains, Point(moved))
                if f:
                    ck.add(f)
                else:
                    ck.check(bool(np.all(c)), site + ":translated-locus", (moved.tolist(), res.array.tolist()))
            if np.any(off):
                # a point displaced the wrong way must not be on the result (lines/planes: pick one not on it by exact test)
                wrong = np.append(pts[0][:-1] / pts[0][-1] - sgn * off, 1.0)
                orig_contains_wrong = None
                t = G.translation(*(sgn * off))
                pre = np.append(wrong[:-1] - sgn * off, 1.0)
                on_orig, f = call(site + ":contains", o.contains, Point(pre))
                if f is None and not bool(np.all(on_orig)):
                    c, f = call(site + ":contains", res.contains, Point(wrong))
                    if f is None:
                        ck.check(not bool(np.all(c)), site + ":wrong-direction", "")
        elif kind in ("segment", "polygon"):
            exp = arr.astype(float).copy()
            exp[..., :-1] = exp[..., :-1] / exp[..., -1:] + sgn * off
            exp[..., -1] = 1
            ck.check(res.array.shape == exp.shape and C.peq_all(res.array, exp), site + ":translated-vertices", res.array.tolist())
        elif kind in ("dualquadric", "dualcircle"):
            # a dual quadric (its tangent lines) is moved by T D T^T
            T = np.eye(3)
            T[:2, 2] = sgn * off
            exp = T @ arr @ T.T
            ck.check(getattr(res, "is_dual", None) is True and C.peq_all(res.array, exp, 2), site + ":translated-dual-matrix", res.array.tolist())
        elif kind == "quadric":
            # x on Q  <=> x + off on Q + off : compare with matrix T^-T A T^-1
            T = np.eye(3)
            T[:2, 2] = -sgn * off
            exp = T.T @ arr @ T
            ck.check(C.peq_all(res.array, exp, 2), site + ":translated-matrix", res.array.tolist())
        return ck.result()
    # elementwise operand
    if other == "ndarray":
        x = (np.arange(arr.size).reshape(arr.shape) % 3 + case["val"]).astype(float)
    elif other == "int":
        x = int(case["val"])
    else:
        x = case["val"] / 2
    if op == "neg":
        x = None
    if kind in ("point", "pointcoll", "segment", "polygon") and other in ("int", "float") and op in ("mul", "div", "neg"):
        raise Skip("affine scalar multiplication: covered by the point law")
    if kind in ("point", "pointcoll", "segment", "polygon") and op == "neg":
        raise Skip("affine")
    if kind in ("point", "pointcoll", "segment", "polygon") and op == "rsub":
        site_exp = "affine-negation"
    res, f = call_op(site, op, o, x, case["ufunc"])
    if f:
        return [f]
    exp = np_op(op, arr, x)
    if not ck.check(isinstance(res, Tensor), site + ":class", type(res).__name__):
        return ck.result()
    ok = ck.check(res.array.shape == exp.shape, site + ":shape", (res.array.shape, exp.shape))
    if ok:
        ck.check(np.allclose(res.array, exp, atol=1e-12), f"obj:{kind}:{op}:elementwise", C.short((res.array.tolist(), exp.tolist())))
    ck.check(types_of(res) == types_of(o), f"obj:{kind}:{op}:index-types", (types_of(res), types_of(o)))
    ck.check(np.array_equal(o.array, arr), site + ":operand-mutated")
    return ck.result()


# --------------------------------------------------------------------------------------------- (b) indexing
@st.composite
def index_case(draw, tier="quick"):
    spec = draw(tensor_spec(4))
    shape = spec["shape"]
    k = draw(st.sampled_from([1, 2, 2, 3]))
    use_adv = draw(st.sampled_from([False, True, True]))
    elems = []
    ax = 0
    rank = len(shape)
    while ax < rank:
        n = shape[ax]
        choices = ["int", "slice", "slice", "slice"]
        if use_adv:
            choices += ["arr", "arr", "mask"]
            if ax + 1 < rank:
                choices.append("mask2")
            choices.append("arr2d")
        ch = draw(st.sampled_from(choices))
        if ch == "int":
            elems.append({"i": draw(st.integers(-n, n - 1))})
            ax += 1
        elif ch == "slice":
            start = draw(st.sampled_from([None, None, 0, 1, -1]))
            stop = draw(st.sampled_from([None, None, n, 1, -1, 0]))
            step = draw(st.sampled_from([None, None, 1, -1, 2]))
            elems.append({"s": [start, stop, step]})
            ax += 1
        elif ch == "arr":
            m = k if draw(st.booleans()) else 1
            elems.append({"a": [draw(st.integers(-n, n - 1)) for _ in range(m)]})
            ax += 1
        elif ch == "arr2d":
            elems.append({"a": [[draw(st.integers(-n, n - 1))] for _ in range(2)]})
            ax += 1
        elif ch == "mask":
            cnt = min(n, k if draw(st.booleans()) else 1)
            pos = draw(st.permutations(range(n)))[:cnt]
            elems.append({"b": [i in pos for i in range(n)]})
            ax += 1
        else:
            n2 = shape[ax + 1]
            cnt = min(n * n2, k if draw(st.booleans()) else 1)
            pos = draw(st.permutations(range(n * n2)))[:cnt]
            elems.append({"b": [[(i * n2 + j) in pos for j in range(n2)] for i in range(n)]})
            ax += 2
    # truncate trailing elements sometimes (implicit full slices)
    if draw(st.integers(0, 3)) == 0 and len(elems) > 1:
        elems = elems[: draw(st.integers(1, len(elems) - 1))]
    # insert None / boolean scalars at random positions
    for _ in range(draw(st.sampled_from([0, 0, 1, 2]))):
        elems.insert(draw(st.integers(0, len(elems))), "None")
    if use_adv and draw(st.integers(0, 5)) == 0:
        elems.insert(draw(st.integers(0, len(elems))), {"B": draw(st.booleans())})
    # replace a run of full slices by Ellipsis
    if draw(st.integers(0, 3)) == 0:
        full = [i for i, e in enumerate(elems) if e == {"s": [None, None, None]}]
        if full:
            i = draw(st.sampled_from(full))
            j = i
            while j + 1 < len(elems) and elems[j + 1] == {"s": [None, None, None]}:
                j += 1
            elems = elems[:i] + ["..."] + elems[j + 1 :]
    unwrap = len(elems) == 1 and draw(st.booleans())
    if draw(st.integers(0, 11)) == 0:
        # a boolean scalar as the whole index (what `points[~points.isinf]` is for a single object): python bool or numpy bool
        elems = [{"B": draw(st.booleans()), "np": draw(st.booleans())}]
        unwrap = True
    return {"spec": spec, "index": elems, "unwrap": unwrap}


def to_index(elems, unwrap):
    out = []
    for e in elems:
        if e == "None":
            out.append(None)
        elif e == "...":
            out.append(Ellipsis)
        elif "i" in e:
            out.append(int(e["i"]))
        elif "s" in e:
            out.append(slice(*e["s"]))
        elif "a" in e:
            out.append(np.array(e["a"], dtype=int))
        elif "b" in e:
            out.append(np.array(e["b"], dtype=bool))
        elif "B" in e:
            out.append(np.bool_(e["B"]) if e.get("np") else bool(e["B"]))
    if unwrap:
        return out[0]
    return tuple(out)


def index_class(elems):
    kinds = set()
    for e in elems:
        if e == "None":
            kinds.add("None")
        elif e == "...":
            kinds.add("ellipsis")
        elif "i" in e:
            kinds.add("int")
        elif "s" in e:
            kinds.add("slice")
        elif "a" in e:
            kinds.add("array2d" if isinstance(e["a"][0], list) else "array")
        elif "b" in e:
            kinds.add("maskND" if isinstance(e["b"][0], list) else "mask")
        elif "B" in e:
            kinds.add("boolscalar")
    adv = kinds & {"array", "array2d", "mask", "maskND", "boolscalar"}
    n_adv = sum(1 for e in elems if isinstance(e, dict) and ("a" in e or "b" in e or "B" in e))
    if not adv:
        return "basic+None" if "None" in kinds else "basic"
    parts = []
    if "boolscalar" in adv:
        parts.append("boolscalar")
    if "maskND" in adv:
        parts.append("maskND")
    if "array2d" in adv:
        parts.append("array2d")
    parts.append("several-arrays" if n_adv > 1 else "one-array")
    if "int" in kinds:
        parts.append("int")
    if "None" in kinds:
        parts.append("None")
    return "+".join(parts)


def index_model(ndim, elems):
    """source axis (or None for new/collection axes) of every axis of array[index], derived from numpy's rules"""
    # expand Ellipsis
    consumed = 0
    for e in elems:
        if e in ("None", "..."):
            continue
        if "b" in e:
            consumed += np.array(e["b"]).ndim
        elif "B" in e:
            consumed += 0
        else:
            consumed += 1
    items = []
    for e in elems:
        if e == "...":
            items += [{"s": [None, None, None]}] * (ndim - consumed)
        else:
            items.append(e)
    if "..." not in elems:
        items += [{"s": [None, None, None]}] * (ndim - consumed)
    has_array = any(isinstance(e, dict) and ("a" in e or "b" in e or "B" in e) for e in items)
    # classify each item: advanced or basic
    adv_pos = []
    ax = 0
    out_basic = []  # (position in items, source axis or None)
    bshapes = []
    for pos, e in enumerate(items):
        if e == "None":
            out_basic.append((pos, None))
        elif "s" in e:
            out_basic.append((pos, ax))
            ax += 1
        elif "i" in e:
            if has_array:
                adv_pos.append(pos)
                bshapes.append(())
            ax += 1
        elif "a" in e:
            adv_pos.append(pos)
            bshapes.append(np.array(e["a"]).shape)
            ax += 1
        elif "b" in e:
            b = np.array(e["b"])
            adv_pos.append(pos)
            bshapes.append((int(b.sum()),))
            ax += b.ndim
        elif "B" in e:
            adv_pos.append(pos)
            bshapes.append((1,) if e["B"] else (0,))
    if ax != ndim:
        raise HarnessError("index model consumed a wrong number of axes")
    if not adv_pos:
        return [src for _, src in out_basic]
    bnd = len(np.broadcast_shapes(*bshapes))
    adjacent = adv_pos == list(range(adv_pos[0], adv_pos[-1] + 1))
    if adjacent:
        res = []
        placed = False
        for pos, src in out_basic:
            if pos > adv_pos[0] and not placed:
                res += [None] * bnd
                placed = True
            res.append(src)
        if not placed:
            res += [None] * bnd
        return res
    return [None] * bnd + [src for _, src in out_basic]


def run_index(case):
    t, arr = build_tensor(case["spec"])
    idx = to_index(case["index"], case["unwrap"])
    try:
        ref = arr[idx]
    except (IndexError, ValueError):
        raise Skip("numpy rejects the index")
    cls = index_class(case["index"])
    site = f"getitem:{cls}"
    res, f = call(site, lambda: t[idx])
    if f:
        return [f]
    ck = Checker()
    if isinstance(ref, np.generic) or np.ndim(ref) == 0 and not isinstance(ref, np.ndarray):
        ck.check(not isinstance(res, Tensor) and res == ref, site + ":scalar", res)
        return ck.result()
    if not isinstance(res, Tensor):
        return [Fail("MISMATCH", site + ":class", type(res).__name__)]
    ok = ck.check(res.array.shape == ref.shape, site + ":shape", (res.array.shape, ref.shape))
    if ok:
        ck.check(np.array_equal(res.array, ref), site + ":values")
    model = index_model(arr.ndim, case["index"])
    if len(model) != ref.ndim:
        raise HarnessError(f"index model rank {len(model)} != numpy rank {ref.ndim} for {case['index']}")
    cov0, con0 = types_of(t)
    ecov = [i for i, s in enumerate(model) if s in cov0]
    econ = [i for i, s in enumerate(model) if s in con0]
    ck.check(types_of(res) == (ecov, econ), site + ":index-types", (types_of(res), (ecov, econ), model))
    return ck.result()


# --------------------------------------------------------------------------------------------- (c) transpose etc.
@st.composite
def struct_case(draw, tier="quick"):
    spec = draw(tensor_spec(4))
    rank = len(spec["shape"])
    nf = spec["nfree"]
    what = draw(st.sampled_from(["transpose_full", "transpose_default", "transpose_cycle", "tensor_product", "expand_dims", "copy", "T"]))
    perm = list(range(nf)) + [nf + i for i in draw(st.permutations(range(rank - nf)))]
    cyc_len = draw(st.integers(2, max(2, rank - nf)))
    cycle = [nf + i for i in draw(st.permutations(range(rank - nf)))][:cyc_len]
    spec2 = draw(tensor_spec(2))
    axis = draw(st.integers(-rank - 1, rank))
    return {"spec": spec, "what": what, "perm": perm, "cycle": cycle, "spec2": spec2, "axis": axis}


def run_struct(case):
    t, arr = build_tensor(case["spec"])
    what = case["what"]
    rank, nf = arr.ndim, case["spec"]["nfree"]
    cov0, con0 = types_of(t)
    ck = Checker()

    def check_perm(res, perm, site):
        exp = arr.transpose(perm)
        ok = ck.check(res.array.shape == exp.shape and np.array_equal(res.array, exp), site + ":values", perm)
        ecov = [i for i, j in enumerate(perm) if j in cov0]
        econ = [i for i, j in enumerate(perm) if j in con0]
        ck.check(types_of(res) == (ecov, econ), site + ":index-types", (types_of(res), (ecov, econ)))

    if what == "transpose_full":
        res, f = call("transpose", t.transpose, case["perm"])
        if f:
            return [f]
        check_perm(res, case["perm"], "transpose:full")
    elif what in ("transpose_default", "T"):
        res, f = call("transpose", (lambda: t.T) if what == "T" else t.transpose)
        if f:
            return [f]
        check_perm(res, list(range(nf)) + list(reversed(range(nf, rank))), "transpose:default")
    elif what == "transpose_cycle":
        cyc = case["cycle"]
        if len(cyc) >= rank:
            raise Skip("a cycle of full length is read as a full permutation")
        if len(set(cyc)) < 2:
            raise Skip("trivial")
        res, f = call("transpose", t.transpose, cyc)
        if f:
            return [f]
        # either reading direction of the cycle is accepted, but array and index types must agree on one
        p1 = list(range(rank))
        p2 = list(range(rank))
        for i in range(len(cyc)):
            p1[cyc[i]] = cyc[(i + 1) % len(cyc)]
            p2[cyc[(i + 1) % len(cyc)]] = cyc[i]
        for p in (p1, p2):
            exp = arr.transpose(p)
            if res.array.shape == exp.shape and np.array_equal(res.array, exp):
                ecov = [i for i, j in enumerate(p) if j in cov0]
                econ = [i for i, j in enumerate(p) if j in con0]
                if types_of(res) == (ecov, econ):
                    return []
        ck.check(False, "transpose:cycle", (cyc, res.array.shape, types_of(res)))
    elif what == "tensor_product":
        if nf or case["spec2"]["nfree"]:
            raise Skip("documented as bound tensors only")
        u, arr2 = build_tensor(case["spec2"])
        res, f = call("tensor_product", t.tensor_product, u)
        if f:
            return [f]
        cov2, con2 = types_of(u)
        order = cov0 + [rank + i for i in cov2] + con0 + [rank + i for i in con2]
        exp = np.multiply.outer(arr, arr2).transpose(order)
        ck.check(res.array.shape == exp.shape and np.array_equal(res.array, exp), "tensor_product:values")
        nc = len(cov0) + len(cov2)
        ck.check(types_of(res) == (list(range(nc)), list(range(nc, exp.ndim))), "tensor_product:index-types", types_of(res))
    elif what == "expand_dims":
        if nf == 0:
            tc, f = call("TensorCollection", lambda: TensorCollection(arr[None], covariant=case["spec"]["cov"], tensor_rank=rank))
            raise Skip("needs a collection")
        tc = TensorCollection(arr, covariant=case["spec"]["cov"], tensor_rank=rank - nf)
        if types_of(tc) != (cov0, con0):
            raise HarnessError("collection types differ")
        axis = case["axis"]
        pos = axis if axis >= 0 else axis + rank + 1
        if not 0 <= pos <= rank:
            raise Skip("axis out of range")
        try:
            res = tc.expand_dims(axis)
        except ValueError as e:
            if pos > nf:
                return []
            return [exc_fail(e, "expand_dims")]
        except Exception as e:  # noqa: BLE001
            return [exc_fail(e, "expand_dims")]
        if pos > nf:
            return [Fail("NO_RAISE", "expand_dims:inserted-behind-tensor-axes", (axis, nf))]
        exp = np.expand_dims(arr, axis)
        ck.check(res.array.shape == exp.shape and np.array_equal(res.array, exp), "expand_dims:values", (axis, res.array.shape))
        ck.check(types_of(res) == ([i + 1 for i in cov0], [i + 1 for i in con0]), "expand_dims:index-types", (types_of(res), axis))
        ck.check(types_of(tc) == (cov0, con0) and tc.array.shape == arr.shape, "expand_dims:operand-mutated")
    else:
        res, f = call("copy", t.copy)
        if f:
            return [f]
        ck.check(type(res) is type(t) and np.array_equal(res.array, arr) and types_of(res) == (cov0, con0), "copy")
    return ck.result()


def idx_nontrivial(c):
    return any(e == "None" or (isinstance(e, dict) and ("a" in e or "b" in e or "B" in e)) for e in c["index"])


LAWS = [
    Law("arith_tensor", lambda tier: arith_case(tier), run_arith, lambda c: c["other"] != "tensor",
        lambda c: [c["op"], c["other"], "ufunc" if c["ufunc"] else "operator", "free-axes" if c["spec"]["nfree"] else "bound"],
        {"quick": 1500, "thorough": 30000}, "Tensor op X vs numpy on the arrays; index types of t", shard=4000),
    Law("arith_point", lambda tier: point_case(tier), run_point, lambda c: True,
        lambda c: [c["op"], "coll" if c["coll"] else "single", "ufunc" if c["ufunc"] else "operator"] + (["has-infinite"] if any(v[-1] == 0 for v in c["a"] + c["b"]) else [])
        + (["at-infinity-up-to-rounding:" + c["op"]] if (any(v[-1] == 0 for v in c["a"]) and TINY[c["tz"][0]]) or (c["op"] in ("add", "sub") and any(v[-1] == 0 for v in c["b"]) and TINY[c["tz"][1]]) else []),
        {"quick": 2400, "thorough": 30000}, "point arithmetic vs the affine model (directions at infinity, also with a last coordinate that vanishes only up to rounding)", shard=600,
        mandatory=("has-infinite", "at-infinity-up-to-rounding:add", "at-infinity-up-to-rounding:mul", "at-infinity-up-to-rounding:neg")),
    Law("arith_objects", lambda tier: obj_case(tier), run_obj, lambda c: True, lambda c: [c["kind"], c["op"], c["other"]],
        {"quick": 1500, "thorough": 20000}, "Line/Plane/Quadric/Circle/Segment/Polygon +- point = translation; +- array/scalar elementwise", shard=4000),
    Law("getitem", lambda tier: index_case(tier), run_index, idx_nontrivial, lambda c: [index_class(c["index"])] + (["boolean-scalar-alone"] if len(c["index"]) == 1 and isinstance(c["index"][0], dict) and "B" in c["index"][0] and c["unwrap"] else []),
        {"quick": 12000, "thorough": 400000}, "t[index] vs array[index] and the structural index-type model", shard=8000,
        mandatory=("basic", "one-array", "several-arrays", "boolean-scalar-alone")),
    Law("structure", lambda tier: struct_case(tier), run_struct, lambda c: True, lambda c: [c["what"]],
        {"quick": 2000, "thorough": 30000}, "transpose (full/default/cycle), tensor_product, expand_dims, copy", shard=4000),
]
