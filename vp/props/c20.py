"""C20 The numeric kernels agree with exact linear algebra on every code path."""
from __future__ import annotations

import cmath
from fractions import Fraction

import math

import numpy as np
from hypothesis import strategies as st

from geometer import utils as U

from .. import common as C
from .. import exact as X
from ..runner import Checker, Law, Skip, call

RULE = (
    "Matrices n=2..5 built from a pool of <=4 drawn integer / dyadic / Gaussian-integer matrices (entries |c|<=9, planted "
    "rank optional) replicated with integer multipliers over batch shapes (),(1,),(3,),(63,),(64,),(65,),(8,8),(2,40) so both "
    "sides of every size*64 switch are hit; polynomials from planted roots; integer vector pairs for is_multiple. "
    "Non-trivial = batch at/above a threshold, singular/low-rank input or repeated root; distinct by case hash."
)
ASSUMPTIONS = [
    "oracle: exact Fraction / Gaussian-rational determinant, cofactor adjugate, rank and null space (vp/exact.py)",
    "float comparison tolerance 1e-8 relative to the largest exact entry (inputs are small integers / dyadics)",
]
BATCHES = [[], [1], [3], [63], [64], [65], [8, 8], [2, 40]]


from ..zoo import UNITVECS  # noqa: E402


def mat_case(draw, n, m=None, kinds=("int", "dyadic", "complex"), rank=None):
    m = m or n
    kind = draw(st.sampled_from(kinds))
    k = draw(st.integers(1, 4))
    pool = []
    # every matrix of the batch made of rational unit columns (3/5, 4/5), (2/7, 3/7, 6/7), ... that are not orthogonal in general: such a
    # matrix looks like a rotation to a test of the column lengths only; one draw for the whole pool
    allunit = kind == "dyadic" and n == m and rank is None and draw(st.integers(0, 3)) == 0
    for _ in range(k):
        if allunit:
            pool.append({"u": [draw(st.integers(0, len(UNITVECS[n]) - 1)) for _ in range(n)], "pat": "unit-columns"})
            continue
        if rank is not None and rank < min(n, m):
            R = 4
            ent = C.gint(R) if kind == "complex" else C.ints(R)
            b = [[draw(ent) for _ in range(rank)] for _ in range(n)]
            c = [[draw(ent) for _ in range(m)] for _ in range(rank)]
            pool.append({"b": b, "c": c})
        else:
            ent = C.gint(9) if kind == "complex" else C.ints(9)
            a = [[draw(ent) for _ in range(m)] for _ in range(n)]
            # structured matrices: regular, but with vanishing leading blocks / many zeros (pivot-free closed forms, block formulas
            # and eliminations without row exchange fail on them)
            pat = draw(st.sampled_from([None, None, None, "zero-leading-block", "signed-permutation", "zero-diagonal"])) if n == m and rank is None else None
            zero = [0, 0] if kind == "complex" else 0
            if pat == "zero-leading-block" and n >= 3:
                for i in range(2):
                    for j in range(2):
                        a[i][j] = zero
            elif pat == "signed-permutation":
                perm = draw(st.permutations(range(n)))
                a = [[(a[i][j] if (a[i][j] != zero) else ([1, 0] if kind == "complex" else 1)) if j == perm[i] else zero for j in range(n)] for i in range(n)]
            elif pat == "zero-diagonal":
                for i in range(n):
                    a[i][i] = zero
            pool.append({"a": a, "pat": pat} if pat else {"a": a})
    return {"kind": kind, "pool": pool}


def exact_pool(mc):
    cplx = mc["kind"] == "complex"
    conv = (lambda x: X.CQ(x[0], x[1])) if cplx else (lambda x: Fraction(x))
    div = {"dyadic": Fraction(1, 8), "tiny": Fraction(1, 4096)}.get(mc["kind"], Fraction(1))
    out = []
    for p in mc["pool"]:
        if "u" in p:
            n = len(p["u"])
            cols = [[Fraction(x, UNITVECS[n][k % len(UNITVECS[n])][1]) for x in UNITVECS[n][k % len(UNITVECS[n])][0]] for k in p["u"]]
            out.append([[cols[j][i] for j in range(n)] for i in range(n)])
        elif "a" in p:
            out.append([[conv(x) * div for x in r] for r in p["a"]])
        else:
            b = [[conv(x) for x in r] for r in p["b"]]
            c = [[conv(x) for x in r] for r in p["c"]]
            out.append([[sum((b[i][t] * c[t][j] for t in range(len(c))), Fraction(0)) * div for j in range(len(c[0]))] for i in range(len(b))])
    return out


def batch_exact(mc, batch):
    pool = exact_pool(mc)
    npos = C.prod(batch)
    mats = []
    for i in range(npos):
        mul = 1 + (i // len(pool)) % 3
        if (i // len(pool)) % 5 == 4:
            mul = -mul
        mats.append([[x * mul for x in r] for r in pool[i % len(pool)]])
    return mats


def to_np(mats, batch, kind):
    a = np.array([[[X.to_complex(x) for x in r] for r in m] for m in mats])
    if kind == "int":
        a = np.real(a).round().astype(np.int64)
    elif kind in ("dyadic", "tiny"):
        a = np.real(a).astype(np.float64)
    return a.reshape(tuple(batch) + a.shape[1:])


def ex_to_c(mats):
    return np.array([[[X.to_complex(x) for x in r] for r in m] for m in mats])


def exact_adj(m):
    n = len(m)
    adj = [[None] * n for _ in range(n)]
    for i in range(n):
        for j in range(n):
            sub = [[m[r][c] for c in range(n) if c != i] for r in range(n) if r != j]
            adj[i][j] = (-1) ** (i + j) * (X.det(sub) if n > 1 else 1)
    return adj


def sq_strategy(singular_ok=True):
    def strat(tier):
        @st.composite
        def s(draw):
            n = draw(st.integers(2, 5))
            batch = draw(st.sampled_from(BATCHES))
            rank = None
            if singular_ok and draw(st.integers(0, 3)) == 0:
                rank = draw(st.integers(1, n - 1))
            # "tiny": entries k/4096, determinants down to 1e-15 but exactly invertible (only for the laws without singular input)
            mc = mat_case(draw, n, rank=rank, kinds=("int", "dyadic", "complex") if singular_ok else ("int", "dyadic", "complex", "tiny"))
            # round 16: memory layout of the argument (Fortran order, transposed view, strided view of a larger array)
            layout = draw(st.sampled_from(("C", "C", "F", "Tview", "strided")))
            return {"n": n, "batch": batch, "mc": mc, "rank": rank, "layout": layout}

        return s()

    return strat


def lay(A, layout):
    """The same matrices in another memory layout (the values and the shape are unchanged)."""
    if layout == "F":
        return np.asfortranarray(A)
    if layout == "Tview":
        return np.ascontiguousarray(np.swapaxes(A, -1, -2)).swapaxes(-1, -2)
    if layout == "strided":
        big = np.zeros(A.shape[:-1] + (2 * A.shape[-1],), dtype=A.dtype)
        big[..., ::2] = A
        return big[..., ::2]
    return A


def scale_of(ex):
    return max(1.0, float(np.max(np.abs(ex))))


def run_det(case):
    mats = batch_exact(case["mc"], case["batch"])
    A = lay(to_np(mats, case["batch"], case["mc"]["kind"]), case.get("layout", "C"))
    A0 = A.copy()
    ck = Checker()
    d, f = call("det", U.det, A)
    if f:
        return [f]
    ex = np.array([X.to_complex(X.det(m)) for m in mats]).reshape(tuple(case["batch"]))
    ent = max(1.0, float(np.max(np.abs(A))))
    ck.check(np.shape(d) == ex.shape, "det:shape", (np.shape(d), ex.shape))
    if np.shape(d) == ex.shape:
        ck.check(np.all(np.abs(d - ex) <= 1e-9 * ent ** case["n"] * 10), f"det:value:n{case['n']}", C.short((np.ravel(d)[:3], np.ravel(ex)[:3])))
    ck.check(np.array_equal(A, A0), "det:input-mutated")
    return ck.result()


def run_adj(case):
    mats = batch_exact(case["mc"], case["batch"])
    A = lay(to_np(mats, case["batch"], case["mc"]["kind"]), case.get("layout", "C"))
    A0 = A.copy()
    ck = Checker()
    r, f = call("adjugate", U.adjugate, A)
    if f:
        return [f]
    ex = ex_to_c([exact_adj(m) for m in mats]).reshape(A.shape)
    ck.check(r.shape == A.shape, "adjugate:shape", r.shape)
    if r.shape == A.shape:
        ent = max(1.0, float(np.max(np.abs(A))))
        tol = 1e-9 * ent ** (case["n"] - 1) * 10
        ck.check(np.all(np.abs(r - ex) <= tol), f"adjugate:value:n{case['n']}", C.short((r.reshape(-1)[:4], ex.reshape(-1)[:4])))
        dI = np.array([X.to_complex(X.det(m)) for m in mats]).reshape(tuple(case["batch"]))[..., None, None] * np.eye(case["n"])
        ck.check(np.all(np.abs(np.matmul(A.astype(complex), r) - dI) <= tol * ent * 10), "adjugate:A.adj=det.I")
        ck.check(np.all(np.abs(np.matmul(r, A.astype(complex)) - dI) <= tol * ent * 10), "adjugate:adj.A=det.I")
    ck.check(np.array_equal(A, A0), "adjugate:input-mutated")
    return ck.result()


def run_inv(case):
    mats = batch_exact(case["mc"], case["batch"])
    if any(not X.det(m) for m in mats):
        raise Skip("singular")
    A = lay(to_np(mats, case["batch"], case["mc"]["kind"]), case.get("layout", "C"))
    A0 = A.copy()
    ck = Checker()
    r, f = call("inv", U.inv, A)
    if f:
        return [f]
    ck.check(r.shape == A.shape, "inv:shape", r.shape)
    if r.shape == A.shape:
        ex = []
        for m in mats:
            d = X.det(m)
            ex.append([[x / d for x in row] for row in exact_adj(m)])
        ex = ex_to_c(ex).reshape(A.shape)
        ck.check(np.all(np.abs(r - ex) <= 1e-8 * max(1.0, float(np.max(np.abs(ex))))), f"inv:value:n{case['n']}", C.short((r.reshape(-1)[:4], ex.reshape(-1)[:4])))
    ck.check(np.array_equal(A, A0), "inv:input-mutated")
    return ck.result()


def lowrank_strategy(tier):
    @st.composite
    def s(draw):
        n = draw(st.integers(1, 5))
        m = draw(st.integers(2, 5))
        r = draw(st.integers(1, min(n, m)))
        batch = draw(st.sampled_from([[], [], [1], [3], [2, 2], [64]]))
        mc = mat_case(draw, n, m, rank=r)
        return {"n": n, "m": m, "batch": batch, "mc": mc, "given_dim": draw(st.booleans())}

    return s()


def run_nullspace(case):
    mats = batch_exact(case["mc"], case["batch"])
    ranks = {X.rank(m) for m in mats}
    if len(ranks) != 1:
        raise Skip("mixed ranks")
    r = ranks.pop()
    n, m = case["n"], case["m"]
    if r == 0:
        raise Skip("zero")
    A = to_np(mats, case["batch"], case["mc"]["kind"])
    A0 = A.copy()
    ck = Checker()
    tol = 1e-8 * max(1.0, float(np.max(np.abs(A))))
    if m - r > 0:
        N, f = call("null_space", U.null_space, A, (m - r) if case["given_dim"] else None)
        if f:
            ck.add(f)
        else:
            ok = ck.check(N.shape == tuple(case["batch"]) + (m, m - r), "null_space:shape", (N.shape, r))
            if ok:
                ck.check(np.all(np.abs(np.matmul(A, N)) <= tol), "null_space:A.N=0")
                g = np.matmul(np.conj(np.swapaxes(N, -1, -2)), N)
                ck.check(np.all(np.abs(g - np.eye(m - r)) <= 1e-9), "null_space:orthonormal")
    Q, f = call("orth", U.orth, A, r if case["given_dim"] else None)
    if f:
        ck.add(f)
    else:
        ok = ck.check(Q.shape == tuple(case["batch"]) + (n, r), "orth:shape", (Q.shape, r))
        if ok:
            g = np.matmul(np.conj(np.swapaxes(Q, -1, -2)), Q)
            ck.check(np.all(np.abs(g - np.eye(r)) <= 1e-9), "orth:orthonormal")
            # same column space: projector onto Q reproduces A
            P = np.matmul(Q, np.conj(np.swapaxes(Q, -1, -2)))
            ck.check(np.all(np.abs(np.matmul(P, A) - A) <= tol), "orth:range")
    ck.check(np.array_equal(A, A0), "null_space:input-mutated")
    return ck.result()


# ----------------------------------------------------------------------------------------------------- roots
def roots_strategy(tier):
    rat = st.tuples(st.integers(-9, 9), st.sampled_from([1, 1, 2, 3, 4])).map(list)

    @st.composite
    def s(draw):
        deg = draw(st.integers(1, 3))
        pattern = draw(st.sampled_from(["distinct", "double", "triple", "complex"]))
        lead = draw(st.sampled_from([1, 1, -1, 2, -3, 5]))
        lead_zeros = draw(st.sampled_from([0, 0, 0, 1, 2]))
        if deg == 1:
            rs = [draw(rat)]
        elif deg == 2:
            if pattern in ("double", "triple"):
                r = draw(rat)
                rs = [r, r]
            elif pattern == "complex":
                rs = [["c", draw(st.integers(-5, 5)), draw(st.integers(1, 5))]]
            else:
                rs = [draw(rat), draw(rat)]
        else:
            if pattern == "triple":
                r = draw(rat)
                rs = [r, r, r]
            elif pattern == "double":
                r = draw(rat)
                rs = [r, r, draw(rat)]
            elif pattern == "complex":
                rs = [["c", draw(st.integers(-5, 5)), draw(st.integers(1, 5))], draw(rat)]
            else:
                rs = [draw(rat), draw(rat), draw(rat)]
        return {"deg": deg, "roots": rs, "lead": lead, "lead_zeros": min(lead_zeros, 3 - deg), "as_float": draw(st.booleans())}

    return s()


def poly_from_roots(case):
    """exact coefficient list (highest first) and the list of roots as complex numbers"""
    coeffs = [Fraction(case["lead"])]
    zs = []
    for r in case["roots"]:
        if r[0] == "c":
            a, b = Fraction(r[1]), Fraction(r[2])
            fac = [Fraction(1), -2 * a, a * a + b * b]
            zs += [complex(a, b), complex(a, -b)]
        else:
            q = Fraction(r[0], r[1])
            fac = [Fraction(1), -q]
            zs.append(complex(q))
        new = [Fraction(0)] * (len(coeffs) + len(fac) - 1)
        for i, x in enumerate(coeffs):
            for j, y in enumerate(fac):
                new[i + j] += x * y
        coeffs = new
    return coeffs, zs


def run_roots(case):
    coeffs, zs = poly_from_roots(case)
    if len(coeffs) - 1 > 3:
        raise Skip("degree")
    # clear denominators so that integer input is exact
    den = 1
    for c in coeffs:
        den = den * c.denominator // np.gcd(den, c.denominator)
    ic = [int(c * den) for c in coeffs]
    p = [0] * case["lead_zeros"] + ic
    if len(p) > 4:
        raise Skip("too long")
    arr = np.array(p, dtype=float if case["as_float"] else int)
    ck = Checker()
    r, f = call("roots", U.roots, arr)
    if f:
        return [f]
    r = np.atleast_1d(np.asarray(r, dtype=complex))
    site = f"roots:deg{len(ic) - 1}:{'repeated' if len(set(zs)) < len(zs) else 'simple'}"
    ck.check(np.all(np.isfinite(r)), site + ":finite", r)
    rep = len(set(zs)) < len(zs)
    tol = 2e-4 if rep else 1e-7
    for z in set(zs):
        ck.check(np.any(np.abs(r - z) <= tol * max(1.0, abs(z))), site + ":missing-root", (z, r.tolist()))
    for x in r:
        if np.isfinite(x):
            ck.check(any(abs(x - z) <= tol * max(1.0, abs(z)) for z in zs), site + ":spurious-root", (complex(x), zs))
    ck.check(len(r) <= len(zs), site + ":count", (len(r), len(zs)))
    return ck.result()


SCALES = [[1, 10], [1, 100], [1, 1000], [1, 10000], [10, 1], [100, 1], [1000, 1], [1, 1]]


def roots_scaled_strategy(tier):
    rat = st.tuples(st.integers(-9, 9), st.sampled_from([1, 1, 2, 3])).map(list)

    @st.composite
    def s(draw):
        deg = draw(st.sampled_from([2, 3, 3, 3]))
        cplx = draw(st.sampled_from([False, False, True]))
        rs = [["c", draw(st.integers(-5, 5)), draw(st.integers(1, 5))]] + ([draw(rat)] if deg == 3 else []) if cplx else [draw(rat) for _ in range(deg)]
        return {"deg": deg, "roots": rs, "lead": draw(st.sampled_from([1, 1, -1, 2, -3, 5])), "scale": draw(st.sampled_from(SCALES)), "center": draw(st.sampled_from([0, 0, 0, 1, -2]))}

    return s()


def run_roots_scaled(case):
    """the roots of p(x / s) are s times the roots of p: simple, well separated roots (differences at least 1/3 before scaling) multiplied by
    s = 1e-4 ... 1e3 - small roots are small, not "equal up to rounding" - and, for s >= 1e-2, shifted by 1 or -2 (a cluster of roots)"""
    if case["scale"] not in SCALES or case["center"] not in (0, 1, -2):
        raise Skip("malformed")
    sc = Fraction(case["scale"][0], case["scale"][1])
    ctr = Fraction(case["center"]) if sc >= Fraction(1, 100) else Fraction(0)
    zs = []
    for r in case["roots"]:
        zs += [(Fraction(r[1]), Fraction(r[2])), (Fraction(r[1]), -Fraction(r[2]))] if r[0] == "c" else [(Fraction(r[0], r[1]), Fraction(0))]
    if len(zs) != case["deg"] or any(abs(a[0] - b[0]) + abs(a[1] - b[1]) < Fraction(1, 3) for i, a in enumerate(zs) for b in zs[:i]):
        raise Skip("roots not separated")
    # exact coefficients of lead * prod (x - (ctr + sc * z)); conjugate pairs are multiplied out first, so everything stays rational
    coeffs = [Fraction(case["lead"])]
    done = set()
    for i, (a, b) in enumerate(zs):
        if i in done:
            continue
        if b != 0:
            j = zs.index((a, -b))
            done.add(j)
            fac = [Fraction(1), -2 * (ctr + sc * a), (ctr + sc * a) ** 2 + (sc * b) ** 2]
        else:
            fac = [Fraction(1), -(ctr + sc * a)]
        new = [Fraction(0)] * (len(coeffs) + len(fac) - 1)
        for k, x in enumerate(coeffs):
            for m, y in enumerate(fac):
                new[k + m] += x * y
        coeffs = new
    arr = np.array([float(x) for x in coeffs])
    want = [complex(float(ctr + sc * a), float(sc * b)) for a, b in zs]
    r, f = call("roots", U.roots, arr)
    if f:
        return [f]
    r = np.atleast_1d(np.asarray(r, dtype=complex))
    ck = Checker()
    site = f"roots-rescaled:deg{case['deg']}" + (":cluster" if ctr else "")
    tol = (1e-5 if ctr else 1e-9) * float(sc) * 10
    if ck.check(len(r) == len(want) and bool(np.all(np.isfinite(r))), site + ":count", (r.tolist(), want)):
        for z in want:
            ck.check(np.any(np.abs(r - z) <= tol), site + ":missing-root", (z, r.tolist(), float(sc)))
    return ck.result()


def pure_cubic_strategy(tier):
    @st.composite
    def s(draw):
        return {"a": draw(st.sampled_from([1, 1, -1, 2, 3, -5])), "s": draw(st.integers(-4, 4)), "e": draw(st.sampled_from([1, -1, 8, -8, 2, -3, 27, 5, -64]))}

    return s()


def run_pure_cubic(case):
    """a (x + s)^3 + e: the depressed cubic has no linear term, the three roots are the corners of an equilateral triangle around -s (one real cube
    root and a complex pair) - for either sign of e / a"""
    a, sh, e = int(case["a"]), int(case["s"]), int(case["e"])
    if a == 0 or e == 0:
        raise Skip("degenerate")
    coeffs = np.array([a, 3 * a * sh, 3 * a * sh * sh, a * sh**3 + e], dtype=float)
    r0 = np.cbrt(-e / a)
    want = [-sh + r0 * w for w in (1, complex(-0.5, math.sqrt(3) / 2), complex(-0.5, -math.sqrt(3) / 2))]
    r, f = call("roots", U.roots, coeffs)
    if f:
        return [f]
    r = np.atleast_1d(np.asarray(r, dtype=complex))
    ck = Checker()
    site = "roots:pure-cubic:" + ("e/a>0" if e / a > 0 else "e/a<0")
    if ck.check(len(r) == 3 and bool(np.all(np.isfinite(r))), site + ":three-finite-roots", r.tolist()):
        for z in want:
            ck.check(np.any(np.abs(r - z) <= 1e-7 * max(1.0, abs(z))), site + ":missing-root", (z, r.tolist()))
    return ck.result()


# ----------------------------------------------------------------------------------------------------- is_multiple
def ismult_strategy(tier):
    @st.composite
    def s(draw):
        n = draw(st.integers(1, 5))
        cplx = draw(st.sampled_from([False, False, True]))
        ent = C.gint(6) if cplx else C.ints(6)
        rel = draw(st.sampled_from(["multiple", "multiple", "not", "zero-a", "zero-b", "zero-pattern"]))
        a = [draw(ent) for _ in range(n)]
        fac = draw(st.sampled_from([[1, 1], [-1, 1], [3, 2], [-5, 4], [1, 8], [7, 1]]))
        cfac = draw(st.sampled_from([[1, 0], [0, 1], [1, 1], [2, -1]])) if cplx else [1, 0]
        b = [draw(ent) for _ in range(n)]
        axis = draw(st.sampled_from(["none", "int", "tuple1", "neg"]))
        return {"n": n, "cplx": cplx, "rel": rel, "a": a, "b": b, "fac": fac, "cfac": cfac, "axis": axis,
                "batch": draw(st.sampled_from([0, 0, 1, 3]))}

    return s()


def run_ismult(case):
    cplx = case["cplx"]
    a = C.exact_vec(case["a"], cplx)
    rel = case["rel"]
    if rel in ("multiple",):
        f = Fraction(case["fac"][0], case["fac"][1]) * (X.CQ(*case["cfac"]) if cplx else 1)
        b = [x * f for x in a]
    elif rel == "zero-a":
        b = C.exact_vec(case["b"], cplx)
        a = [x * 0 for x in a]
    elif rel == "zero-b":
        b = [x * 0 for x in a]
    elif rel == "zero-pattern":
        # same entries but one coordinate zeroed in b only
        b = list(a)
        k = next((i for i, x in enumerate(b) if x), None)
        if k is None:
            raise Skip("zero")
        b[k] = b[k] * 0
    else:
        b = C.exact_vec(case["b"], cplx)
    za = all(X.is_zero(x) for x in a)
    zb = all(X.is_zero(x) for x in b)
    truth = za or zb or X.rank([a, b]) == 1
    A = C.to_c(a) if cplx else np.array([float(x) for x in a])
    B = C.to_c(b) if cplx else np.array([float(x) for x in b])
    nb = case["batch"]
    if nb:
        A = np.stack([A] * nb)
        B = np.stack([B] * nb)
        axis = {"none": -1, "int": 1, "tuple1": (1,), "neg": -1}[case["axis"]]
    else:
        axis = {"none": None, "int": 0, "tuple1": (0,), "neg": -1}[case["axis"]]
    ck = Checker()
    r1, f = call("is_multiple", U.is_multiple, A, B, axis=axis, rtol=1e-15, atol=1e-8)
    if f:
        return [f]
    r2, f = call("is_multiple", U.is_multiple, B, A, axis=axis, rtol=1e-15, atol=1e-8)
    if f:
        return [f]
    ck.check(np.shape(r1) == ((nb,) if nb else ()), "is_multiple:shape", np.shape(r1))
    ck.check(bool(np.all(r1 == truth)), f"is_multiple:{rel}", (case["a"], C.short(b), truth))
    ck.check(bool(np.all(r2 == truth)), f"is_multiple:symmetric:{rel}", (case["a"], C.short(b), truth))
    return ck.result()


def run_ismult2(case):
    """matrix-valued: axis=(-2,-1) form used by ProjectiveTensor.__eq__"""
    a = [[Fraction(x) for x in r] for r in case["a"]]
    f = Fraction(case["fac"][0], case["fac"][1])
    b = [[x * f for x in r] for r in a] if case["rel"] == "multiple" else [[Fraction(x) for x in r] for r in case["b"]]
    fa = [x for r in a for x in r]
    fb = [x for r in b for x in r]
    truth = (not any(fa)) or (not any(fb)) or X.rank([fa, fb]) == 1
    A = np.array([[float(x) for x in r] for r in a])
    B = np.array([[float(x) for x in r] for r in b])
    nb = case["batch"]
    if nb:
        A = np.stack([A] * nb)
        B = np.stack([B] * nb)
    ck = Checker()
    for ax in ((-2, -1), (-1, -2), [A.ndim - 2, A.ndim - 1]):
        r, fl = call("is_multiple", U.is_multiple, A, B, axis=ax, rtol=1e-15, atol=1e-8)
        if fl:
            return [fl]
        ck.check(np.shape(r) == ((nb,) if nb else ()) and bool(np.all(r == truth)), f"is_multiple:axes2:{case['rel']}", (ax, truth))
    if nb and nb >= 2:
        # the two tensor axes need not be the trailing ones: batch axis in the middle or at the end, and batch elements with
        # different answers (every second matrix of B gets one entry changed)
        Bs, truths = [], []
        for i in range(nb):
            bi = [list(r) for r in b]
            if i % 2:
                bi[0][0] = bi[0][0] + 1
            fbi = [x for r in bi for x in r]
            truths.append((not any(fa)) or (not any(fbi)) or X.rank([fa, fbi]) == 1)
            Bs.append(np.array([[float(x) for x in r] for r in bi]))
        B3 = np.stack(Bs)
        tr = np.array(truths)
        for pos, ax in ((0, (1, 2)), (1, (0, 2)), (2, (0, 1)), (1, (2, 0)), (2, [1, 0])):
            r, fl = call("is_multiple", U.is_multiple, np.moveaxis(A, 0, pos), np.moveaxis(B3, 0, pos), axis=ax, rtol=1e-15, atol=1e-8)
            if fl:
                ck.add(fl)
                continue
            ck.check(np.shape(r) == (nb,) and bool(np.array_equal(np.asarray(r), tr)), f"is_multiple:axes2:batch-axis-{pos}:{case['rel']}", (list(ax), np.asarray(r).tolist(), tr.tolist()))
    return ck.result()


def ismult2_strategy(tier):
    @st.composite
    def s(draw):
        n = draw(st.integers(2, 3))
        mat = st.lists(st.lists(C.ints(5), min_size=n, max_size=n), min_size=n, max_size=n)
        return {"a": draw(mat), "b": draw(mat), "rel": draw(st.sampled_from(["multiple", "not"])),
                "fac": draw(st.sampled_from([[1, 1], [-1, 1], [3, 2], [-5, 4]])), "batch": draw(st.sampled_from([0, 2, 3, 4]))}

    return s()


# ----------------------------------------------------------------------------------------------------- hat_matrix etc.
def hat_strategy(tier):
    @st.composite
    def s(draw):
        k = draw(st.sampled_from([3, 3, 6, 1, 10]))
        batch = draw(st.sampled_from([0, 0, 2]))
        x = [[draw(C.ints(9)) for _ in range(k)] for _ in range(max(1, batch))]
        v = [draw(C.ints(9)) for _ in range(3)]
        im = [[draw(C.ints(4)) for _ in range(k)] for _ in range(max(1, batch))] if draw(st.sampled_from([False, False, True])) else None
        return {"k": k, "batch": batch, "x": x, "v": v, "form": draw(st.sampled_from(["array", "args"])), "im": im}

    return s()


def run_hat(case):
    k = case["k"]
    ck = Checker()
    X_ = np.array(case["x"])
    if case.get("im"):
        # Gaussian-integer entries: the matrix is skew-symmetric (not skew-Hermitian)
        X_ = X_ + 1j * np.array(case["im"])
    if case["batch"] == 0:
        X_ = X_[0]
    if case["form"] == "args" and case["batch"] == 0 and k > 1:  # (a single positional argument is taken as the array of scalars)
        r, f = call("hat_matrix", U.hat_matrix, *[(complex(v) if case.get("im") else int(v)) for v in X_])
    else:
        r, f = call("hat_matrix", U.hat_matrix, X_)
    if f:
        return [f]
    n = {1: 2, 3: 3, 6: 4, 10: 5}[k]
    ck.check(r.shape == X_.shape[:-1] + (n, n), "hat:shape", r.shape)
    if r.shape != X_.shape[:-1] + (n, n):
        return ck.result()
    ck.check(np.array_equal(r, -np.swapaxes(r, -1, -2)), "hat:skew")
    rr = r.reshape((-1, n, n))
    xx = X_.reshape((-1, k))
    for m, x in zip(rr, xx):
        if n == 3:
            a, b, c = x
            ck.check(np.array_equal(m, np.array([[0, c, -b], [-c, 0, a], [b, -a, 0]])), "hat:documented-layout", m.tolist())
            v = np.array(case["v"])
            ck.check(np.array_equal(m @ v, np.cross(v, x)), "hat:cross", (m.tolist(), case["v"]))
        else:
            up = m[np.triu_indices(n, 1)]
            # every input scalar appears exactly once (up to sign) above the diagonal, without conjugation
            key = lambda z: (round(abs(complex(z).real), 9), round(abs(complex(z).imag), 9), round((complex(z) * complex(z)).real, 9), round((complex(z) * complex(z)).imag, 9))  # noqa: E731
            ck.check(sorted(key(z) for z in up) == sorted(key(z) for z in x), f"hat:entries{n}", m.tolist())
    return ck.result()


def mm_strategy(tier):
    @st.composite
    def s(draw):
        n, m, k = draw(st.integers(1, 4)), draw(st.integers(1, 4)), draw(st.integers(1, 4))
        cplx = draw(st.booleans())
        ent = C.gint(5) if cplx else C.ints(5)
        return {"cplx": cplx, "a": [[draw(ent) for _ in range(m)] for _ in range(n)], "b": [[draw(ent) for _ in range(k)] for _ in range(m)],
                "v": [draw(ent) for _ in range(m)], "batch": draw(st.sampled_from([0, 2, 3]))}

    return s()


def run_mm(case):
    cplx = case["cplx"]
    conv = (lambda x: complex(*x)) if cplx else (lambda x: x)
    A = np.array([[conv(x) for x in r] for r in case["a"]])
    B = np.array([[conv(x) for x in r] for r in case["b"]])
    v = np.array([conv(x) for x in case["v"]])
    if case["batch"]:
        A = np.stack([A * (i + 1) for i in range(case["batch"])])
    ck = Checker()
    r, f = call("matmul", U.matmul, A, B)
    ck.add(f)
    if not f:
        ck.check(np.array_equal(r, np.einsum("...ij,jk->...ik", A, B)), "matmul")
    r, f = call("matmul", U.matmul, A, B.T, transpose_b=True)
    ck.add(f)
    if not f:
        ck.check(np.array_equal(r, np.einsum("...ij,jk->...ik", A, B)), "matmul:transpose_b")
    r, f = call("matmul", U.matmul, np.swapaxes(A, -1, -2), B, transpose_a=True)
    ck.add(f)
    if not f:
        ck.check(np.array_equal(r, np.einsum("...ij,jk->...ik", A, B)), "matmul:transpose_a")
    r, f = call("matmul", U.matmul, np.conj(np.swapaxes(A, -1, -2)), np.conj(B.T), adjoint_a=True, adjoint_b=True)
    ck.add(f)
    if not f:
        ck.check(np.array_equal(r, np.einsum("...ij,jk->...ik", A, B)), "matmul:adjoint")
    r, f = call("matvec", U.matvec, A, v)
    ck.add(f)
    if not f:
        ck.check(np.array_equal(r, np.einsum("...ij,j->...i", A, v)), "matvec")
    r, f = call("matvec", U.matvec, np.swapaxes(A, -1, -2), v, transpose_a=True)
    ck.add(f)
    if not f:
        ck.check(np.array_equal(r, np.einsum("...ij,j->...i", A, v)), "matvec:transpose_a")
    r, f = call("outer", U.outer, v, B[0])
    ck.add(f)
    if not f:
        ck.check(np.array_equal(r, np.einsum("i,j->ij", v, B[0])), "outer")
    r, f = call("outer", U.outer, A, A)
    ck.add(f)
    if not f:
        ck.check(np.array_equal(r, np.einsum("...i,...j->...ij", A, A)), "outer:batched")
    return ck.result()


def sq_nontrivial(c):
    return c["rank"] is not None or C.prod(c["batch"]) >= 63


def sq_labels(c):
    out = [f"n{c['n']}", c["mc"]["kind"], "batch>=64" if C.prod(c["batch"]) >= 64 else "batch<64"]
    if c.get("layout", "C") != "C":
        out.append("layout:" + c["layout"])
        if C.prod(c["batch"]) >= 64 or c["n"] == 5:
            out.append("layout:" + c["layout"] + (":batch>=64" if C.prod(c["batch"]) >= 64 else "") + (":n5" if c["n"] == 5 else ""))
    if c["rank"] is not None:
        out.append("singular")
    if any(p.get("pat") == "unit-columns" for p in c["mc"]["pool"]):
        out.append("unit-columns" + (":all-positions" if C.prod(c["batch"]) <= len(c["mc"]["pool"]) else ""))
    if any(p.get("pat") for p in c["mc"]["pool"]):
        out.append("structured-zeros" + (":batch>=64" if C.prod(c["batch"]) >= 64 else ""))
    return out


LAWS = [
    Law("det", sq_strategy(True), run_det, sq_nontrivial, sq_labels, {"quick": 600, "thorough": 8000},
        "det vs exact determinant, both sides of the 64-matrix switch", mandatory=("batch>=64", "batch<64", "singular", "complex", "structured-zeros:batch>=64")),
    Law("adjugate", sq_strategy(True), run_adj, sq_nontrivial, sq_labels, {"quick": 250, "thorough": 4000},
        "adjugate vs exact cofactor matrix; A adj(A) = adj(A) A = det(A) I; arguments in C / Fortran order, as transposed and strided views", mandatory=("batch>=64", "batch<64", "singular", "layout:F", "layout:Tview")),
    Law("inv", sq_strategy(False), run_inv, lambda c: C.prod(c["batch"]) >= 63, sq_labels, {"quick": 400, "thorough": 5000},
        "inv vs exact inverse of invertible matrices; arguments in C / Fortran order, as transposed and strided views", mandatory=("batch>=64", "batch<64", "structured-zeros:batch>=64", "unit-columns:all-positions", "layout:F", "layout:Tview")),
    Law("null_space_orth", lowrank_strategy, run_nullspace, lambda c: True,
        lambda c: [f"{c['n']}x{c['m']}", "dim-given" if c["given_dim"] else "dim-auto", "batched" if c["batch"] else "single"],
        {"quick": 300, "thorough": 5000}, "null_space / orth of planted-rank integer products: shape, A N = 0, orthonormality, same range"),
    Law("roots", roots_strategy, run_roots, lambda c: len(c["roots"]) != len({json_key(r) for r in c["roots"]}) or any(r[0] == "c" for r in c["roots"]),
        lambda c: [f"deg{c['deg']}", "lead-zeros" if c["lead_zeros"] else "plain"] + (["repeated"] if len(c["roots"]) != len({json_key(r) for r in c["roots"]}) else []),
        {"quick": 600, "thorough": 10000}, "roots of polynomials from planted rational/complex roots incl. double/triple", mandatory=("repeated", "deg3")),
    Law("roots_pure_cubic", pure_cubic_strategy, run_pure_cubic, lambda c: True, lambda c: ["e/a>0" if c["e"] / c["a"] > 0 else "e/a<0", "shifted" if c["s"] else "x^3+c"],
        {"quick": 300, "thorough": 3000}, "a (x + s)^3 + e (no linear term after depressing; both signs of e / a): the real cube root and the complex pair", mandatory=("e/a>0", "e/a<0")),
    Law("roots_rescaled", roots_scaled_strategy, run_roots_scaled, lambda c: c["scale"] != [1, 1], lambda c: [f"deg{c['deg']}", "scale=%g" % (c["scale"][0] / c["scale"][1])] + (["cluster"] if c["center"] and c["scale"][0] * 100 >= c["scale"][1] else []),
        {"quick": 1200, "thorough": 20000}, "simple, well separated roots multiplied by s = 1e-4 ... 1e3 (and shifted to a cluster around 1 or -2 for s >= 1e-2): the roots of the rescaled polynomial are the rescaled roots, to 1e-8 s", shard=300,
        mandatory=("scale=0.0001", "scale=0.001", "scale=1000", "cluster")),
    Law("is_multiple", ismult_strategy, run_ismult, lambda c: c["rel"] != "not", lambda c: [c["rel"], c["axis"], "complex" if c["cplx"] else "real"],
        {"quick": 600, "thorough": 10000}, "is_multiple vs exact proportionality, symmetric, zero vector multiple of everything"),
    Law("is_multiple_axes2", ismult2_strategy, run_ismult2, lambda c: True, lambda c: [c["rel"]] + (["non-trailing-axes"] if c["batch"] >= 2 else []), {"quick": 200, "thorough": 3000},
        "is_multiple with two axes (matrix tensors), also non-trailing axis tuples with a batch axis in the middle or at the end", mandatory=("non-trailing-axes",)),
    Law("hat_matrix", hat_strategy, run_hat, lambda c: True, lambda c: [f"k{c['k']}", c["form"]] + (["complex"] if c.get("im") else []), {"quick": 300, "thorough": 3000},
        "hat_matrix documented layout, skew symmetry, hat(x) v = v x x"),
    Law("matmul_matvec_outer", mm_strategy, run_mm, lambda c: True, lambda c: ["complex" if c["cplx"] else "real"], {"quick": 150, "thorough": 2000},
        "matmul/matvec/outer vs explicit einsum incl. transpose/adjoint flags"),
]


def json_key(r):
    return tuple(r)
