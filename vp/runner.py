"""Engine shared by all property modules: drive laws, collect and bucket failures, shrink, write evidence.

Conventions (DESIGN.md section 2):
  * a *law* draws JSON-able cases from a Hypothesis strategy (or enumerates a finite space), runs the code
    under test on the objects built from the case and compares with an independent oracle;
  * failures are collected (the Hypothesis test body never fails) and bucketed by signature;
  * failing cases matched by the committed ledger known_findings.json are reported as KNOWN-FINDING and
    excluded, everything else is reduced to a small case, written to replay/<PID>/ and reported as VIOLATION;
  * an exception that does not pass through a frame of the geometer package is a harness error (exit 2).
"""
from __future__ import annotations

import hashlib
import importlib
import json
import os
import random
import re
import sys
import time
import traceback
import zlib
from collections import Counter
from dataclasses import dataclass, field
from typing import Any, Callable, Optional

VERIF_DIR = os.path.dirname(os.path.dirname(os.path.abspath(__file__)))
REPO_PKG = os.path.realpath(os.path.join(os.environ.get("VERIF_GEOMETER_SRC") or "/repo", "geometer"))
OUT_DIR = os.environ.get("VERIF_OUT_DIR") or VERIF_DIR  # evidence/ and replay/ live here (overridden only by mutation experiments)


# ----------------------------------------------------------------------------------------------- outcomes
class Skip(Exception):
    """The generated case is outside the domain of the law (counted, never a failure)."""


class HarnessError(Exception):
    """Self-check of an oracle failed: the harness, not geometer, is wrong."""


@dataclass
class Fail:
    kind: str  # MISMATCH | NO_RAISE | WRONG_EXC:<T> | EXC:<T>
    site: str  # discriminator: operation name, index class, innermost geometer frame, ...
    detail: str = ""

    def sig(self, law: str) -> str:
        return f"{law}|{self.kind}|{self.site}"


def mismatch(site: str, detail: Any = "") -> Fail:
    return Fail("MISMATCH", site, str(detail)[:600])


class Checker:
    """Collects several independent assertions of one case."""

    def __init__(self) -> None:
        self.fails: list[Fail] = []

    def check(self, cond: Any, site: str, detail: Any = "") -> bool:
        if not bool(cond):
            self.fails.append(mismatch(site, detail))
            return False
        return True

    def add(self, f: Optional[Fail]) -> None:
        if f is not None:
            self.fails.append(f)

    def result(self) -> list[Fail]:
        return self.fails


@dataclass
class Batch:
    """Result of a vectorised / enumerated law step: many evaluations in one run() call."""

    evaluations: int
    nontrivial: int
    fails: list = field(default_factory=list)  # list[(Fail, case)]
    samples: list = field(default_factory=list)
    labels: dict = field(default_factory=dict)


def _geometer_site(tb) -> Optional[str]:
    """Innermost traceback frame that lies in the geometer package, as 'file:function'."""
    site = None
    for fs in traceback.extract_tb(tb):
        fn = os.path.realpath(fs.filename)
        if fn.startswith(REPO_PKG + os.sep):
            site = f"{os.path.relpath(fn, REPO_PKG)}:{fs.name}"
    return site


def exc_fail(exc: BaseException, op: str = "") -> Fail:
    """Convert an exception raised by library code into a Fail; harness exceptions are re-raised."""
    site = _geometer_site(exc.__traceback__)
    if site is None:
        raise exc
    return Fail(f"EXC:{type(exc).__name__}", (op + "@" if op else "") + site, f"{type(exc).__name__}: {exc}"[:400])


# results returned by the last few library calls of the current case, with a private copy of their arrays: a later call must
# not change them (results that share a scratch buffer, a cache entry handed out without a copy, ...). Checked in call().
_RECENT: list = []
_RECENT_MAX = 48
_CUR = {"case": None, "seq": None}  # the case being run; "seq" is set when a result of an EARLIER case was changed by this one


def reset_recent() -> None:
    _RECENT.clear()


def _result_arrays(r, depth=0):
    import numpy as _np

    if isinstance(r, _np.ndarray):
        return [r] if r.size <= 4096 else []
    arr = getattr(r, "array", None)
    if isinstance(arr, _np.ndarray):
        return [arr] if arr.size <= 4096 else []
    if isinstance(r, (list, tuple)) and depth < 2 and len(r) <= 8:
        return [x for e in r for x in _result_arrays(e, depth + 1)]
    return []


def observe(op: str, obj) -> None:
    """put the arrays of obj (a result obtained without call(), e.g. an attribute of a raised exception) under observation"""
    arrays = _result_arrays(obj)
    if arrays:
        _RECENT.append((op, arrays, [x.copy() for x in arrays], _CUR["case"]))
        if len(_RECENT) > _RECENT_MAX:
            _RECENT.pop(0)


def check_observed(op: str) -> Optional[Fail]:
    """the test that call() makes after every library call, for library calls made without call()"""
    import numpy as _np

    for prev_op, arrays, copies, prev_case in ([] if os.environ.get("VERIF_NO_RECENT_GUARD") else _RECENT):
        for x, c in zip(arrays, copies):
            if x.shape != c.shape or x.dtype != c.dtype or not _np.array_equal(x, c, equal_nan=(x.dtype.kind in "fc")):
                _RECENT.clear()
                if prev_case is not _CUR["case"] and prev_case is not None and _CUR["case"] is not None:
                    _CUR["seq"] = {"__sequence__": [prev_case, _CUR["case"]]}
                return Fail("MISMATCH", f"earlier-result-changed-by-later-call:{prev_op.split(':')[0]}->{op.split(':')[0]}", f"result of {prev_op} changed during {op}")
    return None


def call(op: str, f: Callable, *a, **k):
    """Call library code; returns (value, None) or (None, Fail). An earlier result of the same case that changed during this
    call is reported as a failure of this call."""
    import numpy as _np

    try:
        r = f(*a, **k)
    except Skip:
        raise
    except Exception as e:  # noqa: BLE001
        return None, exc_fail(e, op)
    for prev_op, arrays, copies, prev_case in ([] if os.environ.get("VERIF_NO_RECENT_GUARD") else _RECENT):  # switch: sensitivity experiments only
        for x, c in zip(arrays, copies):
            if x.shape != c.shape or x.dtype != c.dtype or not _np.array_equal(x, c, equal_nan=(x.dtype.kind in "fc")):
                _RECENT.clear()
                if prev_case is not _CUR["case"] and prev_case is not None and _CUR["case"] is not None:
                    # the result belongs to an earlier case: the failure is a property of the two cases in this order
                    _CUR["seq"] = {"__sequence__": [prev_case, _CUR["case"]]}
                return None, Fail("MISMATCH", f"earlier-result-changed-by-later-call:{prev_op.split(':')[0]}->{op.split(':')[0]}", f"result of {prev_op} changed during {op}")
    arrays = _result_arrays(r)
    if arrays:
        _RECENT.append((op, arrays, [x.copy() for x in arrays], _CUR["case"]))
        if len(_RECENT) > _RECENT_MAX:
            _RECENT.pop(0)
    return r, None


# ----------------------------------------------------------------------------------------------- laws
@dataclass
class Law:
    name: str
    strategy: Optional[Callable[[str], Any]]  # tier -> hypothesis strategy of JSON-able cases
    run: Callable[[Any], Any]  # case -> None | Fail | list[Fail] | Batch ; may raise Skip
    nontrivial: Callable[[Any], bool] = lambda c: True
    labels: Callable[[Any], list] = lambda c: []
    budget: dict = field(default_factory=lambda: {"quick": 200, "thorough": 4000})
    rule: str = ""
    enumerate: Optional[Callable[[str, int], Any]] = None  # (tier, seed) -> iterable of cases (finite spaces)
    exhaustive: Optional[Callable[[str], Optional[dict]]] = None  # tier -> {"name","size"} if fully enumerated
    drive: Optional[Callable[[str, int, int], dict]] = None  # custom driver (stateful machines)
    shard: int = 1500  # max hypothesis examples per worker process (thorough tier)
    enum_shards: int = 1  # enumerated laws: number of worker processes the case list is dealt to
    mandatory: tuple = ()  # labels that must occur at least once


def case_hash(case: Any) -> int:
    return zlib.crc32(json.dumps(case, sort_keys=True, default=str).encode()) & 0xFFFFFFFF


def _normalise(res: Any, case: Any) -> list:
    if res is None:
        return []
    if isinstance(res, Fail):
        return [res]
    if isinstance(res, list):
        return [r for r in res if r is not None]
    raise HarnessError(f"law returned {type(res)}")


def run_case(law: Law, case: Any) -> tuple[str, list]:
    """-> ('ok'|'skip'|'fail', [Fail...]) for one non-batch case. A case {"__sequence__": [c1, c2]} runs c1 and then c2 in a
    fresh history and reports the outcome of c2 (failures that need an earlier call: a result of c1 changed during c2).
    Results of the preceding generated cases stay under observation (see call()); taken_case() tells which case to store."""
    if isinstance(case, dict) and "__sequence__" in case:
        reset_recent()
        status, fails = "skip", []
        for sub in case["__sequence__"]:
            status, fails = _run_single(law, sub)
        _CUR["seq"] = None
        return status, fails
    return _run_single(law, case)


_SHAPE_MESSAGES = ("cannot reshape array", "not enough values to unpack", "too many values to unpack", "cannot convert Infinity", "cannot convert float NaN",
                   "cannot convert float infinity")


def _unusable_result(e: BaseException) -> Optional[Fail]:
    """A law that fails while it takes a library result apart (reshape to the documented shape, unpack the documented number of
    results, turn a coordinate into a rational number) has met a result of an unexpected shape, arity or a non-finite value: that is
    an observation about the library, not a defect of the harness. Only these message patterns, only frames of the law modules."""
    msg = str(e)
    if not isinstance(e, (ValueError, OverflowError)) or not any(m in msg for m in _SHAPE_MESSAGES):
        return None
    tb = e.__traceback__
    last = None
    while tb is not None:
        last = tb
        tb = tb.tb_next
    fn = last.tb_frame.f_code.co_filename if last is not None else ""
    if os.sep + os.path.join("vp", "props") + os.sep not in fn:
        return None
    return Fail("MISMATCH", f"result-of-unexpected-shape-or-value@{os.path.basename(fn)}:{last.tb_frame.f_code.co_name}", msg[:200])


def _run_single(law: Law, case: Any) -> tuple[str, list]:
    _CUR["case"], _CUR["seq"] = case, None
    try:
        res = law.run(case)
    except Skip:
        return "skip", []
    except HarnessError:
        raise
    except Exception as e:  # noqa: BLE001
        u = _unusable_result(e)
        return "fail", [u if u is not None else exc_fail(e)]
    if isinstance(res, Batch):
        raise HarnessError("Batch result in run_case")
    fails = _normalise(res, case)
    return ("fail" if fails else "ok"), fails


def taken_case(case: Any) -> Any:
    """the case to store with the failures of the run_case call that just returned: the case itself, or the two-case sequence
    when the failure was a result of the previous case changed by this one"""
    seq, _CUR["seq"] = _CUR["seq"], None
    return seq if seq is not None else case


def _new_result(law: Law) -> dict:
    return {
        "law": law.name,
        "evaluations": 0,
        "skipped": 0,
        "nt": set(),
        "nt_extra": 0,
        "labels": Counter(),
        "skipped_labels": Counter(),
        "samples": [],
        "fails": [],  # (sig, case, detail)
        "wall_s": 0.0,
        "exhaustive": None,
        "extra": {},
    }


def _record(res: dict, law: Law, case: Any, status: str, fails: list, fail_case: Any = None) -> None:
    if status == "skip":
        res["skipped"] += 1
        try:
            for lab in law.labels(case):
                res["skipped_labels"][lab] += 1
        except Exception:  # noqa: BLE001  (a malformed case may not be classifiable)
            pass
        return
    res["evaluations"] += 1
    try:
        nt = bool(law.nontrivial(case))
        labs = law.labels(case)
    except Exception as e:  # noqa: BLE001
        raise HarnessError(f"classify failed: {e!r}") from e
    if nt:
        res["nt"].add(case_hash(case))
    for lab in labs:
        res["labels"][lab] += 1
    if len(res["samples"]) < 6 and (nt or res["evaluations"] % 7 == 0):
        res["samples"].append(case)
    for f in fails:
        if len(res["fails"]) < 4000:
            res["fails"].append((f.sig(law.name), case if fail_case is None else fail_case, f.detail))


def drive_law(law: Law, tier: str, seed: int, shard_idx: int, n_examples: int) -> dict:
    """Run one (shard of a) law. Executed in a worker process."""
    t0 = time.time()
    res = _new_result(law)
    lseed0 = (zlib.crc32(law.name.encode()) ^ (seed * 2654435761)) & 0xFFFFFFFF
    lseed = (lseed0 ^ (shard_idx * 40503)) & 0xFFFFFFFF
    if law.drive is not None:
        _CUR["shard"] = shard_idx
        out = law.drive(tier, lseed, n_examples)
        res.update(out)
        res["law"] = law.name
    elif law.enumerate is not None:
        for j, case in enumerate(law.enumerate(tier, lseed0)):
            if j % law.enum_shards != shard_idx % law.enum_shards:
                continue
            _CUR["case"], _CUR["seq"] = case, None
            try:
                r = law.run(case)
            except Skip:
                res["skipped"] += 1
                continue
            except HarnessError:
                raise
            except Exception as e:  # noqa: BLE001
                _record(res, law, case, "fail", [exc_fail(e)], taken_case(case))
                continue
            if isinstance(r, Batch):
                res["evaluations"] += r.evaluations
                res["nt_extra"] += r.nontrivial
                for k, v in r.labels.items():
                    res["labels"][k] += v
                for s in r.samples:
                    if len(res["samples"]) < 6:
                        res["samples"].append(s)
                for f, c in r.fails:
                    if len(res["fails"]) < 4000:
                        res["fails"].append((f.sig(law.name), c, f.detail))
            else:
                fails = _normalise(r, case)
                _record(res, law, case, "fail" if fails else "ok", fails, taken_case(case))
        if law.exhaustive is not None:
            res["exhaustive"] = law.exhaustive(tier)
    else:
        from hypothesis import HealthCheck, Phase, given, settings
        from hypothesis import seed as hseed

        strat = law.strategy(tier)

        @hseed(lseed)
        @settings(
            max_examples=n_examples,
            database=None,
            deadline=None,
            derandomize=False,
            phases=[Phase.generate],
            report_multiple_bugs=False,
            suppress_health_check=[HealthCheck.too_slow, HealthCheck.data_too_large, HealthCheck.large_base_example],
        )
        @given(strat)
        def body(case):
            status, fails = run_case(law, case)
            _record(res, law, case, status, fails, taken_case(case))

        body()
    res["wall_s"] = time.time() - t0
    res["nt"] = sorted(res["nt"])
    res["labels"] = dict(res["labels"])
    res["skipped_labels"] = dict(res.get("skipped_labels", {}))
    return res


def _worker(args):
    mod_name, law_name, tier, seed, shard_idx, n = args
    try:
        mod = importlib.import_module(mod_name)
        law = next(l for l in mod.LAWS if l.name == law_name)
        return ("ok", drive_law(law, tier, seed, shard_idx, n))
    except BaseException as e:  # noqa: BLE001
        return ("error", f"{law_name}: {type(e).__name__}: {e}\n{traceback.format_exc()}")


# ----------------------------------------------------------------------------------------------- ledger
def load_ledger() -> dict:
    path = os.path.join(VERIF_DIR, "known_findings.json")
    if not os.path.exists(path):
        return {"findings": [], "fixed": []}
    with open(path) as fh:
        return json.load(fh)


def match_known(ledger: dict, pid: str, mod, sig: str, case: Any) -> Optional[dict]:
    law = sig.split("|", 1)[0]
    preds = getattr(mod, "PREDICATES", {})
    for ent in ledger.get("findings", []):
        if ent.get("property") != pid:
            continue
        if not re.fullmatch(ent.get("law", ".*"), law):
            continue
        if not re.search(ent.get("signature", ".*"), sig):
            continue
        pname = ent.get("predicate")
        if pname:
            p = preds.get(pname)
            if p is None:
                raise HarnessError(f"unknown predicate {pname}")
            try:
                if not p(case):
                    continue
            except Exception:  # noqa: BLE001
                continue
        return ent
    return None


# ----------------------------------------------------------------------------------------------- reduction
def _variants(x: Any):
    """Smaller variants of a JSON value (greedy structural reduction; validity is checked by re-running)."""
    if isinstance(x, bool):
        return
    if isinstance(x, int):
        for v in (0, 1, -1, x // 2, -x if x < 0 else None):
            if v is not None and v != x and abs(v) <= abs(x):
                yield v
    elif isinstance(x, float):
        for v in (0.0, 1.0, float(int(x))):
            if v != x:
                yield v
    elif isinstance(x, list):
        if len(x) > 0:
            for i in range(len(x)):
                yield x[:i] + x[i + 1 :]
        for i in range(len(x)):
            for v in _variants(x[i]):
                yield x[:i] + [v] + x[i + 1 :]
    elif isinstance(x, dict):
        for k in x:
            for v in _variants(x[k]):
                y = dict(x)
                y[k] = v
                yield y


def reduce_case(law: Law, case: Any, sig: str, budget_s: float = 20.0, is_known=None) -> Any:
    t0 = time.time()
    size = lambda c: len(json.dumps(c, default=str))  # noqa: E731

    def still_fails(c) -> bool:
        try:
            status, fails = run_case(law, c)
        except Exception:  # noqa: BLE001
            return False
        if status != "fail":
            return False
        if not any(f.sig(law.name) == sig for f in fails):
            return False
        if is_known is not None and is_known(sig, c):
            return False
        return True

    cur = case
    improved = True
    while improved and time.time() - t0 < budget_s:
        improved = False
        for cand in _variants(cur):
            if time.time() - t0 > budget_s:
                break
            if size(cand) > size(cur):
                continue
            if cand == cur:
                continue
            if still_fails(cand):
                if size(cand) < size(cur) or json.dumps(cand, sort_keys=True) < json.dumps(cur, sort_keys=True):
                    cur = cand
                    improved = True
                    break
    return cur


# ----------------------------------------------------------------------------------------------- main
def _jsonable(x):
    try:
        json.dumps(x)
        return x
    except TypeError:
        return json.loads(json.dumps(x, default=str))


def main(argv=None) -> int:
    import argparse

    ap = argparse.ArgumentParser()
    ap.add_argument("pid")
    ap.add_argument("--tier", default=os.environ.get("VERIF_TIER", "quick"), choices=["quick", "thorough"])
    ap.add_argument("--replay")
    ap.add_argument("--law", help="only run laws whose name matches this regex (debugging; evidence not written)")
    ap.add_argument("--jobs", type=int, default=int(os.environ.get("VERIF_JOBS", "16")))
    ap.add_argument("--scale", type=float, default=float(os.environ.get("VERIF_SCALE", "1")))
    args = ap.parse_args(argv)
    pid = args.pid.upper()
    seed = int(os.environ.get("VERIF_SEED", "1") or 1)
    mod_name = f"vp.props.{pid.lower()}"
    sys.path.insert(0, VERIF_DIR)
    try:
        mod = importlib.import_module(mod_name)
    except Exception:  # noqa: BLE001
        traceback.print_exc()
        print(f"HARNESS-ERROR property={pid} cannot import {mod_name}")
        return 2
    ledger = load_ledger()
    laws = {l.name: l for l in mod.LAWS}

    if args.replay:
        return replay(pid, mod, laws, ledger, args.replay)

    t0 = time.time()
    tasks = []
    for law in mod.LAWS:
        if args.law and not re.search(args.law, law.name):
            continue
        n = max(1, int(law.budget.get(args.tier, law.budget["quick"]) * args.scale))
        if law.enumerate is not None:
            for k in range(law.enum_shards):
                tasks.append((mod_name, law.name, args.tier, seed, k, n))
        else:
            k = 0
            while n > 0:
                m = min(n, law.shard)
                tasks.append((mod_name, law.name, args.tier, seed, k, m))
                n -= m
                k += 1
    results = []
    errors = []
    if args.jobs <= 1 or len(tasks) == 1:
        outs = [_worker(t) for t in tasks]
    else:
        import multiprocessing as mp

        ctx = mp.get_context("fork")
        # longest laws first
        with ctx.Pool(min(args.jobs, len(tasks))) as pool:
            outs = pool.map(_worker, tasks, chunksize=1)
    for st, r in outs:
        if st == "ok":
            results.append(r)
        else:
            errors.append(r)
    # mandatory classes are a vacuity guard, not a lottery: a generated law that did not produce one of its mandatory classes
    # within its budget gets up to four further rounds (new shard indices, i.e. new seeds) before the run is declared vacuous
    if not errors:
        for law in mod.LAWS:
            if not law.mandatory or law.enumerate is not None or (args.law and not re.search(args.law, law.name)):
                continue
            for extra in range(4):
                have = Counter()
                for r in results:
                    if r["law"] == law.name:
                        have.update(r["labels"])
                if all(have.get(lab, 0) > 0 for lab in law.mandatory):
                    break
                m = min(law.shard, max(1, int(law.budget.get(args.tier, law.budget["quick"]) * args.scale)))
                st, r = _worker((mod_name, law.name, args.tier, seed, 100000 + extra, m))
                if st == "ok":
                    r.setdefault("extra", {})
                    results.append(r)
                else:
                    errors.append(r)
                    break
    if errors:
        for e in errors:
            print(e)
        print(f"HARNESS-ERROR property={pid} ({len(errors)} law(s) crashed outside geometer)")
        return 2

    # merge shards per law
    per_law: dict[str, dict] = {}
    for r in results:
        d = per_law.setdefault(
            r["law"],
            {
                "evaluations": 0,
                "skipped": 0,
                "nt": set(),
                "nt_extra": 0,
                "labels": Counter(),
                "skipped_labels": Counter(),
                "samples": [],
                "fails": [],
                "wall_s": 0.0,
                "exhaustive": None,
                "extra": {},
            },
        )
        d["evaluations"] += r["evaluations"]
        d["skipped"] += r["skipped"]
        d["nt"].update(r["nt"])
        d["nt_extra"] += r.get("nt_extra", 0)
        d["labels"].update(r["labels"])
        d["skipped_labels"].update(r.get("skipped_labels", {}))
        d["samples"] = (d["samples"] + r["samples"])[:6]
        d["fails"].extend(r["fails"])
        d["wall_s"] += r["wall_s"]
        d["exhaustive"] = d["exhaustive"] or r.get("exhaustive")
        if d["exhaustive"] and not d["exhaustive"].get("size"):
            d["exhaustive"] = dict(d["exhaustive"], size_measured=True)
        for k, v in r.get("extra", {}).items():
            if isinstance(v, (int, float)) and isinstance(d["extra"].get(k, 0), (int, float)):
                d["extra"][k] = d["extra"].get(k, 0) + v
            elif isinstance(v, dict):
                c = Counter(d["extra"].get(k, {}))
                c.update(v)
                d["extra"][k] = dict(c)
            else:
                d["extra"][k] = v

    # triage failures
    known_hits: Counter = Counter()
    known_ent: dict[str, dict] = {}
    new_buckets: dict[str, list] = {}
    for lname, d in per_law.items():
        for sig, case, detail in d["fails"]:
            ent = match_known(ledger, pid, mod, sig, case)
            if ent is not None:
                known_hits[ent["id"]] += 1
                known_ent[ent["id"]] = ent
            else:
                new_buckets.setdefault(sig, []).append((case, detail))

    def is_known(sig, c):
        return match_known(ledger, pid, mod, sig, c) is not None

    violations = []
    rdir = os.path.join(OUT_DIR, "replay", pid)
    for sig in sorted(new_buckets):
        items = new_buckets[sig]
        lname = sig.split("|", 1)[0]
        law = laws[lname]
        case, detail = min(items, key=lambda cd: len(json.dumps(cd[0], default=str)))
        small = case
        if law.enumerate is None and law.drive is None and len(violations) < 8:
            try:
                small = reduce_case(law, case, sig, 15.0 if args.tier == "quick" else 60.0, is_known)
            except Exception:  # noqa: BLE001
                small = case
        os.makedirs(rdir, exist_ok=True)
        h = hashlib.sha1((sig + json.dumps(small, sort_keys=True, default=str)).encode()).hexdigest()[:10]
        path = os.path.join(rdir, f"{re.sub(r'[^A-Za-z0-9_.-]', '_', lname)}-{h}.json")
        with open(path, "w") as fh:
            json.dump(
                {"property": pid, "law": lname, "signature": sig, "case": _jsonable(small), "detail": detail,
                 "occurrences": len(items), "seed": seed, "tier": args.tier},
                fh, indent=1, default=str,
            )
        violations.append((sig, path, len(items), detail))

    wall = time.time() - t0
    evaluations = sum(d["evaluations"] for d in per_law.values())
    distinct_nt = sum(len(d["nt"]) + d["nt_extra"] for d in per_law.values())
    samples = []
    for lname, d in per_law.items():
        for s in d["samples"][:2]:
            samples.append({"law": lname, "case": _jsonable(s)})
    samples = samples[:40]
    rules = getattr(mod, "RULE", "")
    exhaustive_subspaces = []
    for d in per_law.values():
        if d["exhaustive"]:
            ex = dict(d["exhaustive"])
            if ex.pop("size_measured", False):
                ex["size"] = d["evaluations"]
            exhaustive_subspaces.append(ex)
    missing = []
    for law in mod.LAWS:
        d = per_law.get(law.name)
        if d is None:
            continue
        for lab in law.mandatory:
            if d["labels"].get(lab, 0) == 0:
                missing.append(f"{law.name}:{lab}")
    ev = {
        "property_id": pid,
        "tier": args.tier,
        "seed": seed,
        "level": "exploration",
        "coverage": {
            "evaluations": evaluations,
            "distinct_nontrivial": distinct_nt,
            "rule": rules,
            "samples": samples,
            "skipped": sum(d["skipped"] for d in per_law.values()),
            "laws": {
                lname: {
                    "evaluations": d["evaluations"],
                    "skipped": d["skipped"],
                    "distinct_nontrivial": len(d["nt"]) + d["nt_extra"],
                    "classes": dict(d["labels"]),
                    # classes whose generated cases are mostly discarded (> 80 %): evaluated / discarded
                    "mostly_discarded_classes": {k: [int(d["labels"].get(k, 0)), int(v)] for k, v in d["skipped_labels"].items() if v >= 5 and v > 4 * d["labels"].get(k, 0)},
                    "rule": laws[lname].rule,
                    "wall_s": round(d["wall_s"], 2),
                    **({"extra": d["extra"]} if d["extra"] else {}),
                }
                for lname, d in per_law.items()
            },
            "exhaustive_subspaces": exhaustive_subspaces,
            "known_findings_excluded": {k: {"cases": v, "what": known_ent[k]["what"]} for k, v in known_hits.items()},
            "new_failure_buckets": [{"signature": s, "replay": p, "cases": n, "detail": dt} for s, p, n, dt in violations],
            "mandatory_classes_missing": missing,
        },
        "assumptions": getattr(mod, "ASSUMPTIONS", []),
        "wall_s": round(wall, 2),
        "violations": len(violations),
    }
    if not args.law:
        os.makedirs(os.path.join(OUT_DIR, "evidence"), exist_ok=True)
        with open(os.path.join(OUT_DIR, "evidence", f"{pid}.json"), "w") as fh:
            json.dump(ev, fh, indent=1, default=str)

    for k in sorted(known_hits):
        print(f"KNOWN-FINDING: property={pid} {known_ent[k]['id']} {known_ent[k]['what']} ({known_hits[k]} cases)")
    print(
        f"{pid} tier={args.tier} seed={seed}: {evaluations} evaluations, {distinct_nt} distinct non-trivial, "
        f"{ev['coverage']['skipped']} skipped, {len(per_law)} laws, {wall:.1f}s"
    )
    if missing:
        print(f"WARNING mandatory classes with zero members: {missing}")
    empty = [l for l, d in per_law.items() if d["evaluations"] == 0]
    if violations:
        for sig, path, n, detail in violations:
            print(f"  bucket {sig} ({n} cases): {detail[:200]}")
            print(f"VIOLATION property={pid} replay={path}")
        return 1
    if empty or missing:
        print(f"HARNESS-ERROR property={pid} laws without any evaluation: {empty}; missing classes: {missing}")
        return 2
    return 0


def replay(pid, mod, laws, ledger, path) -> int:
    with open(path) as fh:
        rec = json.load(fh)
    law = laws.get(rec["law"])
    if law is None:
        print(f"HARNESS-ERROR unknown law {rec['law']}")
        return 2
    case = rec["case"]
    if law.drive is not None:
        replay_fn = getattr(mod, "REPLAY", {}).get(law.name)
        if replay_fn is None:
            print("HARNESS-ERROR law has no replay function")
            return 2
        fails = replay_fn(case)
    elif isinstance(case, dict) and "__sequence__" in case:
        reset_recent()
        status, fails = run_case(law, case)
        if status == "skip":
            print(f"{pid} replay: case outside domain (skip)")
            return 0
    else:
        reset_recent()
        _CUR["case"], _CUR["seq"] = case, None
        try:
            r = law.run(case)
        except Skip:
            print(f"{pid} replay: case outside domain (skip)")
            return 0
        except Exception as e:  # noqa: BLE001
            r = [exc_fail(e)]
        if isinstance(r, Batch):
            fails = [f for f, c in r.fails]
        else:
            fails = _normalise(r, case)
    bad = False
    for f in fails:
        sig = f.sig(law.name)
        ent = match_known(ledger, pid, mod, sig, case)
        if ent is not None:
            print(f"KNOWN-FINDING: property={pid} {ent['id']} {ent['what']}")
        else:
            print(f"  {sig}: {f.detail[:300]}")
            bad = True
    if bad:
        print(f"VIOLATION property={pid} replay={os.path.abspath(path)}")
        return 1
    print(f"{pid} replay: no violation")
    return 0


if __name__ == "__main__":
    sys.exit(main())
